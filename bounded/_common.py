"""Shared machinery of the bounded run-time contract harnesses (DESIGN.md 2.8).

A harness module defines
  AREA      short name, MODULES  list of extension modules to rebuild into the overlay,
  KINDS     {name: function(**json-able args) -> (expected, got)}   -- one *case kind* = one way of evaluating a
            contract on a concrete input against the real code (the return values must be ==-comparable and
            json-able after `jsonable`); a case fails iff expected != got or the function raises,
  tasks(tier, seed) -> [(task name, function name, kwargs)]          -- independent chunks, run in a process pool;
            each task function receives (rec, rnd, tier, **kwargs) and calls rec.case(contract id, kind, **args).
The parent (`run`) builds the overlay from the CURRENT tree (vf.cbuild), starts `python -m bounded.<x> --child` with
PYTHONPATH = overlay:/verif, and returns the README_UNITS dict.  `--replay '<json>'` re-runs one stored case.
"""
import hashlib
import importlib
import json
import multiprocessing as mp
import os
import random
import subprocess
import sys
import tempfile
import time
import traceback

VERIF = os.path.dirname(os.path.dirname(os.path.abspath(__file__)))
MAX_FAILS = 4          # witnesses kept per (contract, witness class)
MAX_SAMPLES = 3


def seed_from_env():
    try:
        return int(os.environ.get('VERIF_SEED', '0') or 0)
    except ValueError:
        return 0


def jsonable(o):
    if isinstance(o, (bytes, bytearray, memoryview)):
        return {'hex': bytes(o).hex()}
    if isinstance(o, dict):
        return {str(k): jsonable(v) for k, v in o.items()}
    if isinstance(o, (list, tuple)):
        return [jsonable(x) for x in o]
    if isinstance(o, bool) or o is None or isinstance(o, (str, float)):
        return o
    if isinstance(o, int):
        return o if abs(o) < 2 ** 53 else {'int': str(o)}
    return {'repr': repr(o)}


def unjson(o):
    if isinstance(o, dict):
        if set(o) == {'hex'}:
            return bytes.fromhex(o['hex'])
        if set(o) == {'int'}:
            return int(o['int'])
        return {k: unjson(v) for k, v in o.items()}
    if isinstance(o, list):
        return [unjson(x) for x in o]
    return o


def short(o, n=160):
    s = json.dumps(jsonable(o), default=str)
    return s if len(s) <= n else s[:n] + '...'


class Rec:
    """per-task recorder"""

    def __init__(self, module, kinds):
        self.module = module
        self.kinds = kinds
        self.c = {}

    def declare(self, cid, clause, bound, target=None):
        if cid not in self.c:
            self.c[cid] = {'clause': clause, 'bound': bound, 'target': target, 'n': 0, 'keys': set(), 'samples': [], 'fails': {},
                           'nfail': 0, 'seconds': 0.0}
        return cid

    def case(self, cid, kind, wclass=None, **args):
        """evaluate one case; returns True when the contract held"""
        c = self.c[cid]
        t0 = time.perf_counter()
        try:
            exp, got = self.kinds[kind](**args)
            err = None
        except Exception as ex:      # noqa
            exp, got, err = 'no exception in the harness', 'EXCEPTION %s: %s' % (type(ex).__name__, ex), traceback.format_exc()[-1500:]
        c['seconds'] += time.perf_counter() - t0
        c['n'] += 1
        try:
            c['keys'].add(hash((kind, tuple(sorted((k, _hk(v)) for k, v in args.items())))))
        except TypeError:
            c['keys'].add(c['n'])
        if exp == got:
            if len(c['samples']) < MAX_SAMPLES:
                c['samples'].append({'kind': kind, 'args': short(args), 'result': short(got, 80)})
            return True
        c['nfail'] += 1
        if wclass is None:
            w = ''
            if isinstance(got, str) and got.startswith('EXCEPTION '):
                t, _, msg = got[10:].partition(': ')
                w = 'exc:%s:%s' % (t, msg[:60])
            elif isinstance(got, str) and got.startswith('raises '):
                t, _, msg = got[7:].partition(': ')
                w = 'raises:%s%s' % (t, (':' + msg[:60]) if msg else '')
        else:
            w = wclass if isinstance(wclass, str) else wclass(args, exp, got)
        lst = c['fails'].setdefault(w or '', [])
        if len(lst) < MAX_FAILS:
            lst.append({'kind': kind, 'args': jsonable(args), 'expected': jsonable(exp), 'got': jsonable(got), 'trace': err})
        return False

    def dump(self):
        out = {}
        for cid, c in self.c.items():
            d = dict(c)
            d['distinct'] = len(c['keys'])
            del d['keys']
            out[cid] = d
        return out


def _hk(v):
    if isinstance(v, (bytearray, memoryview)):
        return bytes(v)
    if isinstance(v, (list, tuple)):
        return tuple(_hk(x) for x in v)
    if isinstance(v, dict):
        return tuple(sorted((k, _hk(x)) for k, x in v.items()))
    return v


def merge(dumps):
    tot = {}
    for d in dumps:
        for cid, c in d.items():
            t = tot.setdefault(cid, {'clause': c['clause'], 'bound': c['bound'], 'target': c.get('target'), 'n': 0, 'distinct': 0,
                                     'samples': [], 'fails': {}, 'nfail': 0, 'seconds': 0.0})
            t['n'] += c['n']
            t['distinct'] += c['distinct']
            t['nfail'] += c['nfail']
            t['seconds'] += c['seconds']
            t['samples'] = (t['samples'] + c['samples'])[:MAX_SAMPLES]
            for w, lst in c['fails'].items():
                t['fails'][w] = (t['fails'].get(w, []) + lst)[:MAX_FAILS]
    return tot


def _run_task(a):
    modname, tname, fname, kwargs, tier, seed = a
    mod = importlib.import_module(modname)
    rec = Rec(modname, mod.KINDS)
    rnd = random.Random('%d:%s:%s' % (seed, modname, tname))
    t0 = time.time()
    try:
        getattr(mod, fname)(rec, rnd, tier, **kwargs)
        err = None
    except Exception as ex:     # noqa
        err = '%s: %s\n%s' % (type(ex).__name__, ex, traceback.format_exc()[-2500:])
    return tname, rec.dump(), err, time.time() - t0


def child_main(modname, tier, seed, out, only=None, jobs=16):
    mod = importlib.import_module(modname)
    tasks = mod.tasks(tier, seed)
    if only:
        tasks = [t for t in tasks if any(o in t[0] for o in only)]
    args = [(modname, t[0], t[1], t[2], tier, seed) for t in tasks]
    t0 = time.time()
    res = []
    if jobs <= 1 or len(args) <= 1:
        res = [_run_task(a) for a in args]
    else:
        with mp.get_context('fork').Pool(min(jobs, len(args))) as pool:
            for r in pool.imap_unordered(_run_task, args, chunksize=1):
                res.append(r)
    res.sort(key=lambda r: r[0])
    import Crypto
    info = {'crypto_file': Crypto.__file__, 'tasks': [{'task': r[0], 'seconds': round(r[3], 2), 'error': r[2]} for r in res],
            'wall': time.time() - t0, 'notes': getattr(mod, 'notes', lambda: [])()}
    with open(out, 'w') as f:
        json.dump({'contracts': merge([r[1] for r in res]), 'info': info}, f)
    return 0


def assemble(mod, data, tier, seed, build_info, wall):
    """README_UNITS dict from the child's merged contracts"""
    area = mod.AREA
    modname = mod.__name__
    results, bounded, functions, assumptions = [], [], [], []
    for cid in sorted(data['contracts']):
        c = data['contracts'][cid]
        rid = 'bounded.%s.%s' % (area, cid)
        base = {'id': rid, 'kind': 'bounded', 'clause': c['clause'], 'backend': 'cpython', 'seconds': round(c['seconds'], 3)}
        if c['n'] == 0:
            results.append(dict(base, status='error', detail='vacuous: contract evaluated on zero inputs', witness=None, replayed=False))
            continue
        if not c['fails']:
            results.append(dict(base, status='bounded_ok', detail='%d evaluations, %d distinct inputs, all held; bound: %s' % (c['n'], c['distinct'], c['bound']),
                                witness=None, replayed=False, replay=None))
        for w, lst in sorted(c['fails'].items()):
            f0 = lst[0]
            case = {'kind': f0['kind'], 'args': f0['args']}
            det = '%d of %d evaluations failed (all classes); first failing case of class %r: expected %s got %s' % (
                c['nfail'], c['n'], w, short(f0['expected'], 300), short(f0['got'], 300))
            if f0.get('trace'):
                det += '\n' + f0['trace']
            if len(lst) > 1:
                det += '\nfurther failing cases: ' + '; '.join(short(x['args'], 200) for x in lst[1:])
            results.append(dict(base, status='bounded_fail', detail=det, witness_class=w or None,
                                witness={'case': case, 'expected': f0['expected'], 'got': f0['got'], 'more': [x['args'] for x in lst[1:]]},
                                replayed=True,
                                replay={'harness': modname, 'case': case, 'modules': mod.MODULES,
                                        'cmd': "python3-vt -m %s --replay '%s'" % (modname, json.dumps(case))}))
        bounded.append({'name': rid, 'bound': c['bound'], 'evaluations': c['n'], 'distinct': c['distinct'], 'samples': c['samples']})
        if c.get('target'):
            functions.append({'target': c['target'], 'engine': 'BOUNDED', 'status': 'bounded', 'obligations': 1, 'seconds': round(c['seconds'], 2),
                              'bound': c['bound']})
            assumptions.append('assumed contract: %s -- %s (bounded only: %s)' % (c['target'], c['clause'], c['bound']))
    for t in data['info']['tasks']:
        if t['error']:
            results.append({'id': 'bounded.%s.task.%s' % (area, t['task']), 'kind': 'engine', 'clause': 'harness task ran to completion', 'status': 'error',
                            'backend': 'cpython', 'seconds': t['seconds'], 'detail': t['error'], 'witness': None, 'replayed': False})
    trusted = ['gcc %s overlay build of /repo/src (vf.cbuild, options from compiler_opt.py) behaves like the production build' % ' '.join(build_info.get('cflags', [])),
               'reference implementations in /verif/spec/ref_*.py and hashlib/hmac/libcrypto (OpenSSL) follow the standards (each ref_* module carries a self-test against published vectors)']
    return {'functions': functions, 'results': results, 'bounded': bounded, 'assumptions': sorted(set(assumptions)), 'trusted': trusted,
            'harness': {'module': modname, 'tier': tier, 'seed': seed, 'wall_s': round(wall, 2), 'child_wall_s': round(data['info']['wall'], 2),
                        'build_s': build_info.get('overlay_seconds'), 'modules_rebuilt': build_info.get('modules'),
                        'src_dir': build_info.get('src_dir'), 'crypto_file': data['info']['crypto_file'], 'notes': data['info'].get('notes'),
                        'tasks': data['info']['tasks']}}


def run(modname, tier='quick', seed=None, src_dir=None, only=None, jobs=None, timeout=None):
    """parent side: overlay build + child process; returns the README_UNITS dict"""
    from vf import cbuild
    mod = importlib.import_module(modname)
    seed = seed_from_env() if seed is None else seed
    tier = tier if tier in ('quick', 'thorough') else 'quick'
    jobs = jobs or int(os.environ.get('VERIF_JOBS', '16') or 16)
    t0 = time.time()
    try:
        return _run_in_overlay(cbuild, mod, modname, tier, seed, src_dir, only, jobs, timeout, t0)
    except cbuild.BuildError as ex:
        return {'functions': [], 'bounded': [], 'assumptions': [], 'trusted': [], 'results': [
            {'id': 'bounded.%s.build' % mod.AREA, 'kind': 'engine', 'clause': 'the C sources of the current tree compile (overlay build)', 'status': 'error', 'backend': 'gcc',
             'seconds': time.time() - t0, 'detail': str(ex)[-4000:], 'witness': None, 'replayed': False}]}


def _run_in_overlay(cbuild, mod, modname, tier, seed, src_dir, only, jobs, timeout, t0):
    with cbuild.overlay(mod.MODULES, src_dir=src_dir) as ov:
        out = os.path.join(os.path.dirname(str(ov)), 'result.json')
        cmd = [sys.executable, '-m', modname, '--child', '--tier', tier, '--seed', str(seed), '--out', out, '--jobs', str(jobs)]
        for o in only or []:
            cmd += ['--only', o]
        p = subprocess.run(cmd, env=ov.env({'VERIF_SEED': str(seed), 'VERIF_TIER': tier}), cwd=tempfile.gettempdir(),
                           stdout=subprocess.PIPE, stderr=subprocess.PIPE, text=True,
                           timeout=timeout or (900 if tier == 'thorough' else 400))
        if p.returncode != 0 or not os.path.exists(out):
            return {'functions': [], 'bounded': [], 'assumptions': [], 'trusted': [], 'results': [
                {'id': 'bounded.%s.child' % mod.AREA, 'kind': 'engine', 'clause': 'bounded harness child process ran', 'status': 'error', 'backend': 'cpython',
                 'seconds': time.time() - t0, 'detail': 'exit %s\n%s\n%s' % (p.returncode, p.stdout[-1500:], p.stderr[-3000:]), 'witness': None, 'replayed': False}]}
        data = json.load(open(out))
        info = ov.info
    r = assemble(mod, data, tier, seed, info, time.time() - t0)
    ovroot = os.path.realpath(str(ov))
    if not os.path.realpath(data['info']['crypto_file']).startswith(ovroot):
        r['results'].append({'id': 'bounded.%s.overlay' % mod.AREA, 'kind': 'engine', 'clause': 'the child imported Crypto from the overlay', 'status': 'error',
                             'backend': 'cpython', 'seconds': 0, 'detail': 'Crypto imported from %s' % data['info']['crypto_file'], 'witness': None, 'replayed': False})
    return r


def replay(modname, case, src_dir=None):
    """re-run one stored case on the current tree (fresh overlay); returns (held, expected, got)"""
    from vf import cbuild
    mod = importlib.import_module(modname)
    with cbuild.overlay(mod.MODULES, src_dir=src_dir) as ov:
        p = subprocess.run([sys.executable, '-m', modname, '--replay-child', json.dumps(case)], env=ov.env(), cwd=tempfile.gettempdir(),
                           stdout=subprocess.PIPE, stderr=subprocess.PIPE, text=True, timeout=600)
    if p.returncode not in (0, 1):
        raise RuntimeError(p.stderr[-2000:])
    d = json.loads(p.stdout.strip().splitlines()[-1])
    return d['held'], d['expected'], d['got']


def replay_child(modname, case):
    mod = importlib.import_module(modname)
    args = unjson(case['args'])
    try:
        exp, got = mod.KINDS[case['kind']](**args)
    except Exception as ex:     # noqa
        exp, got = 'no exception in the harness', 'EXCEPTION %s: %s' % (type(ex).__name__, ex)
    print(json.dumps({'held': exp == got, 'expected': jsonable(exp), 'got': jsonable(got)}))
    return 0 if exp == got else 1


def summary(r, verbose=False, file=sys.stdout):
    h = r.get('harness', {})
    ok = [x for x in r['results'] if x['status'] == 'bounded_ok']
    bad = [x for x in r['results'] if x['status'] == 'bounded_fail']
    err = [x for x in r['results'] if x['status'] == 'error']
    ev = sum(b['evaluations'] for b in r['bounded'])
    di = sum(b['distinct'] for b in r['bounded'])
    print('%s tier=%s seed=%s: %d contracts bounded_ok, %d bounded_fail results, %d errors; %d evaluations (%d distinct); build %.1fs, wall %.1fs; src=%s'
          % (h.get('module'), h.get('tier'), h.get('seed'), len(ok), len(bad), len(err), ev, di, h.get('build_s') or 0, h.get('wall_s') or 0, h.get('src_dir')), file=file)
    for n in h.get('notes') or []:
        print('  note: %s' % n, file=file)
    if verbose:
        for b in r['bounded']:
            print('  %-70s %8d evals  %s' % (b['name'], b['evaluations'], b['bound'][:110]), file=file)
    for x in bad:
        print('  BOUNDED_FAIL %s [%s]\n     clause: %s\n     %s\n     replay: %s' % (x['id'], x.get('witness_class'), x['clause'], x['detail'][:900].replace('\n', '\n     '),
                                                                                     x['replay']['cmd'][:600]), file=file)
    for x in err:
        print('  ERROR %s: %s' % (x['id'], x['detail'][-1500:]), file=file)


def main(modname, argv=None):
    import argparse
    ap = argparse.ArgumentParser(prog=modname)
    ap.add_argument('--tier', default=os.environ.get('VERIF_TIER', 'quick'))
    ap.add_argument('--seed', type=int)
    ap.add_argument('--src-dir')
    ap.add_argument('--only', action='append')
    ap.add_argument('--jobs', type=int, default=16)
    ap.add_argument('--json', action='store_true')
    ap.add_argument('-v', '--verbose', action='store_true')
    ap.add_argument('--child', action='store_true')
    ap.add_argument('--out')
    ap.add_argument('--replay')
    ap.add_argument('--replay-child')
    a = ap.parse_args(argv)
    seed = seed_from_env() if a.seed is None else a.seed
    if a.child:
        return child_main(modname, a.tier, seed, a.out, a.only, a.jobs)
    if a.replay_child:
        return replay_child(modname, json.loads(a.replay_child))
    if a.replay:
        held, exp, got = replay(modname, json.loads(a.replay), a.src_dir)
        print('contract %s on this tree; expected %s got %s' % ('HELD' if held else 'FAILED', short(exp, 400), short(got, 400)))
        return 0 if held else 1
    r = run(modname, a.tier, seed, a.src_dir, a.only, a.jobs)
    if a.json:
        json.dump(r, sys.stdout, indent=1, default=str)
        print()
    else:
        summary(r, a.verbose)
    if any(x['status'] == 'error' for x in r['results']):
        return 3
    return 1 if any(x['status'] == 'bounded_fail' for x in r['results']) else 0
