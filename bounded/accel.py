"""Area 6 -- interchangeable native implementations (C16 'bounded'): AES-NI vs portable AES, CLMUL vs portable GHASH.

Both variants are held to the same run-time contract against the same spec function (spec.ref_aes, spec.ref_mac.ghash)
and their results are compared with each other: every key size, data lengths 0..9 blocks+1 (incl. < 1 block and the
8-block boundary), input and output buffers at every 16-byte misalignment 0..15 (addresses are measured, not assumed),
all modes with use_aesni=True/False, GCM with use_clmul=True/False."""
import ctypes
import hashlib
import sys

from . import _common

AREA = 'accel'
MODULES = None      # rebuild every extension module of setup.py (about 3 s): nothing stale can be reached indirectly


def notes():
    from Crypto.Util import _cpu_features as c
    from Crypto.Cipher import AES, _mode_gcm
    return ['cpu: AES-NI %s, CLMUL %s; _raw_aesni loaded: %s; _ghash_clmul loaded: %s' % (c.have_aes_ni(), c.have_clmul(), AES._raw_aesni_lib is not None, _mode_gcm._ghash_clmul is not None)]


def det(tag, n):
    return hashlib.shake_128(repr(tag).encode()).digest(n) if n else b''


def at_alignment(data, a, writable=True):
    """memoryview over a copy of `data` whose first byte lies at address == a (mod 16)"""
    ba = bytearray(len(data) + 48)
    addr = ctypes.addressof(ctypes.c_char.from_buffer(ba))
    off = (a - addr) % 16
    ba[off:off + len(data)] = data
    mv = memoryview(ba)[off:off + len(data)]
    assert len(data) == 0 or (ctypes.addressof(ctypes.c_char.from_buffer(mv)) % 16) == a % 16
    return mv if writable else mv.toreadonly()


def have(which):
    from Crypto.Cipher import AES, _mode_gcm
    return (AES._raw_aesni_lib is not None) if which == 'aesni' else (_mode_gcm._ghash_clmul is not None)


def k_aes_ecb(klen, n, dec, aesni, in_al, out_al, seed=0):
    """AES ECB through the chosen native implementation, buffers at the given misalignments, vs spec.ref_aes"""
    from Crypto.Cipher import AES
    from spec import ref_aes
    key, data = det(('k', klen, seed), klen), det(('d', n, seed), n)
    if n % 16:
        exp = 'raises ValueError'
    else:
        r = ref_aes.AES(key)
        f = r.decrypt_block if dec else r.encrypt_block
        exp = b''.join(f(data[i:i + 16]) for i in range(0, n, 16))
    c = AES.new(at_alignment(key, in_al), AES.MODE_ECB, use_aesni=aesni)
    x = at_alignment(data, in_al, writable=False)
    try:
        if out_al is None:
            got = (c.decrypt if dec else c.encrypt)(x)
        else:
            o = at_alignment(bytes(n), out_al)
            (c.decrypt if dec else c.encrypt)(x, output=o)
            got = bytes(o)
    except ValueError:
        got = 'raises ValueError'
    return exp, got


def _mk(mode, key, aesni, extra):
    from Crypto.Cipher import AES
    kw = dict(extra)
    kw['use_aesni'] = aesni
    return AES.new(key, getattr(AES, 'MODE_' + mode), **kw)


MODE_PARAMS = {
    'ECB': {}, 'CBC': {'iv': det('iv', 16)}, 'CFB8': {'iv': det('iv', 16), 'segment_size': 8}, 'CFB128': {'iv': det('iv', 16), 'segment_size': 128},
    'OFB': {'iv': det('iv', 16)}, 'CTR': {'nonce': det('n', 8), 'initial_value': 2 ** 64 - 4}, 'OPENPGP': {'iv': det('iv', 16)},
    'GCM': {'nonce': det('n', 12)}, 'GCM-n5': {'nonce': det('n', 5)}, 'CCM': {'nonce': det('n', 11)}, 'EAX': {'nonce': det('n', 16)}, 'OCB': {'nonce': det('n', 15)},
    'SIV': {'nonce': det('n', 16)},
}
AEADS = ('GCM', 'GCM-n5', 'CCM', 'EAX', 'OCB', 'SIV')


def _run_mode(mode, klen, n, aesni, al, seed):
    base = mode.split('-')[0].rstrip('0123456789') if mode.startswith('CFB') else mode.split('-')[0]
    key = det(('k', klen, seed), klen * (2 if base == 'SIV' else 1))
    data = det(('d', n, seed), n)
    aad = det(('a', seed), 21)
    x = at_alignment(data, al, writable=False)
    c = _mk(base, key, aesni, MODE_PARAMS[mode])
    if mode in AEADS:
        c.update(aad)
        ct, tag = c.encrypt_and_digest(x)
        d = _mk(base, key, aesni, MODE_PARAMS[mode])
        d.update(aad)
        pt = d.decrypt_and_verify(at_alignment(ct, (al + 5) % 16, writable=False), tag)
        return [ct, tag, pt == data]
    ct = c.encrypt(x)
    if base == 'OPENPGP':
        d = _mk(base, key, aesni, {'iv': ct[:18]})
        pt = d.decrypt(at_alignment(ct[18:], (al + 5) % 16, writable=False))
    else:
        d = _mk(base, key, aesni, MODE_PARAMS[mode])
        pt = d.decrypt(at_alignment(ct, (al + 5) % 16, writable=False))
    return [ct, None, pt == data]


def k_aes_mode_agree(mode, klen, n, al, seed=0):
    """every AES mode gives identical ciphertext/tag with use_aesni=True and use_aesni=False and decrypts back"""
    try:
        a = _run_mode(mode, klen, n, False, al, seed)
    except ValueError as ex:
        a = 'raises ValueError'
    try:
        b = _run_mode(mode, klen, n, True, al, seed)
    except ValueError as ex:
        b = 'raises ValueError'
    if isinstance(a, list) and a[2] is not True:
        return 'portable AES decrypts its own ciphertext', 'it does not'
    return a, b


def k_ghash(impl, nblocks, al, split, seed=0, hkind='random'):
    """_GHASH(H, impl).update(data).digest() == GHASH_H(data) of SP 800-38D (spec.ref_mac.ghash); data fed in one or two updates from misaligned buffers"""
    from Crypto.Cipher import _mode_gcm
    from spec import ref_mac
    h = {'random': det(('h', seed), 16), 'zero': bytes(16), 'ones': b'\xff' * 16, 'one': bytes(15) + b'\x01', 'msb': b'\x80' + bytes(15)}[hkind]
    data = det(('g', nblocks, seed), 16 * nblocks)
    if seed == -1:
        data = b'\xff' * (16 * nblocks)
    exp = ref_mac.ghash(h, data)
    lib = _mode_gcm._ghash_portable if impl == 'portable' else _mode_gcm._ghash_clmul
    g = _mode_gcm._GHASH(at_alignment(h, al, writable=False), lib)
    cut = 16 * min(split, nblocks)
    if split:
        g.update(at_alignment(data[:cut], al, writable=False))
        g.update(at_alignment(data[cut:], (al + 3) % 16, writable=False))
    else:
        g.update(at_alignment(data, al, writable=False))
    return exp, g.digest()


def k_gcm_clmul_agree(klen, nonce_len, alen, n, mac_len, al, seed=0):
    """GCM with use_clmul=True == use_clmul=False == SP 800-38D reference over the library's AES primitive"""
    from Crypto.Cipher import AES
    from spec import ref_modes
    key, nonce, aad, data = det(('k', klen, seed), klen), det(('n', nonce_len, seed), nonce_len), det(('a', alen, seed), alen), det(('d', n, seed), n)
    e = AES.new(key, AES.MODE_ECB)
    exp = list(ref_modes.gcm_encrypt(ref_modes.BC(16, e.encrypt), nonce, aad, data, mac_len))
    out = []
    for clmul in (False, True):
        c = AES.new(key, AES.MODE_GCM, nonce=nonce, mac_len=mac_len, use_clmul=clmul)
        if alen:
            c.update(at_alignment(aad, al, writable=False))
        ct, tag = c.encrypt_and_digest(at_alignment(data, (al + 7) % 16, writable=False))
        out.append([ct, tag])
    return [exp, exp], out


KINDS = {'aes_ecb': k_aes_ecb, 'aes_mode_agree': k_aes_mode_agree, 'ghash': k_ghash, 'gcm_clmul_agree': k_gcm_clmul_agree}


def t_aes_ecb(rec, rnd, tier, klen):
    variants = [False] + ([True] if have('aesni') else [])
    nrep = 1 if tier == 'quick' else 8
    for aesni in variants:
        name = 'AESNI' if aesni else 'AES_portable'
        for dec in (False, True):
            c = rec.declare('%s-%d.ecb_%s_eq_spec' % (name, 8 * klen, 'decrypt' if dec else 'encrypt'),
                            '%s %s of n bytes == FIPS-197 reference block by block; a length that is not a multiple of 16 raises ValueError' % (name, 'decrypt' if dec else 'encrypt'),
                            'key size %d; lengths 0..9 blocks and {1,15,17,31,129,145}; input (and key) buffer at every misalignment 0..15 x output returned or written at misalignment 0..15 (sampled 4 per input alignment; thorough: all 16x16); %d data sets' % (klen, nrep),
                            'src/AESNI.c' if aesni else 'src/AES.c')
            for seed in range(nrep):
                for n in [16 * b for b in range(0, 10)] + [1, 15, 17, 31, 129, 145]:
                    for ia in range(16):
                        outs = [None] + (list(range(16)) if tier != 'quick' else rnd.sample(range(16), 3))
                        for oa in outs:
                            rec.case(c, 'aes_ecb', klen=klen, n=n, dec=dec, aesni=aesni, in_al=ia, out_al=oa, seed=seed)


def t_aes_modes(rec, rnd, tier, mode):
    if not have('aesni'):
        return
    c = rec.declare('AES.%s.aesni_eq_portable' % mode, 'AES-%s: use_aesni=True and use_aesni=False give identical ciphertext and tag for the same input; decryption returns the plaintext' % mode,
                    'key sizes 16/24/32; every data length 0..145 (9 blocks + 1); input buffers at misalignments 0..15 (cycling with the length; thorough: all)', 'src/AESNI.c vs src/AES.c through ' + mode)
    for klen in (16, 24, 32):
        for n in range(0, 146):
            als = range(16) if tier != 'quick' else [n % 16, (n * 7 + 3) % 16]
            for al in als:
                rec.case(c, 'aes_mode_agree', mode=mode, klen=klen, n=n, al=al, seed=klen)


def t_ghash(rec, rnd, tier):
    impls = ['portable'] + (['clmul'] if have('clmul') else [])
    for impl in impls:
        c = rec.declare('GHASH_%s.eq_spec' % impl, 'ghash_%s: Y == GHASH_H(X) of SP 800-38D (GF(2^128) definition), for continued updates too' % impl,
                        'H random x %d, and H in {0, 1, 2^127 (x^0), all-ones}; 0..9 and 15,16,17,32,33,64,255,256 blocks; data all-0xff; buffers at misalignments 0..15; one update or two updates split after 1, 7, 8 blocks' % (4 if tier == 'quick' else 40),
                        'src/ghash_%s.c' % impl)
        for nb in list(range(0, 10)) + [15, 16, 17, 32, 33, 64, 255, 256]:
            for al in range(16):
                for seed in range(4 if tier == 'quick' else 40):
                    rec.case(c, 'ghash', impl=impl, nblocks=nb, al=al, split=[0, 1, 7, 8][(seed + al) % 4], seed=seed)
                for hk in ('zero', 'ones', 'one', 'msb'):
                    rec.case(c, 'ghash', impl=impl, nblocks=nb, al=al, split=0, seed=-1 if al % 2 else 0, hkind=hk)
    if have('clmul'):
        c = rec.declare('AES.GCM.clmul_eq_portable_eq_spec', 'GCM with use_clmul=True == use_clmul=False == SP 800-38D reference (ciphertext and tag)',
                        'key sizes 16/24/32; nonce lengths {1,8,12,13,16,17,32}; AAD lengths {0,1,15,16,17,33}; every message length 0..145; mac_len cycling 4..16; buffers at misalignments 0..15',
                        'src/ghash_clmul.c vs src/ghash_portable.c through lib/Crypto/Cipher/_mode_gcm.py')
        i = 0
        for klen in (16, 24, 32):
            for nl in (1, 8, 12, 13, 16, 17, 32):
                for n in range(0, 146):
                    i += 1
                    if tier == 'quick' and nl not in (12, 13) and n % 3:
                        continue
                    rec.case(c, 'gcm_clmul_agree', klen=klen, nonce_len=nl, alen=[0, 1, 15, 16, 17, 33][i % 6], n=n, mac_len=4 + i % 13, al=i % 16, seed=klen)


def tasks(tier, seed):
    out = [('aes_ecb.%d' % k, 't_aes_ecb', dict(klen=k)) for k in (16, 24, 32)]
    out += [('aes_mode.%s' % m, 't_aes_modes', dict(mode=m)) for m in MODE_PARAMS]
    out.append(('ghash', 't_ghash', {}))
    return out


def run(tier='quick', seed=None, src_dir=None, only=None):
    return _common.run('bounded.accel', tier, seed, src_dir, only)


if __name__ == '__main__':
    sys.exit(_common.main('bounded.accel'))
