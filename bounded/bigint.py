"""Area 5 -- big integers (C14/C16 'assumed + bounded').

For each back end (IntegerNative, IntegerCustom, IntegerGMP -- the classes are instantiated directly) every operation of
the Integer interface is evaluated on boundary limb patterns and compared with (a) a model over Python ints written from
the documented contract (value, or the documented exception where no result exists) and (b) the two other back ends:
SAME value, SAME Python result type, SAME exception type.  Disagreements are reported with the exact call.
Raw Montgomery routines of src/modexp.c + src/mont.c (monty_pow, monty_multiply) are driven through the library's own
ctypes/cffi handle and compared with pow() / (a*b) % m, on moduli of 1..9 limbs +-1 byte, limb-boundary patterns, and the
NIST primes for which mont.c has special reductions."""
import math
import sys

from . import _common

AREA = 'bigint'
MODULES = None      # rebuild every extension module of setup.py (about 3 s): nothing stale can be reached indirectly

BACKENDS = ['Native', 'Custom', 'GMP']


def notes():
    out = []
    for b in BACKENDS:
        try:
            _cls(b)
        except Exception as ex:      # noqa
            out.append('back end %s not available: %s' % (b, ex))
    return out


def _cls(b):
    if b == 'Native':
        from Crypto.Math._IntegerNative import IntegerNative as C
    elif b == 'Custom':
        from Crypto.Math._IntegerCustom import IntegerCustom as C
    else:
        from Crypto.Math._IntegerGMP import IntegerGMP as C
    return C


def available():
    out = []
    for b in BACKENDS:
        try:
            _cls(b)
            out.append(b)
        except Exception:      # noqa
            pass
    return out


# ---------------------------------------------------------------- the operations (applied to back-end objects)

def _ip(name):
    def f(C, a, b):
        import operator
        return getattr(operator, name)(a, b)
    return f


OPS = {
    'add': lambda C, a, b: a + b, 'sub': lambda C, a, b: a - b, 'mul': lambda C, a, b: a * b,
    'floordiv': lambda C, a, b: a // b, 'mod': lambda C, a, b: a % b,
    'and': lambda C, a, b: a & b, 'or': lambda C, a, b: a | b,
    'eq': lambda C, a, b: a == b, 'ne': lambda C, a, b: a != b, 'lt': lambda C, a, b: a < b, 'le': lambda C, a, b: a <= b,
    'gt': lambda C, a, b: a > b, 'ge': lambda C, a, b: a >= b,
    'iadd': _ip('iadd'), 'isub': _ip('isub'), 'imul': _ip('imul'), 'imod': _ip('imod'),
    'rshift': lambda C, a, b: a >> b, 'lshift': lambda C, a, b: a << b, 'irshift': _ip('irshift'), 'ilshift': _ip('ilshift'),
    'pow2': lambda C, a, e: pow(a, e), 'pow3': lambda C, a, e, m: pow(a, e, m),
    'inplace_pow2': lambda C, a, e: a.inplace_pow(e), 'inplace_pow3': lambda C, a, e, m: a.inplace_pow(e, m),
    'abs': lambda C, a: abs(a), 'int': lambda C, a: int(a), 'str': lambda C, a: str(a), 'repr': lambda C, a: repr(a), 'bool': lambda C, a: bool(a),
    'index': lambda C, a: a.__index__(),
    'is_negative': lambda C, a: a.is_negative(), 'is_odd': lambda C, a: a.is_odd(), 'is_even': lambda C, a: a.is_even(),
    'size_in_bits': lambda C, a: a.size_in_bits(), 'size_in_bytes': lambda C, a: a.size_in_bytes(),
    'is_perfect_square': lambda C, a: a.is_perfect_square(), 'sqrt': lambda C, a: a.sqrt(), 'sqrt_mod': lambda C, a, m: a.sqrt(m),
    'get_bit': lambda C, a, n: a.get_bit(n), 'fail_if_divisible_by': lambda C, a, p: a.fail_if_divisible_by(p),
    'multiply_accumulate': lambda C, a, b, c: a.multiply_accumulate(b, c), 'set': lambda C, a, b: a.set(b),
    'inverse': lambda C, a, m: a.inverse(m), 'inplace_inverse': lambda C, a, m: a.inplace_inverse(m),
    'gcd': lambda C, a, b: a.gcd(b), 'lcm': lambda C, a, b: a.lcm(b),
    'jacobi_symbol': lambda C, a, n: C.jacobi_symbol(a, n),
    'mult_modulo_bytes': lambda C, a, b, m: C._mult_modulo_bytes(a, b, m),
    'to_bytes': lambda C, a, bs, order: a.to_bytes(bs, order), 'to_bytes0': lambda C, a: a.to_bytes(),
    'from_bytes': lambda C, b, order: C.from_bytes(b, order),
    'eq_none': lambda C, a: a == None,      # noqa
}
INPLACE = {'iadd', 'isub', 'imul', 'imod', 'irshift', 'ilshift', 'inplace_pow2', 'inplace_pow3', 'multiply_accumulate', 'inplace_inverse', 'set'}
STATIC = {'jacobi_symbol', 'mult_modulo_bytes', 'from_bytes'}      # first argument is not wrapped as `self`


def _jacobi(a, n):
    """independent binary Jacobi algorithm (Cohen 1.4.12 style)"""
    a %= n
    t = 1
    while a:
        while a % 2 == 0:
            a //= 2
            if n % 8 in (3, 5):
                t = -t
        a, n = n, a
        if a % 4 == 3 and n % 4 == 3:
            t = -t
        a %= n
    return t if n == 1 else 0


RAISES = lambda x: ['raises', x]      # noqa
UNDEF = None


def model(op, args):
    """['value', v] | ['raises', ExcName] | None (no documented result: only cross-back-end agreement is checked).
    For in-place operations v is the new value of self."""
    a = args[0]
    b = args[1] if len(args) > 1 else None
    c = args[2] if len(args) > 2 else None
    V = lambda v: ['value', v]      # noqa
    if op in ('add', 'iadd'):
        return V(a + b)
    if op in ('sub', 'isub'):
        return V(a - b)
    if op in ('mul', 'imul'):
        return V(a * b)
    if op == 'floordiv':
        return RAISES('ZeroDivisionError') if b == 0 else V(a // b)
    if op in ('mod', 'imod'):
        return RAISES('ZeroDivisionError') if b == 0 else RAISES('ValueError') if b < 0 else V(a % b)
    if op == 'and':
        return V(a & b)
    if op == 'or':
        return V(a | b)
    if op in ('eq', 'ne', 'lt', 'le', 'gt', 'ge'):
        return V({'eq': a == b, 'ne': a != b, 'lt': a < b, 'le': a <= b, 'gt': a > b, 'ge': a >= b}[op])
    if op in ('rshift', 'irshift'):
        return UNDEF if b < 0 else V(a >> b if b < 10 ** 6 else (0 if a >= 0 else -1))
    if op in ('lshift', 'ilshift'):
        return UNDEF if b < 0 or b > 10 ** 6 else V(a << b)
    if op in ('pow2', 'inplace_pow2'):
        return RAISES('ValueError') if b < 0 else V(a ** b)
    if op in ('pow3', 'inplace_pow3'):
        if b < 0 or c < 0:
            return RAISES('ValueError')
        return RAISES('ZeroDivisionError') if c == 0 else V(pow(a, b, c))
    if op == 'abs':
        return V(abs(a))
    if op in ('int', 'index'):
        return V(a)
    if op == 'str':
        return V(str(a))
    if op == 'repr':
        return V('Integer(%d)' % a)
    if op == 'bool':
        return V(a != 0)
    if op == 'eq_none':
        return V(False)
    if op == 'is_negative':
        return V(a < 0)
    if op == 'is_odd':
        return V(a % 2 == 1)
    if op == 'is_even':
        return V(a % 2 == 0)
    if op == 'size_in_bits':
        return RAISES('ValueError') if a < 0 else V(max(1, a.bit_length()))
    if op == 'size_in_bytes':
        return RAISES('ValueError') if a < 0 else V(max(1, (a.bit_length() + 7) // 8))
    if op == 'is_perfect_square':
        return V(a >= 0 and math.isqrt(a) ** 2 == a)
    if op == 'sqrt':
        return RAISES('ValueError') if a < 0 else V(math.isqrt(a))
    if op == 'sqrt_mod':
        if b <= 0:
            return RAISES('ValueError')
        from spec import ref_ec
        if not ref_ec.is_probable_prime(b):
            return UNDEF
        if b == 2:
            return ['sqrtmod', a % b, b]
        return RAISES('ValueError') if (a % b and pow(a, (b - 1) // 2, b) != 1) else ['sqrtmod', a % b, b]
    if op == 'get_bit':
        if a < 0 or b < 0:
            return RAISES('ValueError')
        return V((a >> b) & 1 if b < 10 ** 6 else 0)
    if op == 'fail_if_divisible_by':
        return UNDEF if b <= 0 else RAISES('ValueError') if a % b == 0 else V(None)
    if op == 'multiply_accumulate':
        return V(a + b * c)
    if op == 'set':
        return V(b)
    if op in ('inverse', 'inplace_inverse'):
        if b <= 0:
            return UNDEF
        if b == 1:
            return UNDEF
        return RAISES('ValueError') if math.gcd(a, b) != 1 else V(pow(a, -1, b))
    if op == 'gcd':
        return V(math.gcd(a, b))
    if op == 'lcm':
        return V(0 if a == 0 or b == 0 else abs(a * b) // math.gcd(a, b))
    if op == 'jacobi_symbol':
        return RAISES('ValueError') if (b <= 0 or b % 2 == 0) else V(_jacobi(a, b))
    if op == 'mult_modulo_bytes':
        if c < 0:
            return RAISES('ValueError')
        if c == 0:
            return RAISES('ZeroDivisionError')
        if c % 2 == 0:
            return RAISES('ValueError')
        if a < 0 or b < 0:
            return UNDEF
        return V((a * b % c).to_bytes((c.bit_length() + 7) // 8, 'big'))
    if op in ('to_bytes', 'to_bytes0'):
        bs, order = (b, c) if op == 'to_bytes' else (0, 'big')
        if a < 0 or order not in ('big', 'little'):
            return RAISES('ValueError')
        if bs < 0:
            return UNDEF
        raw = a.to_bytes(max(1, (a.bit_length() + 7) // 8), 'big')
        if bs > 0:
            if len(raw) > bs:
                return RAISES('ValueError')
            raw = bytes(bs - len(raw)) + raw
        return V(raw if order == 'big' else raw[::-1])
    if op == 'from_bytes':
        if b not in ('big', 'little'):
            return RAISES('ValueError')
        return V(int.from_bytes(a, b))
    raise KeyError(op)


def outcome(backend, op, args, wrap):
    """run the call on the back end; normalised, json-able outcome"""
    from Crypto.Math._IntegerBase import IntegerBase
    C = _cls(backend)
    ops = []
    for i, x in enumerate(args):
        w = wrap[i] if i < len(wrap) else False
        if i == 0 and op not in STATIC:
            w = True
        ops.append(C(x) if (w and isinstance(x, int) and not isinstance(x, bool)) else x)
    try:
        r = OPS[op](C, *ops)
    except Exception as ex:      # noqa
        return ['raises', type(ex).__name__]
    if isinstance(r, IntegerBase):
        tc, v = 'Integer', int(r)
    elif r is NotImplemented:
        tc, v = 'NotImplemented', None
    else:
        tc, v = type(r).__name__, r
    out = ['value', v, tc]
    if op not in STATIC:
        selfafter = int(ops[0])
        out += [selfafter, r is ops[0]]
        for i in range(1, len(ops)):            # operands must not be modified
            if isinstance(ops[i], IntegerBase) and int(ops[i]) != args[i]:
                out.append('operand %d modified' % i)
    return out


def _holds(m, o, op, a0):
    """does outcome o satisfy model m"""
    if m[0] == 'raises':
        return o[0] == 'raises' and o[1] == m[1]
    if o[0] != 'value':
        return False
    if len(o) > 5:
        return False
    if m[0] == 'sqrtmod':
        r = o[1]
        return isinstance(r, int) and 0 <= r < m[2] and r * r % m[2] == m[1]
    if op in INPLACE:
        if op == 'set':
            return o[3] == m[1]
        return o[3] == m[1] and o[4] is True            # self carries the result and is returned
    if op not in STATIC and o[3] != a0:
        return False                                     # self modified by a non-in-place operation
    v = o[1]
    if isinstance(m[1], bool) or isinstance(m[1], int):
        return (isinstance(v, (bool, int))) and int(v) == int(m[1]) and (not isinstance(m[1], bool) or bool(v) == m[1])
    return v == m[1]


def k_value(backend, op, args, wrap):
    """per back end: the call yields the model's value / the documented exception"""
    m = model(op, args)
    o = outcome(backend, op, args, wrap)
    ok = _holds(m, o, op, args[0])
    return (m, True), (m if ok else o, ok)


def k_agree(op, args, wrap):
    """all available back ends give the same outcome (value, Python type of the result, exception type, effect on self)"""
    bs = available()
    outs = {b: outcome(b, op, args, wrap) for b in bs}
    ref = outs[bs[0]]
    return {b: ref for b in bs}, outs


def _sig(o):
    return 'raises ' + o[1] if o[0] == 'raises' else 'value:' + str(o[2])


def _operands(args):
    """coarse description of the operands, so that distinct causes fall into distinct witness classes"""
    op, a = args['op'], args['args']
    d = []
    if isinstance(a[0], int) and a[0] < 0 and op not in ('abs', 'set', 'fail_if_divisible_by'):
        d.append('a<0')
    if op in ('rshift', 'irshift', 'lshift', 'ilshift', 'get_bit') and isinstance(a[1], int):
        d.append('n<0' if a[1] < 0 else 'n>65536' if a[1] > 65536 else 'n<=65536')
    if op in ('pow3', 'inplace_pow3', 'mult_modulo_bytes', 'inverse', 'inplace_inverse', 'sqrt_mod', 'mod', 'imod', 'fail_if_divisible_by', 'jacobi_symbol', 'floordiv'):
        m = a[-1]
        if isinstance(m, int):
            d.append('m=0' if m == 0 else 'm=1' if m == 1 else 'm<0' if m < 0 else 'm even' if m % 2 == 0 else 'm odd')
    if op in ('pow3', 'inplace_pow3', 'pow2', 'inplace_pow2') and isinstance(a[1], int) and a[1] < 0:
        d.append('e<0')
    return ','.join(d)


def agree_class(args, exp, got):
    sigs = [_sig(got[b]) for b in sorted(got)]
    if len(set(sigs)) > 1:
        return '%s[%s]:%s' % (args['op'], _operands(args), '|'.join('%s=%s' % (b, _sig(got[b])) for b in sorted(got)))
    return '%s[%s]:%s' % (args['op'], _operands(args), 'same type, different value/effect')


def value_class(args, exp, got):
    o = got[0]
    what = 'raises ' + o[1] if (isinstance(o, list) and o and o[0] == 'raises') else 'wrong value or effect'
    return '%s:%s[%s]:%s' % (args['backend'], args['op'], _operands(args), what)


def _raw():
    from Crypto.Math import _IntegerCustom
    return _IntegerCustom._raw_montgomery


def k_monty_pow(base, exp, mod, length, seed=0):
    from Crypto.Util._raw_api import create_string_buffer, get_raw_buffer, c_size_t, c_ulonglong
    out = create_string_buffer(length)
    err = _raw().monty_pow(out, base.to_bytes(length, 'big'), exp.to_bytes(length, 'big'), mod.to_bytes(length, 'big'), c_size_t(length), c_ulonglong(seed))
    return [0, pow(base, exp, mod)], [err, int.from_bytes(get_raw_buffer(out), 'big')]


def k_monty_multiply(a, b, mod, length):
    from Crypto.Util._raw_api import create_string_buffer, get_raw_buffer, c_size_t
    out = create_string_buffer(length)
    err = _raw().monty_multiply(out, a.to_bytes(length, 'big'), b.to_bytes(length, 'big'), mod.to_bytes(length, 'big'), c_size_t(length))
    return [0, a * b % mod], [err, int.from_bytes(get_raw_buffer(out), 'big')]


def k_monty_refuse(fn, mod, length):
    """even or zero modulus is refused with a non-zero error code (the routines are only defined for odd moduli)"""
    from Crypto.Util._raw_api import create_string_buffer, c_size_t, c_ulonglong
    out = create_string_buffer(length)
    one = (1).to_bytes(length, 'big')
    if fn == 'monty_pow':
        err = _raw().monty_pow(out, one, one, mod.to_bytes(length, 'big'), c_size_t(length), c_ulonglong(0))
    else:
        err = _raw().monty_multiply(out, one, one, mod.to_bytes(length, 'big'), c_size_t(length))
    return 'refused', 'refused' if err else 'accepted'


KINDS = {'value': k_value, 'agree': k_agree, 'monty_pow': k_monty_pow, 'monty_multiply': k_monty_multiply, 'monty_refuse': k_monty_refuse}


# ---------------------------------------------------------------- operand generation

SIZES = sorted({1, 2, 3, 4} | {8 * k + d for k in range(1, 10) for d in (-1, 0, 1)})       # bytes


def patterns(rnd, s):
    """non-negative values of exactly s bytes (and neighbours) with limb-boundary structure"""
    top = 1 << (8 * s)
    out = [top - 1, top >> 1, (top >> 1) - 1, (top >> 1) + 1, top, top + 1, rnd.randrange(top >> 8, top) if s > 1 else rnd.randrange(1, 256)]
    if s >= 8:
        out += [top - (1 << 64), (top - 1) ^ ((1 << 64) - 1) | 1, (1 << (8 * s - 64)) | ((1 << 64) - 1), top - (1 << 32) + 1]
        out.append(int.from_bytes(b''.join(rnd.choice([b'\xff' * 8, bytes(8), b'\x80' + bytes(7), bytes(7) + b'\x01', rnd.randbytes(8)]) for _ in range(s // 8)) or b'\1', 'big'))
    return [x for x in out if x >= 0]


SMALL = [0, 1, 2, 3, 2 ** 31, 2 ** 32 - 1, 2 ** 32, 2 ** 63 - 1, 2 ** 63, 2 ** 64 - 1, 2 ** 64, 2 ** 64 + 1]


def pick(rnd, neg=True):
    r = rnd.random()
    if r < 0.25:
        v = rnd.choice(SMALL)
    else:
        v = rnd.choice(patterns(rnd, rnd.choice(SIZES)))
    if neg and rnd.random() < 0.25:
        v = -v
    return v


def near(rnd, m):
    return rnd.choice([m - 1, m, m + 1, 2 * m - 1, 2 * m, 2 * m + 1, m * m - 1, m // 2, -m, -m + 1, -1, 0, 1, rnd.randrange(0, max(1, m)), rnd.randrange(0, m * m + 1)])


NIST_PRIMES = [2 ** 192 - 2 ** 64 - 1, 2 ** 224 - 2 ** 96 + 1, 2 ** 256 - 2 ** 224 + 2 ** 192 + 2 ** 96 - 1, 2 ** 384 - 2 ** 128 - 2 ** 96 + 2 ** 32 - 1, 2 ** 521 - 1,
               2 ** 255 - 19, 2 ** 448 - 2 ** 224 - 1,
               0xffffffff00000000ffffffffffffffffbce6faada7179e84f3b9cac2fc632551]


def modulus(rnd, odd=None):
    r = rnd.random()
    if r < 0.15:
        m = rnd.choice([1, 2, 3, 4, 5, 7, 8, 255, 256, 257, 65537, 2 ** 64 - 1, 2 ** 64, 2 ** 64 + 1, 2 ** 63, 2 ** 128 - 1, 2 ** 127 - 1])
    elif r < 0.3:
        m = rnd.choice(NIST_PRIMES)
    else:
        m = rnd.choice(patterns(rnd, rnd.choice(SIZES)))
    m = max(1, m)
    if odd is True:
        m |= 1
    if odd is False and m % 2:
        m += 1
    return m


PRIMES_SQRT = [3, 5, 7, 13, 17, 41, 65537, 2 ** 61 - 1, 2 ** 127 - 1, 2 ** 255 - 19, NIST_PRIMES[0], NIST_PRIMES[1], NIST_PRIMES[2], 2 ** 64 - 59, 2 ** 89 - 1,
               (2 ** 64 - 59) * 0 + 18446744073709551557, 2 ** 107 - 1]


def gen_cases(rnd, n):
    """yield (op, args, wrap) -- the same list is evaluated on every back end and in the agreement contract"""
    binops = ['add', 'sub', 'mul', 'floordiv', 'mod', 'and', 'or', 'eq', 'ne', 'lt', 'le', 'gt', 'ge', 'iadd', 'isub', 'imul', 'imod', 'gcd', 'lcm']
    unops = ['abs', 'int', 'str', 'repr', 'bool', 'index', 'is_negative', 'is_odd', 'is_even', 'size_in_bits', 'size_in_bytes', 'is_perfect_square', 'sqrt', 'to_bytes0', 'eq_none']
    for i in range(n):
        for op in binops:
            a = pick(rnd)
            b = rnd.choice([pick(rnd), near(rnd, abs(a) or 1), 0 if rnd.random() < 0.3 else 1, a, -a])
            yield op, [a, b], [True, rnd.random() < 0.5]
        for op in unops:
            a = pick(rnd)
            if op in ('sqrt', 'is_perfect_square') and rnd.random() < 0.6:
                r = abs(pick(rnd))
                a = rnd.choice([r * r, r * r - 1, r * r + 1, r * r + 2 * r])
            yield op, [a], [True]
        # shifts and bits
        a = pick(rnd)
        size = abs(a).bit_length()
        for op in ('rshift', 'lshift', 'irshift', 'ilshift', 'get_bit'):
            pos = rnd.choice([0, 1, 7, 8, 31, 32, 33, 63, 64, 65, 127, 128, max(0, size - 1), size, size + 1, rnd.randrange(0, 700)])
            yield op, [pick(rnd) if rnd.random() < 0.5 else a, pos], [True, rnd.random() < 0.3]
        # pow
        m = modulus(rnd)
        a = rnd.choice([near(rnd, m), pick(rnd)])
        e = rnd.choice([0, 1, 2, 3, 65537, m - 1, m, abs(pick(rnd, False)), 2 ** 64 - 1, 2 ** 64])
        for op in ('pow3', 'inplace_pow3'):
            yield op, [a, e, m], [True, rnd.random() < 0.5, rnd.random() < 0.5]
        yield 'pow2', [rnd.choice([pick(rnd), -3, -1, 0, 1, 2]), rnd.choice([0, 1, 2, 3, 5])], [True, False]
        yield 'inplace_pow2', [pick(rnd), rnd.choice([0, 1, 2, 3])], [True, False]
        # inverse
        m = modulus(rnd)
        a = near(rnd, m) if rnd.random() < 0.5 else pick(rnd)
        yield 'inverse', [a, m], [True, rnd.random() < 0.5]
        yield 'inplace_inverse', [pick(rnd), modulus(rnd)], [True, rnd.random() < 0.5]
        # modular square root
        p = rnd.choice(PRIMES_SQRT)
        r = rnd.randrange(0, p)
        yield 'sqrt_mod', [rnd.choice([r * r % p, r * r, r, 0, 1, p - 1, p, -(r * r % p) % p + p]), p], [True, rnd.random() < 0.5]
        # divisibility, accumulate, set
        sp = rnd.choice([2, 3, 5, 7, 11, 13, 17, 251, 257, 65537])
        k = abs(pick(rnd, False))
        yield 'fail_if_divisible_by', [rnd.choice([k * sp, k * sp + 1, sp, 0, 1, -k * sp]), sp], [True, rnd.random() < 0.3]
        yield 'multiply_accumulate', [pick(rnd), pick(rnd), pick(rnd)], [True, rnd.random() < 0.5, rnd.random() < 0.5]
        yield 'set', [pick(rnd), pick(rnd)], [True, rnd.random() < 0.5]
        # Jacobi
        nn = modulus(rnd, odd=True)
        yield 'jacobi_symbol', [near(rnd, nn) if rnd.random() < 0.5 else pick(rnd), nn], [rnd.random() < 0.5, rnd.random() < 0.5]
        # constant-time multiplication
        m = modulus(rnd, odd=True)
        yield 'mult_modulo_bytes', [abs(near(rnd, m)), abs(near(rnd, m)), m], [False, False, False]
        # byte conversion
        a = abs(pick(rnd, False))
        nb = max(1, (a.bit_length() + 7) // 8)
        yield 'to_bytes', [a, rnd.choice([0, nb - 1, nb, nb + 1, 2 * nb + 3, 1, 8, 256]), rnd.choice(['big', 'little'])], [True, False, False]
        yield 'from_bytes', [rnd.choice([a.to_bytes(nb, 'big'), bytes(3) + a.to_bytes(nb, 'big'), a.to_bytes(nb, 'little') + bytes(2), b'', b'\x00', b'\xff' * rnd.randrange(1, 80)]),
                             rnd.choice(['big', 'little'])], [False, False]


def edge_cases():
    """calls that violate a single precondition or sit on an interface edge -- each evaluated on every back end"""
    out = []
    for a in (0, 1, 5, -4, 2 ** 64, -(2 ** 64), 2 ** 200 + 1):
        out += [('abs', [a], [True]), ('get_bit', [a, 2 ** 70], [True, False]), ('get_bit', [a, 2 ** 70], [True, True]), ('get_bit', [a, -1], [True, False]),
                ('rshift', [a, 2 ** 70], [True, False]), ('irshift', [a, 2 ** 70], [True, False]), ('rshift', [a, 2 ** 70], [True, True]),
                ('lshift', [a, 2 ** 70], [True, False]), ('ilshift', [a, 2 ** 70], [True, False]),
                ('rshift', [a, -1], [True, False]), ('lshift', [a, -1], [True, False]), ('irshift', [a, -1], [True, False]), ('ilshift', [a, -1], [True, False]),
                ('fail_if_divisible_by', [a, 0], [True, False]), ('fail_if_divisible_by', [a, 1], [True, False]), ('fail_if_divisible_by', [a, -3], [True, False]),
                ('floordiv', [a, 0], [True, False]), ('mod', [a, 0], [True, False]), ('mod', [a, -7], [True, False]), ('imod', [a, 0], [True, False]), ('imod', [a, -7], [True, True]),
                ('floordiv', [a, -7], [True, False]), ('floordiv', [a, -7], [True, True]),
                ('pow3', [a, 3, 0], [True, False, False]), ('pow3', [a, 3, -5], [True, False, False]), ('pow3', [a, -1, 7], [True, False, False]), ('pow3', [a, 5, 1], [True, False, False]),
                ('pow3', [a, 3, 7], [True, False, False]), ('pow3', [a, 0, 1], [True, False, False]), ('pow3', [a, 0, 7], [True, True, True]), ('pow3', [a, 3, 8], [True, False, False]),
                ('pow2', [a, -1], [True, False]),
                ('inverse', [a, 0], [True, False]), ('inverse', [a, -7], [True, False]), ('inverse', [a, 1], [True, False]), ('inverse', [a, 7], [True, False]), ('inverse', [a, 10], [True, False]),
                ('sqrt', [a], [True]), ('sqrt_mod', [a, 0], [True, False]), ('sqrt_mod', [a, -7], [True, False]), ('sqrt_mod', [a, 7], [True, False]), ('sqrt_mod', [a, 2], [True, False]),
                ('sqrt_mod', [a, 15], [True, False]),
                ('size_in_bits', [a], [True]), ('size_in_bytes', [a], [True]), ('to_bytes0', [a], [True]), ('to_bytes', [a, 0, 'middle'], [True, False, False]),
                ('to_bytes', [a, 1, 'big'], [True, False, False]), ('to_bytes', [a, -1, 'big'], [True, False, False]),
                ('jacobi_symbol', [a, 0], [False, False]), ('jacobi_symbol', [a, -7], [False, False]), ('jacobi_symbol', [a, 8], [False, False]), ('jacobi_symbol', [a, 1], [True, True]),
                ('mult_modulo_bytes', [a, 3, 0], [False] * 3), ('mult_modulo_bytes', [a, 3, -7], [False] * 3), ('mult_modulo_bytes', [a, 3, 8], [False] * 3),
                ('mult_modulo_bytes', [a, 3, 1], [False] * 3), ('mult_modulo_bytes', [a, -3, 7], [False] * 3), ('mult_modulo_bytes', [a, 3, 7], [True, True, True]),
                ('gcd', [a, 0], [True, False]), ('lcm', [a, 0], [True, False]), ('gcd', [0, a], [True, True]), ('lcm', [a, -6], [True, False]),
                ('is_perfect_square', [a], [True]), ('eq_none', [a], [True]), ('set', [a, 3], [True, False]), ('multiply_accumulate', [a, 0, 0], [True, False, False]),
                ('and', [a, -1], [True, False]), ('or', [a, -1], [True, True]), ('and', [a, -(2 ** 64)], [True, True])]
    out += [('from_bytes', [b'', 'big'], [False, False]), ('from_bytes', [b'\x01\x02', 'middle'], [False, False]), ('from_bytes', [b'\x00' * 20, 'little'], [False, False])]
    return out


def t_ops(rec, rnd, tier, part, parts):
    bs = available()
    n = (60 if tier == 'quick' else 2500)
    cases = list(edge_cases()) if part == 0 else []
    sub = __import__('random').Random('%s:%d' % (rnd.random(), part))
    cases += list(gen_cases(sub, n))
    seen_ops = sorted({c[0] for c in cases} | set(OPS))
    bound = 'operands: 0, 1, 2^31..2^64+1, limb patterns (all-ones, top bit, 2^k+-1, mixed 0xFF../0x00.. limbs) of 1..4 and 8k-1, 8k, 8k+1 bytes (k=1..9), values around the second operand/modulus (m-1, m, m+1, 2m, m^2-1), negatives; moduli odd and even incl. 1, 2, 2^64+-1, NIST primes; second operand as Integer or int; %d generated calls per operation per back end (x %d parts) + fixed precondition-violation calls' % (n, parts)
    cv, ca = {}, {}
    for op in seen_ops:
        for b in bs:
            cv[b, op] = rec.declare('Integer%s.%s.exact' % (b, op), 'Integer%s: %s gives the mathematically exact value (in place: in self, returning self; otherwise self and operands unmodified) or the documented exception where no result exists' % (b, op),
                                    bound, {'Native': 'lib/Crypto/Math/_IntegerNative.py', 'Custom': 'lib/Crypto/Math/_IntegerCustom.py + src/modexp.c', 'GMP': 'lib/Crypto/Math/_IntegerGMP.py (libgmp)'}[b] + ':' + op)
        ca[op] = rec.declare('agree.%s' % op, '%s: all integer back ends (%s) give the same value, the same Python result type and the same exception type' % (op, ', '.join(bs)), bound,
                             'lib/Crypto/Math/_Integer{Native,Custom,GMP}.py:' + op)
    for op, args, wrap in cases:
        m = model(op, args)
        if m is not None:
            for b in bs:
                rec.case(cv[b, op], 'value', wclass=value_class, backend=b, op=op, args=args, wrap=wrap)
        if len(bs) > 1:
            rec.case(ca[op], 'agree', wclass=agree_class, op=op, args=args, wrap=wrap)
    # drop declared-but-unused contracts of this part (they are evaluated in other parts or have no defined model)
    for cid in list(rec.c):
        if rec.c[cid]['n'] == 0:
            del rec.c[cid]


def t_monty(rec, rnd, tier, part, parts):
    n = 40 if tier == 'quick' else 1500
    cp = rec.declare('raw.monty_pow.eq_pow', 'monty_pow(out, base, exp, modulus, len, seed) returns 0 and out == base^exp mod modulus for odd modulus > 1, base < modulus',
                     'len 1..73 bytes (1..9 limbs +-1 byte, incl. leading zero bytes in the modulus); moduli: limb patterns, NIST primes (special reductions), 3, 2^64+-1...; base in {0,1,2,m-1,m-2,random,(m+1)/2}; exp in {0,1,2,3,65537,2^k,2^k-1,m-1,m-2,random}; random seeds; %d per length per part' % n,
                     'src/modexp.c:monty_pow + src/mont.c')
    cm = rec.declare('raw.monty_multiply.eq_mulmod', 'monty_multiply(out, a, b, modulus, len) returns 0 and out == a*b mod modulus for odd modulus, a, b < modulus',
                     'same moduli; a, b in {0,1,m-1,m-2,2^k,random, all-ones limbs below m}', 'src/modexp.c:monty_multiply + src/mont.c:mont_mult')
    cr = rec.declare('raw.monty.even_or_zero_modulus_refused', 'monty_pow / monty_multiply return a non-zero error code for an even or zero modulus', 'moduli 0, 2, 4, 2^64, 2^200+2 at lengths {1, 8, 9, 26, 40}', 'src/modexp.c')
    lens = [x for i, x in enumerate(range(1, 74)) if i % parts == part]
    for ln in lens:
        top = 1 << (8 * ln)
        mods = [top - 1, (top >> 1) | 1, top - 3 if ln > 1 else 253, 3, 5]
        mods += [m for m in NIST_PRIMES if m < top]
        mods += [x | 1 for x in patterns(rnd, ln) if 1 < (x | 1) < top]
        for s in range(max(1, ln - 9), ln):
            mods.append(rnd.randrange(1 << (8 * s - 1), 1 << (8 * s)) | 1)          # leading zero bytes
        for it in range(n):
            m = rnd.choice(mods) if it >= len(mods) else mods[it]
            if m < 3:
                m = 3
            base = rnd.choice([0, 1, 2 % m, m - 1, m - 2, (m + 1) // 2, rnd.randrange(0, m), rnd.randrange(0, m)])
            e = rnd.choice([0, 1, 2, 3, 65537 % top, (1 << rnd.randrange(0, 8 * ln)), (1 << rnd.randrange(1, 8 * ln + 1)) - 1, m - 1, m - 2, rnd.randrange(0, top), top - 1])
            rec.case(cp, 'monty_pow', base=base, exp=e, mod=m, length=ln, seed=rnd.getrandbits(64))
            a = rnd.choice([0, 1, m - 1, m - 2, (1 << rnd.randrange(0, 8 * ln)) % m, rnd.randrange(0, m), ((1 << (64 * rnd.randrange(1, 10))) - 1) % m])
            b = rnd.choice([0, 1, m - 1, m - 2, (1 << rnd.randrange(0, 8 * ln)) % m, rnd.randrange(0, m), a])
            rec.case(cm, 'monty_multiply', a=a, b=b, mod=m, length=ln)
        # zero divisors: operands that are non-zero modulo a COMPOSITE odd modulus but whose product / power is 0 modulo it.  The
        # Montgomery product then ends exactly at t == n before the final conditional subtraction (the boundary of `t >= n`), which
        # prime moduli, zero operands and random operands never reach.
        cz = rec.declare('raw.monty.zero_divisors', 'monty_multiply / monty_pow return 0 (not the modulus) when the product / power is 0 modulo a composite odd modulus and no operand is 0',
                         'per length: m = p*q (a = p, b = q), m = x*x (pow(x, 2, m)), m = 3**k or p**k (pow(3*c, e, m) for e >= k), p and q odd of about half the length',
                         'src/mont.c:mont_mult_generic final subtraction')
        for it in range(6 if tier == 'quick' else 60):
            half = max(1, 4 * ln)
            pp = rnd.randrange(1 << (half - 1), 1 << half) | 1
            qq = rnd.randrange(3, max(4, top // pp)) | 1 if top // pp > 4 else 3
            m = pp * qq
            if 3 <= m < top and pp % m and qq % m:
                rec.case(cz, 'monty_multiply', a=pp % m, b=qq % m, mod=m, length=ln)
            x = rnd.randrange(3, max(4, 1 << half)) | 1
            m = x * x
            if 9 <= m < top:
                rec.case(cz, 'monty_pow', base=x, exp=2, mod=m, length=ln, seed=rnd.getrandbits(64))
                rec.case(cz, 'monty_multiply', a=x, b=x, mod=m, length=ln)
            k = rnd.randrange(2, 6)
            m = 3 ** k
            while m * 3 ** k < top and rnd.random() < 0.7:
                m *= 3 ** k
            if m < top:
                # (every operand of the raw routine is `length` bytes long: the exponent too; e >= log3(m) makes the power 0)
                rec.case(cz, 'monty_pow', base=(3 * rnd.randrange(1, 50)) % m or 3, exp=min(top - 1, rnd.randrange(200, 400)) if top - 1 >= 6 * ln else top - 1,
                         mod=m, length=ln, seed=rnd.getrandbits(64))
    if part == 0:
        for ln in (1, 8, 9, 26, 40):
            for m in (0, 2, 4, 2 ** 64, 2 ** 200 + 2):
                if m < (1 << (8 * ln)):
                    for fn in ('monty_pow', 'monty_multiply'):
                        rec.case(cr, 'monty_refuse', fn=fn, mod=m, length=ln)


def tasks(tier, seed):
    out = [('ops.%02d' % i, 't_ops', dict(part=i, parts=10)) for i in range(10)]
    out += [('monty.%d' % i, 't_monty', dict(part=i, parts=6)) for i in range(6)]
    return out


def run(tier='quick', seed=None, src_dir=None, only=None):
    return _common.run('bounded.bigint', tier, seed, src_dir, only)


if __name__ == '__main__':
    sys.exit(_common.main('bounded.bigint'))
