"""Area 1 -- primitives of Crypto.Cipher against independent references (C02 'assumed + bounded').

contract per (cipher, key size):  ECB encrypt(block) == E_spec(key, block)  and  decrypt(block) == D_spec(key, block);
stream ciphers: keystream == spec at every tested offset.
Input set: quick ~2000 random blocks per key size (new key every few blocks) + structured set (all-zero / all-one
blocks and keys, every single-bit block under a fixed key, every single-bit key on the zero block); thorough 100000.
Oracles: AES = spec.ref_aes (GF(2^8) definition), DES/3DES = spec.ref_des (FIPS 46-3 tables), Blowfish = spec.ref_blowfish
(pi digits computed), CAST-128 and RC2 = OpenSSL libcrypto through ctypes (spec.ref_openssl; their S-boxes cannot be
derived), RC4 = spec.ref_legacy, ChaCha20/HChaCha20/Salsa20 = spec.ref_chacha."""
import functools
import sys

from . import _common

AREA = 'blockcipher'
MODULES = None      # rebuild every extension module of setup.py (about 3 s): nothing stale can be reached indirectly

TARGET = {'AES': 'src/AES.c:AES_encrypt/AES_decrypt', 'DES': 'src/DES.c (libtom/tomcrypt_des.c)', 'DES3': 'src/DES3.c (libtom/tomcrypt_des.c)',
          'Blowfish': 'src/blowfish.c', 'CAST': 'src/CAST.c', 'ARC2': 'src/ARC2.c', 'ARC4': 'src/ARC4.c', 'ChaCha20': 'src/chacha20.c:chacha20_core',
          'HChaCha20': 'src/chacha20.c:hchacha20', 'Salsa20': 'src/Salsa20.c', 'EKSBlowfish': 'src/blowfish_eks.c'}


def notes():
    from spec import ref_openssl
    return ['OpenSSL oracle: %s' % ref_openssl.version()]


@functools.lru_cache(maxsize=64)
def _ref(cipher, key, eff):
    """reference object with encrypt_block/decrypt_block"""
    from spec import ref_aes, ref_des, ref_blowfish, ref_openssl, ref_modes
    if cipher == 'AES':
        return ref_aes.AES(key)
    if cipher == 'DES':
        return ref_des.DES(key)
    if cipher == 'DES3':
        return ref_des.TDES(key)
    if cipher == 'Blowfish':
        return ref_blowfish.Blowfish(key)
    if cipher == 'CAST':
        return ref_modes.BC(8, lambda b: ref_openssl.crypt('CAST5-ECB', key, b), lambda b: ref_openssl.crypt('CAST5-ECB', key, b, enc=False))
    if cipher == 'ARC2':
        return ref_modes.BC(8, lambda b: ref_openssl.crypt('RC2-ECB', key, b, rc2_bits=eff), lambda b: ref_openssl.crypt('RC2-ECB', key, b, enc=False, rc2_bits=eff))
    raise KeyError(cipher)


def lib_new(cipher, key, eff=None, **kw):
    mod = __import__('Crypto.Cipher.' + cipher, fromlist=['new'])
    if cipher == 'ARC2' and eff is not None:
        kw['effective_keylen'] = eff
    if cipher == 'AES':
        kw.setdefault('use_aesni', False)
    return mod.new(key, kw.pop('mode', mod.MODE_ECB), **kw)


def k_block(cipher, key, block, dec=False, eff=None):
    """one block through the library's ECB object vs the reference"""
    r = _ref(cipher, bytes(key), eff)
    exp = r.decrypt_block(block) if dec else r.encrypt_block(block)
    c = lib_new(cipher, key, eff)
    got = c.decrypt(block) if dec else c.encrypt(block)
    return exp, got


def k_des3_degenerate(key):
    """TDEA keys with K1 == K2 or K2 == K3 (after parity adjustment) must be refused (SP 800-67 / library documentation)"""
    from Crypto.Cipher import DES3
    try:
        DES3.new(key, DES3.MODE_ECB)
        got = 'accepted'
    except ValueError:
        got = 'ValueError'
    return 'ValueError', got


def k_rc4(key, n, drop=0):
    from spec import ref_legacy
    from Crypto.Cipher import ARC4
    data = bytes((i * 131 + 7) & 255 for i in range(n))
    c = ARC4.new(key, drop=drop) if drop else ARC4.new(key)
    return ref_legacy.rc4(key, data, drop), c.encrypt(data)


def k_chacha20(key, nonce, n, seek=0):
    from spec import ref_chacha
    from Crypto.Cipher import ChaCha20
    data = bytes((i * 29 + 3) & 255 for i in range(n))
    c = ChaCha20.new(key=key, nonce=nonce)
    if seek:
        c.seek(seek)
    return ref_chacha.chacha20_encrypt(key, nonce, data, seek), c.encrypt(data)


def k_hchacha20(key, nonce16):
    from spec import ref_chacha
    from Crypto.Cipher import ChaCha20
    return ref_chacha.hchacha20(key, nonce16), ChaCha20._HChaCha20(key, nonce16)


def k_salsa20(key, nonce, n):
    from spec import ref_chacha
    from Crypto.Cipher import Salsa20
    data = bytes((i * 29 + 3) & 255 for i in range(n))
    return ref_chacha.salsa20_encrypt(key, nonce, data), Salsa20.new(key=key, nonce=nonce).encrypt(data)


def k_eksblowfish(password, salt, cost):
    """bcrypt core through the library's public bcrypt() vs spec.ref_blowfish.bcrypt"""
    from spec import ref_blowfish
    from Crypto.Protocol.KDF import bcrypt
    return ref_blowfish.bcrypt(password, salt, cost), bcrypt(password, cost, salt).decode()


KINDS = {'block': k_block, 'des3_degenerate': k_des3_degenerate, 'rc4': k_rc4, 'chacha20': k_chacha20, 'hchacha20': k_hchacha20,
         'salsa20': k_salsa20, 'eksblowfish': k_eksblowfish}

BLOCK = {'AES': 16, 'DES': 8, 'DES3': 8, 'Blowfish': 8, 'CAST': 8, 'ARC2': 8}
KEYSIZES = {'AES': [16, 24, 32], 'DES': [8], 'DES3': [16, 24], 'Blowfish': list(range(4, 57)), 'CAST': list(range(5, 17)), 'ARC2': list(range(5, 129))}
ORACLE = {'AES': 'spec.ref_aes', 'DES': 'spec.ref_des', 'DES3': 'spec.ref_des', 'Blowfish': 'spec.ref_blowfish', 'CAST': 'OpenSSL CAST5', 'ARC2': 'OpenSSL RC2'}


def _valid_key(cipher, key):
    if cipher != 'DES3':
        return True
    k = bytes((b & 0xFE) for b in key)
    k1, k2, k3 = k[:8], k[8:16], (k[16:24] if len(k) == 24 else k[:8])
    return k1 != k2 and k2 != k3


def t_block(rec, rnd, tier, cipher, sizes, nblocks, nkeys):
    bs = BLOCK[cipher]
    from spec import ref_openssl
    if cipher in ('CAST', 'ARC2') and not (ref_openssl.available() and ref_openssl.has_cipher('CAST5-ECB' if cipher == 'CAST' else 'RC2-ECB')):
        return          # no oracle: nothing registered (see notes())
    for ks in sizes:
        name = '%s-%d' % (cipher, ks * 8)
        bound = '%d random blocks under %d random keys + all-zero/all-one/single-bit blocks and keys; key size %d bytes; oracle %s' % (
            nblocks, nkeys, ks, ORACLE[cipher])
        if cipher == 'ARC2':
            bound += '; effective_keylen random in 40..1024 per key plus {40,41,63,64,65,127,128,129,1023,1024, 8*len(key)}'
        ce = rec.declare('%s.encrypt_eq_spec' % name, 'ECB encrypt(block) == E_spec(key, block) for %s' % name, bound, TARGET[cipher])
        cd = rec.declare('%s.decrypt_eq_spec' % name, 'ECB decrypt(block) == D_spec(key, block) for %s' % name, bound, TARGET[cipher])

        def both(key, blk, eff=None):
            if not _valid_key(cipher, key):
                return
            rec.case(ce, 'block', cipher=cipher, key=key, block=blk, dec=False, eff=eff)
            rec.case(cd, 'block', cipher=cipher, key=key, block=blk, dec=True, eff=eff)
        effs = [None]
        if cipher == 'ARC2':
            effs = sorted({40, 41, 63, 64, 65, 127, 128, 129, 1023, 1024, min(1024, max(40, 8 * ks))})
        # structured
        fixed = bytes(((i * 37 + 11) & 0xFE) | (i & 1) for i in range(ks))
        if not _valid_key(cipher, fixed):
            fixed = bytes(range(1, ks + 1))
        for eff in effs:
            for blk in (bytes(bs), b'\xff' * bs):
                both(fixed, blk, eff)
                both(bytes(ks), blk, eff)
                both(b'\xff' * ks, blk, eff)
        eff0 = effs[-1] if cipher == 'ARC2' else None
        for bit in range(8 * bs):
            both(fixed, (1 << bit).to_bytes(bs, 'big'), eff0)
        for bit in range(8 * ks):
            both((1 << bit).to_bytes(ks, 'big'), bytes(bs), eff0)
        # random
        per = max(1, nblocks // nkeys)
        for _ in range(nkeys):
            key = rnd.randbytes(ks)
            while not _valid_key(cipher, key):
                key = rnd.randbytes(ks)
            eff = rnd.randint(40, 1024) if cipher == 'ARC2' else None
            for _ in range(per):
                both(key, rnd.randbytes(bs), eff)
    if cipher == 'DES3':
        cg = rec.declare('DES3.degenerate_keys_refused', 'DES3.new refuses keys with K1 == K2 or K2 == K3 (modulo parity bits)',
                         '200 random degenerate keys of both lengths, parity bits random', 'lib/Crypto/Cipher/DES3.py:adjust_key_parity')
        for i in range(200):
            a, b = rnd.randbytes(8), rnd.randbytes(8)
            flip = bytes(x ^ (rnd.getrandbits(1)) for x in a)          # differs in parity bits only
            key = [a + flip + b, b + a + flip, a + flip][i % 3]
            rec.case(cg, 'des3_degenerate', key=key)


def t_rc4(rec, rnd, tier, sizes, per):
    c = rec.declare('ARC4.keystream_eq_spec', 'ARC4 encrypt(data) == data xor RC4 keystream(key[, drop])',
                    'every key length 1..256, %d messages each with length in {0,1,2,255,256,257,1000} or random <= 1200, drop in {0,1,256,768,3072}' % per, TARGET['ARC4'])
    for ks in sizes:
        for i in range(per):
            key = rnd.randbytes(ks) if i else bytes([ks & 255]) * ks
            n = [0, 1, 2, 255, 256, 257, 1000][i] if i < 7 else rnd.randint(0, 1200)
            rec.case(c, 'rc4', key=key, n=n, drop=[0, 0, 1, 256, 768, 3072][i % 6])


def t_chacha(rec, rnd, tier, n):
    c = rec.declare('ChaCha20.keystream_eq_spec', 'ChaCha20 encrypt(data) == data xor RFC 8439 keystream, for 8/12/24-byte nonces and after seek()',
                    '%d random (key, nonce) per nonce length 8/12/24, data lengths {0,1,63,64,65,127,128,129,255,256,257,1000} and random <= 600, '
                    'seek in {0,1,63,64,65,2^32-1 (8-byte nonce: also 2^38+7), random < 2^20}; + all-zero/all-one keys' % n, TARGET['ChaCha20'])
    lens = [0, 1, 63, 64, 65, 127, 128, 129, 255, 256, 257, 1000]
    for nl in (8, 12, 24):
        for i in range(n):
            key = rnd.randbytes(32) if i > 1 else bytes([255 * i]) * 32
            nonce = rnd.randbytes(nl) if i > 1 else bytes([255 * i]) * nl
            ln = lens[i % len(lens)] if i < 3 * len(lens) else rnd.randint(0, 600)
            seeks = [0, 0, 1, 63, 64, 65, 2 ** 32 - 1, rnd.randrange(2 ** 20)]
            if nl == 8:
                seeks.append(2 ** 38 + 7)
            rec.case(c, 'chacha20', key=key, nonce=nonce, n=ln, seek=seeks[i % len(seeks)])
    h = rec.declare('HChaCha20.eq_spec', '_HChaCha20(key, nonce16) == HChaCha20 of draft-irtf-cfrg-xchacha', '%d random inputs + all-zero/all-one' % n, TARGET['HChaCha20'])
    for i in range(n):
        key = rnd.randbytes(32) if i > 1 else bytes([255 * i]) * 32
        nonce = rnd.randbytes(16) if i > 1 else bytes([255 * i]) * 16
        rec.case(h, 'hchacha20', key=key, nonce16=nonce)


def t_salsa(rec, rnd, tier, n):
    for ks in (16, 32):
        c = rec.declare('Salsa20-%d.keystream_eq_spec' % (8 * ks), 'Salsa20 encrypt(data) == data xor Salsa20/20 keystream (%d-byte key)' % ks,
                        '%d random (key, nonce), data lengths {0,1,63,64,65,127,128,129,255,256,257,1000} and random <= 600; + all-zero/all-one keys' % n, TARGET['Salsa20'])
        lens = [0, 1, 63, 64, 65, 127, 128, 129, 255, 256, 257, 1000]
        for i in range(n):
            key = rnd.randbytes(ks) if i > 1 else bytes([255 * i]) * ks
            nonce = rnd.randbytes(8) if i > 1 else bytes([255 * i]) * 8
            ln = lens[i % len(lens)] if i < 3 * len(lens) else rnd.randint(0, 600)
            rec.case(c, 'salsa20', key=key, nonce=nonce, n=ln)


def t_eks(rec, rnd, tier, n):
    c = rec.declare('EKSBlowfish.bcrypt_eq_spec', 'bcrypt(password, cost, salt) == $2a$ string computed by spec.ref_blowfish (EksBlowfish from the pi-derived tables)',
                    '%d random passwords of length 0..71 (no NUL) incl. 0, 1, 55, 56, 71, 72; cost 4 (and 5, 6 once); random salts + all-zero salt' % n, TARGET['EKSBlowfish'])
    lens = [0, 1, 55, 56, 71, 72]
    for i in range(n):
        ln = lens[i] if i < len(lens) else rnd.randint(0, 72)
        pw = bytes(rnd.randint(1, 255) for _ in range(ln))
        salt = bytes(16) if i == 0 else rnd.randbytes(16)
        rec.case(c, 'eksblowfish', password=pw, salt=salt, cost=[4, 5, 6][i] if i < 3 else 4)


def tasks(tier, seed):
    q = tier != 'thorough'
    nb = 2000 if q else 100000
    out = []
    for ks in KEYSIZES['AES']:
        for part in range(1 if q else 4):
            out.append(('AES-%d.%d' % (ks * 8, part), 't_block', dict(cipher='AES', sizes=[ks], nblocks=nb // (1 if q else 4), nkeys=100 if q else 500)))
    out.append(('DES', 't_block', dict(cipher='DES', sizes=[8], nblocks=nb if q else nb // 2, nkeys=100 if q else 1000)))
    if not q:
        out.append(('DES.b', 't_block', dict(cipher='DES', sizes=[8], nblocks=nb // 2, nkeys=1000)))
    for ks in KEYSIZES['DES3']:
        for part in range(1 if q else 4):
            out.append(('DES3-%d.%d' % (ks * 8, part), 't_block', dict(cipher='DES3', sizes=[ks], nblocks=nb // (1 if q else 4), nkeys=100 if q else 500)))
    bf = KEYSIZES['Blowfish']
    for i in range(0, len(bf), 7 if q else 3):
        out.append(('Blowfish.%02d' % bf[i], 't_block', dict(cipher='Blowfish', sizes=bf[i:i + (7 if q else 3)], nblocks=nb, nkeys=8 if q else 100)))
    cs = KEYSIZES['CAST']
    for i in range(0, len(cs), 12 if q else 2):
        out.append(('CAST.%02d' % cs[i], 't_block', dict(cipher='CAST', sizes=cs[i:i + (12 if q else 2)], nblocks=nb, nkeys=100 if q else 2000)))
    rc2 = KEYSIZES['ARC2']
    for i in range(0, len(rc2), 31 if q else 4):
        out.append(('ARC2.%03d' % rc2[i], 't_block', dict(cipher='ARC2', sizes=rc2[i:i + (31 if q else 4)], nblocks=nb, nkeys=100 if q else 2000)))
    for i in range(1, 257, 64):
        out.append(('ARC4.%03d' % i, 't_rc4', dict(sizes=list(range(i, i + 64)), per=8 if q else 400)))
    for part in range(1 if q else 6):
        out.append(('ChaCha20.%d' % part, 't_chacha', dict(n=700 if q else 5500)))
        out.append(('Salsa20.%d' % part, 't_salsa', dict(n=1000 if q else 8400)))
    out.append(('EKSBlowfish', 't_eks', dict(n=12 if q else 200)))
    return out


def run(tier='quick', seed=None, src_dir=None, only=None):
    return _common.run(__name__ if __name__ != '__main__' else 'bounded.blockciphers', tier, seed, src_dir, only)


if __name__ == '__main__':
    sys.exit(_common.main('bounded.blockciphers'))
