"""Area 7 -- elliptic curves (C06 'assumed + bounded'): EccPoint/EccXPoint scalar multiplication, addition, doubling, negation
on all nine curves against an independent affine double-and-add over Python ints (spec.ref_ec, parameters typed from the
standards and validated there), and X25519/X448 (Crypto.Protocol.DH) against the RFC 7748 reference incl. its test
vectors and low-order inputs.

k in {0,1,2,order-1,order,order+1,2*order+1, 2^j, 2^j+-1 (j around limb/window boundaries; thorough: every j <= 640),
random of 1..80 bytes}; P in {G (generator fast path), random multiples, neutral}; Edwards: also the 8 (4) small-order
points."""
import sys

from . import _common

AREA = 'ec'
MODULES = None      # rebuild every extension module of setup.py (about 3 s): nothing stale can be reached indirectly

LIBNAME = {'P-192': 'P-192', 'P-224': 'P-224', 'P-256': 'P-256', 'P-384': 'P-384', 'P-521': 'P-521', 'Ed25519': 'Ed25519', 'Ed448': 'Ed448',
           'Curve25519': 'Curve25519', 'Curve448': 'Curve448'}
TARGET = {'P-192': 'src/ec_ws.c:ec_scalar (generic Montgomery arithmetic)', 'P-224': 'src/ec_ws.c:ec_scalar (generic Montgomery arithmetic)',
          'P-256': 'src/ec_ws.c:ec_scalar / ec_scalar_g_p256 + src/mont.c (P-256 reduction)', 'P-384': 'src/ec_ws.c:ec_scalar / ec_scalar_g_p384 + src/mont.c',
          'P-521': 'src/ec_ws.c:ec_scalar / ec_scalar_g_p521 + src/mont.c (P-521 reduction)', 'Ed25519': 'src/ed25519.c:ed25519_scalar', 'Ed448': 'src/ed448.c:ed448_scalar',
          'Curve25519': 'src/curve25519.c:curve25519_scalar', 'Curve448': 'src/curve448.c:curve448_scalar'}


def _curve(name):
    from spec import ref_ec
    return ref_ec.CURVES[name]


def lib_point(name, P):
    """library point object for reference point P (None / (x, y) / Edwards (0, 1))"""
    from Crypto.PublicKey.ECC import EccPoint, EccXPoint
    c = _curve(name)
    if c.kind == 'montgomery':
        return EccXPoint(None if P is None else P[0], LIBNAME[name])
    if c.kind == 'weierstrass' and P is None:
        return EccPoint(c.G[0], c.G[1], LIBNAME[name]).point_at_infinity()
    return EccPoint(P[0], P[1], LIBNAME[name])


def norm_lib(name, R):
    c = _curve(name)
    if c.kind == 'montgomery':
        return 'neutral' if R.is_point_at_infinity() else [int(R.x)]
    if c.kind == 'weierstrass':
        return 'neutral' if R.is_point_at_infinity() else [int(R.x), int(R.y)]
    return [int(R.x), int(R.y)]


def norm_ref(name, R):
    c = _curve(name)
    if R is None:
        return 'neutral'
    if c.kind == 'montgomery':
        return [R[0]]
    return [R[0], R[1]]


def _pt(name, p):
    """json form -> reference point"""
    c = _curve(name)
    if p == 'neutral':
        return c.neutral
    if p == 'G':
        return c.G
    if c.kind == 'montgomery':
        return c.lift(p[0])
    return (p[0], p[1])


def k_scalar(curve, point, k, form='mul'):
    """[k]P through the library (P * k, k * P or P *= k) == affine double-and-add; P itself is left unchanged by * """
    from spec import ref_ec
    c = _curve(curve)
    P = _pt(curve, point)
    exp = norm_ref(curve, ref_ec.scalar_mult(c, k, P))
    L = lib_point(curve, P)
    before = norm_lib(curve, L)
    if form == 'mul':
        R = L * k
    elif form == 'rmul':
        R = k * L
    else:
        R = L
        R *= k
    got = norm_lib(curve, R)
    if form != 'imul' and norm_lib(curve, L) != before:
        return 'operand unchanged', 'operand modified'
    return exp, got


def k_group(curve, p, q):
    """P+Q, P+=Q, P.double(), -P, P==Q against the affine group law"""
    c = _curve(curve)
    P, Q = _pt(curve, p), _pt(curve, q)
    exp = [norm_ref(curve, c.add(P, Q)), norm_ref(curve, c.add(P, P)), norm_ref(curve, c.neg(P)), P == Q, norm_ref(curve, c.add(P, Q)), norm_ref(curve, P)]
    A, B = lib_point(curve, P), lib_point(curve, Q)
    s = A + B
    d = A.copy()
    d.double()
    n = -A
    e = (A == B)
    i = A.copy()
    i += B
    return exp, [norm_lib(curve, s), norm_lib(curve, d), norm_lib(curve, n), e, norm_lib(curve, i), norm_lib(curve, A)]


def k_small_order(curve, idx, k):
    """Edwards small-order points T_idx = [idx]T (T of order 8 resp. 4): construction succeeds and [k]T_idx, T_idx + T_idx follow the group law"""
    from spec import ref_ec
    c = _curve(curve)
    T = small_order_generator(curve)
    P = ref_ec.scalar_mult(c, idx, T)
    exp = [norm_ref(curve, ref_ec.scalar_mult(c, k, P)), norm_ref(curve, c.add(P, P))]
    try:
        L = lib_point(curve, P)
        got = [norm_lib(curve, L * k), norm_lib(curve, L + L)]
    except ValueError as ex:
        got = 'raises ValueError: %s' % ex
    return exp, got


_SO = {}


def small_order_generator(curve):
    """a point of maximal small order (8 on Ed25519, 4 on Ed448), found with the reference arithmetic only"""
    from spec import ref_ec
    if curve in _SO:
        return _SO[curve]
    c = _curve(curve)
    p = c.p
    want = 8 if curve == 'Ed25519' else 4
    y = 2
    while True:
        y += 1
        if curve == 'Ed25519':
            x2 = (y * y - 1) * pow(c.d * y * y + 1, -1, p) % p
        else:
            x2 = (1 - y * y) * pow(1 - c.d * y * y, -1, p) % p
        x = ref_ec.sqrt_mod(x2, p)
        if x is None:
            continue
        T = ref_ec.scalar_mult(c, c.order, (x, y))
        Q, o = T, 1
        while Q != c.neutral:
            Q = c.add(Q, T)
            o += 1
        if o == want:
            _SO[curve] = T
            return T


def k_x(curve, k, u):
    """X25519/X448 through Crypto.Protocol.DH == RFC 7748 function; an all-zero shared secret (low-order input) is refused with ValueError"""
    from spec import ref_ec
    from Crypto.Protocol import DH
    if curve == 'Curve25519':
        z = ref_ec.x25519(k, u)
        ipub, ipriv = DH.import_x25519_public_key, DH.import_x25519_private_key
    else:
        z = ref_ec.x448(k, u)
        ipub, ipriv = DH.import_x448_public_key, DH.import_x448_private_key
    exp = 'raises ValueError' if not any(z) else z
    try:
        got = DH.key_agreement(static_priv=ipriv(k), static_pub=ipub(u), kdf=lambda x: bytes(x))
    except ValueError:
        got = 'raises ValueError'
    return exp, got


def k_x_public(curve, k):
    """public key derived from a private key == X(k, base point)"""
    from spec import ref_ec
    from Crypto.Protocol import DH
    if curve == 'Curve25519':
        exp = ref_ec.x25519(k, (9).to_bytes(32, 'little'))
        key = DH.import_x25519_private_key(k)
    else:
        exp = ref_ec.x448(k, (5).to_bytes(56, 'little'))
        key = DH.import_x448_private_key(k)
    return exp, key.public_key().export_key(format='raw')


def k_ecdh(curve, d1, d2):
    """NIST curves: both parties derive x([d1*d2]G) encoded big-endian at the field size (SP 800-56A)"""
    from spec import ref_ec
    from Crypto.PublicKey import ECC
    from Crypto.Protocol import DH
    c = _curve(curve)
    S = ref_ec.scalar_mult(c, d1 * d2 % c.order, c.G)
    exp = S[0].to_bytes((c.bits + 7) // 8, 'big')
    k1, k2 = ECC.construct(curve=curve, d=d1), ECC.construct(curve=curve, d=d2)
    a = DH.key_agreement(static_priv=k1, static_pub=k2.public_key(), kdf=lambda x: bytes(x))
    b = DH.key_agreement(static_priv=k2, static_pub=k1.public_key(), kdf=lambda x: bytes(x))
    return [exp, exp], [a, b]


KINDS = {'scalar': k_scalar, 'group': k_group, 'small_order': k_small_order, 'x': k_x, 'x_public': k_x_public, 'ecdh': k_ecdh}


def _js(tier, bits):
    if tier != 'quick':
        return list(range(0, 641))
    s = set(range(0, 9)) | {bits - 2, bits - 1, bits, bits + 1, bits + 2, 639, 640}
    for b in (16, 32, 64, 128, 192, 224, 256, 320, 384, 448, 512, 521, 576):
        s |= {b - 1, b, b + 1}
    return sorted(x for x in s if 0 <= x <= 640)


def scalars(rnd, tier, c):
    n = c.order
    ks = [0, 1, 2, 3, n - 2, n - 1, n, n + 1, n + 2, 2 * n - 1, 2 * n, 2 * n + 1, (n - 1) // 2, (n + 1) // 2]
    for j in _js(tier, c.bits):
        ks += [1 << j, (1 << j) - 1, (1 << j) + 1]
    for _ in range(24 if tier == 'quick' else 400):
        ks.append(int.from_bytes(rnd.randbytes(rnd.randint(1, 80)), 'big'))
    for nb in (1, 2, 79, 80):
        ks.append(int.from_bytes(b'\xff' * nb, 'big'))
    return ks


def t_scalar(rec, rnd, tier, curve, part, parts):
    from spec import ref_ec
    c = _curve(curve)
    cid = rec.declare('%s.scalar_mult_eq_group_law' % curve, '%s: P * k (also k * P and P *= k) == [k]P computed by affine double-and-add over Python ints; P unchanged' % curve,
                      'k in {0,1,2,3,order-2..order+2,2*order-1..2*order+1,(order+-1)/2, 2^j and 2^j+-1 for j in %s, %d random of 1..80 bytes, 0xff..ff of 1,2,79,80 bytes}; P in {G, %d random multiples of G, neutral}'
                      % ('0..640' if tier != 'quick' else 'limb/window boundaries up to 640 (%d values)' % len(_js(tier, c.bits)), 24 if tier == 'quick' else 400, 2 if tier == 'quick' else 5), TARGET[curve])
    sub = __import__('random').Random('ec:%s:%s' % (curve, rnd.random()))
    pts = ['G', 'neutral']
    prnd = __import__('random').Random('ecpts:%s' % curve)
    for _ in range(2 if tier == 'quick' else 5):
        Q = ref_ec.scalar_mult(c, prnd.randrange(1, c.order), c.G)
        pts.append(norm_ref(curve, Q))
    ks = scalars(__import__('random').Random('ecks:%s:%s' % (curve, tier)), tier, c)
    i = 0
    for pt in pts:
        for k in ks:
            i += 1
            if i % parts != part:
                continue
            rec.case(cid, 'scalar', curve=curve, point=pt, k=k, form=('mul', 'mul', 'rmul', 'imul')[i % 4])


def t_group(rec, rnd, tier):
    from spec import ref_ec
    for curve in LIBNAME:
        c = _curve(curve)
        if c.kind == 'montgomery':
            continue
        cid = rec.declare('%s.add_double_neg_eq_group_law' % curve, '%s: P + Q, P += Q, P.double(), -P and P == Q follow the affine group law, incl. P + P, P + (-P) and the neutral element' % curve,
                          'all ordered pairs from {G, -G, 2G, Q1, -Q1, Q2, Q1+Q2, neutral, (order-1)G}' + ('; small-order points: all [i]T, k in 0..9' if c.kind == 'edwards' else ''), TARGET[curve].replace('scalar', 'add/double'))
        prnd = __import__('random').Random('ecpts:%s' % curve)
        Q1 = ref_ec.scalar_mult(c, prnd.randrange(1, c.order), c.G)
        Q2 = ref_ec.scalar_mult(c, prnd.randrange(1, c.order), c.G)
        pts = [c.G, c.neg(c.G), c.add(c.G, c.G), Q1, c.neg(Q1), Q2, c.add(Q1, Q2), c.neutral, ref_ec.scalar_mult(c, c.order - 1, c.G)]
        for P in pts:
            for Q in pts:
                rec.case(cid, 'group', curve=curve, p=norm_ref(curve, P), q=norm_ref(curve, Q))
        if c.kind == 'edwards':
            so = rec.declare('%s.small_order_points' % curve, '%s: the points of small order can be instantiated and [k]T, T + T follow the group law' % curve,
                             'T_i = [i]T for i in 0..%d (T of order %d), k in 0..9' % ((7, 8) if curve == 'Ed25519' else (3, 4)), TARGET[curve].replace('scalar', 'new_point/add'))
            for idx in range(8 if curve == 'Ed25519' else 4):
                for k in range(10):
                    rec.case(so, 'small_order', curve=curve, idx=idx, k=k)


RFC7748_VECTORS = [
    ('Curve25519', 'a546e36bf0527c9d3b16154b82465edd62144c0ac1fc5a18506a2244ba449ac4', 'e6db6867583030db3594c1a424b15f7c726624ec26b3353b10a903a6d0ab1c4c'),
    ('Curve25519', '4b66e9d4d1b4673c5ad22691957d6af5c11b6421e0ea01d42ca4169e7918ba0d', 'e5210f12786811d3f4b7959d0538ae2c31dbe7106fc03c3efc4cd549c715a493'),
    ('Curve25519', '77076d0a7318a57d3c16c17251b26645df4c2f87ebc0992ab177fba51db92c2a', 'de9edb7d7b7dc1b4d35b61c2ece435373f8343c85b78674dadfc7e146f882b4f'),
    ('Curve448', '3d262fddf9ec8e88495266fea19a34d28882acef045104d0d1aae121700a779c984c24f8cdd78fbff44943eba368f54b29259a4f1c600ad3',
     '06fce640fa3487bfda5f6cf2d5263f8aad88334cbd07437f020f08f9814dc031ddbdc38c19c6da2583fa5429db94ada18aa7a7fb4ef8a086'),
    ('Curve448', '203d494428b8399352665ddca42f9de8fef600908e0d461cb021f8c538345dd77c3e4806e25f46d3315c44e0a5b4371282dd2c8d5be3095f',
     '0fbcc2f993cd56d3305b0b7d9e55d4c1a8fb5dbb52f8e9a1e9b6201b165d015894e56c4d3570bee52fe205e28a78b91cdfbde71ce8d157db'),
]


def t_x(rec, rnd, tier, curve, part=0, parts=1):
    from spec import ref_ec
    c = _curve(curve)
    nb = 32 if curve == 'Curve25519' else 56
    n = (300 if tier == 'quick' else 5000) // parts
    cid = rec.declare('%s.X_eq_rfc7748' % curve, 'key_agreement with X%s keys == RFC 7748 X%s(k, u); all-zero result (low-order u) raises ValueError' % (curve[5:], curve[5:]),
                      'RFC 7748 test vectors (5.2, 6.1/6.2 Diffie-Hellman, first iterated step); %d random (k, u) per part with u the u-coordinate of a random curve point and as many with u an arbitrary byte string (curve or twist); u with the top bit set / non-canonical u in [p, 2^%d); k all-zero, all-ones; all low-order u (0, 1, p-1, order-8 points, p, p+1 where representable)' % (n, 8 * nb),
                      TARGET[curve])
    pub = rec.declare('%s.public_from_private' % curve, 'public key of a private key == X(k, base point)', '%d random k + all-zero + all-ones' % (n // 3), TARGET[curve])
    for cv, k, u in RFC7748_VECTORS:
        if cv == curve:
            rec.case(cid, 'x', curve=curve, k=bytes.fromhex(k), u=bytes.fromhex(u))
    rec.case(cid, 'x', curve=curve, k=(9 if nb == 32 else 5).to_bytes(nb, 'little'), u=(9 if nb == 32 else 5).to_bytes(nb, 'little'))
    for i in range(n):
        k = rnd.randbytes(nb) if i > 1 else bytes([255 * i]) * nb
        Q = ref_ec.scalar_mult(c, rnd.randrange(1, c.order), c.G)
        u = Q[0]
        rec.case(cid, 'x', curve=curve, k=k, u=u.to_bytes(nb, 'little'))
        rec.case(cid, 'x', curve=curve, k=k, u=rnd.randbytes(nb))                  # arbitrary string: half of them on the twist, some >= p
        if i % 3 == 0:
            rec.case(pub, 'x_public', curve=curve, k=k)
        if nb == 32 and i % 4 == 0:
            rec.case(cid, 'x', curve=curve, k=k, u=(u | (1 << 255)).to_bytes(32, 'little'))           # bit 255 must be ignored
        if nb == 32 and u < 19 and i % 4 == 1:
            rec.case(cid, 'x', curve=curve, k=k, u=(u + c.p).to_bytes(32, 'little'))
    if part:
        return
    lo = ref_ec.low_order_u(c)
    for u in lo + [c.p, c.p + 1] + [x + c.p for x in lo if x + c.p < (1 << (8 * nb))]:
        if u < (1 << (8 * nb)):
            for k in (rnd.randbytes(nb), bytes(nb), b'\xff' * nb):
                rec.case(cid, 'x', curve=curve, k=k, u=u.to_bytes(nb, 'little'))
                if nb == 32 and u < (1 << 255):
                    rec.case(cid, 'x', curve=curve, k=k, u=(u | (1 << 255)).to_bytes(nb, 'little'))


def t_ecdh(rec, rnd, tier):
    for curve in ('P-192', 'P-224', 'P-256', 'P-384', 'P-521'):
        c = _curve(curve)
        cid = rec.declare('%s.ecdh_eq_spec' % curve, 'ECDH: both parties obtain x([d1 d2]G) as a fixed-length big-endian string (SP 800-56A 5.7.1.2)',
                          '%d random private key pairs + d in {1, 2, order-1}' % (20 if tier == 'quick' else 300), 'lib/Crypto/Protocol/DH.py:_compute_ecdh + ' + TARGET[curve])
        for i in range(20 if tier == 'quick' else 300):
            rec.case(cid, 'ecdh', curve=curve, d1=rnd.randrange(1, c.order), d2=rnd.randrange(1, c.order))
        for d1 in (1, 2, c.order - 1):
            rec.case(cid, 'ecdh', curve=curve, d1=d1, d2=rnd.randrange(1, c.order))


def tasks(tier, seed):
    out = []
    for curve in LIBNAME:
        parts = {'P-521': 6, 'P-384': 4, 'Ed448': 5, 'Curve448': 4}.get(curve, 3)
        if tier != 'quick':
            parts *= 3
        for p in range(parts):
            out.append(('scalar.%s.%d' % (curve, p), 't_scalar', dict(curve=curve, part=p, parts=parts)))
    out.append(('group', 't_group', {}))
    for p in range(3):
        out.append(('x.Curve25519.%d' % p, 't_x', dict(curve='Curve25519', part=p, parts=3)))
    for p in range(5):
        out.append(('x.Curve448.%d' % p, 't_x', dict(curve='Curve448', part=p, parts=5)))
    out.append(('ecdh', 't_ecdh', {}))
    return out


def run(tier='quick', seed=None, src_dir=None, only=None):
    return _common.run('bounded.ec', tier, seed, src_dir, only)


if __name__ == '__main__':
    sys.exit(_common.main('bounded.ec'))
