"""Area 3 -- hashes, XOFs and MACs of Crypto.Hash against hashlib/hmac (OpenSSL) or spec.ref_* (C03/C09 'bounded').

For each algorithm: every message length 0..3*block+2 (K12 additionally 8180..8200, 16383..16386, 24575..24578),
digest / output lengths over the documented range (XOFs up to 600 bytes and one 10000), keys 0..2*block+1 (HMAC;
BLAKE2 0..max; KMAC from the 16/32-byte minimum), customisation strings of length 0,1,255,256,300; update() segmentation
(all two-way cuts of every tested length, three-way cuts at block-boundary positions; BLAKE2 and Poly1305: all two- and
three-way cuts for lengths <= 4*block+3 quick: <= 67 and boundary positions); read() segmentation; copy(); MAC verify()
accepts the tag and refuses a modified one."""
import functools
import hashlib
import hmac as pyhmac
import sys

from . import _common

AREA = 'hash'
MODULES = None      # rebuild every extension module of setup.py (about 3 s): nothing stale can be reached indirectly


def det(tag, n):
    return hashlib.shake_128(repr(tag).encode()).digest(n) if n else b''


def msg_of(n, salt):
    if salt == -1:
        return bytes(n)
    if salt == -2:
        return b'\xff' * n
    return det(('m', salt), n)


def _hmod(name):
    return __import__('Crypto.Hash.' + name, fromlist=['new'])


# name -> (block size for the length sweep, library constructor(params), oracle(msg, params, outlen), kind)
def _plain(libname, oracle, block, target, **newkw):
    return {'block': block, 'new': lambda p: _hmod(libname).new(**newkw), 'oracle': lambda m, p, n=None: oracle(m), 'kind': 'hash', 'target': target,
            'copy': True}


def _hl(name):
    def f(m):
        try:
            return hashlib.new(name, m).digest()
        except ValueError:
            from spec import ref_openssl, ref_legacy
            if name == 'ripemd160':
                return ref_legacy.ripemd160(m)
            return ref_openssl.digest(name.upper(), m)
    return f


def _ref_legacy(fn):
    def f(m):
        from spec import ref_legacy
        return getattr(ref_legacy, fn)(m)
    return f


def _rk(fn, *a):
    def f(m, p, n=None):
        from spec import ref_keccak
        return getattr(ref_keccak, fn)(*a, m) if n is None else getattr(ref_keccak, fn)(*a, m, n)
    return f


ALGOS = {
    'MD2': _plain('MD2', _ref_legacy('md2'), 16, 'src/MD2.c'),
    'MD4': _plain('MD4', _ref_legacy('md4'), 64, 'src/MD4.c'),
    'MD5': _plain('MD5', _hl('md5'), 64, 'src/MD5.c'),
    'SHA1': _plain('SHA1', _hl('sha1'), 64, 'src/SHA1.c'),
    'SHA224': _plain('SHA224', _hl('sha224'), 64, 'src/SHA224.c (hash_SHA2_template.c)'),
    'SHA256': _plain('SHA256', _hl('sha256'), 64, 'src/SHA256.c (hash_SHA2_template.c)'),
    'SHA384': _plain('SHA384', _hl('sha384'), 128, 'src/SHA384.c (hash_SHA2_template.c)'),
    'SHA512': _plain('SHA512', _hl('sha512'), 128, 'src/SHA512.c (hash_SHA2_template.c)'),
    'SHA512-224': _plain('SHA512', _hl('sha512_224'), 128, 'src/SHA512.c (truncated IV)', truncate='224'),
    'SHA512-256': _plain('SHA512', _hl('sha512_256'), 128, 'src/SHA512.c (truncated IV)', truncate='256'),
    'RIPEMD160': _plain('RIPEMD160', _hl('ripemd160'), 64, 'src/RIPEMD160.c'),
    'SHA3_224': _plain('SHA3_224', _hl('sha3_224'), 144, 'src/keccak.c'),
    'SHA3_256': _plain('SHA3_256', _hl('sha3_256'), 136, 'src/keccak.c'),
    'SHA3_384': _plain('SHA3_384', _hl('sha3_384'), 104, 'src/keccak.c'),
    'SHA3_512': _plain('SHA3_512', _hl('sha3_512'), 72, 'src/keccak.c'),
}
for _bits, _rate in ((224, 144), (256, 136), (384, 104), (512, 72)):
    ALGOS['keccak%d' % _bits] = {'block': _rate, 'new': (lambda b: lambda p: _hmod('keccak').new(digest_bits=b))(_bits), 'oracle': _rk('keccak_legacy', _bits),
                                 'kind': 'hash', 'target': 'src/keccak.c (padding 0x01)', 'copy': False}
for _b, _rate in ((128, 168), (256, 136)):
    ALGOS['SHAKE%d' % _b] = {'block': _rate, 'new': (lambda b: lambda p: _hmod('SHAKE%d' % b).new())(_b),
                             'oracle': (lambda b: lambda m, p, n: getattr(hashlib, 'shake_%d' % b)(m).digest(n))(_b), 'kind': 'xof', 'target': 'src/keccak.c:keccak_squeeze', 'copy': True}
    ALGOS['cSHAKE%d' % _b] = {'block': _rate, 'new': (lambda b: lambda p: _hmod('cSHAKE%d' % b).new(custom=p.get('custom')))(_b),
                              'oracle': (lambda b: lambda m, p, n: __import__('spec.ref_keccak', fromlist=['x']).cshake(b, m, n, b'', p.get('custom') or b''))(_b),
                              'kind': 'xof', 'target': 'lib/Crypto/Hash/cSHAKE128.py + src/keccak.c', 'copy': False, 'custom': True}
    ALGOS['TurboSHAKE%d' % _b] = {'block': _rate, 'new': (lambda b: lambda p: _hmod('TurboSHAKE%d' % b).new(domain=p.get('domain', 0x1F)))(_b),
                                  'oracle': (lambda b: lambda m, p, n: __import__('spec.ref_keccak', fromlist=['x']).turboshake(b, m, n, p.get('domain', 0x1F)))(_b),
                                  'kind': 'xof', 'target': 'lib/Crypto/Hash/TurboSHAKE128.py + src/keccak.c (12 rounds)', 'copy': False}
    ALGOS['KMAC%d' % _b] = {'block': _rate, 'new': (lambda b: lambda p: _hmod('KMAC%d' % b).new(key=p['key'], mac_len=p.get('mac_len', 64), custom=p.get('custom', b'')))(_b),
                            'oracle': (lambda b: lambda m, p, n=None: __import__('spec.ref_keccak', fromlist=['x']).kmac(b, p['key'], m, p.get('mac_len', 64), p.get('custom', b'')))(_b),
                            'kind': 'mac', 'target': 'lib/Crypto/Hash/KMAC128.py', 'copy': False, 'custom': True}
ALGOS['KangarooTwelve'] = {'block': 168, 'new': lambda p: _hmod('KangarooTwelve').new(custom=p.get('custom')),
                           'oracle': lambda m, p, n: __import__('spec.ref_keccak', fromlist=['x']).kangarootwelve(m, p.get('custom') or b'', n),
                           'kind': 'xof', 'target': 'lib/Crypto/Hash/KangarooTwelve.py', 'copy': False, 'custom': True}
for _n, _max, _blk in (('BLAKE2b', 64, 128), ('BLAKE2s', 32, 64)):
    ALGOS[_n] = {'block': _blk, 'new': (lambda n, mx: lambda p: _hmod(n).new(digest_bytes=p.get('digest_bytes', mx), **({'key': p['key']} if p.get('key') else {})))(_n, _max),
                 'oracle': (lambda n, mx: lambda m, p, nn=None: getattr(hashlib, n.lower())(m, digest_size=p.get('digest_bytes', mx), key=p.get('key') or b'').digest())(_n, _max),
                 'kind': 'hash', 'target': 'src/blake2.c (%s)' % _n, 'copy': False, 'maxd': _max}


def _hmac_oracle(hname):
    def f(m, p, n=None):
        key = p['key']
        try:
            return pyhmac.new(key, m, {'SHA512-224': 'sha512_224', 'SHA512-256': 'sha512_256'}.get(hname, hname.lower())).digest()
        except ValueError:      # MD2 / MD4: HMAC from its definition (RFC 2104) over the reference hash
            a = ALGOS[hname]
            blk = {'MD2': 16, 'MD4': 64}[hname]
            h = lambda x: a['oracle'](x, {})      # noqa
            if len(key) > blk:
                key = h(key)
            key = key + bytes(blk - len(key))
            return h(bytes(b ^ 0x5c for b in key) + h(bytes(b ^ 0x36 for b in key) + m))
    return f


def _hmac_new(hname):
    def f(p):
        from Crypto.Hash import HMAC
        a = ALGOS[hname]
        digestmod = a['new']({})          # a hash object works as digestmod (it has .new())
        return HMAC.new(p['key'], digestmod=digestmod)
    return f


for _h in ('MD2', 'MD4', 'MD5', 'SHA1', 'SHA224', 'SHA256', 'SHA384', 'SHA512', 'SHA512-224', 'SHA512-256', 'RIPEMD160', 'SHA3_224', 'SHA3_256', 'SHA3_384', 'SHA3_512'):
    ALGOS['HMAC-' + _h] = {'block': ALGOS[_h]['block'], 'new': _hmac_new(_h), 'oracle': _hmac_oracle(_h), 'kind': 'mac', 'target': 'lib/Crypto/Hash/HMAC.py over ' + _h,
                           'copy': True, 'keyed': True}


def _cmac_new(cipher):
    def f(p):
        from Crypto.Hash import CMAC
        m = __import__('Crypto.Cipher.' + cipher, fromlist=['new'])
        return CMAC.new(p['key'], ciphermod=m, mac_len=p.get('mac_len'))
    return f


def _cmac_oracle(cipher):
    def f(m, p, n=None):
        from spec import ref_mac
        from . import modes
        E = modes._prim(cipher, p['key'], p.get('prim', 'lib'))
        t = ref_mac.cmac(E.encrypt_block, E.block_size, m)
        return t[:p['mac_len']] if p.get('mac_len') else t
    return f


for _c in ('AES', 'DES3'):
    ALGOS['CMAC-' + _c] = {'block': 16 if _c == 'AES' else 8, 'new': _cmac_new(_c), 'oracle': _cmac_oracle(_c), 'kind': 'mac', 'target': 'lib/Crypto/Hash/CMAC.py over ' + _c,
                           'copy': True, 'keyed': True}


def _poly_new(cipher):
    def f(p):
        from Crypto.Hash import Poly1305
        m = __import__('Crypto.Cipher.' + cipher, fromlist=['new'])
        return Poly1305.new(key=p['key'], cipher=m, nonce=p['nonce'])
    return f


def _poly_oracle(cipher):
    def f(m, p, n=None):
        from spec import ref_mac, ref_aes, ref_chacha
        key, nonce = p['key'], p['nonce']
        if cipher == 'AES':
            r, s = key[16:], ref_aes.AES(key[:16]).encrypt_block(nonce)        # Poly1305-AES (Bernstein 2005): key = k || r, s = AES_k(n)
        else:
            rs = ref_chacha.chacha20_keystream(key, nonce if len(nonce) != 8 else nonce, 32, 0)       # RFC 8439 2.6
            r, s = rs[:16], rs[16:]
        return ref_mac.poly1305(r + s, m)
    return f


for _c in ('AES', 'ChaCha20'):
    ALGOS['Poly1305-' + _c] = {'block': 16, 'new': _poly_new(_c), 'oracle': _poly_oracle(_c), 'kind': 'mac', 'target': 'src/poly1305.c (key pair derived with %s)' % _c,
                               'copy': False, 'keyed': True}


def _pkey(params):
    return tuple(sorted((k, (('hex', v.hex()),) if isinstance(v, bytes) else v) for k, v in (params or {}).items()))


def _params_from_key(pkey):
    out = {}
    for k, v in pkey:
        out[k] = bytes.fromhex(v[0][1]) if isinstance(v, tuple) else v
    return out


@functools.lru_cache(maxsize=8192)
def _exp(algo, n, salt, pkey, outlen):
    a = ALGOS[algo]
    p = _params_from_key(pkey)
    m = msg_of(n, salt)
    return a['oracle'](m, p, outlen) if a['kind'] == 'xof' else a['oracle'](m, p)


def _out(a, h, outlen):
    return h.read(outlen) if a['kind'] == 'xof' else h.digest()


def k_hash(algo, n, salt=0, params=None, outlen=32, cuts=(), reads=()):
    """digest/read of the message (fed in pieces cut at `cuts`, read in pieces cut at `reads`) == oracle; MACs: verify() accepts
    the tag and refuses it with one bit flipped"""
    a = ALGOS[algo]
    params = params or {}
    exp = _exp(algo, n, salt, _pkey(params), outlen if a['kind'] == 'xof' else None)
    m = msg_of(n, salt)
    h = a['new'](params)
    pos = [0] + list(cuts) + [n]
    for x, y in zip(pos, pos[1:]):
        h.update(m[x:y])
    if a['kind'] == 'xof' and reads:
        rp = [0] + list(reads) + [outlen]
        got = b''.join(h.read(y - x) for x, y in zip(rp, rp[1:]))
    else:
        got = _out(a, h, outlen)
    if a['kind'] == 'mac' and not cuts:
        v = a['new'](params)
        v.update(m)
        try:
            v.verify(exp)
            ok = 'ok'
        except ValueError:
            ok = 'raises ValueError'
        w = a['new'](params)
        w.update(m)
        bad = bytearray(exp)
        bad[n % len(bad)] ^= 1 << (n % 8)
        try:
            w.verify(bytes(bad))
            rej = 'accepted'
        except ValueError:
            rej = 'raises ValueError'
        return (exp, 'ok', 'raises ValueError'), (got, ok, rej)
    return exp, got


def k_copy(algo, n, cut, salt=0, params=None, outlen=32):
    """h.update(a); g = h.copy(); g.update(b); h.update(c): g == H(a||b), h == H(a||c); both objects stay independent"""
    a = ALGOS[algo]
    params = params or {}
    m = msg_of(n, salt)
    other = msg_of(n - cut, salt + 1000003)
    h = a['new'](params)
    h.update(m[:cut])
    g = h.copy()
    g.update(m[cut:])
    h.update(other)
    ol = outlen if a['kind'] == 'xof' else None
    e1 = a['oracle'](m, params, ol) if ol else a['oracle'](m, params)
    e2 = a['oracle'](m[:cut] + other, params, ol) if ol else a['oracle'](m[:cut] + other, params)
    return (e1, e2), (_out(a, g, outlen), _out(a, h, outlen))


def k_copy_squeezing(algo, n, r1, r2, salt=0):
    """XOF: x.read(r1); y = x.copy(); both continue the same stream"""
    a = ALGOS[algo]
    m = msg_of(n, salt)
    exp = a['oracle'](m, {}, r1 + r2)
    x = a['new']({})
    x.update(m)
    first = x.read(r1)
    y = x.copy()
    return (exp, exp), (first + y.read(r2), first + x.read(r2))


def k_tuplehash(bits, lens, digest_bytes, custom, split):
    """TupleHash over the tuple of deterministic strings of the given lengths; update(*items) in one or several calls"""
    from spec import ref_keccak
    items = [det(('t', i, ln), ln) for i, ln in enumerate(lens)]
    exp = ref_keccak.tuplehash(bits, items, digest_bytes, custom)
    h = _hmod('TupleHash%d' % bits).new(digest_bytes=digest_bytes, custom=custom)
    if split:
        for it in items:
            h.update(it)
    else:
        h.update(*items)
    return exp, h.digest()


def k_refuse(algo, params, exc):
    """parameter outside the documented domain is refused with the documented exception"""
    try:
        ALGOS[algo]['new'](params)
        return exc, 'accepted'
    except (ValueError, TypeError) as ex:
        return exc, type(ex).__name__


KINDS = {'hash': k_hash, 'copy': k_copy, 'copy_squeezing': k_copy_squeezing, 'tuplehash': k_tuplehash, 'refuse': k_refuse}


def _special(block, n):
    s = set()
    for k in range(0, n // block + 2):
        for d in (-1, 0, 1):
            v = k * block + d
            if 0 <= v <= n:
                s.add(v)
    s |= {0, 1, n - 1 if n else 0, n}
    return sorted(s)


def _base_params(algo, rnd):
    a = ALGOS[algo]
    if algo.startswith('KMAC'):
        return {'key': det(('k', algo), 40)}
    if algo.startswith('HMAC'):
        return {'key': det(('k', algo), 20)}
    if algo.startswith('CMAC'):
        k = det(('k', algo), 16 if 'AES' in algo else 24)
        return {'key': k}
    if algo.startswith('Poly1305'):
        return {'key': det(('k', algo), 32), 'nonce': det(('n', algo), 16 if 'AES' in algo else 12)}
    return {}


def t_sweep(rec, rnd, tier, algo, part=0, parts=1):
    """message-length sweep, update() segmentation, copy()"""
    a = ALGOS[algo]
    blk = a['block']
    maxn = 3 * blk + 2
    base = _base_params(algo, rnd)
    lens = list(range(0, maxn + 1))
    if algo == 'KangarooTwelve':
        lens += list(range(8180, 8201)) + list(range(16383, 16387)) + list(range(24575, 24579))
    nsalt = 1 if tier == 'quick' else 3
    c1 = rec.declare('%s.digest_eq_spec' % algo, '%s(message) == oracle for every message length' % algo,
                     'every length 0..%d%s; contents: %d pseudo-random + all-zero + all-0xff; output length 32 (XOF) / default' % (
                         maxn, ' and 8180..8200, 16383..16386, 24575..24578' if algo == 'KangarooTwelve' else '', nsalt), a['target'])
    c2 = rec.declare('%s.update_segmentation' % algo, '%s: update() in pieces == oracle of the whole message' % algo,
                     'all two-way cuts of every length 0..%d; three-way cuts at positions {k*block-1, k*block, k*block+1, 0, 1, n-1, n}%s' % (
                         maxn, '; K12: all cut offsets 8180..8200 of messages of length 8180..8200 and 16390' if algo == 'KangarooTwelve' else ''), a['target'])
    for n in lens:
        if n % parts != part:
            continue
        for salt in list(range(nsalt)) + [-1, -2]:
            rec.case(c1, 'hash', algo=algo, n=n, salt=salt, params=base)
        if n <= maxn:
            for c in range(0, n + 1):
                rec.case(c2, 'hash', algo=algo, n=n, salt=0, params=base, cuts=(c,))
            sp = _special(blk, n)
            if tier == 'quick' and len(sp) > 8:
                sp = sorted(set(rnd.sample(sp, 8)) | {0, n})
            for i in range(len(sp)):
                for j in range(i, len(sp)):
                    rec.case(c2, 'hash', algo=algo, n=n, salt=0, params=base, cuts=(sp[i], sp[j]))
        elif algo == 'KangarooTwelve' and 8180 <= n <= 8200:
            for c in range(8180, n + 1):
                rec.case(c2, 'hash', algo=algo, n=n, salt=0, params=base, cuts=(c,))
                rec.case(c2, 'hash', algo=algo, n=n, salt=0, params=base, cuts=(rnd.randint(0, c), c))
    if algo == 'KangarooTwelve' and part == 0:
        for c in range(8180, 8201):
            rec.case(c2, 'hash', algo=algo, n=16390, salt=0, params=base, cuts=(c,))
            rec.case(c2, 'hash', algo=algo, n=16390, salt=0, params=base, cuts=(c, c + 8192))
    if a.get('copy') and part == 0:
        c3 = rec.declare('%s.copy' % algo, '%s: h.copy() continues independently: copy.update(b) == H(a||b), original.update(c) == H(a||c)' % algo,
                         'lengths {0,1,block-1,block,block+1,2*block+1,3*block+2} x all cut points of the shorter ones / boundary cut points', a['target'])
        for n in sorted({0, 1, blk - 1, blk, blk + 1, 2 * blk + 1, maxn}):
            for cut in (_special(blk, n) if n > 2 * blk else range(0, n + 1)):
                rec.case(c3, 'copy', algo=algo, n=n, cut=cut, params=base)
        if a['kind'] == 'xof':
            c4 = rec.declare('%s.copy_while_squeezing' % algo, '%s: copy() taken after read() continues the same output stream in both objects' % algo,
                             'message lengths {0,1,block,200} x first read {1,block-1,block,block+1} x second read {1,block,300}', a['target'])
            for n in (0, 1, blk, 200):
                for r1 in (1, blk - 1, blk, blk + 1):
                    for r2 in (1, blk, 300):
                        rec.case(c4, 'copy_squeezing', algo=algo, n=n, r1=r1, r2=r2)


def t_params(rec, rnd, tier, algo):
    """output lengths, keys, customisation strings, domains, read() segmentation"""
    a = ALGOS[algo]
    blk = a['block']
    base = _base_params(algo, rnd)
    mlens = [0, 1, blk - 1, blk, blk + 1, 200]
    if a['kind'] == 'xof':
        c = rec.declare('%s.output_lengths' % algo, '%s: read(n) == first n bytes of the oracle output, for every n, also when read in pieces' % algo,
                        'every output length 1..600 and 10000 (message lengths {0,1,block-1,block,block+1,200} cycling); read() split at every offset for total 2*rate+5; two- and three-way read splits at rate boundaries', a['target'])
        for ol in list(range(1, 601)) + [10000]:
            rec.case(c, 'hash', algo=algo, n=mlens[ol % len(mlens)], params=base, outlen=ol)
        tot = 2 * blk + 5
        for r in range(0, tot + 1):
            rec.case(c, 'hash', algo=algo, n=33, params=base, outlen=tot, reads=(r,))
        sp = _special(blk, tot)
        for i in range(len(sp)):
            for j in range(i, len(sp)):
                rec.case(c, 'hash', algo=algo, n=blk + 1, params=base, outlen=tot, reads=(sp[i], sp[j]))
    if a.get('custom'):
        c = rec.declare('%s.customisation' % algo, '%s with customisation string S == oracle' % algo,
                        'len(S) in {0,1,255,256,300%s} x message lengths {0,1,block-1,block,block+1,200}%s' % (
                            ',8191,8192,8193' if algo == 'KangarooTwelve' else '', '; K12: message + custom crossing 8192 and 16384' if algo == 'KangarooTwelve' else ''), a['target'])
        cl = [0, 1, 255, 256, 300] + ([8191, 8192, 8193] if algo == 'KangarooTwelve' else [])
        for ln in cl:
            for n in mlens:
                p = dict(base, custom=det(('c', ln), ln))
                rec.case(c, 'hash', algo=algo, n=n, params=p, outlen=64)
        if algo == 'KangarooTwelve':
            for tot in (8190, 8191, 8192, 8193, 16383, 16384, 16385):
                for ln in (1, 255, 256, 300, 5000):
                    enc = 2 if ln < 256 else 3
                    for d in (-1, 0, 1):
                        n = tot - ln - enc + d
                        rec.case(c, 'hash', algo=algo, n=n, params={'custom': det(('c', ln), ln)}, outlen=32)
    if algo.startswith('TurboSHAKE'):
        c = rec.declare('%s.domain' % algo, '%s(domain=D) == oracle for every domain byte' % algo, 'D = 0x01..0x7F all x message lengths {0,1,rate-1,rate,rate+1}; D in {0, 0x80, 0xFF} refused with ValueError', a['target'])
        for d in range(1, 0x80):
            for n in (0, 1, blk - 1, blk, blk + 1):
                rec.case(c, 'hash', algo=algo, n=n, params={'domain': d}, outlen=40)
        for d in (0, 0x80, 0xFF):
            rec.case(c, 'refuse', algo=algo, params={'domain': d}, exc='ValueError')
    if algo.startswith('BLAKE2'):
        mx = a['maxd']
        c = rec.declare('%s.digest_and_key_lengths' % algo, '%s(digest_bytes=d, key=k) == hashlib oracle' % algo,
                        'digest_bytes 1..%d all x key lengths {0,1,%d,%d} and key lengths 0..%d all x digest {1,%d}; message lengths {0,1,block-1,block,block+1,200}; digest 0 / %d and key %d refused' % (mx, mx - 1, mx, mx, mx, mx + 1, mx + 1), a['target'])
        for d in range(1, mx + 1):
            for kl in (0, 1, mx - 1, mx):
                for n in mlens:
                    rec.case(c, 'hash', algo=algo, n=n, params={'digest_bytes': d, 'key': det(('k', kl), kl)})
        for kl in range(0, mx + 1):
            for d in (1, mx):
                for n in mlens:
                    rec.case(c, 'hash', algo=algo, n=n, params={'digest_bytes': d, 'key': det(('k', kl), kl)})
        for p in ({'digest_bytes': 0}, {'digest_bytes': mx + 1}, {'key': bytes(mx + 1)}):
            rec.case(c, 'refuse', algo=algo, params=p, exc='ValueError')
        # C09: all two- and three-way cuts
        lim = 4 * blk + 3
        c = rec.declare('%s.segmentation_full' % algo, '%s: update() in pieces == hashlib oracle' % algo,
                        'all two-way cuts for every length 0..%d; all three-way cuts for lengths <= %d; three-way cuts at block-boundary positions above' % (lim, 67 if tier == 'quick' else 259), a['target'])
        for n in range(3 * blk + 3, lim + 1):
            for cut in range(0, n + 1):
                rec.case(c, 'hash', algo=algo, n=n, cuts=(cut,), params={'key': det('k', 7)})
            sp = _special(blk, n)
            for i in range(len(sp)):
                for j in range(i, len(sp)):
                    rec.case(c, 'hash', algo=algo, n=n, cuts=(sp[i], sp[j]), params={'key': det('k', 7)})
        for n in range(0, (67 if tier == 'quick' else 259) + 1):
            for i in range(0, n + 1):
                for j in range(i, n + 1):
                    rec.case(c, 'hash', algo=algo, n=n, cuts=(i, j))
    if algo.startswith('HMAC'):
        c = rec.declare('%s.key_lengths' % algo, '%s(key, msg) == hmac oracle' % algo, 'key lengths 0..2*block+1 all x message lengths {0,1,block-1,block,block+1,200}', a['target'])
        for kl in range(0, 2 * blk + 2):
            for n in mlens:
                rec.case(c, 'hash', algo=algo, n=n, params={'key': det(('k', kl), kl)})
    if algo.startswith('KMAC'):
        kmin = 16 if '128' in algo else 32
        c = rec.declare('%s.key_and_mac_lengths' % algo, '%s(key, msg, mac_len, custom) == SP 800-185 oracle' % algo,
                        'key lengths %d..2*rate+1 all; mac_len {8,9,16,31,32,33,64,rate-1,rate,rate+1,200,2*rate,2*rate+1,600}; keys shorter than %d and mac_len < 8 refused (ValueError)' % (kmin, kmin), a['target'])
        for kl in range(kmin, 2 * blk + 2):
            for n in (0, blk + 1):
                rec.case(c, 'hash', algo=algo, n=n, params={'key': det(('k', kl), kl)})
        for ml in (8, 9, 16, 31, 32, 33, 64, blk - 1, blk, blk + 1, 200, 2 * blk, 2 * blk + 1, 600):
            for n in mlens:
                rec.case(c, 'hash', algo=algo, n=n, params={'key': base['key'], 'mac_len': ml, 'custom': det('cc', n)})
        for kl in (0, 1, kmin - 1):
            rec.case(c, 'refuse', algo=algo, params={'key': bytes(kl)}, exc='ValueError')
        rec.case(c, 'refuse', algo=algo, params={'key': bytes(40), 'mac_len': 7}, exc='ValueError')
    if algo.startswith('CMAC'):
        bs = blk
        c = rec.declare('%s.keys_and_mac_lengths' % algo, '%s(key, msg)[:mac_len] == OMAC1 oracle over the library and the reference block primitive' % algo,
                        'key sizes all; mac_len 4..block all; message lengths 0..3*block+2 step 1 (lib primitive) / {0,1,block-1,block,block+1,2*block,40} (reference primitive); random keys', a['target'])
        from . import blockciphers as bcm
        for ks in ((16, 24, 32) if 'AES' in algo else (16, 24)):
            for ml in range(4, bs + 1):
                key = det(('k', ks, ml), ks)
                while not bcm._valid_key('DES3' if 'DES3' in algo else 'AES', key):
                    key = det(('k', ks, ml, 'x'), ks)
                for n in (0, 1, bs - 1, bs, bs + 1, 2 * bs, 40):
                    for prim in ('lib', 'ref'):
                        rec.case(c, 'hash', algo=algo, n=n, params={'key': key, 'mac_len': ml, 'prim': prim})
        rec.case(c, 'refuse', algo=algo, params={'key': bytes(range(16, 16 + (16 if 'AES' in algo else 24))), 'mac_len': 3}, exc='ValueError')
        rec.case(c, 'refuse', algo=algo, params={'key': bytes(range(16, 16 + (16 if 'AES' in algo else 24))), 'mac_len': bs + 1}, exc='ValueError')
    if algo.startswith('Poly1305'):
        c = rec.declare('%s.keys_and_segmentation' % algo, '%s(key, nonce, msg) == Poly1305 oracle (r, s derived per Poly1305-AES / RFC 8439)' % algo,
                        '%d random keys incl. r with all clamped bits set and s = 2^128-1 patterns x message lengths {0,1,15,16,17,31,32,33,64,200}; messages of 0xff bytes (maximal limbs); all two- and three-way cuts for every length 0..67' % (40 if tier == 'quick' else 400), a['target'])
        nl = 16 if 'AES' in algo else 12
        for i in range(40 if tier == 'quick' else 400):
            key = rnd.randbytes(32) if i > 3 else [bytes(32), b'\xff' * 32, b'\xff' * 16 + bytes(16), bytes(16) + b'\xff' * 16][i]
            nonce = rnd.randbytes(nl) if i > 1 else bytes([255 * i]) * nl
            for n in (0, 1, 15, 16, 17, 31, 32, 33, 64, 200):
                for salt in (0, -2):
                    rec.case(c, 'hash', algo=algo, n=n, salt=salt, params={'key': key, 'nonce': nonce})
        if 'ChaCha20' in algo:
            for i in range(10):
                rec.case(c, 'hash', algo=algo, n=33, params={'key': rnd.randbytes(32), 'nonce': rnd.randbytes(8)})
        for n in range(0, 68):
            for i in range(0, n + 1):
                for j in range(i, n + 1):
                    rec.case(c, 'hash', algo=algo, n=n, cuts=(i, j), params=base)


def t_tuplehash(rec, rnd, tier):
    for bits in (128, 256):
        c = rec.declare('TupleHash%d.eq_spec' % bits, 'TupleHash%d(tuple, digest_bytes, custom) == SP 800-185 oracle; update(a, b) == update(a); update(b)' % bits,
                        'tuples of 0..4 strings with lengths from {0,1,167,168,169,300}; digest_bytes {8,9,32,64,135,136,137,200,600}; custom lengths {0,1,255,256,300}; digest_bytes 7 refused',
                        'lib/Crypto/Hash/TupleHash128.py')
        L = [0, 1, 167, 168, 169, 300]
        for k in range(0, 5):
            for rep in range(12 if tier == 'quick' else 100):
                lens = [rnd.choice(L) for _ in range(k)]
                cl = rnd.choice([0, 1, 255, 256, 300])
                rec.case(c, 'tuplehash', bits=bits, lens=lens, digest_bytes=rnd.choice([8, 9, 32, 64, 135, 136, 137, 200, 600]), custom=det(('c', cl), cl), split=bool(rep % 2))


def tasks(tier, seed):
    out = []
    for algo, a in ALGOS.items():
        parts = 2 if a['block'] >= 128 or algo in ('KangarooTwelve',) else 1
        if algo.startswith(('cSHAKE', 'TurboSHAKE', 'KMAC', 'KangarooTwelve', 'keccak', 'MD2')):
            parts = 3
        if algo == 'KangarooTwelve':
            parts = 6
        for p in range(parts):
            out.append(('sweep.%s.%d' % (algo, p), 't_sweep', dict(algo=algo, part=p, parts=parts)))
        if a['kind'] == 'xof' or a.get('custom') or algo.startswith(('BLAKE2', 'HMAC', 'KMAC', 'CMAC', 'Poly1305', 'TurboSHAKE')):
            out.append(('params.%s' % algo, 't_params', dict(algo=algo)))
    out.append(('tuplehash', 't_tuplehash', {}))
    return out


def run(tier='quick', seed=None, src_dir=None, only=None):
    return _common.run('bounded.hashes', tier, seed, src_dir, only)


if __name__ == '__main__':
    sys.exit(_common.main('bounded.hashes'))
