"""Area 4 -- key-derivation functions (C12 'assumed + bounded').

PBKDF2 fast path (C helper pbkdf2_hmac_assist) and generic path vs hashlib.pbkdf2_hmac / spec.ref_kdf.pbkdf2; PBKDF1 vs its
RFC 8018 definition over hashlib; HKDF vs spec.ref_kdf (hmac); scrypt on an (N, r, p) grid vs hashlib.scrypt (OpenSSL)
and spec.ref_kdf.scrypt (pure Python over the Salsa20/8 core); SP800_108_Counter vs spec.ref_kdf; bcrypt vs the published
Openwall crypt_blowfish vectors and vs spec.ref_blowfish.bcrypt (independent EksBlowfish); _bcrypt_encode/_bcrypt_decode
exhaustively on 1- and 2-byte inputs."""
import hashlib
import hmac as pyhmac
import sys

from . import _common

AREA = 'kdf'
MODULES = None      # rebuild every extension module of setup.py (about 3 s): nothing stale can be reached indirectly

HL = {'MD5': 'md5', 'SHA1': 'sha1', 'SHA224': 'sha224', 'SHA256': 'sha256', 'SHA384': 'sha384', 'SHA512': 'sha512', 'RIPEMD160': 'ripemd160',
      'SHA3_256': 'sha3_256', 'SHA3_512': 'sha3_512'}
BLOCK = {'MD5': 64, 'SHA1': 64, 'SHA224': 64, 'SHA256': 64, 'SHA384': 128, 'SHA512': 128, 'RIPEMD160': 64, 'SHA3_256': 136, 'SHA3_512': 72}


def det(tag, n):
    return hashlib.shake_128(repr(tag).encode()).digest(n) if n else b''


def _hmod(name):
    return __import__('Crypto.Hash.' + name, fromlist=['new'])


def k_pbkdf2(hname, plen, slen, count, dklen, path):
    """path: 'module' (hmac_hash_module=..., takes the C fast path where the hash offers it) | 'prf' (generic path with a custom PRF)"""
    from Crypto.Protocol.KDF import PBKDF2
    from Crypto.Hash import HMAC
    from spec import ref_kdf
    pw, salt = det(('p', plen), plen), det(('s', slen), slen)
    try:
        exp = hashlib.pbkdf2_hmac(HL[hname], pw, salt, count, dklen)
    except ValueError:
        exp = ref_kdf.pbkdf2_hmac(HL[hname], pw, salt, count, dklen)
    m = _hmod(hname)
    if path == 'module':
        got = PBKDF2(pw, salt, dklen, count, hmac_hash_module=m)
    else:
        got = PBKDF2(pw, salt, dklen, count, prf=lambda p, s: HMAC.new(p, s, m).digest())
    return exp, got


def k_pbkdf1(hname, plen, count, dklen):
    from Crypto.Protocol.KDF import PBKDF1
    pw, salt = det(('p', plen), plen), det('s8', 8)
    t = pw + salt
    for _ in range(count):
        t = hashlib.new(HL[hname], t).digest() if hname in HL else None
    return t[:dklen], PBKDF1(pw, salt, dklen, count, _hmod(hname))


def k_hkdf(hname, mlen, slen, clen, key_len, num_keys):
    from Crypto.Protocol.KDF import HKDF
    from spec import ref_kdf
    master, salt, ctx = det(('m', mlen), mlen), det(('s', slen), slen), det(('c', clen), clen)
    hlen = hashlib.new(HL[hname]).digest_size
    if key_len * num_keys > 255 * hlen:
        exp = 'ValueError'
    else:
        okm = ref_kdf.hkdf(HL[hname], master, salt, ctx, key_len * num_keys)
        exp = okm if num_keys == 1 else [okm[i * key_len:(i + 1) * key_len] for i in range(num_keys)]
    try:
        got = HKDF(master, key_len, salt, _hmod(hname), num_keys, ctx if clen else None)
        got = list(got) if num_keys > 1 else got
    except ValueError:
        got = 'ValueError'
    return exp, got


def k_scrypt(plen, slen, n, r, p, key_len, num_keys=1, oracle='hashlib'):
    from Crypto.Protocol.KDF import scrypt
    from spec import ref_kdf
    pw, salt = det(('p', plen), plen), det(('s', slen), slen)
    if oracle == 'hashlib':
        okm = hashlib.scrypt(pw, salt=salt, n=n, r=r, p=p, dklen=key_len * num_keys, maxmem=2 ** 30)
    else:
        okm = ref_kdf.scrypt(pw, salt, n, r, p, key_len * num_keys)
    exp = okm if num_keys == 1 else [okm[i * key_len:(i + 1) * key_len] for i in range(num_keys)]
    got = scrypt(pw, salt, key_len, n, r, p, num_keys)
    return exp, (list(got) if num_keys > 1 else got)


def k_scrypt_refuse(n, r, p):
    """RFC 7914: N must be a power of two > 1 ... ; the library documents ValueError for N not a power of 2, N >= 2^32, p > (2^32-1)*32/(128 r)"""
    from Crypto.Protocol.KDF import scrypt
    try:
        scrypt(b'pw', b'salt', 16, n, r, p)
        return 'ValueError', 'accepted'
    except ValueError:
        return 'ValueError', 'ValueError'


def k_sp800_108(prfname, mlen, key_len, num_keys, llen, clen):
    from Crypto.Protocol.KDF import SP800_108_Counter
    from Crypto.Hash import HMAC, CMAC
    from Crypto.Cipher import AES
    from spec import ref_kdf, ref_mac, ref_aes
    master = det(('m', mlen), mlen)
    label = bytes(b or 1 for b in det(('l', llen), llen))
    ctx = bytes(b or 1 for b in det(('c', clen), clen))
    if prfname == 'CMAC-AES':
        prf = lambda k, m: CMAC.new(k, m, AES).digest()                          # noqa
        ref = lambda m: ref_mac.cmac(ref_aes.AES(master).encrypt_block, 16, m)    # noqa
    else:
        hm = _hmod(prfname)
        prf = lambda k, m: HMAC.new(k, m, hm).digest()                           # noqa
        ref = lambda m: pyhmac.new(master, m, HL[prfname]).digest()               # noqa
    okm = ref_kdf.sp800_108_counter(ref, label, ctx, key_len * (num_keys or 1))
    exp = okm if not num_keys or num_keys == 1 else [okm[i * key_len:(i + 1) * key_len] for i in range(num_keys)]
    got = SP800_108_Counter(master, key_len, prf, num_keys, label, ctx)
    return exp, (list(got) if isinstance(got, (list, tuple)) else got)


def k_sp800_108_nul(where):
    """a zero byte in the CONTEXT is refused (ValueError); a zero byte in the LABEL is accepted and the output is the spec stream
    for that label (the library's own test SP800_108_Counter_Tests.test_negative_zeroes fixes this behaviour; the encoding
    Label || 0x00 || Context stays injective because the context is NUL-free)"""
    from Crypto.Protocol.KDF import SP800_108_Counter
    from Crypto.Hash import HMAC, SHA256
    from spec import ref_kdf
    prf = lambda k, m: HMAC.new(k, m, SHA256).digest()        # noqa
    if where == 'label':
        ref = lambda m: pyhmac.new(bytes(32), m, 'sha256').digest()       # noqa
        exp = ref_kdf.sp800_108_counter(ref, b'lab\x00el', b'', 16)
        try:
            return exp, SP800_108_Counter(bytes(32), 16, prf, label=b'lab\x00el')
        except ValueError:
            return exp, 'ValueError'
    try:
        SP800_108_Counter(bytes(32), 16, prf, context=b'con\x00text')
        return 'ValueError', 'accepted'
    except ValueError:
        return 'ValueError', 'ValueError'


B64 = './ABCDEFGHIJKLMNOPQRSTUVWXYZabcdefghijklmnopqrstuvwxyz0123456789'


def b64dec(s):
    v = bits = 0
    out = bytearray()
    for ch in s:
        v = (v << 6) | B64.index(ch)
        bits += 6
        if bits >= 8:
            bits -= 8
            out.append((v >> bits) & 255)
    return bytes(out)


# Openwall crypt_blowfish / John the Ripper test vectors ($2a$)
BCRYPT_VECTORS = [
    (b'U*U', '$2a$05$CCCCCCCCCCCCCCCCCCCCC.E5YPO9kmyuRGyh0XouQYb4YMJKvyOeW'),
    (b'U*U*', '$2a$05$CCCCCCCCCCCCCCCCCCCCC.VGOzA784oUp/Z0DY336zx7pLYAy0lwK'),
    (b'U*U*U', '$2a$05$XXXXXXXXXXXXXXXXXXXXXOAcXxm9kjPGEMsLznoKqmqw7tc8WCx4a'),
    (b'', '$2a$05$CCCCCCCCCCCCCCCCCCCCC.7uG0VCzI2bS7j6ymqJi9CdcdxiRTWNy'),
    (b'0123456789abcdefghijklmnopqrstuvwxyzABCDEFGHIJKLMNOPQRSTUVWXYZ0123456789', '$2a$05$abcdefghijklmnopqrstuu5s2v8.iXieOjg/.AySBTTZIIVFJeBui'),
    (b'\xa3', '$2a$05$/OK.fbVrR/bpIqNJ5ianF.Sa7shbm4.OzKpvFnX1pQLmQW96oUlCq'),
    (b'\xff\xff\xa3', '$2a$05$/OK.fbVrR/bpIqNJ5ianF.CE5elHaaO4EbggVDjb8P19RukzXSM3e'),
]


def k_bcrypt_vector(i):
    from Crypto.Protocol.KDF import bcrypt, bcrypt_check
    pw, h = BCRYPT_VECTORS[i]
    salt = b64dec(h[7:29])[:16]
    got = bcrypt(pw, int(h[4:6]), salt).decode()
    try:
        bcrypt_check(pw, h)
        ok = 'ok'
    except ValueError:
        ok = 'ValueError'
    try:
        bcrypt_check(pw + b'x', h)
        bad = 'accepted'
    except ValueError:
        bad = 'ValueError'
    return (h, 'ok', 'ValueError'), (got, ok, bad)


def k_bcrypt(plen, cost, saltseed):
    from Crypto.Protocol.KDF import bcrypt, bcrypt_check
    from spec import ref_blowfish
    pw = bytes(b or 7 for b in det(('p', plen, saltseed), plen))
    salt = det(('s', saltseed), 16)
    exp = ref_blowfish.bcrypt(pw, salt, cost)
    got = bcrypt(pw, cost, salt).decode()
    try:
        bcrypt_check(pw, exp)
        ok = 'ok'
    except ValueError:
        ok = 'ValueError'
    other = bytes([pw[0] ^ 1 or 2]) + pw[1:] if pw else b'x'
    try:
        bcrypt_check(other, exp)
        bad = 'accepted'
    except ValueError:
        bad = 'ValueError'
    return (exp, 'ok', 'ValueError'), (got, ok, bad)


def k_bcrypt_refuse(what):
    from Crypto.Protocol.KDF import bcrypt
    args = {'pw73': (bytes([65]) * 73, 4, bytes(16)), 'nul': (b'a\x00b', 4, bytes(16)), 'cost3': (b'a', 3, bytes(16)), 'cost32': (b'a', 32, bytes(16)),
            'salt15': (b'a', 4, bytes(15)), 'salt17': (b'a', 4, bytes(17))}[what]
    try:
        bcrypt(*args)
        return 'ValueError', 'accepted'
    except ValueError:
        return 'ValueError', 'ValueError'


def k_bcrypt_b64(data):
    from Crypto.Protocol.KDF import _bcrypt_encode, _bcrypt_decode
    from spec import ref_blowfish
    exp = ref_blowfish.bcrypt_b64(data)
    enc = _bcrypt_encode(data)
    return (exp, data), (enc.decode() if isinstance(enc, bytes) else enc, _bcrypt_decode(enc))


KINDS = {'pbkdf2': k_pbkdf2, 'pbkdf1': k_pbkdf1, 'hkdf': k_hkdf, 'scrypt': k_scrypt, 'scrypt_refuse': k_scrypt_refuse, 'sp800_108': k_sp800_108,
         'sp800_108_nul': k_sp800_108_nul, 'bcrypt_vector': k_bcrypt_vector, 'bcrypt': k_bcrypt, 'bcrypt_refuse': k_bcrypt_refuse, 'bcrypt_b64': k_bcrypt_b64}


def t_pbkdf2(rec, rnd, tier, hname):
    blk = BLOCK[hname]
    hlen = hashlib.new(HL[hname]).digest_size
    fast = hasattr(_hmod(hname), '_pbkdf2_hmac_assist')
    c = rec.declare('PBKDF2-HMAC-%s.eq_spec' % hname, 'PBKDF2(password, salt, dkLen, count, hmac_hash_module=%s) == hashlib.pbkdf2_hmac (%s)' % (hname, 'C fast path pbkdf2_hmac_assist' if fast else 'generic path'),
                    'password lengths 0..2*block+1 all (count 3, dkLen hlen+1); salt lengths {0,1,8,16,100}; counts {1,2,3,10,100,1000}; dkLen {1,hlen-1,hlen,hlen+1,2*hlen,2*hlen+1,5*hlen+3}',
                    'src/hash_SHA2_template.c:pbkdf2_hmac_assist / src/%s.c' % hname if fast else 'lib/Crypto/Protocol/KDF.py:PBKDF2')
    g = rec.declare('PBKDF2-HMAC-%s.generic_prf_path_eq_spec' % hname, 'PBKDF2(..., prf=HMAC-%s lambda) == hashlib.pbkdf2_hmac (generic Python path)' % hname,
                    'password lengths {0,1,block-1,block,block+1,2*block+1}; counts {1,2,10}; dkLen {1,hlen,hlen+1,2*hlen+1}', 'lib/Crypto/Protocol/KDF.py:PBKDF2')
    for pl in range(0, 2 * blk + 2):
        rec.case(c, 'pbkdf2', hname=hname, plen=pl, slen=8, count=3, dklen=hlen + 1, path='module')
    for sl in (0, 1, 8, 16, 100):
        for cnt in (1, 2, 3, 10, 100, 1000):
            for dk in (1, hlen - 1, hlen, hlen + 1, 2 * hlen, 2 * hlen + 1, 5 * hlen + 3):
                if cnt == 1000 and dk > hlen + 1:
                    continue
                rec.case(c, 'pbkdf2', hname=hname, plen=9, slen=sl, count=cnt, dklen=dk, path='module')
    for pl in (0, 1, blk - 1, blk, blk + 1, 2 * blk + 1):
        for cnt in (1, 2, 10):
            for dk in (1, hlen, hlen + 1, 2 * hlen + 1):
                rec.case(g, 'pbkdf2', hname=hname, plen=pl, slen=8, count=cnt, dklen=dk, path='prf')


def t_misc(rec, rnd, tier):
    c = rec.declare('PBKDF1.eq_spec', 'PBKDF1(password, salt, dkLen, count, hash) == first dkLen bytes of H^count(password || salt) (RFC 8018 5.1)',
                    'hashes MD5, SHA1; password lengths {0,1,55,56,64,100}; counts {1,2,1000}; dkLen 1..hlen', 'lib/Crypto/Protocol/KDF.py:PBKDF1')
    for hname in ('MD5', 'SHA1'):
        hlen = hashlib.new(HL[hname]).digest_size
        for pl in (0, 1, 55, 56, 64, 100):
            for cnt in (1, 2, 1000):
                for dk in range(1, hlen + 1):
                    if cnt == 1000 and dk not in (1, hlen):
                        continue
                    rec.case(c, 'pbkdf1', hname=hname, plen=pl, count=cnt, dklen=dk)
    c = rec.declare('HKDF.eq_spec', 'HKDF(master, key_len, salt, hash, num_keys, context) == RFC 5869 output; several keys = consecutive slices; more than 255*HashLen refused with ValueError',
                    'hashes SHA1, SHA256, SHA384, SHA512, SHA3_256; key_len {1,hlen-1,hlen,hlen+1,2*hlen+1,255*hlen-1,255*hlen,255*hlen+1}; num_keys {1,2,3,7} with key_len {1,16,hlen,hlen+1} incl. products beyond the limit; salt lengths {0,1,hlen,block+1}; context lengths {0,1,100}; master lengths {0,1,22,200}', 'lib/Crypto/Protocol/KDF.py:HKDF')
    for hname in ('SHA1', 'SHA256', 'SHA384', 'SHA512', 'SHA3_256'):
        hlen = hashlib.new(HL[hname]).digest_size
        for kl in (1, hlen - 1, hlen, hlen + 1, 2 * hlen + 1, 255 * hlen - 1, 255 * hlen, 255 * hlen + 1):
            for sl in (0, 1, hlen, BLOCK[hname] + 1):
                rec.case(c, 'hkdf', hname=hname, mlen=rnd.choice([0, 1, 22, 200]), slen=sl, clen=rnd.choice([0, 1, 100]), key_len=kl, num_keys=1)
        for nk in (2, 3, 7):
            for kl in (1, 16, hlen, hlen + 1, 37 * hlen):
                rec.case(c, 'hkdf', hname=hname, mlen=22, slen=13, clen=rnd.choice([0, 1, 100]), key_len=kl, num_keys=nk)
    c = rec.declare('SP800_108_Counter.eq_spec', 'SP800_108_Counter == K(i) = PRF(K_I, [i]_32 || Label || 0x00 || Context || [L]_32) concatenated and sliced',
                    'PRFs HMAC-SHA1/SHA256/SHA512 and CMAC-AES; key_len {1,15,16,17,32,33,64,65,200}; num_keys {None,1,2,5}; label/context lengths {0,1,10,100}',
                    'lib/Crypto/Protocol/KDF.py:SP800_108_Counter')
    for prf in ('SHA1', 'SHA256', 'SHA512', 'CMAC-AES'):
        for kl in (1, 15, 16, 17, 32, 33, 64, 65, 200):
            for nk in (None, 1, 2, 5):
                rec.case(c, 'sp800_108', prfname=prf, mlen=16 if prf == 'CMAC-AES' else rnd.choice([1, 16, 32, 100]), key_len=kl, num_keys=nk,
                         llen=rnd.choice([0, 1, 10, 100]), clen=rnd.choice([0, 1, 10, 100]))
    c = rec.declare('SP800_108_Counter.nul_in_context_refused', 'a zero byte in the context is refused with ValueError (it would make the 0x00 separator ambiguous)',
                    '1 case', 'lib/Crypto/Protocol/KDF.py:SP800_108_Counter')
    rec.case(c, 'sp800_108_nul', where='context')
    c = rec.declare('SP800_108_Counter.nul_in_label_accepted', 'a zero byte in the label is accepted (library test test_negative_zeroes) and the output equals the spec stream for that label '
                    '(Label || 0x00 || Context stays injective because the context is NUL-free)', '1 case', 'lib/Crypto/Protocol/KDF.py:SP800_108_Counter')
    rec.case(c, 'sp800_108_nul', where='label')
    c = rec.declare('bcrypt.published_vectors', 'bcrypt(password, cost, salt) == published $2a$ hash; bcrypt_check accepts it and refuses another password',
                    '%d Openwall crypt_blowfish vectors (incl. 72-byte password, 8-bit characters, empty password)' % len(BCRYPT_VECTORS), 'src/blowfish_eks.c + lib/Crypto/Protocol/KDF.py:bcrypt')
    for i in range(len(BCRYPT_VECTORS)):
        rec.case(c, 'bcrypt_vector', i=i)
    c = rec.declare('bcrypt.parameter_domain', 'password > 72 bytes, NUL in password, cost outside 4..31, salt length != 16 are refused with ValueError', '6 cases', 'lib/Crypto/Protocol/KDF.py:bcrypt')
    for w in ('pw73', 'nul', 'cost3', 'cost32', 'salt15', 'salt17'):
        rec.case(c, 'bcrypt_refuse', what=w)


def t_b64(rec, rnd, tier):
    c = rec.declare('bcrypt.b64_eq_spec', '_bcrypt_encode(data) == bcrypt base64 (spec.ref_blowfish) and _bcrypt_decode inverts it', 'all 1-byte and 2-byte inputs (65792), 200 random 16- and 23-byte inputs, lengths 0..24',
                    'lib/Crypto/Protocol/KDF.py:_bcrypt_encode/_bcrypt_decode')
    for a in range(256):
        rec.case(c, 'bcrypt_b64', data=bytes([a]))
    step = 1 if tier != 'quick' else 1
    for v in range(0, 65536, step):
        rec.case(c, 'bcrypt_b64', data=v.to_bytes(2, 'big'))
    for i in range(200):
        rec.case(c, 'bcrypt_b64', data=rnd.randbytes(16 if i % 2 else 23))
    for n in range(1, 25):
        rec.case(c, 'bcrypt_b64', data=rnd.randbytes(n))


def t_bcrypt(rec, rnd, tier, part, parts):
    c = rec.declare('bcrypt.eq_independent_reference', 'bcrypt(password, cost, salt) == spec.ref_blowfish.bcrypt (EksBlowfish over pi-derived tables); bcrypt_check accepts / refuses',
                    'password lengths 0..72 all at cost 4; costs 5..8 on lengths {0,1,8,71,72}; random salts', 'src/blowfish_eks.c + lib/Crypto/Protocol/KDF.py:bcrypt')
    jobs = [(pl, 4) for pl in range(0, 73)] + [(pl, cost) for cost in ((5, 6) if tier == 'quick' else (5, 6, 7, 8)) for pl in (0, 1, 8, 71, 72)]
    for i, (pl, cost) in enumerate(jobs):
        if i % parts == part:
            rec.case(c, 'bcrypt', plen=pl, cost=cost, saltseed=i)


def t_scrypt(rec, rnd, tier, part, parts):
    c = rec.declare('scrypt.eq_hashlib', 'scrypt(password, salt, key_len, N, r, p, num_keys) == hashlib.scrypt (OpenSSL); several keys = consecutive slices',
                    'N in {2,4,8,16,64,256,1024,4096} x r in {1,2,3,8,16} x p in {1,2,3,5} x key_len {1,31,32,33,64,65,100}; password/salt lengths {0,1,16,100}; num_keys {1,2,3}',
                    'src/scrypt.c:scryptROMix + lib/Crypto/Protocol/KDF.py:scrypt')
    d = rec.declare('scrypt.eq_pure_python_reference', 'scrypt == spec.ref_kdf.scrypt (RFC 7914 written out over the Salsa20/8 core)', 'N in {2,4,16,32} x r in {1,2,3} x p in {1,2}', 'src/scrypt.c:scryptROMix')
    e = rec.declare('scrypt.parameter_domain', 'N not a power of two, N = 0, N >= 2^32, p > (2^32-1)*32/(128*r) are refused with ValueError', 'N in {0,3,6,12,1000,2^32,2^33}; (r,p) = (1,2^30), (8, 2^27)', 'lib/Crypto/Protocol/KDF.py:scrypt')
    e1 = rec.declare('scrypt.N_eq_1_refused', 'N = 1 is refused with ValueError (RFC 7914 section 2: "N ... must be larger than 1, a power of 2"; hashlib/OpenSSL refuse it)', '1 case', 'lib/Crypto/Protocol/KDF.py:scrypt')
    i = 0
    for n in (2, 4, 8, 16, 64, 256, 1024, 4096):
        for r in (1, 2, 3, 8, 16):
            for p in (1, 2, 3, 5):
                i += 1
                if i % parts != part:
                    continue
                if n * r * p > (2 ** 17 if tier == 'quick' else 2 ** 19):
                    continue
                for kl in ((1, 31, 32, 33, 64, 65, 100) if n <= 16 else (rnd.choice([1, 31, 32, 33, 64, 65, 100]),)):
                    rec.case(c, 'scrypt', plen=rnd.choice([0, 1, 16, 100]), slen=rnd.choice([0, 1, 16, 100]), n=n, r=r, p=p, key_len=kl, num_keys=rnd.choice([1, 1, 2, 3]))
    if part == 0:
        for n in (2, 4, 16, 32):
            for r in (1, 2, 3):
                for p in (1, 2):
                    rec.case(d, 'scrypt', plen=8, slen=8, n=n, r=r, p=p, key_len=40, num_keys=1, oracle='ref')
        for n in (0, 3, 6, 12, 1000, 2 ** 32, 2 ** 33):
            rec.case(e, 'scrypt_refuse', n=n, r=1, p=1)
        rec.case(e1, 'scrypt_refuse', n=1, r=1, p=1)
        rec.case(e, 'scrypt_refuse', n=2, r=1, p=2 ** 30)
        rec.case(e, 'scrypt_refuse', n=2, r=8, p=2 ** 27)


def tasks(tier, seed):
    out = [('pbkdf2.%s' % h, 't_pbkdf2', dict(hname=h)) for h in HL]
    out.append(('misc', 't_misc', {}))
    out.append(('b64', 't_b64', {}))
    out += [('bcrypt.%d' % i, 't_bcrypt', dict(part=i, parts=6)) for i in range(6)]
    out += [('scrypt.%d' % i, 't_scrypt', dict(part=i, parts=6)) for i in range(6)]
    return out


def run(tier='quick', seed=None, src_dir=None, only=None):
    return _common.run('bounded.kdfs', tier, seed, src_dir, only)


if __name__ == '__main__':
    sys.exit(_common.main('bounded.kdfs'))
