"""Bounded stand-in for C17 (labelled bounded, never counted as proved): the native code of the CURRENT tree, rebuilt with
AddressSanitizer (gcc -fsanitize=address, overlay build of every extension module of setup.py), driven through the public Python
API on a stated, bounded set of calls.

What a case checks (run-time contract `memory_safe`): the call returns or raises a Python exception -- the process is not killed by a
signal, ASan reports no invalid read/write/free (heap, stack, global redzones; use after free), and the canary bytes in front of every
output window are unchanged.  Every data buffer handed to the library is a memoryview WINDOW that ends exactly at the end of its own
malloc block (ctypes array; the interpreter runs with PYTHONMALLOC=malloc so each object is one ASan-tracked block) and starts at an
odd offset inside it: a read or write one byte past the window hits the redzone, a write before it hits the canary.

Bound (quick / thorough): data lengths 0..LMAX (70 / 300, plus the sizes around internal buffers: 8 blocks +-1 for CTR, the sponge
rates, 64/128-byte hash blocks, 8192 for K12), every cut of a message into two segments for short messages and random cuts for long
ones, in-place and out-of-place output, tag / digest / output lengths at their extremes, create / copy / use / delete sequences of
hash objects; all symmetric ciphers x modes, stream ciphers, hashes / XOFs / MACs, KDFs with native helpers, strxor, PKCS#1 decoders
(key sizes x hash sizes), EC points on the nine curves with scalar byte lengths 0..70, the custom big-integer back end.

One child process per group (ASan aborts the process at the first report); the child records the case it is about to run, so a report
is attributed to a concrete case, which `--replay` re-runs.  Python exceptions raised by the library are normal outcomes here."""
import ctypes
import json
import os
import random
import subprocess
import sys
import tempfile
import time
import traceback

AREA = 'memsafe'
MODULES = None          # every extension module of setup.py
ASAN_EXIT = 86
CANARY_EXIT = 87
CANARY = 0xA5
_keep = []              # keeps ctypes blocks alive for the duration of a case


# ----------------------------------------------------------------------------------------------------------- buffers
def win(data, lead=None):
    """read/write window holding `data`, ending exactly at the end of its malloc block, `lead` canary bytes in front"""
    data = bytes(data)
    # ctypes keeps arrays of up to 16 bytes INSIDE the Python object (no redzone behind them): the lead makes every block longer than that
    lead = (17 + len(_keep) % 7) if lead is None else lead
    arr = (ctypes.c_ubyte * (lead + len(data)))()
    for i in range(lead):
        arr[i] = CANARY
    mv = memoryview(arr).cast('B')
    mv[lead:] = data
    _keep.append((arr, lead))
    return mv[lead:]


def out(n, lead=None):
    return win(bytes(n), lead)


def check_canaries(case):
    for arr, lead in _keep:
        for i in range(lead):
            if arr[i] != CANARY:
                sys.stderr.write('CANARY overwritten in front of a window (byte %d of %d) in case %s\n' % (i, lead, json.dumps(case)))
                sys.stderr.flush()
                os._exit(CANARY_EXIT)
    del _keep[:]


class Prog:
    def __init__(self, path, only_case=None):
        self.path = path
        self.n = 0
        self.only_case = only_case

    def case(self, desc, fn):
        """run one case; Python exceptions from the library are outcomes, not failures"""
        self.n += 1
        if self.path:
            with open(self.path, 'w') as f:
                json.dump({'n': self.n, 'case': desc}, f)
        try:
            fn()
        except (ValueError, TypeError, OverflowError, IndexError, KeyError, AttributeError, NotImplementedError, ZeroDivisionError, MemoryError,
                OSError, AssertionError, RuntimeError):
            pass
        check_canaries(desc)


def lengths(tier, extra=()):
    lmax = 70 if tier == 'quick' else 300
    return sorted(set(list(range(0, lmax + 1)) + list(extra)))


def cuts(rnd, n, tier):
    """segmentations of a message of n bytes: one shot, every two-segment cut (short) or random cuts (long), one three-segment cut"""
    yield [n]
    if n <= 24:
        for a in range(0, n + 1):
            yield [a, n - a]
    else:
        for _ in range(3 if tier == 'quick' else 8):
            a = rnd.randint(0, n)
            yield [a, n - a]
    if n >= 2:
        a = rnd.randint(0, n)
        b = rnd.randint(0, n - a)
        yield [a, b, n - a - b]


# ----------------------------------------------------------------------------------------------------------- groups
def _cipher_modules():
    from Crypto.Cipher import AES, DES, DES3, Blowfish, CAST, ARC2
    return [('AES128', AES, 16), ('AES192', AES, 24), ('AES256', AES, 32), ('DES', DES, 8), ('DES3', DES3, 24), ('Blowfish', Blowfish, 9),
            ('CAST', CAST, 7), ('ARC2', ARC2, 11)]


def _key(mod, n):
    if mod.__name__.endswith('DES3'):
        return bytes.fromhex('0123456789abcdef23456789abcdef01456789abcdef0123')[:n]
    return bytes((i * 7 + 3) & 0xFF for i in range(n))


def g_modes_classic(P, rnd, tier, which=None):
    for cname, mod, klen in _cipher_modules():
        if which and cname not in which:
            continue
        bs = mod.block_size
        key = _key(mod, klen)
        iv = bytes(range(1, bs + 1))
        modes = [('ECB', lambda: mod.new(key, mod.MODE_ECB)), ('CBC', lambda: mod.new(key, mod.MODE_CBC, iv=iv)),
                 ('CFB8', lambda: mod.new(key, mod.MODE_CFB, iv=iv, segment_size=8)),
                 ('CFB%d' % (bs * 8), lambda: mod.new(key, mod.MODE_CFB, iv=iv, segment_size=bs * 8)),
                 ('CFB%d' % (bs * 4), lambda: mod.new(key, mod.MODE_CFB, iv=iv, segment_size=bs * 4)),
                 ('OFB', lambda: mod.new(key, mod.MODE_OFB, iv=iv)),
                 ('CTR', lambda: mod.new(key, mod.MODE_CTR, nonce=iv[:bs // 2])),
                 ('CTRle', lambda: mod.new(key, mod.MODE_CTR, counter=__import__('Crypto.Util.Counter', fromlist=['x']).new(bs * 8 - 16, prefix=b'ab', little_endian=True, initial_value=250))),
                 ('OPENPGP', lambda: mod.new(key, mod.MODE_OPENPGP, iv=iv))]
        for mname, make in modes:
            for n in lengths(tier, (8 * bs - 1, 8 * bs, 8 * bs + 1, 16 * bs + 3)):
                msg = bytes((i * 13 + n) & 0xFF for i in range(n))
                for segs in cuts(rnd, n, tier):
                    for direction in ('encrypt', 'decrypt'):
                        for inplace in (False, True):
                            desc = {'cipher': cname, 'mode': mname, 'len': n, 'segs': segs, 'dir': direction, 'inplace': inplace}

                            def run():
                                c = make()
                                pos = 0
                                for s in segs:
                                    w = win(msg[pos:pos + s])
                                    o = w if inplace else out(s)
                                    getattr(c, direction)(w, output=o)
                                    pos += s
                            P.case(desc, run)
                    if mname == 'OPENPGP':
                        break


def g_modes_aead(P, rnd, tier):
    from Crypto.Cipher import AES, DES3, ChaCha20_Poly1305
    key = _key(AES, 16)
    k3 = _key(DES3, 24)
    cfg = []
    for n_nonce in (1, 7, 12, 13, 15, 16, 33):
        cfg.append(('GCM-n%d' % n_nonce, lambda ml, nn=n_nonce: AES.new(key, AES.MODE_GCM, nonce=bytes(range(nn)), mac_len=ml), (4, 8, 12, 16)))
    for n_nonce in (7, 11, 13):
        cfg.append(('CCM-n%d' % n_nonce, lambda ml, nn=n_nonce: AES.new(key, AES.MODE_CCM, nonce=bytes(range(nn)), mac_len=ml), (4, 6, 10, 16)))
    cfg.append(('EAX', lambda ml: AES.new(key, AES.MODE_EAX, nonce=b'nonce-eax', mac_len=ml), (2, 8, 16)))
    cfg.append(('EAX-DES3', lambda ml: DES3.new(k3, DES3.MODE_EAX, nonce=b'nonce', mac_len=ml), (2, 8)))
    for n_nonce in (1, 8, 12, 15):
        cfg.append(('OCB-n%d' % n_nonce, lambda ml, nn=n_nonce: AES.new(key, AES.MODE_OCB, nonce=bytes(range(nn)), mac_len=ml), (8, 12, 16)))
    cfg.append(('SIV', lambda ml: AES.new(key + key, AES.MODE_SIV, nonce=b'n' * 16), (16,)))
    cfg.append(('SIV-nononce', lambda ml: AES.new(key + key, AES.MODE_SIV), (16,)))
    for nn in (8, 12, 24):
        cfg.append(('ChaCha20Poly1305-n%d' % nn, lambda ml, nn=nn: ChaCha20_Poly1305.new(key=key + key, nonce=bytes(range(nn))), (16,)))
    for name, make, maclens in cfg:
        oneshot_only = name.startswith('SIV')
        for ml in maclens:
            for n in lengths(tier, (127, 128, 129, 255, 256, 257, 1023)):
                if name.startswith('CCM') or name.startswith('OCB') or name.startswith('EAX'):
                    if n > 40 and n % 5:
                        continue
                msg = bytes((i * 11 + n) & 0xFF for i in range(n))
                aad_len = (n * 3) % 41
                aad = bytes(range(aad_len))
                for segs in ([[n]] if oneshot_only else list(cuts(rnd, n, tier))[:4]):
                    for inplace in (False, True):
                        desc = {'aead': name, 'mac_len': ml, 'len': n, 'aad': aad_len, 'segs': segs, 'inplace': inplace}

                        def run():
                            c = make(ml)
                            if aad_len:
                                c.update(win(aad[:aad_len // 2]))
                                c.update(win(aad[aad_len // 2:]))
                            cts = []
                            if oneshot_only:
                                w = win(msg)
                                o = out(n)
                                ct, tag = c.encrypt_and_digest(w, output=o)
                                cts.append(bytes(o))
                            else:
                                pos = 0
                                for s in segs:
                                    w = win(msg[pos:pos + s])
                                    o = w if inplace else out(s)
                                    c.encrypt(w, output=o)
                                    cts.append(bytes(o))
                                    pos += s
                                tag = c.digest()
                            d = make(ml) if 'nononce' not in name else AES.new(key + key, AES.MODE_SIV)
                            if aad_len:
                                d.update(win(aad))
                            ct = b''.join(cts)
                            if oneshot_only:
                                d.decrypt_and_verify(win(ct), win(tag), output=out(n))
                            else:
                                pos = 0
                                for s in segs:
                                    w = win(ct[pos:pos + s])
                                    d.decrypt(w, output=(w if inplace else out(s)))
                                    pos += s
                                d.verify(win(tag))
                            # a tag of the wrong length / a flipped tag
                            e = make(ml) if 'nononce' not in name else AES.new(key + key, AES.MODE_SIV)
                            try:
                                e.decrypt_and_verify(win(ct), win(tag[:-1] + b'\x00' if n % 2 else tag[:len(tag) // 2]))
                            except ValueError:
                                pass
                        P.case(desc, run)
    # key wrap
    for n in range(0, 81 if tier == 'quick' else 301):
        for kind in ('KW', 'KWP'):
            desc = {'aead': kind, 'len': n}

            def run():
                mode = AES.MODE_KW if kind == 'KW' else AES.MODE_KWP
                c = AES.new(key, mode)
                ct = c.seal(win(bytes(range(n % 256)) * (n // max(1, n % 256) + 1))[:n] if False else win(bytes(n)))
                AES.new(key, mode).unseal(win(ct))
            P.case(desc, run)
            desc2 = {'aead': kind, 'unseal_len': n}

            def run2():
                mode = AES.MODE_KW if kind == 'KW' else AES.MODE_KWP
                AES.new(key, mode).unseal(win(bytes((i * 5 + n) & 0xFF for i in range(n))))
            P.case(desc2, run2)


def g_stream(P, rnd, tier):
    from Crypto.Cipher import ChaCha20, Salsa20, ARC4
    key = bytes(range(32))
    mk = [('ChaCha20-n8', lambda: ChaCha20.new(key=key, nonce=bytes(8))), ('ChaCha20-n12', lambda: ChaCha20.new(key=key, nonce=bytes(12))),
          ('XChaCha20', lambda: ChaCha20.new(key=key, nonce=bytes(24))), ('Salsa20-k32', lambda: Salsa20.new(key=key, nonce=bytes(8))),
          ('Salsa20-k16', lambda: Salsa20.new(key=key[:16], nonce=bytes(8))), ('ARC4', lambda: ARC4.new(key[:5])), ('ARC4-drop', lambda: ARC4.new(key, drop=770))]
    for name, make in mk:
        for n in lengths(tier, (63, 64, 65, 127, 128, 129, 191, 192, 193, 511, 512, 513)):
            msg = bytes((i * 3 + n) & 0xFF for i in range(n))
            for segs in cuts(rnd, n, tier):
                for inplace in (False, True):
                    desc = {'stream': name, 'len': n, 'segs': segs, 'inplace': inplace}

                    def run():
                        c = make()
                        pos = 0
                        for s in segs:
                            w = win(msg[pos:pos + s])
                            c.encrypt(w, output=(w if inplace else out(s)))
                            pos += s
                        if name.startswith('ChaCha20') or name == 'XChaCha20':
                            c.seek(n * 7 + 1)
                            c.encrypt(win(msg[:n // 2]), output=out(n // 2))
                    P.case(desc, run)


def _hash_makers():
    from Crypto.Hash import (MD2, MD4, MD5, RIPEMD160, SHA1, SHA224, SHA256, SHA384, SHA512, SHA3_224, SHA3_256, SHA3_384, SHA3_512, keccak,
                             BLAKE2b, BLAKE2s, SHAKE128, SHAKE256, cSHAKE128, cSHAKE256, TurboSHAKE128, TurboSHAKE256, KangarooTwelve, TupleHash128,
                             TupleHash256, KMAC128, KMAC256, HMAC, CMAC, Poly1305)
    from Crypto.Cipher import AES, DES3, ChaCha20
    k = bytes(range(64))
    m = [(x.__name__.split('.')[-1], x.new, 'hash') for x in (MD2, MD4, MD5, RIPEMD160, SHA1, SHA224, SHA256, SHA384, SHA512, SHA3_224, SHA3_256, SHA3_384, SHA3_512)]
    m += [('SHA512-224', lambda: SHA512.new(truncate='224'), 'hash'), ('SHA512-256', lambda: SHA512.new(truncate='256'), 'hash')]
    m += [('keccak-%d' % b, lambda b=b: keccak.new(digest_bits=b), 'hash') for b in (224, 256, 384, 512)]
    m += [('BLAKE2b-%d' % b, lambda b=b: BLAKE2b.new(digest_bytes=b), 'hash') for b in (1, 20, 32, 64)]
    m += [('BLAKE2b-k%d' % n, lambda n=n: BLAKE2b.new(digest_bytes=64, key=k[:n]), 'hash') for n in (1, 63, 64)]
    m += [('BLAKE2s-%d' % b, lambda b=b: BLAKE2s.new(digest_bytes=b), 'hash') for b in (1, 16, 32)]
    m += [('BLAKE2s-k%d' % n, lambda n=n: BLAKE2s.new(digest_bytes=32, key=k[:n]), 'hash') for n in (1, 31, 32)]
    m += [('SHAKE128', SHAKE128.new, 'xof'), ('SHAKE256', SHAKE256.new, 'xof'), ('cSHAKE128', lambda: cSHAKE128.new(custom=b'c' * 300), 'xof'),
          ('cSHAKE256', lambda: cSHAKE256.new(custom=b'x'), 'xof'), ('TurboSHAKE128', TurboSHAKE128.new, 'xof'),
          ('TurboSHAKE256', lambda: TurboSHAKE256.new(domain=0x7F), 'xof'), ('K12', lambda: KangarooTwelve.new(custom=b'abc'), 'xof')]
    m += [('TupleHash128', lambda: TupleHash128.new(digest_bytes=17), 'hash'), ('TupleHash256', lambda: TupleHash256.new(digest_bytes=64, custom=b'q' * 200), 'hash'),
          ('KMAC128', lambda: KMAC128.new(key=k[:16], mac_len=9, custom=b'c'), 'hash'), ('KMAC256', lambda: KMAC256.new(key=k, mac_len=64), 'hash')]
    m += [('HMAC-%s' % h.__name__.split('.')[-1], lambda h=h, n=n: HMAC.new(k[:n], digestmod=h), 'hash')
          for h, n in ((MD5, 64), (SHA1, 20), (SHA256, 65), (SHA512, 64), (SHA3_256, 1), (BLAKE2b, 64))]
    m += [('CMAC-AES', lambda: CMAC.new(k[:16], ciphermod=AES), 'hash'), ('CMAC-DES3', lambda: CMAC.new(_key(DES3, 24), ciphermod=DES3, mac_len=4), 'hash'),
          ('Poly1305-AES', lambda: Poly1305.new(key=k[:32], cipher=AES, nonce=bytes(16)), 'hash'),
          ('Poly1305-ChaCha20', lambda: Poly1305.new(key=k[:32], cipher=ChaCha20, nonce=bytes(12)), 'hash')]
    return m


def g_hashes(P, rnd, tier, part=0, parts=1):
    makers = _hash_makers()
    for idx, (name, make, kind) in enumerate(makers):
        if idx % parts != part:
            continue
        extra = (71, 72, 73, 103, 104, 105, 111, 112, 113, 127, 128, 129, 135, 136, 137, 143, 144, 145, 167, 168, 169, 255, 256, 257)
        if name == 'K12':
            extra += (8191, 8192, 8193, 16385)
        for n in lengths(tier, extra):
            msg = bytes((i * 7 + n) & 0xFF for i in range(n))
            for segs in list(cuts(rnd, n, tier))[:6]:
                desc = {'hash': name, 'len': n, 'segs': segs}

                def run():
                    h = make()
                    pos = 0
                    copies = []
                    for s in segs:
                        h.update(win(msg[pos:pos + s]))
                        pos += s
                        if hasattr(h, 'copy') and len(copies) < 2 and kind == 'hash':
                            try:
                                copies.append(h.copy())
                            except (ValueError, TypeError, AttributeError):
                                pass
                    if kind == 'xof':
                        for r in (0, 1, n % 37, 167, 168, 169, 200 + n):
                            h.read(r)
                    else:
                        h.digest()
                        h.hexdigest()
                    for c in copies:
                        c.update(win(msg[:5]))
                        c.digest()
                    del h
                    del copies
                P.case(desc, run)
    # create / copy / use / delete sequences
    if part == 0:
        for rnd_case in range(60 if tier == 'quick' else 400):
            desc = {'hash_lifecycle': rnd_case}

            def run():
                r = random.Random(rnd_case)
                objs = []
                for step in range(30):
                    a = r.randint(0, 4)
                    if a == 0 or not objs:
                        name, make, kind = makers[r.randrange(len(makers))]
                        objs.append((make(), kind, False))
                    elif a == 1:
                        h, kind, done = objs[r.randrange(len(objs))]
                        if not done:
                            h.update(win(bytes(r.randint(0, 200))))
                    elif a == 2:
                        i = r.randrange(len(objs))
                        h, kind, done = objs[i]
                        if hasattr(h, 'copy'):
                            try:
                                objs.append((h.copy(), kind, done))
                            except (ValueError, TypeError, AttributeError):
                                pass
                    elif a == 3:
                        i = r.randrange(len(objs))
                        h, kind, done = objs[i]
                        if kind == 'xof':
                            h.read(r.randint(0, 300))
                        else:
                            h.digest()
                        objs[i] = (h, kind, True)
                    else:
                        del objs[r.randrange(len(objs))]
            P.case(desc, run)


def g_kdf_util(P, rnd, tier):
    from Crypto.Protocol.KDF import PBKDF2, scrypt, bcrypt, HKDF, PBKDF1, SP800_108_Counter
    from Crypto.Hash import SHA1, SHA224, SHA256, SHA384, SHA512, MD5, HMAC, SHA3_256
    from Crypto.Util.strxor import strxor, strxor_c
    for n in lengths(tier):
        a = bytes((i * 3 + 1) & 0xFF for i in range(n))
        b = bytes((i * 5 + 2) & 0xFF for i in range(n))
        for mode in ('new', 'out', 'inplace_a'):
            desc = {'strxor': n, 'mode': mode}

            def run():
                wa, wb = win(a), win(b)
                if mode == 'new':
                    strxor(wa, wb)
                    strxor_c(wa, n & 0xFF)
                elif mode == 'out':
                    strxor(wa, wb, output=out(n))
                    strxor_c(wa, 0x55, output=out(n))
                else:
                    strxor(wa, wb, output=wa)
                    strxor_c(wb, 0xFF, output=wb)
            P.case(desc, run)
        desc = {'strxor_mismatch': n}

        def run():
            strxor(win(a), win(b[:n // 2]))
            strxor(win(a), win(b), output=out(n // 2))
        P.case(desc, run)
    for h in (MD5, SHA1, SHA224, SHA256, SHA384, SHA512, SHA3_256):
        for dklen in (0, 1, 19, 20, 21, 32, 33, 64, 65, 129):
            for plen in (0, 1, 63, 64, 65, 128, 129, 200):
                desc = {'pbkdf2': h.__name__.split('.')[-1], 'dklen': dklen, 'plen': plen}

                def run():
                    PBKDF2(win(bytes(plen)).tobytes(), win(b'salt' * (plen % 5)).tobytes(), dklen, count=3, hmac_hash_module=h)
                    HKDF(bytes(plen + 1), dklen or 1, b'salt', h, num_keys=1 + dklen % 3)
                P.case(desc, run)
    for N, r, p in ((2, 1, 1), (4, 2, 1), (16, 1, 2), (8, 3, 1), (2, 8, 1)):
        for dklen in (1, 32, 64, 65, 100):
            desc = {'scrypt': [N, r, p], 'dklen': dklen}
            P.case(desc, lambda: scrypt(b'password', b'salt', dklen, N, r, p, num_keys=1))
    for n in (0, 1, 8, 55, 56, 71, 72):
        desc = {'bcrypt': n}
        P.case(desc, lambda: bcrypt(bytes(range(1, n + 1)), 4, salt=bytes(16)))


def g_pubkey(P, rnd, tier):
    from Crypto.PublicKey import RSA
    from Crypto.Cipher import PKCS1_OAEP, PKCS1_v1_5
    from Crypto.Hash import SHA1, SHA256, SHA384, SHA512, MD5
    from Crypto.Signature import pkcs1_15, pss
    rr = random.Random(5)
    for bits in (1024, 1040, 1536):
        key = RSA.generate(bits, randfunc=rr.randbytes)
        k = key.size_in_bytes()
        for h in (MD5, SHA1, SHA256, SHA384, SHA512):
            for trial in range(6 if tier == 'quick' else 40):
                desc = {'oaep': bits, 'hash': h.__name__.split('.')[-1], 'trial': trial}

                def run():
                    c = PKCS1_OAEP.new(key, hashAlgo=h, randfunc=rr.randbytes)
                    ct = None
                    try:
                        ct = c.encrypt(bytes(trial * 3))
                    except ValueError:
                        pass
                    if ct is not None:
                        c.decrypt(win(ct))
                    # foreign ciphertexts: arbitrary integers below n
                    x = rr.randrange(1, key.n)
                    c.decrypt(win(x.to_bytes(k, 'big')))
                P.case(desc, run)
        for trial in range(40 if tier == 'quick' else 300):
            desc = {'pkcs1v15': bits, 'trial': trial}

            def run():
                c = PKCS1_v1_5.new(key, randfunc=rr.randbytes)
                mlen = trial % (k - 10)
                ct = c.encrypt(bytes(mlen))
                c.decrypt(win(ct), b'sentinel' * (trial % 4), expected_pt_len=(mlen if trial % 3 else 0))
                # crafted encodings: EM = 00 02 PS 00 M with the separator at every position, via textbook RSA
                em = bytearray(b'\x00\x02' + bytes([1 + (i % 255) for i in range(k - 2)]))
                em[2 + trial % (k - 2)] = 0
                ct2 = pow(int.from_bytes(em, 'big'), key.e, key.n).to_bytes(k, 'big')
                c.decrypt(win(ct2), win(b'S' * (trial % 50)).tobytes(), expected_pt_len=trial % 7)
            P.case(desc, run)


def g_ecc(P, rnd, tier):
    from Crypto.PublicKey import ECC
    from Crypto.Signature import DSS, eddsa
    from Crypto.Hash import SHA256, SHA512, SHAKE256
    from Crypto.Protocol.DH import key_agreement
    curves = ['P-192', 'P-224', 'P-256', 'P-384', 'P-521', 'Ed25519', 'Ed448', 'Curve25519', 'Curve448']
    rr = random.Random(7)
    for cv in curves:
        key = ECC.generate(curve=cv, randfunc=rr.randbytes)
        for nbytes in list(range(0, 71)) + ([] if tier == 'quick' else [100, 128, 200]):
            desc = {'ecc_scalar': cv, 'scalar_bytes': nbytes}

            def run():
                k = int.from_bytes(rr.randbytes(nbytes), 'big') if nbytes else 0
                Q = key.pointQ
                R = Q * k
                if cv not in ('Curve25519', 'Curve448'):
                    S = R + Q
                    S = S + S
                    (-S) == R
                    R.is_point_at_infinity()
                    R.copy()
                    T = Q.copy()
                    T *= (k | 1)
                R.x
            P.case(desc, run)
        for trial in range(4):
            desc = {'ecc_keys': cv, 'trial': trial}

            def run():
                k2 = ECC.generate(curve=cv, randfunc=rr.randbytes)
                for fmt in ('DER', 'PEM', 'raw', 'SEC1', 'OpenSSH'):
                    try:
                        ECC.import_key(k2.public_key().export_key(format=fmt))
                    except ValueError:
                        pass
                if cv.startswith('P-'):
                    s = DSS.new(k2, 'fips-186-3', randfunc=rr.randbytes)
                    sig = s.sign(SHA256.new(b'm'))
                    DSS.new(k2.public_key(), 'fips-186-3').verify(SHA256.new(b'm'), sig)
                    DSS.new(k2, 'deterministic-rfc6979').sign(SHA256.new(b'm'))
                    key_agreement(static_priv=k2, static_pub=key.public_key(), kdf=lambda x: x)
                elif cv.startswith('Ed'):
                    s = eddsa.new(k2, 'rfc8032')
                    sig = s.sign(win(bytes(trial * 40)).tobytes())
                    eddsa.new(k2.public_key(), 'rfc8032').verify(bytes(trial * 40), sig)
                    h = SHA512.new(b'x') if cv == 'Ed25519' else SHAKE256.new(b'x')
                    eddsa.new(k2.public_key(), 'rfc8032').verify(h, s.sign(h.copy() if hasattr(h, 'copy') and cv == 'Ed25519' else SHAKE256.new(b'x')))
                else:
                    key_agreement(static_priv=k2, static_pub=key.public_key(), kdf=lambda x: x)
            P.case(desc, run)


def g_bigint(P, rnd, tier):
    from Crypto.Math._IntegerCustom import IntegerCustom
    rr = random.Random(11)
    for nb in list(range(1, 41)) + [64, 65, 127, 128, 129, 256, 257]:
        for trial in range(3):
            desc = {'monty': nb, 'trial': trial}

            def run():
                m = int.from_bytes(rr.randbytes(nb), 'big') | 1
                b = int.from_bytes(rr.randbytes(rr.randint(0, nb + 2)), 'big')
                e = int.from_bytes(rr.randbytes(rr.randint(0, nb + 9)), 'big')
                pow(IntegerCustom(b), e, m)
                IntegerCustom._mult_modulo_bytes(b, e, m)
            P.case(desc, run)


GROUPS = {
    'modes.aes': (g_modes_classic, {'which': ['AES128', 'AES192', 'AES256']}),
    'modes.des': (g_modes_classic, {'which': ['DES', 'DES3']}),
    'modes.other': (g_modes_classic, {'which': ['Blowfish', 'CAST', 'ARC2']}),
    'aead': (g_modes_aead, {}),
    'stream': (g_stream, {}),
    'hashes.0': (g_hashes, {'part': 0, 'parts': 4}),
    'hashes.1': (g_hashes, {'part': 1, 'parts': 4}),
    'hashes.2': (g_hashes, {'part': 2, 'parts': 4}),
    'hashes.3': (g_hashes, {'part': 3, 'parts': 4}),
    'kdf_util': (g_kdf_util, {}),
    'pubkey': (g_pubkey, {}),
    'ecc': (g_ecc, {}),
    'bigint': (g_bigint, {}),
}
CLAUSE = ('memory_safe: every call of the group returns or raises a Python exception; no signal, no AddressSanitizer report (invalid read / write / free '
          'of heap, stack or global memory), canary bytes in front of every output window unchanged')


def child(group, tier, seed, progress):
    fn, kw = GROUPS[group]
    P = Prog(progress)
    fn(P, random.Random('%s:%s' % (seed, group)), tier, **kw)
    with open(progress, 'w') as f:
        json.dump({'n': P.n, 'done': True}, f)
    return 0


# ----------------------------------------------------------------------------------------------------------- parent
def asan_runtime():
    p = subprocess.run(['gcc', '-print-file-name=libasan.so'], capture_output=True, text=True).stdout.strip()
    return os.path.realpath(p) if p and os.path.sep in p else None


def _bound(tier):
    return ('tier %s: lengths 0..%d + sizes around internal buffers, all two-segment cuts up to 24 bytes + random cuts, in-place and out-of-place, '
            'mac/digest lengths at extremes; windows end at the end of their malloc block (ASan, PYTHONMALLOC=malloc), odd offsets, canaries in front'
            % (tier, 70 if tier == 'quick' else 300))


def run(tier='quick', seed=None, src_dir=None, only=None, jobs=None, timeout=None):
    from vf import cbuild
    from concurrent.futures import ThreadPoolExecutor
    tier = tier if tier in ('quick', 'thorough') else 'quick'
    seed = int(os.environ.get('VERIF_SEED', '0') or 0) if seed is None else seed
    t0 = time.time()
    res = {'functions': [], 'results': [], 'bounded': [], 'assumptions': [],
           'trusted': ['gcc -fsanitize=address instrumentation and libasan detect the invalid accesses they document (redzones of 16+ bytes; an access far '
                       'outside a block that lands in another live block is not detected)',
                       'the ASan overlay build (-O1) executes the same C source as the production build']}
    rt = asan_runtime()
    if not rt or not os.path.exists(rt):
        res['results'].append({'id': 'bounded.memsafe.asan', 'kind': 'engine', 'clause': 'libasan is installed', 'status': 'error', 'backend': 'gcc', 'seconds': 0,
                               'detail': 'gcc -print-file-name=libasan.so gave nothing', 'witness': None, 'replayed': False})
        return res
    groups = [g for g in GROUPS if not only or any(o in g for o in only)]
    try:
        with cbuild.overlay(None, src_dir=src_dir, opt='-O1', extra_cflags=['-g', '-fsanitize=address', '-fno-omit-frame-pointer']) as ov:
            tmp = os.path.dirname(str(ov))
            env = ov.env({'LD_PRELOAD': rt, 'PYTHONMALLOC': 'malloc', 'VERIF_SEED': str(seed),
                          'ASAN_OPTIONS': 'detect_leaks=0:exitcode=%d:abort_on_error=0:allocator_may_return_null=1:detect_odr_violation=0' % ASAN_EXIT})

            def one(g):
                prog = os.path.join(tmp, 'progress_%s.json' % g)
                t1 = time.time()
                try:
                    p = subprocess.run([sys.executable, '-m', 'bounded.memsafe', '--child', g, '--tier', tier, '--seed', str(seed), '--progress', prog],
                                       env=env, cwd=tmp, capture_output=True, text=True, timeout=timeout or (900 if tier == 'quick' else 3000))
                    rc, err = p.returncode, p.stderr
                except subprocess.TimeoutExpired as ex:
                    rc, err = 'timeout', str(ex)
                try:
                    pr = json.load(open(prog))
                except (OSError, ValueError):
                    pr = {}
                return g, rc, err, pr, time.time() - t1
            with ThreadPoolExecutor(max(1, jobs or 16)) as pool:
                outs = list(pool.map(one, groups))
            build = ov.info
    except cbuild.BuildError as ex:
        res['results'].append({'id': 'bounded.memsafe.build', 'kind': 'engine', 'clause': 'the C sources of the current tree compile with -fsanitize=address',
                               'status': 'error', 'backend': 'gcc', 'seconds': time.time() - t0, 'detail': str(ex)[-4000:], 'witness': None, 'replayed': False})
        return res
    for g, rc, err, pr, secs in outs:
        rid = 'bounded.memsafe.%s.memory_safe' % g
        base = {'id': rid, 'kind': 'bounded', 'clause': CLAUSE, 'backend': 'cpython+asan', 'seconds': round(secs, 2)}
        n = pr.get('n', 0)
        if rc == 0 and pr.get('done') and n > 0:
            res['results'].append(dict(base, status='bounded_ok', detail='%d cases, no report; bound: %s' % (n, _bound(tier)), witness=None, replayed=False, replay=None))
        elif rc in (ASAN_EXIT, CANARY_EXIT) or (isinstance(rc, int) and rc < 0):
            what = 'AddressSanitizer report' if rc == ASAN_EXIT else ('canary overwritten' if rc == CANARY_EXIT else 'killed by signal %d' % -rc)
            report = '\n'.join(l for l in (err or '').splitlines() if l.strip())
            k = report.find('ERROR: AddressSanitizer')
            report = report[max(0, k - 12):][:3500] if k >= 0 else report[-3500:]
            case = {'group': g, 'tier': tier, 'seed': seed, 'case_number': n, 'case': pr.get('case')}
            res['results'].append(dict(base, status='bounded_fail', witness_class=None,
                                       detail='%s in case %d of group %s: %s\n%s' % (what, n, g, json.dumps(pr.get('case')), report),
                                       witness={'case': case, 'expected': 'no report', 'got': what}, replayed=True,
                                       replay={'harness': 'bounded.memsafe', 'case': case,
                                               'cmd': "python3-vt -m bounded.memsafe --replay '%s'" % json.dumps({'group': g, 'tier': tier, 'seed': seed})}))
        else:
            res['results'].append(dict(base, kind='engine', status='error', detail='harness child exit %s after %d cases\n%s' % (rc, n, (err or '')[-3000:]),
                                       witness=None, replayed=False))
        res['bounded'].append({'name': rid, 'bound': _bound(tier), 'evaluations': n, 'distinct': n, 'samples': [json.dumps(pr.get('case'))[:200]] if pr.get('case') else []})
    res['functions'].append({'target': 'src/*.c (all %d extension modules, through the Python API)' % len(build.get('modules', [])), 'engine': 'BOUNDED', 'status': 'bounded',
                             'obligations': len(groups), 'seconds': round(time.time() - t0, 2), 'bound': _bound(tier)})
    res['assumptions'].append('bounded only: memory safety of the C files that are under no CVC contract is exercised, not proved (bounded/memsafe.py under '
                              'AddressSanitizer: %s)' % _bound(tier))
    res['harness'] = {'module': 'bounded.memsafe', 'tier': tier, 'seed': seed, 'wall_s': round(time.time() - t0, 2), 'build_s': build.get('overlay_seconds'),
                      'cflags': build.get('cflags'), 'asan_runtime': rt, 'groups': {g: {'exit': rc, 'cases': pr.get('n', 0), 'seconds': round(s, 1)} for g, rc, _e, pr, s in outs}}
    return res


def main(argv=None):
    import argparse
    ap = argparse.ArgumentParser(prog='bounded.memsafe')
    ap.add_argument('--child')
    ap.add_argument('--tier', default='quick')
    ap.add_argument('--seed', type=int, default=0)
    ap.add_argument('--progress')
    ap.add_argument('--only', action='append')
    ap.add_argument('--replay')
    ap.add_argument('--src-dir')
    a = ap.parse_args(argv)
    if a.child:
        try:
            return child(a.child, a.tier, a.seed, a.progress)
        except Exception:     # harness error, not a finding
            traceback.print_exc()
            return 1
    if a.replay:
        c = json.loads(a.replay)
        r = run(c.get('tier', 'quick'), c.get('seed', 0), src_dir=a.src_dir, only=[c['group']])
    else:
        r = run(a.tier, a.seed, src_dir=a.src_dir, only=a.only)
    bad = 0
    for x in r['results']:
        print(x['status'], x['id'], x['detail'][:3000])
        if x['status'] == 'bounded_fail':
            bad = 1
        elif x['status'] == 'error':
            bad = max(bad, 3)
    print(json.dumps(r.get('harness'), indent=1))
    return bad


if __name__ == '__main__':
    sys.exit(main())
