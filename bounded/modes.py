"""Area 2 -- modes of operation against reference compositions (C01/C02/C09 'assumed + bounded').

* one-shot: every mode (ECB/CBC/CFB-s/OFB/CTR/OpenPGP/EAX/GCM/CCM/SIV/OCB/ChaCha20-Poly1305/KW/KWP) equals the reference
  composition of spec.ref_modes / spec.ref_ocb over (a) the library's own ECB primitive and (b) the reference primitive;
  message lengths 0,1,15,16,17,127,128,129 (8-block boundary; 64-bit block ciphers also 7,8,9,63,64,65) and multi-KiB;
  all nonce / tag / segment sizes of the documented ranges; decryption inverts; a modified tag is refused.
* segmentation: all two- and three-way cuts of every length 0..4*block+3 give the one-shot result (encrypt, decrypt,
  and update() of the associated data).
* buffers: bytes/bytearray/memoryview inputs (at offsets), output= into bytearray/memoryview, in-place output=input.
"""
import functools
import hashlib
import inspect
import sys

from . import _common
from . import blockciphers as _bc

AREA = 'modes'
MODULES = None      # rebuild every extension module of setup.py (about 3 s): nothing stale can be reached indirectly


def notes():
    return _bc.notes()


def det(tag, n):
    """deterministic pseudo-random bytes (so that stored cases replay without a seed)"""
    return hashlib.shake_128(str(tag).encode()).digest(n) if n else b''


def _cmod(cipher):
    return __import__('Crypto.Cipher.' + cipher, fromlist=['new'])


def _prim(cipher, key, prim, eff=None):
    from spec import ref_modes
    bs = _bc.BLOCK[cipher]
    if cipher == 'ARC2' and eff is None:
        eff = 1024                      # the library's documented default effective_keylen
    if prim == 'ref':
        r = _bc._ref(cipher, bytes(key), eff)
        return ref_modes.BC(bs, r.encrypt_block, r.decrypt_block)
    kw = {'effective_keylen': eff} if (cipher == 'ARC2' and eff) else {}
    m = _cmod(cipher)
    e = m.new(key, m.MODE_ECB, **kw)
    d = m.new(key, m.MODE_ECB, **kw)
    return ref_modes.BC(bs, e.encrypt, d.decrypt)


def _exc(f):
    try:
        return f()
    except (ValueError, TypeError, OverflowError) as ex:
        return 'raises ' + type(ex).__name__


# ---------------------------------------------------------------- one-shot kinds

def k_basic(cipher, key, mode, params, data, dec, prim):
    """ECB/CBC/CFB/OFB/CTR/OPENPGP one-shot vs reference"""
    from spec import ref_modes as R
    m = _cmod(cipher)
    bs = m.block_size
    E = _prim(cipher, key, prim)
    p = dict(params)
    if mode == 'ECB':
        exp = 'raises ValueError' if len(data) % bs else (R.ecb_decrypt(E, data) if dec else R.ecb_encrypt(E, data))
        c = m.new(key, m.MODE_ECB)
    elif mode == 'CBC':
        exp = 'raises ValueError' if len(data) % bs else (R.cbc_decrypt(E, p['iv'], data) if dec else R.cbc_encrypt(E, p['iv'], data))
        c = m.new(key, m.MODE_CBC, iv=p['iv'])
    elif mode == 'CFB':
        s = p['segment_size'] // 8
        exp = R.cfb_decrypt(E, p['iv'], data, s) if dec else R.cfb_encrypt(E, p['iv'], data, s)
        c = m.new(key, m.MODE_CFB, iv=p['iv'], segment_size=p['segment_size'])
    elif mode == 'OFB':
        exp = R.ofb_crypt(E, p['iv'], data)
        c = m.new(key, m.MODE_OFB, iv=p['iv'])
    elif mode == 'CTR':
        if 'nbits' in p:
            from Crypto.Util import Counter
            clen = p['nbits'] // 8
            ctr = Counter.new(p['nbits'], prefix=p['prefix'], suffix=p['suffix'], initial_value=p['initial_value'], little_endian=p['little_endian'])
            c = m.new(key, m.MODE_CTR, counter=ctr)
            pre, suf, le = p['prefix'], p['suffix'], p['little_endian']
        else:
            clen = bs - len(p['nonce'])
            c = m.new(key, m.MODE_CTR, nonce=p['nonce'], initial_value=p['initial_value'])
            pre, suf, le = p['nonce'], b'', False
        iv = p['initial_value']
        iv = int.from_bytes(iv, 'big') if isinstance(iv, bytes) else iv
        if -(-len(data) // bs) > (1 << (8 * clen)):
            exp = 'raises OverflowError'
        else:
            exp = R.ctr_crypt(E, pre, clen, iv, data, suf, le)
    elif mode == 'OPENPGP':
        if dec:
            eiv, ct = data[:bs + 2], data[bs + 2:]
            exp = R.openpgp_decrypt(E, eiv, ct)[1]
            c = m.new(key, m.MODE_OPENPGP, iv=eiv)
            return exp, _exc(lambda: c.decrypt(ct))
        exp = R.openpgp_encrypt(E, p['iv'], data)
        c = m.new(key, m.MODE_OPENPGP, iv=p['iv'])
    else:
        raise KeyError(mode)
    return exp, _exc(lambda: c.decrypt(data) if dec else c.encrypt(data))


def _tamper(tag, i=0):
    b = bytearray(tag)
    b[i % len(b)] ^= 1 << (i % 8)
    return bytes(b)


def _aead_new(mode, key, nonce, mac_len, extra):
    from Crypto.Cipher import AES
    kw = dict(extra or {})
    cipher = kw.pop('cipher', 'AES')
    m = _cmod(cipher)
    if nonce is not None:
        kw['nonce'] = nonce
    if mac_len is not None:
        kw['mac_len'] = mac_len
    return m.new(key, getattr(m, 'MODE_' + mode), **kw)


def k_aead(mode, key, nonce, aad, pt, mac_len, prim, extra=None):
    """encrypt_and_digest == reference (ct, tag); decrypt_and_verify inverts; a tag with one flipped bit is refused.
    aad: list of update() arguments (SIV: components)"""
    from spec import ref_modes as R, ref_ocb
    cipher = (extra or {}).get('cipher', 'AES')
    A = b''.join(aad)
    if mode == 'SIV':
        h = len(key) // 2
        c1, c2 = _prim('AES', key[:h], prim), _prim('AES', key[h:], prim)
        comps = list(aad) + ([nonce] if nonce is not None else [])
        ct, tag = R.siv_encrypt(c1, c2, comps, pt)
    else:
        E = _prim(cipher, key, prim)
        if mode == 'GCM':
            ct, tag = R.gcm_encrypt(E, nonce, A, pt, mac_len)
        elif mode == 'CCM':
            ct, tag = R.ccm_encrypt(E, nonce, A, pt, mac_len)
        elif mode == 'EAX':
            ct, tag = R.eax_encrypt(E, nonce, A, pt, mac_len)
        elif mode == 'OCB':
            ct, tag = ref_ocb.ocb_encrypt(E, nonce, A, pt, mac_len)
        else:
            raise KeyError(mode)
    exp = (ct, tag, pt, 'ok', 'raises ValueError')

    def lib():
        c = _aead_new(mode, key, nonce, mac_len, extra)
        for a in aad:
            c.update(a)
        ct_l, tag_l = c.encrypt_and_digest(pt)
        d = _aead_new(mode, key, nonce, mac_len, extra)
        for a in aad:
            d.update(a)
        pt_l = d.decrypt_and_verify(ct, tag)
        e = _aead_new(mode, key, nonce, mac_len, extra)
        for a in aad:
            e.update(a)
        bad = _exc(lambda: e.decrypt_and_verify(ct, _tamper(tag, len(pt) + len(A))))
        return (ct_l, tag_l, pt_l, 'ok', bad if isinstance(bad, str) else 'accepted')
    return exp, _exc(lib)


def k_chachapoly(key, nonce, aad, pt):
    from spec import ref_modes as R
    from Crypto.Cipher import ChaCha20_Poly1305 as CP
    ct, tag = R.chacha20_poly1305_encrypt(key, nonce, b''.join(aad), pt)

    def lib():
        c = CP.new(key=key, nonce=nonce)
        for a in aad:
            c.update(a)
        ct_l, tag_l = c.encrypt_and_digest(pt)
        d = CP.new(key=key, nonce=nonce)
        for a in aad:
            d.update(a)
        pt_l = d.decrypt_and_verify(ct, tag)
        e = CP.new(key=key, nonce=nonce)
        for a in aad:
            e.update(a)
        bad = _exc(lambda: e.decrypt_and_verify(ct, _tamper(tag, len(pt))))
        return (ct_l, tag_l, pt_l, bad if isinstance(bad, str) else 'accepted')
    return (ct, tag, pt, 'raises ValueError'), _exc(lib)


def k_kw(mode, key, pt, prim):
    """seal == reference wrap; unseal inverts; every single-byte corruption sampled is refused"""
    from spec import ref_modes as R
    from Crypto.Cipher import AES
    E = _prim('AES', key, prim)
    w = (R.kw_wrap if mode == 'KW' else R.kwp_wrap)(E, pt)
    lm = AES.MODE_KW if mode == 'KW' else AES.MODE_KWP

    def lib():
        s = AES.new(key, lm).seal(pt)
        u = AES.new(key, lm).unseal(w)
        bad = []
        for i in (0, len(w) // 2, len(w) - 1):
            t = bytearray(w)
            t[i] ^= 0x40
            r = _exc(lambda: AES.new(key, lm).unseal(bytes(t)))
            ref_r = (R.kw_unwrap if mode == 'KW' else R.kwp_unwrap)(E, bytes(t))
            bad.append((r if isinstance(r, str) else 'accepted') == ('raises ValueError' if ref_r is None else 'accepted'))
        return (s, u, all(bad))
    return (w, pt, True), _exc(lib)


def k_kw_reject(mode, key, ct):
    """unseal(ct) for arbitrary ct: accepted with the reference's plaintext, or ValueError exactly when the reference refuses"""
    from spec import ref_modes as R
    from Crypto.Cipher import AES
    E = _prim('AES', key, 'lib')
    ref_r = (R.kw_unwrap if mode == 'KW' else R.kwp_unwrap)(E, ct)
    lm = AES.MODE_KW if mode == 'KW' else AES.MODE_KWP
    return ('raises ValueError' if ref_r is None else ref_r), _exc(lambda: AES.new(key, lm).unseal(ct))


# ---------------------------------------------------------------- configurations for segmentation / buffer tests

def _key(cipher, n):
    k = bytes(((i * 37 + 11) & 0xFE) | ((i * 5) & 1) for i in range(n))
    return k


CFG = {}


def _cfg(name, **kw):
    CFG[name] = kw


for _c, _kl in (('AES', 16), ('AES', 32), ('DES3', 24), ('Blowfish', 16), ('CAST', 16), ('ARC2', 16), ('DES', 8)):
    _bs = 16 if _c == 'AES' else 8
    _n = '%s%d' % (_c, _kl * 8)
    if (_c, _kl) in (('AES', 16), ('DES3', 24)):
        _cfg(_n + '-ECB', cipher=_c, klen=_kl, mode='ECB', kw={}, align=_bs)
        _cfg(_n + '-CBC', cipher=_c, klen=_kl, mode='CBC', kw={'iv': det('iv', _bs)}, align=_bs)
        for _s in (8, 16, 8 * _bs - 8, 8 * _bs):
            _cfg(_n + '-CFB%d' % _s, cipher=_c, klen=_kl, mode='CFB', kw={'iv': det('iv', _bs), 'segment_size': _s})
        _cfg(_n + '-OFB', cipher=_c, klen=_kl, mode='OFB', kw={'iv': det('iv', _bs)})
        _cfg(_n + '-CTR', cipher=_c, klen=_kl, mode='CTR', kw={'nonce': det('n', _bs // 2), 'initial_value': 2 ** (4 * _bs) - 3})
        _cfg(_n + '-OPENPGP', cipher=_c, klen=_kl, mode='OPENPGP', kw={'iv': det('iv', _bs)})
        _cfg(_n + '-EAX', cipher=_c, klen=_kl, mode='EAX', kw={'nonce': det('n', 13)}, aead=True)
    else:
        _cfg(_n + '-CBC', cipher=_c, klen=_kl, mode='CBC', kw={'iv': det('iv', _bs)}, align=_bs)
        _cfg(_n + '-CFB8', cipher=_c, klen=_kl, mode='CFB', kw={'iv': det('iv', _bs), 'segment_size': 8})
        _cfg(_n + '-CTR', cipher=_c, klen=_kl, mode='CTR', kw={'nonce': det('n', _bs // 2)})
_cfg('AES128-GCM', cipher='AES', klen=16, mode='GCM', kw={'nonce': det('n', 12)}, aead=True)
_cfg('AES128-GCM-n7-t12', cipher='AES', klen=16, mode='GCM', kw={'nonce': det('n', 7), 'mac_len': 12}, aead=True)
_cfg('AES128-GCM-noclmul', cipher='AES', klen=16, mode='GCM', kw={'nonce': det('n', 12), 'use_clmul': False}, aead=True)
_cfg('AES128-CCM', cipher='AES', klen=16, mode='CCM', kw={'nonce': det('n', 11)}, aead=True, ccm=True)
_cfg('AES128-OCB', cipher='AES', klen=16, mode='OCB', kw={'nonce': det('n', 15)}, aead=True, flush=True)
_cfg('AES128-OCB-t8', cipher='AES', klen=16, mode='OCB', kw={'nonce': det('n', 12), 'mac_len': 8}, aead=True, flush=True)
_cfg('AES256-SIV', cipher='AES', klen=64, mode='SIV', kw={'nonce': det('n', 16)}, aead=True, siv=True)
_cfg('ChaCha20-Poly1305-n12', cipher='ChaCha20_Poly1305', klen=32, mode=None, kw={'nonce': det('n', 12)}, aead=True, stream=True)
_cfg('ChaCha20-Poly1305-n24', cipher='ChaCha20_Poly1305', klen=32, mode=None, kw={'nonce': det('n', 24)}, aead=True, stream=True)
_cfg('ChaCha20-n8', cipher='ChaCha20', klen=32, mode=None, kw={'nonce': det('n', 8)}, stream=True)
_cfg('ChaCha20-n12', cipher='ChaCha20', klen=32, mode=None, kw={'nonce': det('n', 12)}, stream=True)
_cfg('Salsa20', cipher='Salsa20', klen=32, mode=None, kw={'nonce': det('n', 8)}, stream=True)
_cfg('ARC4', cipher='ARC4', klen=16, mode=None, kw={}, stream=True)


def make(name, **more):
    c = CFG[name]
    m = _cmod(c['cipher'])
    key = _key(c['cipher'], c['klen'])
    kw = dict(c['kw'])
    kw.update(more)
    if c['mode'] is None:
        if c['cipher'] == 'ARC4':
            return m.new(key)
        return m.new(key=key, **kw)
    return m.new(key, getattr(m, 'MODE_' + c['mode']), **kw)


@functools.lru_cache(maxsize=4096)
def _oneshot(name, n, what, aadlen):
    """(output bytes, tag or None) of the one-shot call"""
    c = CFG[name]
    data = det(('d', name, n), n)
    aad = det(('a', name, aadlen), aadlen)
    more = {'msg_len': n, 'assoc_len': aadlen} if c.get('ccm') else {}
    if what == 'dec':
        ct, tag = _oneshot(name, n, 'enc', aadlen)
        o = make(name, **more) if c['mode'] != 'OPENPGP' else make(name, iv=ct[:len(c['kw']['iv']) + 2])
        if c['mode'] == 'OPENPGP':
            return o.decrypt(ct[len(c['kw']['iv']) + 2:]), None
        if c.get('aead'):
            if aadlen:
                o.update(aad)
            return o.decrypt_and_verify(ct, tag), None
        return o.decrypt(ct), None
    o = make(name, **more)
    if c.get('aead'):
        if aadlen:
            o.update(aad)
        return o.encrypt_and_digest(data)
    return o.encrypt(data), None


def k_seg(name, n, cuts, what, aadlen=0, inplace=False):
    """what in enc|dec|aad: processing the data in pieces (cut at `cuts`) gives the one-shot result; inplace: every piece is
    processed with output= the (mutable) buffer that holds the piece itself"""
    if inplace:
        def piece(fn, b):
            buf = bytearray(b)
            r = fn(buf, output=buf)
            if r is not None:
                raise AssertionError('None expected with output=')
            return bytes(buf)
    else:
        def piece(fn, b):
            return fn(b)
    c = CFG[name]
    more = {'msg_len': n, 'assoc_len': aadlen} if c.get('ccm') else {}
    aad = det(('a', name, aadlen), aadlen)
    data = det(('d', name, n), n)
    exp = _oneshot(name, n, 'dec' if what == 'dec' else 'enc', aadlen)
    if what == 'aad':
        o = make(name, **more)
        pos = [0] + list(cuts) + [aadlen]
        for a, b in zip(pos, pos[1:]):
            o.update(aad[a:b])
        return exp, tuple(o.encrypt_and_digest(data))
    pos = [0] + list(cuts) + [n]
    if what == 'enc':
        o = make(name, **more)
        if c.get('aead') and aadlen:
            o.update(aad)
        out = b''.join(piece(o.encrypt, data[a:b]) for a, b in zip(pos, pos[1:]))
        if c.get('flush'):
            out += o.encrypt()
        return exp, (out, o.digest() if c.get('aead') else None)
    ct, tag = _oneshot(name, n, 'enc', aadlen)
    if c['mode'] == 'OPENPGP':
        ivl = len(c['kw']['iv']) + 2
        o = make(name, iv=ct[:ivl])
        ct = ct[ivl:]
    else:
        o = make(name, **more)
    if c.get('aead') and aadlen:
        o.update(aad)
    out = b''.join(piece(o.decrypt, ct[a:b]) for a, b in zip(pos, pos[1:]))
    if c.get('flush'):
        out += o.decrypt()
    if c.get('aead'):
        o.verify(tag)
    return exp, (out, None)


def _wrap(b, how):
    """present bytes b as another buffer type"""
    if how == 'bytes':
        return bytes(b)
    if how == 'bytearray':
        return bytearray(b)
    if how == 'memoryview':
        return memoryview(bytes(b))
    if how == 'memoryview_rw':
        return memoryview(bytearray(b))
    if how.startswith('mv_off'):
        off = int(how[6:])
        return memoryview(bytearray(b'\xAA' * off + bytes(b) + b'\x55' * 3))[off:off + len(b)]
    raise KeyError(how)


def k_buf(name, n, what, inp, out, aadlen=0, keytype='bytes'):
    """same result for every input buffer type and for output= (separate buffer or in place); inputs are not modified"""
    c = CFG[name]
    more = {'msg_len': n, 'assoc_len': aadlen} if c.get('ccm') else {}
    exp_out, exp_tag = _oneshot(name, n, what, aadlen)
    aad = det(('a', name, aadlen), aadlen)
    if what == 'enc':
        src = det(('d', name, n), n)
    else:
        src, tag = _oneshot(name, n, 'enc', aadlen)
    if c['mode'] == 'OPENPGP':
        ivl = len(c['kw']['iv']) + 2
        if what == 'dec':
            more['iv'] = src[:ivl]
            src = src[ivl:]
    if keytype != 'bytes':
        kw = dict(c['kw'])
        kw.update(more)
        for k in ('iv', 'nonce'):
            if k in kw:
                kw[k] = _wrap(kw[k], keytype)
        m = _cmod(c['cipher'])
        key = _wrap(_key(c['cipher'], c['klen']), keytype)
        if c['mode'] is None:
            o = m.new(key) if c['cipher'] == 'ARC4' else m.new(key=key, **kw)
        else:
            o = m.new(key, getattr(m, 'MODE_' + c['mode']), **kw)
    else:
        o = make(name, **more)
    if c.get('aead') and aadlen:
        a = _wrap(aad, inp)
        o.update(a)
        if bytes(a) != aad:
            return 'aad unmodified', 'aad modified'
    x = _wrap(src, inp if out != 'inplace' else ('memoryview_rw' if inp.startswith('memoryview') else inp if inp.startswith('mv_off') else 'bytearray'))
    f = o.encrypt if what == 'enc' else o.decrypt
    sivtag = []
    if c.get('siv'):
        if what == 'enc':
            def f(x, output=None):
                r, t = o.encrypt_and_digest(x, output=output)
                sivtag.append(t)
                return r
        else:
            def f(x, output=None):
                return o.decrypt_and_verify(x, _wrap(tag, 'bytearray'), output=output)
    has_out = 'output' in inspect.signature(f).parameters
    if out == 'none' or not has_out:
        if out != 'none':
            return 'n/a', 'n/a'
        r = f(x)
        if c.get('flush'):
            r += f()
        if bytes(x) != src:
            return 'input unmodified', 'input modified'
    elif out == 'inplace':
        r0 = f(x, output=x)
        r = bytes(x)
        if r0 is not None:
            return 'None returned with output=', repr(type(r0))
    else:
        ob = _wrap(bytes(len(src) if c['mode'] != 'OPENPGP' or what == 'dec' else len(src)), out)
        if c['mode'] == 'OPENPGP' and what == 'enc':
            return 'n/a', 'n/a'
        r0 = f(x, output=ob)
        r = bytes(ob)
        if r0 is not None:
            return 'None returned with output=', repr(type(r0))
        if bytes(x) != src:
            return 'input unmodified', 'input modified'
    t = None
    if c.get('siv'):
        t = sivtag[0] if what == 'enc' else None
    elif c.get('aead'):
        if what == 'enc':
            t = o.digest()
        else:
            o.verify(_wrap(tag, inp if not inp.startswith('mv_off') else 'memoryview'))
    return (exp_out, exp_tag), (bytes(r), t)


KINDS = {'basic': k_basic, 'aead': k_aead, 'chachapoly': k_chachapoly, 'kw': k_kw, 'kw_reject': k_kw_reject, 'seg': k_seg, 'buf': k_buf}

LENS16 = [0, 1, 15, 16, 17, 127, 128, 129]
LENS8 = [0, 1, 7, 8, 9, 15, 16, 17, 63, 64, 65, 127, 128, 129]
BIG = [2048, 4099]


def _lens(bs, aligned=False, big=True):
    ls = LENS16 if bs == 16 else LENS8
    if aligned:
        ls = sorted({0, bs, 2 * bs, 7 * bs, 8 * bs, 9 * bs, 16 * bs, 17 * bs})
    return ls + ((([2048, 4096 + bs] if aligned else BIG)) if big else [])


def _keysizes(cipher, tier):
    ks = _bc.KEYSIZES[cipher]
    if len(ks) <= 3:
        return ks
    return sorted({ks[0], ks[len(ks) // 2], 16, ks[-1]}) if tier == 'quick' else ks[::3] + [ks[-1]]


def _rkey(rnd, cipher, n):
    k = rnd.randbytes(n)
    while not _bc._valid_key(cipher, k):
        k = rnd.randbytes(n)
    return k


def t_basic(rec, rnd, tier, cipher, mode):
    bs = _bc.BLOCK[cipher]
    tgt = {'ECB': 'src/raw_ecb.c', 'CBC': 'src/raw_cbc.c', 'CFB': 'src/raw_cfb.c', 'OFB': 'src/raw_ofb.c', 'CTR': 'src/raw_ctr.c',
           'OPENPGP': 'lib/Crypto/Cipher/_mode_openpgp.py'}[mode]
    from spec import ref_openssl
    if cipher in ('CAST', 'ARC2') and not ref_openssl.available():
        prims = ['lib']
    else:
        prims = ['lib', 'ref']
    cid = {}
    for prim in prims:
        for d in ('encrypt', 'decrypt'):
            cid[prim, d] = rec.declare('%s.%s.%s_eq_spec_over_%s_primitive' % (cipher, mode, d, prim),
                                       '%s-%s %s(data) == reference %s composition over the %s block primitive' % (cipher, mode, d, mode, 'library ECB' if prim == 'lib' else 'reference'),
                                       'key sizes %s; lengths %s (ref primitive: <= 129 and one multi-KiB); %s' % (
                                           _keysizes(cipher, tier), _lens(bs, mode in ('ECB', 'CBC')),
                                           {'CFB': 'all segment sizes 8..%d bits' % (8 * bs), 'CTR': 'nonce lengths 0..%d x initial values {0,1,max-1,max,random}; Counter.new prefix/suffix/little-endian variants; 1-byte counter up to and beyond wrap' % (bs - 1),
                                            'ECB': 'also non-multiples of the block (ValueError)', 'CBC': 'also non-multiples of the block (ValueError)'}.get(mode, 'random IVs')), tgt)
    reps = 1 if tier == 'quick' else 6
    for ks in _keysizes(cipher, tier):
        for rep in range(reps):
            key = _rkey(rnd, cipher, ks)
            variants = []
            if mode == 'ECB':
                variants = [{}]
            elif mode in ('CBC', 'OFB', 'OPENPGP'):
                variants = [{'iv': rnd.randbytes(bs)}, {'iv': b'\xff' * bs}]
            elif mode == 'CFB':
                variants = [{'iv': rnd.randbytes(bs), 'segment_size': s} for s in range(8, 8 * bs + 1, 8)]
            elif mode == 'CTR':
                for nl in range(0, bs):
                    mx = (1 << (8 * (bs - nl))) - 1
                    for iv in {0, 1, mx - 1, mx, rnd.randint(0, mx)}:
                        variants.append({'nonce': rnd.randbytes(nl), 'initial_value': iv})
                variants.append({'nonce': rnd.randbytes(bs - 4), 'initial_value': rnd.randbytes(4)})
                for le in (False, True):
                    for (pl, sl) in ((0, 0), (4, 0), (0, 4), (3, 2), (bs - 1, 0), (0, bs - 1)):
                        nb = 8 * (bs - pl - sl)
                        variants.append({'nbits': nb, 'prefix': rnd.randbytes(pl), 'suffix': rnd.randbytes(sl),
                                         'initial_value': rnd.choice([0, 1, (1 << nb) - 1, rnd.randrange(1 << nb)]), 'little_endian': le})
            for p in variants:
                aligned = mode in ('ECB', 'CBC')
                lens = _lens(bs, aligned)
                if aligned:
                    lens = lens + [1, bs + 1, 8 * bs - 1]
                if mode == 'CTR' and (p.get('nbits') == 8 or len(p.get('nonce', b'')) == bs - 1):
                    lens = lens + [255 * bs, 256 * bs, 256 * bs + 1, 257 * bs]
                if mode in ('CFB', 'CTR') and len(variants) > 8:
                    lens = [x for x in lens if x < 2000] + ([rnd.choice(BIG)] if rnd.random() < 0.15 else [])
                for n in lens:
                    for prim in prims:
                        if prim == 'ref' and n > 129 and not (n == lens[-1] and rnd.random() < 0.3):
                            continue
                        data = rnd.randbytes(n)
                        rec.case(cid[prim, 'encrypt'], 'basic', cipher=cipher, key=key, mode=mode, params=p, data=data, dec=False, prim=prim)
                        if mode == 'OPENPGP':
                            data = rnd.randbytes(bs + 2) + data
                        rec.case(cid[prim, 'decrypt'], 'basic', cipher=cipher, key=key, mode=mode, params=p, data=data, dec=True, prim=prim)


AEAD_TGT = {'GCM': 'lib/Crypto/Cipher/_mode_gcm.py + src/ghash_portable.c/ghash_clmul.c', 'CCM': 'lib/Crypto/Cipher/_mode_ccm.py', 'EAX': 'lib/Crypto/Cipher/_mode_eax.py',
            'SIV': 'lib/Crypto/Cipher/_mode_siv.py', 'OCB': 'src/raw_ocb.c'}


def t_aead(rec, rnd, tier, mode, part=0, parts=1):
    q = tier == 'quick'
    cids = {}
    bound = {
        'GCM': 'AES-128/192/256; nonce lengths 1..17,31,32,33,64,128; mac_len 4..16 all; AAD lengths {0,1,15,16,17,40,128,129}; message lengths 0,1,15,16,17,127,128,129,2048,4099',
        'CCM': 'AES-128/192/256; nonce lengths 7..13 all x mac_len 4,6,..,16 all; msg_len/assoc_len declared and undeclared; AAD lengths {0,1,15,16,17,40} and 65279,65280,65281 (6-byte header); message lengths as GCM',
        'EAX': 'AES-128/256, DES3, Blowfish, CAST, ARC2, DES; nonce lengths 1,2,15,16,17,31,32,33,64; mac_len 2..block all; AAD lengths {0,1,15,16,17,40}; message lengths 0..129 set + multi-KiB',
        'SIV': 'keys 32/48/64 bytes; nonce absent or of length 1,12,16,17,33; 0..3 components of lengths {0,1,15,16,17,40}; message lengths 0,1,15,16,17,127,128,129,2048',
        'OCB': 'AES-128/192/256; nonce lengths 1..15 all x mac_len 8..16 all; every message length 0..80 with random AAD length and every AAD length 0..80 with random message length (thorough: full 81x81 grid for nonce 12/15, tags 8/12/16); + 127,128,129,2048,4099',
    }[mode]
    for prim in ('lib', 'ref'):
        cids[prim] = rec.declare('AES.%s.aead_eq_spec_over_%s_primitive' % (mode, prim) if mode != 'EAX' else 'EAX.aead_eq_spec_over_%s_primitive' % prim,
                                 '%s encrypt_and_digest == reference (ciphertext, tag); decrypt_and_verify returns the plaintext; tag with one flipped bit raises ValueError (%s primitive)' % (mode, 'library ECB' if prim == 'lib' else 'reference'),
                                 bound, AEAD_TGT[mode])
    i = [0]

    def go(key, nonce, aad, pt, mac_len, extra=None, refok=True):
        i[0] += 1
        if i[0] % parts != part:
            return
        rec.case(cids['lib'], 'aead', mode=mode, key=key, nonce=nonce, aad=aad, pt=pt, mac_len=mac_len, prim='lib', extra=extra)
        if refok and len(pt) + sum(map(len, aad)) <= 300:
            rec.case(cids['ref'], 'aead', mode=mode, key=key, nonce=nonce, aad=aad, pt=pt, mac_len=mac_len, prim='ref', extra=extra)
    alens = [0, 1, 15, 16, 17, 40]
    if mode == 'GCM':
        for ks in (16, 24, 32):
            for nl in list(range(1, 18)) + [31, 32, 33, 64, 128]:
                for ml in range(4, 17):
                    key, nonce = rnd.randbytes(ks), rnd.randbytes(nl)
                    for n in (LENS16 if (ml in (4, 12, 16) or nl in (12, 16)) else [rnd.choice(LENS16)]):
                        go(key, nonce, [rnd.randbytes(rnd.choice(alens + [128, 129]))], rnd.randbytes(n), ml)
            for n in BIG:
                go(rnd.randbytes(ks), rnd.randbytes(12), [rnd.randbytes(600)], rnd.randbytes(n), 16)
            go(rnd.randbytes(ks), rnd.randbytes(12), [rnd.randbytes(5), b'', rnd.randbytes(20)], rnd.randbytes(33), 16)
            go(rnd.randbytes(ks), rnd.randbytes(12), [rnd.randbytes(33)], rnd.randbytes(33), 16, {'use_clmul': False})
    elif mode == 'CCM':
        for ks in (16, 24, 32):
            for nl in range(7, 14):
                for ml in range(4, 17, 2):
                    key, nonce = rnd.randbytes(ks), rnd.randbytes(nl)
                    for n in (LENS16 if ml in (4, 16) or nl in (7, 13) else [rnd.choice(LENS16)]):
                        al = rnd.choice(alens)
                        decl = rnd.choice([{}, {'msg_len': n}, {'assoc_len': al}, {'msg_len': n, 'assoc_len': al}])
                        go(key, nonce, [rnd.randbytes(al)] if al else [], rnd.randbytes(n), ml, decl)
            for al in (65279, 65280, 65281):
                go(rnd.randbytes(ks), rnd.randbytes(12), [rnd.randbytes(al)], rnd.randbytes(17), 16, rnd.choice([{}, {'assoc_len': al}]))
            for n in BIG:
                go(rnd.randbytes(ks), rnd.randbytes(13), [rnd.randbytes(40)], rnd.randbytes(n), 16)
            go(rnd.randbytes(ks), rnd.randbytes(12), [rnd.randbytes(5), rnd.randbytes(20)], rnd.randbytes(33), 8)
    elif mode == 'EAX':
        for cipher, ks in (('AES', 16), ('AES', 32), ('DES3', 24), ('DES3', 16), ('Blowfish', 16), ('CAST', 16), ('ARC2', 16), ('DES', 8)):
            bs = _bc.BLOCK[cipher]
            from spec import ref_openssl
            refok = not (cipher in ('CAST', 'ARC2') and not ref_openssl.available())
            for nl in (1, 2, 15, 16, 17, 31, 32, 33, 64):
                for ml in range(2, bs + 1):
                    key = _rkey(rnd, cipher, ks)
                    for n in ((LENS16 if bs == 16 else LENS8) if ml in (2, bs) or nl == 16 else [rnd.choice(LENS16)]):
                        go(key, rnd.randbytes(nl), [rnd.randbytes(rnd.choice(alens))], rnd.randbytes(n), ml, {'cipher': cipher}, refok)
            for n in BIG:
                go(_rkey(rnd, cipher, ks), rnd.randbytes(16), [rnd.randbytes(100)], rnd.randbytes(n), bs, {'cipher': cipher}, refok)
    elif mode == 'SIV':
        for ks in (32, 48, 64):
            for nl in (None, 1, 12, 16, 17, 33):
                for ncomp in range(0, 4):
                    for n in LENS16 + [2048]:
                        comps = [rnd.randbytes(rnd.choice(alens[1:] if True else alens)) for _ in range(ncomp)]
                        go(rnd.randbytes(ks), None if nl is None else rnd.randbytes(nl), comps, rnd.randbytes(n), None)
    elif mode == 'OCB':
        for ks in (16, 24, 32):
            for nl in range(1, 16):
                for ml in range(8, 17):
                    key, nonce = rnd.randbytes(ks), rnd.randbytes(nl)
                    full = (not q) and nl in (12, 15) and ml in (8, 12, 16) and ks == 16
                    if full:
                        for n in range(81):
                            for al in range(81):
                                go(key, nonce, [rnd.randbytes(al)] if al else [], rnd.randbytes(n), ml)
                        continue
                    rng = range(81) if (ks == 16 or not q) else range(0, 81, 5)
                    for n in rng:
                        al = rnd.randint(0, 80)
                        go(key, nonce, [rnd.randbytes(al)] if al else [], rnd.randbytes(n), ml)
                    for al in rng:
                        go(key, nonce, [rnd.randbytes(al)] if al else [], rnd.randbytes(rnd.randint(0, 80)), ml)
            for n in [127, 128, 129] + BIG:
                go(rnd.randbytes(ks), rnd.randbytes(15), [rnd.randbytes(n // 2)], rnd.randbytes(n), 16)
                go(rnd.randbytes(ks), rnd.randbytes(12), [rnd.randbytes(n)], rnd.randbytes(5), 12)


def t_chachapoly(rec, rnd, tier):
    c = rec.declare('ChaCha20_Poly1305.aead_eq_spec', 'ChaCha20-Poly1305 encrypt_and_digest == RFC 8439 AEAD (XChaCha20 for 24-byte nonces, original ChaCha20 for 8-byte nonces); decrypt_and_verify inverts; modified tag refused',
                    'nonce lengths 8/12/24; AAD lengths {0,1,15,16,17,40,63,64,65}; message lengths {0,1,15,16,17,63,64,65,127,128,129,255,256,257,2048,4099}; %d random keys each' % (2 if tier == 'quick' else 20),
                    'lib/Crypto/Cipher/ChaCha20_Poly1305.py + src/poly1305.c + src/chacha20.c')
    for nl in (8, 12, 24):
        for rep in range(2 if tier == 'quick' else 20):
            key, nonce = rnd.randbytes(32), rnd.randbytes(nl)
            for al in (0, 1, 15, 16, 17, 40, 63, 64, 65):
                for n in (0, 1, 15, 16, 17, 63, 64, 65, 127, 128, 129, 255, 256, 257, 2048, 4099):
                    if n > 300 and al not in (0, 17):
                        continue
                    aad = [rnd.randbytes(al)] if al else []
                    if al == 40:
                        aad = [aad[0][:7], aad[0][7:]]
                    rec.case(c, 'chachapoly', key=key, nonce=nonce, aad=aad, pt=rnd.randbytes(n))


def t_kw(rec, rnd, tier):
    for mode in ('KW', 'KWP'):
        lens = [8 * k for k in range(2, 21)] + [256, 512, 4096] if mode == 'KW' else list(range(1, 81)) + [255, 256, 257, 4096, 4097]
        for prim in ('lib', 'ref'):
            c = rec.declare('AES.%s.seal_eq_spec_over_%s_primitive' % (mode, prim),
                            '%s seal(P) == reference wrap (SP 800-38F / RFC %s); unseal inverts; corrupted ciphertexts refused exactly when the reference refuses (%s primitive)' % (mode, '3394' if mode == 'KW' else '5649', prim),
                            'AES-128/192/256; plaintext lengths %s..%s (%d lengths); 3 single-byte corruptions each' % (lens[0], lens[-1], len(lens)), 'lib/Crypto/Cipher/_mode_%s.py' % mode.lower())
            for ks in (16, 24, 32):
                for n in lens:
                    if prim == 'ref' and n > 200:
                        continue
                    rec.case(c, 'kw', mode=mode, key=rnd.randbytes(ks), pt=rnd.randbytes(n), prim=prim)
        r = rec.declare('AES.%s.unseal_accepts_iff_spec' % mode, '%s unseal(C) returns the reference plaintext or raises ValueError exactly when the reference refuses, for arbitrary C' % mode,
                        'random ciphertexts of length 8..80 step 8 and non-multiples; for KWP also forged padding/length fields (encrypting crafted AIV blocks with the key)', 'lib/Crypto/Cipher/_mode_%s.py' % mode.lower())
        from spec import ref_modes as R
        for rep in range(60 if tier == 'quick' else 600):
            key = rnd.randbytes(rnd.choice([16, 24, 32]))
            n = rnd.choice([8, 16, 24, 32, 40, 80, 7, 17, 25])
            rec.case(r, 'kw_reject', mode=mode, key=key, ct=rnd.randbytes(n))
            if mode == 'KWP':
                # craft: valid wrap of a plaintext whose AIV length field / padding is off
                E = _prim('AES', key, 'lib')
                m = rnd.choice([1, 2, 3])
                body = rnd.randbytes(8 * m)
                mli = rnd.choice([8 * m, 8 * m - 7, 8 * (m - 1), 8 * (m - 1) + 1, 8 * m + 1, 0, 2 ** 32 - 1])
                pad_ok = rnd.random() < 0.5
                if pad_ok and 0 <= mli <= 8 * m:
                    body = body[:mli] + bytes(8 * m - mli)
                s = b'\xA6\x59\x59\xA6' + (mli % 2 ** 32).to_bytes(4, 'big') + body
                ct = E.encrypt_block(s) if len(s) == 16 else R.kw_w(E, s)
                rec.case(r, 'kw_reject', mode=mode, key=key, ct=ct)


def _cuts(n, three, align=1, restrict=None):
    pts = [i for i in range(0, n + 1) if i % align == 0]
    if restrict is not None:
        pts = [i for i in pts if i in restrict]
    for i in pts:
        yield (i,)
    if three:
        for a in range(len(pts)):
            for b in range(a, len(pts)):
                yield (pts[a], pts[b])


def t_seg(rec, rnd, tier, name, what):
    c = CFG[name]
    bs = 64 if c.get('stream') else (16 if c['cipher'] == 'AES' else 8)
    if c.get('stream') and c['cipher'] != 'ARC4':
        maxn = 4 * 64 + 3
    else:
        maxn = 4 * (16 if c['cipher'] in ('AES', 'ARC4') else 8) + 3
    cid = rec.declare('%s.segmentation.%s' % (name, what),
                      '%s: %s in pieces == one-shot result (ciphertext/plaintext and tag)' % (name, {'enc': 'encrypt()', 'dec': 'decrypt()', 'aad': 'update() of the associated data'}[what]),
                      'all two- and three-way cuts of every length 0..%d%s%s' % (
                          maxn, ' (cuts at multiples of the block only: other cuts are refused by design)' if c.get('align') else '',
                          '; for lengths > 67: all two-way cuts, three-way cuts only at {0,1,15,16,17,63,64,65,127,128,129,191,192,193,255,256,257,n-1,n} for n in {128,129,192,193,259}' if maxn > 67 else ''),
                      {'aad': 'update() cache of the mode', 'enc': 'encrypt() keystream/cache handling', 'dec': 'decrypt() keystream/cache handling'}[what] + ' (' + name + ')')
    special = {0, 1, 15, 16, 17, 63, 64, 65, 127, 128, 129, 191, 192, 193, 255, 256, 257}
    for n in range(0, maxn + 1):
        if n % c.get('align', 1):
            continue
        three = n <= 67
        restrict = None
        if n > 67 and n in (128, 129, 192, 193, 259):
            three = True
            restrict = special | {n - 1, n}
        if restrict is not None:
            for cut in _cuts(n, False, c.get('align', 1)):
                rec.case(cid, 'seg', name=name, n=n if what != 'aad' else 20, cuts=cut, what=what, aadlen=n if what == 'aad' else (13 if c.get('aead') else 0))
            gen = (x for x in _cuts(n, True, c.get('align', 1), restrict) if len(x) == 2)
        else:
            gen = _cuts(n, three, c.get('align', 1))
        for cut in gen:
            rec.case(cid, 'seg', name=name, n=n if what != 'aad' else 20, cuts=cut, what=what, aadlen=n if what == 'aad' else (13 if c.get('aead') else 0))


    # the same with every piece processed IN PLACE (output= the buffer holding the piece): state carried from one call to the next
    # (chaining value, key stream position, MAC input) must not be read back from a buffer the call has overwritten
    if what in ('enc', 'dec') and not c.get('flush') and c['mode'] != 'OPENPGP' and c['cipher'] != 'ARC4':      # (these offer no output=)
        bs = 64 if c.get('stream') and c['cipher'] != 'ARC4' else (16 if c['cipher'] in ('AES', 'ARC4') else 8)
        cid2 = rec.declare('%s.segmentation.%s.inplace' % (name, what),
                           '%s: %s in pieces, each piece in place (output= the piece), == one-shot result' % (name, {'enc': 'encrypt()', 'dec': 'decrypt()'}[what]),
                           'all two-way cuts and the three-way cuts at multiples of the block, lengths {block, 2*block, 3*block, 3*block+3}',
                           'state carried across calls vs. in-place output (' + name + ')')
        for n in (bs, 2 * bs, 3 * bs, 3 * bs + 3):
            if n % c.get('align', 1):
                continue
            for cut in _cuts(n, False, c.get('align', 1)):
                rec.case(cid2, 'seg', name=name, n=n, cuts=cut, what=what, aadlen=13 if c.get('aead') else 0, inplace=True)
            for a in range(0, n + 1, bs):
                for b in range(a, n + 1, bs):
                    rec.case(cid2, 'seg', name=name, n=n, cuts=(a, b), what=what, aadlen=13 if c.get('aead') else 0, inplace=True)


INPS = ['bytes', 'bytearray', 'memoryview', 'memoryview_rw', 'mv_off1', 'mv_off7', 'mv_off13']
OUTS = ['none', 'bytearray', 'memoryview_rw', 'mv_off1', 'mv_off9', 'inplace']


def t_buf(rec, rnd, tier):
    for name, c in CFG.items():
        cid = rec.declare('%s.buffers' % name, '%s: result independent of the buffer type of data/key/iv/nonce/aad (bytes, bytearray, memoryview incl. offsets into a larger buffer), of output= (bytearray, memoryview, at offsets) and of in-place operation (output is the input buffer); inputs are left unmodified' % name,
                          'input types %s x output %s x lengths {0,1,block-1,block,block+1,8*block-1,8*block,8*block+1,1000} x encrypt/decrypt; key/iv/nonce as bytearray and memoryview' % (INPS, OUTS),
                          'lib/Crypto/Util/_raw_api.py:c_uint8_ptr + mode wrappers (' + name + ')')
        bs = 64 if c.get('stream') else (16 if c['cipher'] == 'AES' else 8)
        al = c.get('align', 1)
        lens = sorted({0, 1, bs - 1, bs, bs + 1, 8 * bs - 1, 8 * bs, 8 * bs + 1, 1000})
        lens = [n for n in lens if n % al == 0] if al > 1 else lens
        if al > 1:
            lens = sorted(set(lens + [al, 2 * al, 8 * al, 9 * al, 1008]))
        for what in ('enc', 'dec'):
            for n in lens:
                for inp in INPS:
                    for out in OUTS:
                        if (c.get('flush') or c['mode'] == 'OPENPGP') and out != 'none':
                            continue          # OCB and OpenPGP offer no output= parameter
                        rec.case(cid, 'buf', name=name, n=n, what=what, inp=inp, out=out, aadlen=11 if c.get('aead') else 0)
                for kt in ('bytearray', 'memoryview', 'mv_off3'):
                    rec.case(cid, 'buf', name=name, n=n, what=what, inp='bytes', out='none', aadlen=11 if c.get('aead') else 0, keytype=kt)


def tasks(tier, seed):
    out = []
    for cipher in ('AES', 'DES3', 'DES', 'Blowfish', 'CAST', 'ARC2'):
        for mode in ('ECB', 'CBC', 'CFB', 'OFB', 'CTR', 'OPENPGP'):
            out.append(('basic.%s.%s' % (cipher, mode), 't_basic', dict(cipher=cipher, mode=mode)))
    for mode, parts in (('GCM', 2), ('CCM', 2), ('EAX', 3), ('SIV', 2), ('OCB', 6)):
        for p in range(parts):
            out.append(('aead.%s.%d' % (mode, p), 't_aead', dict(mode=mode, part=p, parts=parts)))
    out.append(('aead.ChaCha20_Poly1305', 't_chachapoly', {}))
    out.append(('kw', 't_kw', {}))
    for name, c in CFG.items():
        if c.get('siv'):
            continue
        for what in ('enc', 'dec') + (('aad',) if c.get('aead') else ()):
            out.append(('seg.%s.%s' % (name, what), 't_seg', dict(name=name, what=what)))
    out.append(('buf', 't_buf', {}))
    return out


def run(tier='quick', seed=None, src_dir=None, only=None):
    return _common.run('bounded.modes', tier, seed, src_dir, only)


if __name__ == '__main__':
    sys.exit(_common.main('bounded.modes'))
