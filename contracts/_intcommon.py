"""Shared pieces of the integer / randomness areas (C14, C16, C18): spec forms, the entropy-tape model, entry-state builders.

Entropy model (DESIGN.md 2.3, C18): a source of random bytes is an abstract object `native.Tape` with ghost fields
  g_id   which tape it is (0 = the system RNG: os.urandom / Random.new().read / get_random_bytes; >= 1 = a caller's randfunc)
  g_pos  the cursor
and a call `tape_obj(n)` returns the uninterpreted byte string tape(g_id, g_pos, n) of length n and advances the cursor by n.
The system tape is ONE object per execution (created on first use, cursor = the constant sys_pos0), distinct from every
caller tape, so "reads nothing from the system RNG" is `systape().g_pos == old(systape().g_pos)`.

Spec forms added to the clause language (all exact definitions or uninterpreted symbols; no assumption is hidden here):
  ival(x)            mathematical value of an int or of an Integer object of any back end
  ipow(b, e)         b**e (e >= 0)            modpow(b, e, m)   pow(b, e, m)          modinv(x, m)   pow(x, -1, m)
  gcd(a, b)          math.gcd                 bitlen(x)         int.bit_length
  bitand/bitor(a,b)  python's & and | on unbounded integers
  tape(t, pos, n)    the n bytes of tape t at position pos (tapei(id, pos, n): the same by tape id);   systape()   the system tape;   tape_of(rf)   rf, or the system
                     tape when rf is None / os.urandom
  all_of / any_of / imp   non-forking boolean connectives (every argument is evaluated; keeps callee contracts cheap)
  kwarg(name[, d])   value of the keyword `name` in the ENTRY **kwargs dict (the body pops from it)
Lemma forms (each returns the ground instance of a theorem about an uninterpreted symbol, and records it as a fact; they are
listed as TRUSTED mathematical facts in the evidence, see LEMMA_TEXT):
  be_cat(a, b)       be(a + b) == be(a) * 256**len(b) + be(b)
  be_split(s, i, j)  0 <= i <= j <= len(s) ==> be(s[:j]) == be(s[:i]) * 256**(j-i) + be(s[i:j])    (be_cat on prefixes)
  be_lt(b)           be(b) < 256**len(b)
  be_zeros(n)        be(b'\\x00' * n) == 0
  be_lower(b)        b[0] != 0 ==> be(b) >= 256**(len(b)-1);      i2osp_be(b)   i2osp(be(b), len(b)) == b
  modpow_reduce(b, e, m)   m > 0 ==> modpow(b % m, e, m) == modpow(b, e, m)
  pow2_add(a, b)     a, b >= 0 ==> 2**(a + b) == 2**a * 2**b
  mulmod_reduce(a, b, m)   m > 0 ==> ((a % m) * (b % m)) % m == (a * b) % m
  gcd_lcm_coprime(a, b, e) gcd(a, e) == 1 and gcd(b, e) == 1 ==> gcd(e, lcm(a, b)) == 1
"""
import z3

from vf.pyvc.values import *        # noqa
from vf.pyvc import interp, models, ops, loader
from vf.pyvc.interp import BuiltinV, ClassV
from vf.pyvc.contracts import Contract, ClassContract, apply_contract, fresh_typed

TAPE = z3.Function('tape', INT, INT, INT, BYTES)
models.SEQ_LEN_ARG['tape'] = 2            # len(tape(id, pos, n)) == n for n >= 0
SYS_POS0 = z3.Int('sys_pos0')

LEMMA_TEXT = ['be(a ++ b) == be(a) * 256**len(b) + be(b)   (positional notation; induction on len(b))',
              'be(b) < 256**len(b)', "be(b'\\x00' * n) == 0",
              '(b mod m)**e == b**e (mod m) for m > 0   (Mathlib: Int.ModEq.pow)', '2**(a + b) == 2**a * 2**b for a, b >= 0   (pow_add)',
              '((a mod m) * (b mod m)) mod m == (a * b) mod m for m > 0   (Int.mul_emod)',
              'ground facts attached to the uninterpreted symbols pow2, ipow, modpow, modinv, gcd, bitlen, be, le, rev '
              '(vf/pyvc/models.py, ops.py): each is an instance of the defining property of the python operation it names']


def val(st, v):
    return [('val', st, v)]


def _trusted(E, text):
    """record the use of a trusted lemma schema: it then appears among the assumptions of the unit's evidence"""
    if E.registry is not None:
        E.registry.used.add('TRUSTED LEMMA (ground instance of a textbook theorem): ' + text)


# ---------------------------------------------------------------- values of Integer objects

def int_value(st, x):
    """mathematical value of an int or of an Integer object (IntegerNative/IntegerCustom: _value; IntegerGMP: ghost value
    of its mpz)"""
    if is_intlike(x):
        return x
    if isinstance(x, Ref):
        h = st.heap[x.oid]
        if h.kind == 'obj':
            if '_value' in h.fields and not isinstance(h.fields['_value'], LazyUnion):
                return h.fields['_value']
            if '_mpz_p' in h.fields:
                m = h.fields['_mpz_p']
                if isinstance(m, Ref) and 'g_val' in st.heap[m.oid].fields:
                    return st.heap[m.oid].fields['g_val']
    raise Unsupported('ival() of %r' % (x,))


def sf_ival(E, st, args, kw):
    return val(st, int_value(st, args[0]))


def sf_ipow(E, st, args, kw):
    b, e = args
    if isinstance(b, int) and isinstance(e, int) and 0 <= e <= 4096:
        return val(st, b ** e)
    return val(st, mk_int(ops.ipow(E, st, zint(b), zint(e))))


def sf_modpow(E, st, args, kw):
    b, e, m = (zint(a) for a in args)
    t = models.MODPOW(b, e, m)
    st.fact(z3.Implies(m > 0, z3.And(t >= 0, t < m)))
    st.fact(z3.Implies(m < 0, z3.And(t <= 0, t > m)))
    return val(st, mk_int(t))


def sf_modinv(E, st, args, kw):
    x, m = (zint(a) for a in args)
    return val(st, mk_int(models.MODINV(x, m)))


def sf_gcd(E, st, args, kw):
    a, b = args
    return val(st, mk_int(models.gcd_value(E, st, zint(a), zint(b))))


def sf_bitlen(E, st, args, kw):
    return models.m_bit_length(E, st, args[0], [], {})


def sf_bitand(E, st, args, kw):
    import ast
    return val(st, mk_int(ops.bitop_value(E, st, ast.BitAnd, zint(args[0]), zint(args[1]))))


def sf_bitor(E, st, args, kw):
    import ast
    return val(st, mk_int(ops.bitop_value(E, st, ast.BitOr, zint(args[0]), zint(args[1]))))


# ---------------------------------------------------------------- lemma instances (trusted theorems, ground)

def _p256(E, st, ln):
    ln = z3.simplify(ln)
    if z3.is_int_value(ln) and 0 <= ln.as_long() <= 4096:
        return z3.IntVal(256 ** ln.as_long())
    return ops.pow2(E, st, 8 * ln)


def sf_be_split(E, st, args, kw):
    _trusted(E, 'be(s[:j]) == be(s[:i]) * 256**(j-i) + be(s[i:j]) for 0 <= i <= j <= len(s)')
    """be_split(s, i, j): 0 <= i <= j <= len(s) ==> be(s[:j]) == be(s[:i]) * 256**(j - i) + be(s[i:j])   (be_cat on prefixes: no
    concatenation term for the solver to match)"""
    sv, i, j = args
    sink = []
    zi, zj = zint(i), zint(j)
    guard = z3.And(zi >= 0, zi <= zj, zj <= z3.Length(zbytes(sv)))
    # the terms of the conclusion are built in a state that KNOWS the hypothesis (slice bounds in range): they then take the same
    # shape as the terms the code under proof builds where the bounds are known (ops.seq_nth); the facts produced on the way are
    # unconditional truths and are carried over
    st2 = st.fork()
    st2.assume(guard)
    n0 = len(st2.pc)
    a = ops.slice_bytes(E, sv, slice(None, i), st2, sink)
    b = ops.slice_bytes(E, sv, slice(i, j), st2, sink)
    c = ops.slice_bytes(E, sv, slice(None, j), st2, sink)
    eq = models.be_value(E, st2, zbytes(c)) == _be_term(E, st2, zbytes(a)) * _p256(E, st2, zj - zi) + _be_term(E, st2, zbytes(b))
    for f in st2.pc[n0:]:
        if f.get_id() in st2.facts:
            st.fact(f)
    t = z3.Implies(guard, eq)
    st.fact(t)
    return val(st, mk_bool(t))


def sf_be_lower(E, st, args, kw):
    _trusted(E, 'b[0] != 0 ==> be(b) >= 256**(len(b) - 1)')
    b = zbytes(args[0])
    ln = models.seq_length(E, st, b)
    t = z3.Implies(z3.And(ln >= 1, b[0] != z3.BitVecVal(0, 8)), models.be_value(E, st, b) >= ops.pow2(E, st, 8 * (ln - 1)))
    st.fact(t)
    return val(st, mk_bool(t))


def sf_i2osp_be(E, st, args, kw):
    _trusted(E, 'i2osp(be(b), len(b)) == b   (i2osp is the inverse of be on strings of one length)')
    b = zbytes(args[0])
    t = models.I2OSP(models.be_value(E, st, b), z3.Length(b)) == b
    st.fact(t)
    return val(st, mk_bool(t))


def sf_be_zeros(E, st, args, kw):
    _trusted(E, "be(b'\\\\x00' * n) == 0")
    """be(b'\\x00' * n) == 0"""
    z = zbytes(ops.replicate(E, b'\x00', args[0], st))
    t = models.be_value(E, st, z) == 0
    st.fact(t)
    return val(st, mk_bool(t))


def _be_term(E, st, zs):
    """be(zs): written out digit by digit when the path condition fixes a short length (as struct.unpack does)"""
    ln = z3.simplify(models.seq_length(E, st, zs))
    if z3.is_int_value(ln) and ln.as_long() <= 16:
        t = z3.IntVal(0)
        for i in range(ln.as_long()):
            t = t * 256 + ops.byte_int(E, st, ops.seq_nth(E, st, zs, i))
        return t
    return models.be_value(E, st, zs)


def sf_be_cat(E, st, args, kw):
    _trusted(E, 'be(a ++ b) == be(a) * 256**len(b) + be(b)')
    a, b = (zbytes(x) for x in args)
    lb = models.seq_length(E, st, b)
    t = models.be_value(E, st, z3.Concat(a, b)) == _be_term(E, st, a) * _p256(E, st, lb) + _be_term(E, st, b)
    st.fact(t)
    return val(st, mk_bool(t))


def sf_be_lt(E, st, args, kw):
    _trusted(E, 'be(b) < 256**len(b)')
    b = zbytes(args[0])
    t = models.be_value(E, st, b) < ops.pow2(E, st, 8 * models.seq_length(E, st, b))
    st.fact(t)
    return val(st, mk_bool(t))


def sf_pow2_add(E, st, args, kw):
    _trusted(E, '2**(a+b) == 2**a * 2**b for a, b >= 0')
    a, b = (zint(x) for x in args)

    def p2(n):
        n = z3.simplify(n)
        return z3.IntVal(2 ** n.as_long()) if z3.is_int_value(n) and 0 <= n.as_long() <= 4096 else ops.pow2(E, st, n)
    t = z3.Implies(z3.And(a >= 0, b >= 0), p2(a + b) == p2(a) * p2(b))
    st.fact(t)
    return val(st, mk_bool(t))


def sf_mulmod_reduce(E, st, args, kw):
    _trusted(E, '((a mod m)(b mod m)) mod m == (a b) mod m for m > 0')
    a, b, m = (zint(x) for x in args)
    t = z3.Implies(m > 0, ((a % m) * (b % m)) % m == (a * b) % m)
    st.fact(t)
    return val(st, mk_bool(t))


def lcm_term(a, b):
    ab = a * b
    return z3.If(z3.Or(a == 0, b == 0), 0, z3.If(ab < 0, -ab, ab) / models.GCD(a, b))


def sf_gcd_lcm_coprime(E, st, args, kw):
    """gcd(a, e) == 1 and gcd(b, e) == 1  ==>  gcd(e, lcm(a, b)) == 1     (lcm(a, b) = |a*b| // gcd(a, b), 0 if a or b is 0)"""
    _trusted(E, 'gcd(a, e) == 1 and gcd(b, e) == 1 ==> gcd(e, lcm(a, b)) == 1   (a number coprime to two numbers is coprime to their lcm)')
    a, b, e = (zint(x) for x in args)
    models.gcd_value(E, st, a, b)
    t = z3.Implies(z3.And(models.gcd_value(E, st, a, e) == 1, models.gcd_value(E, st, b, e) == 1),
                   models.gcd_value(E, st, e, lcm_term(a, b)) == 1)
    st.fact(t)
    return val(st, mk_bool(t))


def sf_modpow_reduce(E, st, args, kw):
    _trusted(E, '(b mod m)**e mod m == b**e mod m for m > 0')
    b, e, m = (zint(a) for a in args)
    t = z3.Implies(m > 0, models.MODPOW(b % m, e, m) == models.MODPOW(b, e, m))
    st.fact(t)
    return val(st, mk_bool(t))


# ---------------------------------------------------------------- proved lemmas (Dafny style)
#
# A lemma is a spec function  spec.<module>.lemma_<name>(args)  whose body is `return True` and whose Contract
# (requires ==> ensures, over integers / bytes) is VERIFIED like any other target, in its own small context, by a registered
# unit.  `lemma("<module>.<name>", args...)` in a clause denotes the instance  /\ requires(args) ==> /\ ensures(args)  and
# records it as a fact: sound because the universally quantified statement is proved by the lemma's own unit
# (LEMMA_TARGETS lists them; every area that uses a lemma registers lemma_units()).

def sf_lemma(E, st, args, kw):
    from vf.pyvc.contracts import eval_clause, _spec_frame, _as_z3
    name = args[0]
    q = 'spec.' + name.replace('.', '.lemma_', 1) if '.lemma_' not in name else 'spec.' + name
    c = E.registry.contracts.get(q)
    if c is None or c.assumed:
        raise Unsupported('lemma %s is not a registered, proved contract' % q)
    fi = loader.find_function(q)
    names = [a.arg for a in fi.node.args.args]
    if len(names) != len(args) - 1:
        raise Unsupported('lemma %s expects %d arguments' % (q, len(names)))
    s0 = st.fork()
    s0.frames.append(_spec_frame(s0, dict(zip(names, args[1:])), fi.module))
    s0.snap = None
    req = [_as_z3(eval_clause(E, cl, s0)) for cl in c.requires]
    ens = [_as_z3(eval_clause(E, cl, s0)) for cl in c.ensures.values()]
    for t in s0.pc[len(st.pc):]:
        if t.get_id() in s0.facts:
            st.fact(t)
    inst = z3.Implies(z3.And(req) if req else z3.BoolVal(True), z3.And(ens))
    st.fact(inst)
    E.registry.used.add(q)
    return val(st, mk_bool(inst))


# ---------------------------------------------------------------- entropy tapes

def sys_tape(E, st):
    # (ghost keys starting with '_' are not havocked at loop cuts)
    oid = st.ghost.get('_sys_tape_oid')
    if oid is None or oid not in st.heap:
        import inspect
        fns = [f.function for f in inspect.stack(0)]
        if '_cut_loop' in fns and 'eval_value' not in fns:      # (clause evaluation works on a fork: harmless there)
            if True:
                # the body of a loop cut by an invariant runs from an ARBITRARY iteration: creating the system tape there
                # (cursor = its initial value) would be wrong for every iteration but the first
                raise Unsupported('first use of the system RNG inside a loop cut by an invariant (peel the first iteration)')
        h = HObj('obj', cls=None)
        h.ghost_id = 'native.Tape'
        h.fields = {'g_id': 0, 'g_pos': SInt(SYS_POS0)}
        oid = st.alloc(h).oid
        st.ghost['_sys_tape_oid'] = oid
        st.fact(SYS_POS0 >= 0)
    return Ref(oid)


def is_tape(st, v):
    return isinstance(v, Ref) and getattr(st.heap[v.oid], 'ghost_id', None) == 'native.Tape'


def sf_systape(E, st, args, kw):
    return val(st, sys_tape(E, st))


def sf_tape_of(E, st, args, kw):
    rf = args[0]
    if rf is None or (isinstance(rf, BuiltinV) and rf.name == 'os.urandom'):
        return val(st, sys_tape(E, st))
    if is_tape(st, rf):
        return val(st, rf)
    raise Unsupported('tape_of(%r)' % (rf,))


def sf_tape(E, st, args, kw):
    t, pos, n = args
    if not is_tape(st, t):
        raise Unsupported('tape() of a non-tape %r' % (t,))
    zn = zint(n)
    r = TAPE(zint(st.heap[t.oid].fields['g_id']), zint(pos), zn)
    st.fact(z3.Implies(zn >= 0, z3.Length(r) == zn))
    return val(st, mk_bytes(r))


def sf_tapei(E, st, args, kw):
    """tape bytes by tape id (an int): usable inside spec functions that may be opaque"""
    tid, pos, n = args
    zn = zint(n)
    r = TAPE(zint(tid), zint(pos), zn)
    st.fact(z3.Implies(zn >= 0, z3.Length(r) == zn))
    return val(st, mk_bytes(r))


def sf_kwarg(E, st, args, kw):
    name = args[0]
    default = args[1] if len(args) > 1 else None
    ref = st.frame.env.get('kwargs')
    if not isinstance(ref, Ref):
        raise Unsupported('kwarg() outside a function with **kwargs')
    src = st.snap if (st.snap is not None and ref.oid in st.snap.heap) else st
    return val(st, src.heap[ref.oid].items.get(name, default))


def _tz(E, st, v):
    t = E.truth(v, st)
    return z3.BoolVal(t) if isinstance(t, bool) else t


def sf_all_of(E, st, args, kw):
    """non-forking conjunction: every argument is evaluated (each must be well defined)"""
    return val(st, mk_bool(z3.And([_tz(E, st, a) for a in args])))


def sf_any_of(E, st, args, kw):
    return val(st, mk_bool(z3.Or([_tz(E, st, a) for a in args])))


def sf_imp(E, st, args, kw):
    """non-forking implication (both sides are evaluated)"""
    return val(st, mk_bool(z3.Implies(_tz(E, st, args[0]), _tz(E, st, args[1]))))


def sf_zdiv(E, st, args, kw):
    """a // b for b > 0 written with the solver's own div (the form struct.pack / i2osp digits are built from)"""
    return val(st, mk_int(zint(args[0]) / zint(args[1])))


def sf_zmod(E, st, args, kw):
    """a % b for b > 0 written with the solver's own mod"""
    return val(st, mk_int(zint(args[0]) % zint(args[1])))


def sf_kwargs_only(E, st, args, kw):
    """the ENTRY **kwargs dict has no key outside the given names"""
    ref = st.frame.env.get('kwargs')
    if not isinstance(ref, Ref):
        raise Unsupported('kwargs_only() outside a function with **kwargs')
    src = st.snap if (st.snap is not None and ref.oid in st.snap.heap) else st
    return val(st, all(k in args for k in src.heap[ref.oid].items))


FORMS = {'ival': sf_ival, 'ipow': sf_ipow, 'modpow': sf_modpow, 'modinv': sf_modinv, 'gcd': sf_gcd, 'bitlen': sf_bitlen,
         'bitand': sf_bitand, 'bitor': sf_bitor, 'be_cat': sf_be_cat, 'be_split': sf_be_split, 'be_lt': sf_be_lt, 'be_zeros': sf_be_zeros, 'be_lower': sf_be_lower, 'i2osp_be': sf_i2osp_be, 'modpow_reduce': sf_modpow_reduce, 'mulmod_reduce': sf_mulmod_reduce, 'gcd_lcm_coprime': sf_gcd_lcm_coprime, 'pow2_add': sf_pow2_add,
         'lemma': sf_lemma, 'systape': sf_systape, 'tape_of': sf_tape_of, 'tape': sf_tape, 'tapei': sf_tapei, 'kwarg': sf_kwarg, 'kwargs_only': sf_kwargs_only, 'zdiv': sf_zdiv, 'zmod': sf_zmod, 'all_of': sf_all_of, 'any_of': sf_any_of, 'imp': sf_imp}
for _nm, _fn in FORMS.items():
    interp.SPEC_BUILTINS.setdefault(_nm, BuiltinV('spec.' + _nm, _fn))


def m_urandom(E, st, args, kw):
    """os.urandom(n) == a read of n bytes from the system tape"""
    reg = E.registry
    return apply_contract(E, reg.contracts['native.Tape.__call__'], st, [sys_tape(E, st)] + list(args), kw)


def m_random_new(E, st, args, kw):
    """Crypto.Random.new(): an object whose .read is the system tape"""
    h = HObj('obj', cls=None)
    h.ghost_id = 'native.SysRNG'
    h.fields = {'read': sys_tape(E, st)}
    return val(st, st.alloc(h))


TAPE_T = 'obj:native.Tape'


def sys_untouched(tp):
    """clause: when the entropy comes from a caller tape (id != 0) the system RNG is not read"""
    return '(old(%s.g_id) != 0) ==> systape().g_pos == old(systape().g_pos)' % tp


def add_entropy_model(reg):
    reg.add(ClassContract('native.Tape', fields={'g_id': 'pos', 'g_pos': 'nat'}, valid=['self.g_pos >= 0'], abstract=True))
    reg.add(ClassContract('native.SysRNG', fields={'read': TAPE_T}, abstract=True))
    reg.add(Contract('native.Tape.__call__', params={'self': TAPE_T, 'n': 'int'}, requires=['n >= 0'],
                     returns='tape(self, old(self.g_pos), n)', sets={'self.g_pos': 'old(self.g_pos) + n'},
                     modifies=['self.g_pos'], options={'exact': True},
                     assumed='entropy model: randfunc(n) / os.urandom(n) returns the next n bytes of its tape and advances the '
                             'cursor by n (DESIGN 2.3 ghost tape); unchecked: this is the model of the environment'))
    # (base.py models the system source read-by-read for other areas; the integer/random areas need the cursor model)
    reg.overrides['os.urandom'] = BuiltinV('os.urandom', m_urandom)
    reg.overrides['Crypto.Random.get_random_bytes'] = reg.overrides['os.urandom']
    reg.models['Crypto.Random.new'] = m_random_new
    return reg


# ---------------------------------------------------------------- the lemma library (spec/integer.py: lemma_*)

def add_lemmas(reg):
    L = 'spec.integer.lemma_'
    I4 = {'a': 'int', 'b': 'int', 'c': 'int', 'd': 'int'}
    # positional notation: a digit below B in front of a tail below P gives a number below B*P ...
    reg.add(Contract(L + 'radix_lt', params=dict(I4), requires=['0 <= a', 'a < d', '0 <= b', 'b < c'],
                     ensures={'lt': 'a * c + b < d * c', 'ge': 'a * c + b >= 0'}, result='bool', returns='True', modifies=[]))
    # ... and a digit >= H gives a number >= H*P
    reg.add(Contract(L + 'radix_ge', params=dict(I4), requires=['a >= d', 'b >= 0', 'c >= 0'],
                     ensures={'ge': 'a * c + b >= d * c'}, result='bool', returns='True', modifies=[]))
    I3 = {'a': 'int', 'b': 'int', 'c': 'int'}
    reg.add(Contract(L + 'ceil_unique', params=dict(I3), requires=['b > 0', 'c * b >= a', '(c - 1) * b < a'],
                     ensures={'eq': 'c == (a + b - 1) // b'}, result='bool', returns='True', modifies=[]))
    reg.add(Contract(L + 'range_index', params=dict(I3), requires=['b > 0', '0 <= c', 'c < (a + b - 1) // b'],
                     ensures={'lt': 'c * b < a', 'mult': '(c * b) % b == 0'}, result='bool', returns='True', modifies=[]))
    reg.add(Contract(L + 'isqrt_unique', params=dict(I3),
                     requires=['b >= 0', 'b * b <= a', 'a < (b + 1) * (b + 1)', 'c >= 0', 'c * c <= a', 'a < (c + 1) * (c + 1)'],
                     ensures={'eq': 'b == c'}, result='bool', returns='True', modifies=[]))
    reg.add(Contract(L + 'mul_divisible', params=dict(I3), requires=['c > 0', 'a % c == 0'], ensures={'div': '(a * b) % c == 0'},
                     lemmas={'exit': {'k': 'a == (a // c) * c', 'prod': 'a * b == ((a // c) * b) * c',
                                      'mult': '(((a // c) * b) * c) % c == 0'}},
                     result='bool', returns='True', modifies=[]))
    reg.add(Contract(L + 'div_exact', params={'a': 'int', 'b': 'int'}, requires=['b > 0', 'a % b == 0'],
                     ensures={'abs': 'abs(a // b) == abs(a) // b'}, result='bool', returns='True', modifies=[]))
    # (written with the solver's own div/mod, the form `n & mask` and `n >> k` are translated to)
    reg.add(Contract(L + 'split_mul', params=dict(I3), requires=['b > 0'], ensures={'eq': 'zmod(a, b) * c + zdiv(a, b) * (b * c) == a * c'},
                     lemmas={'exit': {'dm': 'a == zdiv(a, b) * b + zmod(a, b)'}}, result='bool', returns='True', modifies=[]))
    reg.add(Contract(L + 'small_quot', params=dict(I3), requires=['a >= 0', 'b >= 0', 'c > 0', 'a + b * c < c'], ensures={'zero': 'b == 0'},
                     result='bool', returns='True', modifies=[]))
    reg.add(Contract(L + 'horner4', params={'a': 'int'}, requires=['0 <= a', 'a < 4294967296'], ensures={'eq': 'spec.integer.horner4(a) == a'},
                     result='bool', returns='True', modifies=[]))
    reg.add(Contract(L + 'horner8', params={'a': 'int'}, requires=['0 <= a', 'a < 18446744073709551616'],
                     ensures={'eq': 'spec.integer.horner8(a) == a'}, result='bool', returns='True', modifies=[]))
    return reg


LEMMA_TARGETS = ['spec.integer.lemma_radix_lt', 'spec.integer.lemma_radix_ge', 'spec.integer.lemma_ceil_unique',
                 'spec.integer.lemma_range_index', 'spec.integer.lemma_isqrt_unique',
                 'spec.integer.lemma_mul_divisible', 'spec.integer.lemma_div_exact', 'spec.integer.lemma_split_mul',
                 'spec.integer.lemma_small_quot', 'spec.integer.lemma_horner4', 'spec.integer.lemma_horner8']


def lemma_units(prop, prefix, registry):
    from vf.pyunit import pyvc_unit
    return [pyvc_unit(prop, prefix + 'lemmas', registry, list(LEMMA_TARGETS), timeout_ms=180000)]


# ---------------------------------------------------------------- long_to_bytes / bytes_to_long as seen by the integer areas

NUM = 'Crypto.Util.number.'


def ltb_contract(assumed=True):
    """long_to_bytes(n, blocksize): accepts a python int or an Integer object (it only uses & >> comparisons and struct.pack).
    Clauses from its docstring: big-endian value; minimal length when blocksize == 0; exactly blocksize bytes when n fits;
    plus the two consequences of positional notation (upper / lower bound by length) that callers need."""
    return Contract(NUM + 'long_to_bytes', params={'n': 'int', 'blocksize': 'int'},
                    raises={'ValueError': ('iff', 'ival(n) < 0 or blocksize < 0')}, result='bytes',
                    ensures={'value': 'be(result) == ival(n)', 'nonempty': 'len(result) >= 1',
                             'bound': 'ival(n) < pow2(8 * len(result))',
                             'zero': 'imp(all_of(blocksize == 0, ival(n) == 0), result == bytes(1))',
                             'minimal': 'imp(all_of(blocksize == 0, ival(n) > 0), all_of(nth(result, 0) != 0, ival(n) >= pow2(8 * (len(result) - 1))))',
                             'fixed': 'imp(all_of(blocksize > 0, ival(n) < pow2(8 * blocksize)), all_of(len(result) == blocksize, result == i2osp(ival(n), blocksize)))'},
                    modifies=[],
                    assumed=('these clauses are PROVED for python-int arguments (unit number.long_to_bytes, C14); used here as the contract '
                             'seen by callers, where n may also be an Integer object (value ival(n): the function only applies & >> '
                             'comparisons and struct.pack to it) -- for Integer-object arguments assumed; bounded: bounded/number.py') if assumed else None)


def use_lean_number_contracts(reg):
    reg.add(ltb_contract())
    return reg


# ---------------------------------------------------------------- entry-state builders

class KwMaker:
    """builds a **kwargs dict whose values are fresh symbolic values of the given types"""

    def __init__(self, **types):
        self.types = types

    def __call__(self, E, st, name):
        items = {}
        for k, t in self.types.items():
            items[k] = fresh_typed(E, st, t, '%s.%s' % (name, k))
        return st.alloc(HObj('dict', items=items))

    def label(self):
        return '{' + ','.join(sorted(self.types)) + '}'


def kw(**types):
    m = KwMaker(**types)
    return ('make', m, m.label())


def class_value(qualname):
    return ('const', ClassV(loader.find_class(qualname)))
