"""Abstract native collaborators shared by the AEAD-part-1 areas (gcm, chachapoly, cmac, eax).

Every object here is backed by C code reached through ctypes (out of PYVC's reach): it is an ABSTRACT class with ghost
state (`g_*`) and ASSUMED contracts whose values are the uninterpreted symbols of /verif/spec/aead1.py.  Each contract names
the bounded run-time harness that exercises it.  This module registers no verification unit."""
from vf.pyvc.contracts import Contract, ClassContract, apply_contract, SPEC_FORMS
from vf.pyvc.values import *        # noqa
from vf.pyvc.interp import BuiltinV, FrozenDict
from vf.pyvc import interp as _interp
import z3

CTR = 'Crypto.Cipher._mode_ctr.CtrMode'
ECB = 'Crypto.Cipher._mode_ecb.EcbMode'
CBC = 'Crypto.Cipher._mode_cbc.CbcMode'
FACTORY = 'native.BlockCipherModule'            # a module of Crypto.Cipher (AES, DES3, ...) passed as `factory`/`ciphermod`
B2S = 'Crypto.Hash.BLAKE2s.BLAKE2s_Hash'
MODES = {'MODE_ECB': 1, 'MODE_CBC': 2, 'MODE_CTR': 6}        # Crypto/Cipher/_mode constants of every block-cipher module
EMPTY_PARAMS = ('const', FrozenDict({}))


# ---------------------------------------------------------------- a spec form: bytewise xor of two n-byte strings
def sf_bxor(E, st, args, kw):
    """bxor(a, b, n): the bytewise exclusive or of the first n bytes of a and b, n a concrete int (exact, bit-vector xor)"""
    a, b, n = args
    if not isinstance(n, int):
        raise Unsupported('bxor with symbolic length')
    za, zb = zbytes(a), zbytes(b)
    if n == 0:
        return [('val', st, b'')]
    units = [z3.Unit(za[i] ^ zb[i]) for i in range(n)]
    return [('val', st, mk_bytes(units[0] if n == 1 else z3.Concat(*units)))]


def _tz(E, st, v):
    t = E.truth(v, st)
    return z3.BoolVal(t) if isinstance(t, bool) else t


def sf_conj(E, st, args, kw):
    """conj(a, b, ...): conjunction of TOTAL boolean sub-clauses, evaluated eagerly (python `and` forks the evaluator and
    costs two feasibility queries per operand; use `and` / `==>` when a later operand is only defined under an earlier one)"""
    return [('val', st, mk_bool(z3.simplify(z3.And([_tz(E, st, a) for a in args]))))]


def sf_disj(E, st, args, kw):
    return [('val', st, mk_bool(z3.simplify(z3.Or([_tz(E, st, a) for a in args]))))]


def sf_impl(E, st, args, kw):
    """impl(a, b): eager implication; b must be total"""
    a, b = args
    return [('val', st, mk_bool(z3.simplify(z3.Implies(_tz(E, st, a), _tz(E, st, b)))))]


def _flat_concat(t):
    if z3.is_app(t) and t.decl().kind() == z3.Z3_OP_SEQ_CONCAT:
        out = []
        for ch in t.children():
            out += _flat_concat(ch)
        return out
    return [t]


def sf_take(E, st, args, kw):
    """take(s, n) = s[:n] for 0 <= n <= len(s), written without an extract when n falls on a boundary of the concatenation
    s is built from (z3 does not see extract(a ++ b, 0, len a) == a for symbolic lengths); exact under the path condition"""
    from vf.pyvc.models import seq_length
    s, n = args
    zs, zn = zbytes(s), zint(n)
    parts = _flat_concat(zs)
    if 1 < len(parts) <= 6:
        tot = z3.IntVal(0)
        for j, p_ in enumerate(parts):
            if E.implied(st, zn == tot):
                return [('val', st, mk_bytes(z3.Concat(*parts[:j]) if j > 1 else parts[0] if j == 1 else z3.Empty(BYTES)))]
            tot = z3.simplify(tot + seq_length(E, st, p_))
        if E.implied(st, zn == tot):
            return [('val', st, mk_bytes(zs))]
    return [('val', st, mk_bytes(z3.SubSeq(zs, 0, zn)))]


for _nm, _fn in (('bxor', sf_bxor), ('conj', sf_conj), ('disj', sf_disj), ('impl', sf_impl), ('take', sf_take)):
    SPEC_FORMS.setdefault(_nm, _fn)
    _interp.SPEC_BUILTINS.setdefault(_nm, BuiltinV('spec.' + _nm, _fn))


# ---------------------------------------------------------------- helpers
def dispatch(reg, qual, names, choose, contracts):
    """register `contracts` (assumed, declarative) and a model for `qual` that picks one of them from the call's arguments
    (None result / output= variant, cipher mode ...) -- keeps every assumed clause declarative and listed in the evidence"""
    for c in contracts.values():
        reg.add(c)

    def model(E, st, args, kwargs):
        env = dict(zip(names, args))
        env.update(kwargs)
        key = choose(E, st, env)
        c = contracts.get(key)
        if c is None:
            raise Unsupported('%s: no abstract contract for variant %r' % (qual, key))
        E.registry.used.add(c.target)
        if 'output' in kwargs and 'output' not in c.params:
            kwargs = {k: v for k, v in kwargs.items() if k != 'output'}
        return apply_contract(E, c, st, args, kwargs)
    reg.models[qual] = model


def by_output(reg, c, result='bytes'):
    """call-site use of the contract of a REAL method that has an `output=None` parameter and lists `output` in modifies:
    with output=None there is nothing to havoc (the engine refuses a None frame target), so calls are routed to a clone
    without that frame entry.  The contract under proof is `c` itself in both cases."""
    import copy
    from vf.pyvc import loader
    from vf.pyvc.interp import FuncV
    reg.add(c)
    c2 = copy.copy(c)
    c2.target = c.target + '#output=None'
    c2.params = dict({'self': 'any'}, **c.params)
    c2.modifies = [m for m in c.modifies if m != 'output']
    c2.assumed = None
    c2.result = result            # with output=None the method returns the data; with output= it returns None (c.result)
    reg.contracts[c2.target] = c2

    def model(E, st, args, kwargs):
        fi = loader.find_function(c.target)
        outs = []
        for b in E.bind_params(FuncV(fi), args, kwargs, st):
            if b[0] == 'raise':
                outs.append(b)
                continue
            _, s1, env = b
            names = list(c2.params.keys())
            if env.get('output') is None:
                outs.extend(apply_contract(E, c2, s1, [env[n] for n in names], {}))
            else:
                outs.extend(apply_contract(E, c, s1, [env[n] for n in [x.arg for x in fi.node.args.args]], {}))
        return outs
    reg.models[c.target] = model


def bytearray_fields_at_call_sites(reg, c, typed):
    """call-site use of the contract of a REAL method whose frame contains the DATA of a bytearray-valued field (written
    `self._cache.*` in `modifies` for the proof).  The engine's call-site havoc does not descend into a bytearray, so calls
    are routed to a clone whose frame gives the field a FRESH bytearray of the declared size (typed: {'self._cache':
    'bytearray[16]'}); the postconditions then say what it holds.  Sound for callers that keep no alias of the old
    bytearray (none in this code base).  The contract under proof is `c` itself."""
    import copy
    from vf.pyvc import loader
    from vf.pyvc.interp import FuncV
    reg.add(c)
    c2 = copy.copy(c)
    c2.target = c.target + '#call'
    c2.params = dict({'self': 'any'}, **c.params)
    c2.modifies = dict({m: None for m in c.modifies if not m.endswith('.*')}, **typed)
    reg.contracts[c2.target] = c2

    def model(E, st, args, kwargs):
        fi = loader.find_function(c.target)
        outs = []
        for b in E.bind_params(FuncV(fi), args, kwargs, st):
            if b[0] == 'raise':
                outs.append(b)
                continue
            _, s1, env = b
            outs.extend(apply_contract(E, c2, s1, [env[n] for n in c2.params], {}))
        return outs
    reg.models[c.target] = model


def ctor_at_call_sites(reg, c, field_types):
    """call-site use of the contract of a REAL __init__ (frame `self.*` under proof): the object under construction has no
    fields yet, so at call sites the fields are created with their declared types (a clone whose modifies is the typed
    field list) before the postconditions are assumed.  The contract under proof is `c` itself."""
    import copy
    reg.add(c)
    c2 = copy.copy(c)
    c2.target = c.target + '#call'
    c2.params = dict({'self': 'any'}, **c.params)
    from vf.pyvc.contracts import split_union
    # union-typed fields: None = take the (lazily resolved) union type from the class contract
    c2.modifies = {'self.' + f: (t if len(split_union(t)) == 1 else None) for f, t in field_types.items()}
    reg.contracts[c2.target] = c2

    def model(E, st, args, kwargs):
        from vf.pyvc import loader
        from vf.pyvc.interp import FuncV
        fi = loader.find_function(c.target)
        outs = []
        for b in E.bind_params(FuncV(fi), args, kwargs, st):
            if b[0] == 'raise':
                outs.append(b)
                continue
            _, s1, env = b
            outs.extend(apply_contract(E, c2, s1, [env[n] for n in c2.params], {}))
        return outs
    reg.models[c.target] = model


def _ctr_limit_expr(bs, cl):
    """bs * 256**cl for cl in 1..15 as a nested ite (exact, linear for the solver); -1 = no limit below 2**128 bytes"""
    e = '-1'
    for k in range(15, 0, -1):
        e = 'ite(%s == %d, %s * %d, %s)' % (cl, k, bs, 256 ** k, e)
    return e


def add_random(reg):
    """Crypto.Random.get_random_bytes(n): n fresh bytes (system entropy tape: nothing is known about them but the length)"""
    def grb(E, st, args, kw):
        n = args[0]
        v = E.fresh_bytes('entropy')
        st.assume(z3.Length(v.t) == zint(n))
        return [('val', st, v)]
    reg.overrides['Crypto.Random.get_random_bytes'] = BuiltinV('Crypto.Random.get_random_bytes', grb)


def add_blake2s_compare(reg):
    """BLAKE2s.new(digest_bits=160, key=secret, data=x).digest() as used by every verify(): an abstract MAC object whose
    digest is the uninterpreted blake2s160(key, data); its injectivity in `data` is the one assumed cryptographic fact"""
    reg.add(ClassContract(B2S, fields={'g_key': 'bytes', 'g_data': 'bytes'}, abstract=True))

    def b2s_new(E, st, args, kw):
        if args or set(kw) != {'digest_bits', 'key', 'data'} or kw['digest_bits'] != 160:
            raise Unsupported('BLAKE2s.new is modelled only as the 160-bit keyed comparison MAC')

        def as_bytes(v):
            if isinstance(v, Ref) and st.heap[v.oid].kind == 'bytearray':
                v = st.heap[v.oid].items
            if not is_byteslike(v):
                raise Unsupported('BLAKE2s.new: non-buffer key/data')       # None / int tags: TypeError natively, not modelled
            return SBytes(zbytes(v), 'bytes')
        h = HObj('obj', cls=None)
        h.ghost_id = B2S
        h.fields = {'g_key': as_bytes(kw['key']), 'g_data': as_bytes(kw['data'])}
        return [('val', st, st.alloc(h))]
    reg.models['Crypto.Hash.BLAKE2s.new'] = b2s_new
    reg.add(Contract(B2S + '.digest', params={'self': 'obj:' + B2S}, returns='spec.aead1.blake2s160(self.g_key, self.g_data)',
                     modifies=[], options={'exact': True},
                     assumed='native BLAKE2s (bounded: bounded/hashes.py BLAKE2s vs hashlib); injectivity in data for the random key '
                             'is the assumed cryptographic fact of C01/C03 (collision probability 2^-160, unchecked)'))


def add_strxor(reg):
    """Crypto.Util.strxor.strxor(term1, term2) without output=.  For 8- and 16-byte operands (cipher blocks) the result is the
    exact bytewise xor (bxor: bit-vector xor per byte, so associativity/commutativity are available to the proofs); other
    lengths: the uninterpreted xor of spec.aead1"""
    why = 'native strxor (src/strxor.c; bounded: bounded/modes.py EAX / bounded/hashes.py CMAC results against the reference composition)'
    cs = {'any': Contract('Crypto.Util.strxor.strxor#any', params={'term1': 'bytes', 'term2': 'bytes'},
                          raises={'ValueError': ('iff', 'len(term1) != len(term2)')},
                          returns='spec.aead1.xor(bytes(term1), bytes(term2))', modifies=[], options={'exact': True}, assumed=why)}
    for n in (8, 16):
        cs[n] = Contract('Crypto.Util.strxor.strxor#%d' % n, params={'term1': 'bytes', 'term2': 'bytes'},
                         requires=['len(term1) == %d' % n], raises={'ValueError': ('iff', 'len(term2) != %d' % n)},
                         result='bytes', ensures={'value': 'result == spec.aead1.bx(bytes(term1), bytes(term2), %d)' % n, 'len': 'len(result) == %d' % n},
                         modifies=[], assumed=why)

    def choose(E, st, env):
        if env.get('output') is not None:
            return None
        env.pop('output', None)
        t1 = env['term1']
        if isinstance(t1, Ref):
            t1 = st.heap[t1.oid].items
        for n in (16, 8):
            if E.implied(st, z3.Length(zbytes(t1)) == n):
                return n
        return 'any'
    dispatch(reg, 'Crypto.Util.strxor.strxor', ['term1', 'term2', 'output'], choose, cs)


# ---------------------------------------------------------------- block-cipher module and its cipher objects
def add_block_cipher(reg, bs="int"):
    """`factory` / `ciphermod`: ghost identity g_fid; new(key, MODE_ECB|MODE_CBC|MODE_CTR, ...) returns abstract objects.
    The extra cipher parameters (**cipher_params) are part of the cipher's identity and are fixed to {} here."""
    fields = {'block_size': bs, 'g_fid': 'int'}
    for k, v in MODES.items():
        fields[k] = ('const', v)
    reg.add(ClassContract(FACTORY, fields=fields, abstract=True))
    # --- ECB object: encrypt(x) = CIPH_K blockwise
    reg.add(ClassContract(ECB, fields={'g_fid': 'int', 'g_key': 'bytes', 'g_bs': 'int'}, abstract=True))
    reg.add(Contract(ECB + '.encrypt', params={'self': 'obj:' + ECB, 'plaintext': 'bytes'},
                     raises={'ValueError': ('iff', 'len(plaintext) % self.g_bs != 0')},
                     returns='spec.aead1.E(self.g_fid, self.g_key, bytes(plaintext))', modifies=[], options={'exact': True},
                     assumed='native ECB (bounded: bounded/blockciphers.py + bounded/modes.py ECB vs reference)'))
    # --- CBC object: position-indexed -- ghost g_iv = the IV it was created with, g_fed = all plaintext so far; the j-th
    # ciphertext block ever produced is cbc_chain(g_iv, first j blocks of g_fed)
    reg.add(ClassContract(CBC, fields={'g_fid': 'int', 'g_key': 'bytes', 'g_bs': 'int', 'g_iv': 'bytes', 'g_fed': 'bytes'},
                          valid=['len(self.g_iv) == self.g_bs', 'len(self.g_fed) % self.g_bs == 0'], abstract=True))
    reg.add(Contract(CBC + '.encrypt', params={'self': 'obj:' + CBC, 'plaintext': 'bytes'},
                     raises={'ValueError': ('iff', 'len(plaintext) % self.g_bs != 0')},
                     result='bytes',
                     ensures={'len': 'len(result) == len(plaintext)',
                              # block j of the output is the chaining value after the j-th block: the last two are all CMAC reads
                              'last': 'impl(len(plaintext) >= self.g_bs, result[len(plaintext) - self.g_bs:] == '
                                      'spec.aead1.cbc_chain(self.g_fid, self.g_key, self.g_iv, self.g_fed))',
                              'second_last': 'impl(len(plaintext) >= 2 * self.g_bs, result[len(plaintext) - 2 * self.g_bs:len(plaintext) - self.g_bs] == '
                                             'spec.aead1.cbc_chain(self.g_fid, self.g_key, self.g_iv, self.g_fed[:len(self.g_fed) - self.g_bs]))'},
                     sets={'self.g_fed': 'old(self.g_fed) + bytes(plaintext)'}, modifies=['self.g_fed'],
                     assumed='native CBC (src/raw_cbc.c; bounded: bounded/modes.py CBC vs reference, all two/three-way cuts)'))
    # --- CTR object
    add_ctr(reg)
    # --- factory.new
    fid, key = 'self.g_fid', 'bytes(key)'
    new_ecb = Contract(FACTORY + '.new#ecb', params={'self': 'obj:' + FACTORY, 'key': 'bytes', 'mode': 'int'},
                       result='obj:' + ECB,
                       ensures={'id': 'result.g_fid == %s and result.g_key == %s and result.g_bs == self.block_size' % (fid, key)},
                       modifies=[], assumed='Cipher._create_cipher -> _create_ecb_cipher (key-length errors of the cipher not modelled)')
    new_cbc = Contract(FACTORY + '.new#cbc', params={'self': 'obj:' + FACTORY, 'key': 'bytes', 'mode': 'int', 'iv': 'bytes'},
                       raises={'ValueError': ('iff', 'len(iv) != self.block_size')}, result='obj:' + CBC,
                       ensures={'id': 'result.g_fid == %s and result.g_key == %s and result.g_bs == self.block_size' % (fid, key),
                                'iv': 'result.g_iv == bytes(iv) and result.g_fed == b""'},
                       modifies=[], assumed='Cipher._create_cipher -> _create_cbc_cipher (bounded: bounded/modes.py)')
    # CTR: _mode_ctr._create_ctr_cipher, `nonce`/`initial_value` route: counter block = nonce || initial_value on
    # block_size - len(nonce) bytes, big endian (int) or verbatim (bytes)
    cl = '(self.block_size - len(nonce))'
    common = {'id': 'result.g_fid == %s and result.g_key == %s' % (fid, key),
              'layout': 'result.g_plen == len(nonce) and result.g_pos == 0 and result.g_dir == 0',
              'limit': 'result.g_limit == ' + _ctr_limit_expr('self.block_size', cl)}
    why_ctr = 'Cipher._create_cipher -> _create_ctr_cipher (served under C02/C11; bounded: bounded/modes.py CTR)'
    new_ctr_int = Contract(FACTORY + '.new#ctr_int', params={'self': 'obj:' + FACTORY, 'key': 'bytes', 'mode': 'int',
                                                            'initial_value': 'int', 'nonce': 'bytes'},
                           raises={'ValueError': ('iff', 'len(nonce) >= self.block_size or initial_value > pow2(8 * %s) - 1' % cl)},
                           result='obj:' + CTR,
                           ensures=dict(common, icb='len(result.g_icb) == self.block_size and result.g_icb[:len(nonce)] == bytes(nonce) and '
                                                    'be(result.g_icb[len(nonce):]) == initial_value'),
                           modifies=[], assumed=why_ctr)
    # the same contract for a counter field of exactly K bytes (chosen when the path condition fixes block_size - len(nonce)):
    # everything explicit, no symbolic exponent
    ctr_int_k = {}
    for K in range(1, 17):
        ctr_int_k['ctr_int_%d' % K] = Contract(
            FACTORY + '.new#ctr_int_%d' % K, params={'self': 'obj:' + FACTORY, 'key': 'bytes', 'mode': 'int', 'initial_value': 'int', 'nonce': 'bytes'},
            requires=['self.block_size - len(nonce) == %d' % K],
            raises={'ValueError': ('iff', 'initial_value > %d' % (256 ** K - 1))}, result='obj:' + CTR,
            ensures={'id': common['id'], 'layout': common['layout'],
                     'limit': 'result.g_limit == ' + ('-1' if K == 16 else 'self.block_size * %d' % 256 ** K),
                     'icb': 'result.g_icb == bytes(nonce) + spec.aead1.ibe(initial_value, %d)' % K},
            modifies=[], assumed=why_ctr)
    new_ctr_bytes = Contract(FACTORY + '.new#ctr_bytes', params={'self': 'obj:' + FACTORY, 'key': 'bytes', 'mode': 'int',
                                                                'initial_value': 'bytes', 'nonce': 'bytes'},
                             raises={'ValueError': ('iff', 'len(nonce) >= self.block_size or len(initial_value) != %s' % cl)},
                             result='obj:' + CTR,
                             ensures=dict(common, icb='result.g_icb == bytes(nonce) + bytes(initial_value)'),
                             modifies=[], assumed=why_ctr)

    def choose(E, st, env):
        mode = env.get('mode')
        if mode == MODES['MODE_ECB'] and set(env) == {'self', 'key', 'mode'}:
            return 'ecb'
        if mode == MODES['MODE_CBC'] and set(env) == {'self', 'key', 'mode', 'iv'}:
            return 'cbc'
        if mode == MODES['MODE_CTR'] and set(env) == {'self', 'key', 'mode', 'initial_value', 'nonce'}:
            iv = env['initial_value']
            if not is_intlike(iv):
                return 'ctr_bytes'
            nonce = env['nonce']
            if isinstance(nonce, Ref):
                nonce = st.heap[nonce.oid].items
            clen = zint(st.heap[env['self'].oid].fields['block_size']) - z3.Length(zbytes(nonce))
            for K in (4, 16, 8, 12, 1, 2, 3, 5, 6, 7, 9, 10, 11, 13, 14, 15):
                if E.implied(st, clen == K):
                    return 'ctr_int_%d' % K
            return 'ctr_int'
        return None
    dispatch(reg, FACTORY + '.new', ['self', 'key', 'mode', 'iv'], choose,
             dict({'ecb': new_ecb, 'cbc': new_cbc, 'ctr_int': new_ctr_int, 'ctr_bytes': new_ctr_bytes}, **ctr_int_k))


def add_ctr(reg):
    """CtrMode object.  Ghost: cipher identity (g_fid, g_key), initial counter block g_icb, prefix length g_plen, byte position
    g_pos, direction g_dir (0 fresh, 1 encrypting, 2 decrypting), g_limit = bytes before a counter block repeats (-1: none).
    encrypt/decrypt(x, output=) = x xor keystream[pos, pos+len) -- position indexed, so cut points are irrelevant (C09);
    OverflowError iff the limit would be exceeded (src/raw_ctr.c CTR_encrypt, proved under C11 by CVC)."""
    reg.add(ClassContract(CTR, fields={'g_fid': 'int', 'g_key': 'bytes', 'g_icb': 'bytes', 'g_plen': 'nat', 'g_pos': 'nat',
                                       'g_dir': 'int[0..2]', 'g_limit': 'int'},
                          valid=['self.g_plen < len(self.g_icb)'], abstract=True))
    why = 'native CTR (src/raw_ctr.c CTR_encrypt proved under C11/C09 by CVC; bounded: bounded/modes.py CTR vs reference incl. output=)'
    for meth, d, other in (('encrypt', 1, 2), ('decrypt', 2, 1)):
        arg = 'plaintext' if meth == 'encrypt' else 'ciphertext'
        val = ('spec.aead1.xor(bytes(%s), spec.aead1.ctr_ks(self.g_fid, self.g_key, self.g_icb, self.g_plen, old(self.g_pos), len(%s)))'
               % (arg, arg))
        over = 'self.g_limit >= 0 and self.g_pos + len(%s) > self.g_limit' % arg
        sets = {'self.g_pos': 'old(self.g_pos) + len(%s)' % arg, 'self.g_dir': '%d' % d}
        c_ret = Contract('%s.%s#ret' % (CTR, meth), params={'self': 'obj:' + CTR, arg: 'bytes', 'output': 'none'},
                         raises={'TypeError': ('iff', 'self.g_dir == %d' % other), 'OverflowError': ('iff', over)},
                         returns=val, sets=sets, modifies=['self.g_pos', 'self.g_dir'],
                         options={'exact': True, 'on_raise_modifies': ['self.g_pos', 'self.g_dir']}, assumed=why)
        c_out = Contract('%s.%s#out' % (CTR, meth), params={'self': 'obj:' + CTR, arg: 'bytes', 'output': 'bytearray'},
                         raises={'TypeError': ('iff', 'self.g_dir == %d' % other),
                                 'ValueError': ('iff', 'len(output) != len(%s)' % arg), 'OverflowError': ('iff', over)},
                         ensures={'out': 'bytes(output) == ' + val},
                         sets=sets, modifies=['output', 'self.g_pos', 'self.g_dir'],
                         options={'on_raise_modifies': ['self.g_pos', 'self.g_dir']}, assumed=why)
        dispatch(reg, '%s.%s' % (CTR, meth), ['self', arg, 'output'],
                 lambda E, st, env: 'ret' if env.get('output') is None else 'out', {'ret': c_ret, 'out': c_out})
