"""Shared by contracts/ccm.py, siv.py, kw.py, ocb.py: abstract native collaborators (cipher factory, CBC/CTR/ECB objects,
strxor, BLAKE2s comparison, entropy) with ghost state and ASSUMED contracts, and the clause-language builtin `xor`.

Everything here is a statement about native code that PYVC does not execute; each says which run-time harness covers it.
The values of the primitives are the uninterpreted symbols of spec/aead2.py."""
import z3

from vf.pyvc.contracts import Contract, ClassContract, apply_contract, SPEC_FORMS
from vf.pyvc import interp as _interp
from vf.pyvc.interp import BuiltinV, exc, FrozenDict
from vf.pyvc.values import (BYTES, HObj, Ref, SBytes, Unsupported, is_byteslike, is_intlike, mk_bytes, zbytes, zint)
from .base import base_registry

MODE_ECB, MODE_CBC, MODE_CTR = 1, 2, 6           # Crypto.Cipher.AES.MODE_* (documented constants of every cipher module)

# ---------------------------------------------------------------------------------------------- xor on byte strings

XOR = z3.Function('xor', BYTES, BYTES, BYTES)


def _known_len(E, st, zs):
    n = z3.simplify(z3.Length(zs))
    if z3.is_int_value(n):
        return n.as_long()
    for k in (16, 8):
        if E.implied(st, z3.Length(zs) == k):
            return k
    return None


def xor_value(E, st, a, b):
    """bytewise xor of two equally long strings: one symbol for every length; for strings whose (equal) length the
    path condition fixes to at most 32 the symbol is defined byte by byte (exact), otherwise only its length is known"""
    za, zb = zbytes(a), zbytes(b)
    t = XOR(za, zb)
    st.fact(z3.Length(t) == z3.Length(za))
    na, nb = _known_len(E, st, za), _known_len(E, st, zb)
    if na is not None and na == nb and na <= 32:
        if na == 0:
            st.fact(t == z3.Empty(BYTES))
        else:
            units = [z3.Unit(za[i] ^ zb[i]) for i in range(na)]
            st.fact(t == (units[0] if na == 1 else z3.Concat(*units)))
    return mk_bytes(t)


def sf_xor(E, st, args, kw):
    a, b = args
    return [('val', st, xor_value(E, st, _data(st, a), _data(st, b)))]


SPEC_FORMS['xor'] = sf_xor
_interp.SPEC_BUILTINS['xor'] = BuiltinV('spec.xor', sf_xor)


def _data(st, v):
    """byte content of a bytes/bytearray/memoryview value"""
    if isinstance(v, Ref) and st.heap[v.oid].kind == 'bytearray':
        return st.heap[v.oid].items
    return v


def _isbuf(st, v):
    return is_byteslike(v) or (isinstance(v, Ref) and st.heap[v.oid].kind == 'bytearray')


def m_strxor(E, st, args, kwargs):
    """Crypto.Util.strxor.strxor (src/strxor.c): ValueError iff the lengths differ, else the bytewise xor.
    ASSUMED (bounded: bounded/accel.py strxor against a Python loop); output= is not used by the code under contract."""
    if len(args) != 2 or kwargs.get('output') is not None:
        raise Unsupported('strxor with output=')
    a, b = args
    if not _isbuf(st, a) or not _isbuf(st, b):
        return [('raise', st, exc(TypeError, 'strxor: not a buffer'))]
    a, b = _data(st, a), _data(st, b)
    outs = []
    bad, ok = E.split(st, z3.Length(zbytes(a)) != z3.Length(zbytes(b)))
    if bad is not None:
        outs.append(('raise', bad, exc(ValueError, 'Only byte strings of equal length can be xored')))
    if ok is not None:
        outs.append(('val', ok, xor_value(E, ok, a, b)))
    return outs


# ---------------------------------------------------------------------------------------------- abstract objects

def _shim(reg, contract, defaults):
    """abstract method with default arguments: fills them in, then applies the (assumed) contract of the same name"""
    q = contract.target
    reg.add(contract)
    names = [n for n in contract.params if n != 'self']

    def call(E, st, args, kwargs):
        reg.used.add(q)
        full = list(args)
        kw = dict(kwargs)
        for i, nm in enumerate(names):
            if len(full) <= i + 1:
                if nm in kw:
                    full.append(kw.pop(nm))
                elif nm in defaults:
                    full.append(defaults[nm])
                else:
                    return [('raise', st, exc(TypeError, 'missing argument ' + nm))]
        if kw:
            return [('raise', st, exc(TypeError, 'unexpected keyword argument'))]
        return apply_contract(E, contract, st, full, {})
    reg.models[q] = call


def add_natives(reg):
    # --- CBC object (zero IV = CBC-MAC): ghost g_fed = every byte encrypted so far
    reg.add(ClassContract('native.CBC', fields={'g_key': 'bytes', 'g_iv': 'bytes', 'g_fed': 'bytes'},
                          valid=['len(self.g_fed) % 16 == 0', 'len(self.g_iv) == 16'], abstract=True))
    reg.add(Contract('native.CBC.encrypt', params={'self': 'obj:native.CBC', 'plaintext': 'bytes'},
                     requires=['len(plaintext) % 16 == 0'],
                     sets={'self.g_fed': 'old(self.g_fed) + plaintext'}, modifies=['self.g_fed'], result='bytes',
                     ensures={'len': 'len(result) == len(plaintext)',
                              'mac': '(len(plaintext) > 0 and self.g_iv == bytes(16)) ==> '
                                     'result[len(result) - 16:] == spec.aead2.cbcmac(self.g_key, self.g_fed)'},
                     assumed='native CBC chaining src/raw_cbc.c over the block cipher (proved by CVC under C02 / bounded: bounded/modes.py CBC); '
                             'unaligned data is refused by the native code, here a caller obligation'))
    # --- CTR object: ghost g_ctr0 = initial counter block, g_pos = bytes of key stream consumed
    reg.add(ClassContract('native.CTR', fields={'g_key': 'bytes', 'g_ctr0': 'bytes', 'g_pos': 'nat'},
                          valid=['len(self.g_ctr0) == 16'], abstract=True))
    ks = 'spec.aead2.ctr_ks(self.g_key, self.g_ctr0, old(self.g_pos), len(plaintext))'
    ctr_note = ('native CTR mode src/raw_ctr.c (key stream position and counter blocks proved by CVC under C09/C11; bounded: bounded/modes.py CTR); '
                'the counter-wrap OverflowError is outside this contract (CCM/SIV limits keep the position below it)')
    for nm in ('encrypt', 'decrypt'):
        c_ret = Contract('native.CTR.%s' % nm, params={'self': 'obj:native.CTR', 'plaintext': 'bytes', 'output': 'none'},
                         sets={'self.g_pos': 'old(self.g_pos) + len(plaintext)'}, modifies=['self.g_pos'],
                         returns='xor(plaintext, %s)' % ks, options={'exact': True}, assumed=ctr_note)
        c_out = Contract('native.CTR.%s#output' % nm, params={'self': 'obj:native.CTR', 'plaintext': 'bytes', 'output': 'bytearray'},
                         requires=['len(output) == len(plaintext)'],
                         sets={'self.g_pos': 'old(self.g_pos) + len(plaintext)'}, modifies=['self.g_pos', 'output'],
                         ensures={'out': 'output == xor(plaintext, %s)' % ks}, result='none', assumed=ctr_note)
        reg.add(c_ret)
        reg.add(c_out)

        def call(E, st, args, kwargs, c_ret=c_ret, c_out=c_out):
            full = list(args)
            kw = dict(kwargs)
            if len(full) < 2:
                full.append(kw.pop('plaintext', kw.pop('ciphertext', None)))
            out = full[2] if len(full) > 2 else kw.pop('output', None)
            if kw or len(full) > 3:
                return [('raise', st, exc(TypeError, 'unexpected argument'))]
            c = c_ret if out is None else c_out
            reg.used.add(c.target)
            return apply_contract(E, c, st, full[:2] + [out], {})
        reg.models['native.CTR.%s' % nm] = call
    # --- ECB object
    reg.add(ClassContract('native.ECB', fields={'g_key': 'bytes'}, abstract=True))
    ecb_note = 'native ECB src/raw_ecb.c over the block cipher (proved by CVC under C02 / bounded: bounded/modes.py ECB), used on single blocks only'
    reg.add(Contract('native.ECB.encrypt', params={'self': 'obj:native.ECB', 'plaintext': 'bytes'}, requires=['len(plaintext) == 16'],
                     returns='spec.aead2.E(self.g_key, plaintext)', modifies=[], options={'exact': True}, assumed=ecb_note))
    reg.add(Contract('native.ECB.decrypt', params={'self': 'obj:native.ECB', 'ciphertext': 'bytes'}, requires=['len(ciphertext) == 16'],
                     returns='spec.aead2.D(self.g_key, ciphertext)', modifies=[], options={'exact': True}, assumed=ecb_note))
    # --- cipher module ("factory"): block_size, MODE_* constants, new()
    reg.add(ClassContract('native.Factory', fields={'block_size': 'int[1..64]', 'MODE_ECB': ('const', MODE_ECB), 'MODE_CBC': ('const', MODE_CBC),
                                                   'MODE_CTR': ('const', MODE_CTR)}, abstract=True))

    def factory_new(E, st, args, kwargs):
        """<cipher module>.new(key, mode, iv= | nonce=, initial_value=): ValueError iff the cipher refuses the key length
        (uninterpreted predicate key_ok) or the CTR prefix / initial value do not fit the block; otherwise a fresh mode
        object.  ASSUMED: Cipher/__init__._create_cipher dispatch + _create_cbc/_ctr/_ecb_cipher (contracts of the
        classic-modes area, C02 item 1 / C11; bounded: bounded/modes.py one-shot CBC/CTR/ECB vs reference)."""
        reg.used.add('native.Factory.new')
        self, key, mode = args[0], args[1], args[2]
        kw = dict(kwargs)
        if not isinstance(mode, int):
            raise Unsupported('symbolic cipher mode')
        key = _data(st, key)
        if not is_byteslike(key):
            return [('raise', st, exc(TypeError, 'key must be a buffer'))]
        key = SBytes(zbytes(key), 'bytes')
        outs = []
        kok = z3.Function('aead2.key_ok', z3.IntSort(), z3.BoolSort())(z3.Length(zbytes(key)))
        bad, ok = E.split(st, z3.Not(kok))
        if bad is not None:
            outs.append(('raise', bad, exc(ValueError, 'Incorrect key length')))
        if ok is None:
            return outs
        st = ok
        if mode == MODE_ECB:
            if kw:
                raise Unsupported('extra parameters to the ECB factory')
            h = HObj('obj', cls=None, fields={'g_key': key})
            h.ghost_id = 'native.ECB'
            outs.append(('val', st, st.alloc(h)))
            return outs
        if mode == MODE_CBC:
            iv = _data(st, kw.pop('iv'))
            if kw:
                raise Unsupported('extra parameters to the CBC factory')
            bad, ok = E.split(st, z3.Length(zbytes(iv)) != 16)
            if bad is not None:
                outs.append(('raise', bad, exc(ValueError, 'Incorrect IV length')))
            if ok is not None:
                h = HObj('obj', cls=None, fields={'g_key': key, 'g_iv': SBytes(zbytes(iv), 'bytes'), 'g_fed': b''})
                h.ghost_id = 'native.CBC'
                outs.append(('val', ok, ok.alloc(h)))
            return outs
        if mode == MODE_CTR:
            nonce = _data(st, kw.pop('nonce'))
            iv = kw.pop('initial_value', 0)
            if kw:
                raise Unsupported('extra parameters to the CTR factory')
            if not is_intlike(iv):
                raise Unsupported('CTR initial_value given as bytes')
            zn = zbytes(nonce)
            ln = z3.Length(zn)
            # SP 800-38A counter block = prefix || counter field of 16 - len(prefix) bytes holding initial_value
            bad, ok = E.split(st, ln >= 16)
            if bad is not None:
                outs.append(('raise', bad, exc(ValueError, 'Nonce is too long')))
            if ok is None:
                return outs
            st = ok
            from vf.pyvc.models import i2osp_value
            from vf.pyvc.ops import pow2
            k = _known_int(E, st, 16 - ln)
            lim = z3.IntVal(256 ** k) if k is not None else pow2(E, st, 8 * (16 - ln))
            bad, ok = E.split(st, z3.Or(zint(iv) < 0, zint(iv) >= lim))
            if bad is not None:
                outs.append(('raise', bad, exc(ValueError, 'Initial counter value is too large')))
            if ok is not None:
                cf = i2osp_value(E, ok, zint(iv), k if k is not None else mk_sint(16 - ln))
                h = HObj('obj', cls=None, fields={'g_key': key, 'g_ctr0': mk_bytes(z3.Concat(zn, cf)), 'g_pos': 0})
                h.ghost_id = 'native.CTR'
                outs.append(('val', ok, ok.alloc(h)))
            return outs
        raise Unsupported('cipher mode %r of the abstract factory' % (mode,))
    reg.models['native.Factory.new'] = factory_new
    # the same for a cipher module whose block size is 16 (AES): used where the mode does not look at block_size itself
    reg.add(ClassContract('native.Factory16', fields={'block_size': ('const', 16), 'MODE_ECB': ('const', MODE_ECB), 'MODE_CBC': ('const', MODE_CBC),
                                                     'MODE_CTR': ('const', MODE_CTR)}, abstract=True))
    reg.models['native.Factory16.new'] = factory_new
    # --- strxor
    reg.models['Crypto.Util.strxor.strxor'] = m_strxor
    # --- tag comparison through a randomly keyed BLAKE2s-160
    reg.add(Contract('Crypto.Random.get_random_bytes', params={'n': 'nat'}, result='bytes', ensures={'len': 'len(result) == n'}, modifies=[],
                     assumed='unchecked: operating system entropy (only its length matters to the code under contract)'))
    reg.add(ClassContract('native.MAC160', fields={'g_key': 'bytes', 'g_data': 'bytes'}, abstract=True))
    reg.add(Contract('native.MAC160.digest', params={'self': 'obj:native.MAC160'}, returns='spec.aead2.mac160(self.g_key, self.g_data)',
                     modifies=[], options={'exact': True},
                     assumed='keyed BLAKE2s-160 (bounded: bounded/hashes.py BLAKE2s); ASSUMED UNCHECKED: injective on its data argument for '
                             'the drawn key (collision probability 2^-160), spec.aead2.mac160 fact'))

    def blake2s_new(E, st, args, kwargs):
        reg.used.add('native.MAC160.digest')
        kw = dict(kwargs)
        if args or kw.pop('digest_bits', None) != 160:
            raise Unsupported('BLAKE2s.new other than the 160-bit keyed comparison idiom')
        key, data = _data(st, kw.pop('key')), _data(st, kw.pop('data'))
        if kw:
            raise Unsupported('BLAKE2s.new parameters')
        if not is_byteslike(data):
            return [('raise', st, exc(TypeError, 'data must be a buffer'))]
        h = HObj('obj', cls=None, fields={'g_key': SBytes(zbytes(key), 'bytes'), 'g_data': SBytes(zbytes(data), 'bytes')})
        h.ghost_id = 'native.MAC160'
        return [('val', st, st.alloc(h))]
    reg.models['Crypto.Hash.BLAKE2s.new'] = blake2s_new
    # --- Util.number: the documented behaviour (minimal big-endian encoding, front-padded to a multiple of blocksize)
    N = 'Crypto.Util.number.'
    # only the two facts the mode code relies on (fewer hypotheses keep the queries small):
    #  blocksize == 0: the encoding is minimal, so it has at most k bytes exactly when n < 256**k   (k = 1..8)
    #  blocksize  > 0 and n fits one block: exactly the blocksize-byte big-endian encoding
    lens = ' and '.join('((len(result) <= %d) == (n < %d))' % (k, 256 ** k) for k in range(1, 9))
    reg.add(Contract(N + 'long_to_bytes', params={'n': 'int', 'blocksize': 'int'},
                     raises={'ValueError': ('iff', 'n < 0 or blocksize < 0')}, result='bytes',
                     ensures={'minimal_len': 'blocksize == 0 ==> (len(result) >= 1 and %s)' % lens,
                              'one_block': '(blocksize > 0 and n < spec.aead2.pow256(blocksize)) ==> result == i2osp(n, blocksize)',
                              # front-padded to a multiple of blocksize: the last block is n mod 256**blocksize
                              'last_block': 'blocksize > 0 ==> (len(result) >= blocksize and '
                                            'result[len(result) - blocksize:] == i2osp(n % spec.aead2.pow256(blocksize), blocksize))'},
                     pure=True, assumed='bounded: bounded/bigint.py number.long_to_bytes against int.to_bytes (minimal length; padded to a multiple of blocksize)'))
    return reg


def _known_int(E, st, t):
    t = z3.simplify(t)
    if z3.is_int_value(t):
        return t.as_long()
    return None


def mk_sint(t):
    from vf.pyvc.values import mk_int
    return mk_int(t)


def registry_with_natives():
    return add_natives(base_registry())


FACTORY = 'obj:native.Factory'
FACTORY16 = 'obj:native.Factory16'
NO_PARAMS = ('const', FrozenDict({}))       # cipher_params: no extra keyword for the cipher (pass-through only)
