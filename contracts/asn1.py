"""Contracts for lib/Crypto/Util/asn1.py (C13, C08, C04)."""
from vf.pyvc.contracts import Contract, ClassContract, lemma_contract
from .base import base_registry

A = 'Crypto.Util.asn1.'


def registry(with_init=False):
    reg = base_registry()
    reg.add(ClassContract(A + 'BytesIO_EOF',
                          fields={'_buffer': 'bytes', '_index': 'nat', '_bookmark': 'nat|none'},
                          valid=['0 <= self._index', 'self._index <= len(self._buffer)']))
    reg.add(Contract(A + 'BytesIO_EOF.read', params={'length': 'nat'},
                     raises={'ValueError': ('iff', 'self._index + length > len(self._buffer)')},
                     ensures={'value': 'result == old(self._buffer)[old(self._index):old(self._index) + length]',
                              'index': 'self._index == old(self._index) + length', 'valid': 'valid(self)'},
                     returns='old(self._buffer)[old(self._index):old(self._index) + length]',
                     sets={'self._index': 'old(self._index) + length'},
                     modifies=['self._index'], unchanged_on_raise=True, result='bytes', options={'exact': True}))
    reg.add(Contract(A + 'BytesIO_EOF.read_byte', params={},
                     raises={'ValueError': ('iff', 'self._index + 1 > len(self._buffer)')},
                     ensures={'value': 'result == old(self._buffer)[old(self._index)]',
                              'index': 'self._index == old(self._index) + 1', 'valid': 'valid(self)'},
                     returns='old(self._buffer)[old(self._index)]', sets={'self._index': 'old(self._index) + 1'},
                     modifies=['self._index'], unchanged_on_raise=True, result='int[0..255]', options={'exact': True}))
    reg.add(ClassContract(A + 'DerObject',
                          fields={'_tag_octet': 'int[0..255]|none', 'payload?': 'bytes', '_inner_tag_octet?': 'int[0..255]'}))
    reg.add(Contract(A + 'DerObject._decodeLen', params={'self': 'any', 's': 'obj:' + A + 'BytesIO_EOF'},
                     raises={'ValueError': ('iff', 'not spec.der.length_ok(s._buffer[s._index:])')},
                     ensures={'value': 'result == spec.der.length_value(old(s._buffer)[old(s._index):])',
                              'consumed': 's._index == old(s._index) + spec.der.length_octets(old(s._buffer)[old(s._index):])',
                              'valid': 'valid(s)'},
                     modifies=['s._index'], result='nat'))
    S = 'obj:' + A + 'BytesIO_EOF'
    rem = 's._buffer[s._index:]'
    orem = 'old(s._buffer)[old(s._index):]'
    reg.add(Contract(A + 'DerObject._decodeFromStream', params={'s': S, 'strict': 'bool'},
                     raises={'ValueError': ('iff', 'not (spec.der.explicit_ok(%s, self._tag_octet, self._inner_tag_octet) if hasattr(self, "_inner_tag_octet") '
                                                   'else spec.der.tlv_ok(%s, self._tag_octet))' % (rem, rem))},
                     ensures={'tag': 'self._tag_octet == %s[0]' % orem,
                              'payload': 'self.payload == (spec.der.tlv_content(spec.der.tlv_content(%s)) if hasattr(self, "_inner_tag_octet") else spec.der.tlv_content(%s))' % (orem, orem),
                              'consumed': 's._index == old(s._index) + spec.der.tlv_size(%s)' % orem,
                              'valid': 'valid(s)'},
                     modifies=['s._index', 'self.payload', 'self._tag_octet'],
                     opaque=['spec.der.length_ok', 'spec.der.length_octets', 'spec.der.length_value']))
    reg.add(Contract(A + 'DerObject.decode', params={'der_encoded': 'bytes', 'strict': 'bool'},
                     raises={'ValueError': ('iff', 'not ((spec.der.explicit_ok(der_encoded, self._tag_octet, self._inner_tag_octet) if hasattr(self, "_inner_tag_octet") '
                                                   'else spec.der.tlv_ok(der_encoded, self._tag_octet)) and spec.der.tlv_size(der_encoded) == len(der_encoded))')},
                     ensures={'self': 'result is self', 'tag': 'self._tag_octet == der_encoded[0]',
                              'payload': 'self.payload == (spec.der.tlv_content(spec.der.tlv_content(der_encoded)) if hasattr(self, "_inner_tag_octet") else spec.der.tlv_content(der_encoded))'},
                     modifies=['self.payload', 'self._tag_octet'], returns='self',
                     opaque=['spec.der.tlv_ok', 'spec.der.tlv_size', 'spec.der.tlv_content', 'spec.der.explicit_ok']))
    # ---------------- DerInteger
    reg.add(ClassContract(A + 'DerInteger',
                          fields={'_tag_octet': 'int[0..255]|none', 'payload?': 'bytes', '_inner_tag_octet?': 'int[0..255]', 'value?': 'int'}))
    ok = ('(spec.der.explicit_ok(%s, self._tag_octet, self._inner_tag_octet) if hasattr(self, "_inner_tag_octet") '
          'else spec.der.tlv_ok(%s, self._tag_octet))' % (rem, rem))
    content = ('(spec.der.tlv_content(spec.der.tlv_content(%s)) if hasattr(self, "_inner_tag_octet") else spec.der.tlv_content(%s))')
    reg.add(Contract(A + 'DerInteger._decodeFromStream', params={'s': S, 'strict': 'bool'},
                     raises={'ValueError': ('iff', 'not %s or (strict and (len(%s) == 0 or (len(%s) >= 2 and %s[0] == 0 and %s[1] < 128)))'
                                            % (ok, content % (rem, rem), content % (rem, rem), content % (rem, rem), content % (rem, rem)))},
                     ensures={'payload': 'self.payload == ' + content % (orem, orem),
                              'value': 'self.value == spec.der.int_value(self.payload)',
                              'consumed': 's._index == old(s._index) + spec.der.tlv_size(%s)' % orem, 'valid': 'valid(s)'},
                     modifies=['s._index', 'self.payload', 'self._tag_octet', 'self.value'],
                     loops={0: {'invariant': ['self.value == be(self.payload[:_k])', 'bits == pow2(8 * _k)'], 'index': '_k'}},
                     opaque=['spec.der.tlv_ok', 'spec.der.tlv_size', 'spec.der.tlv_content', 'spec.der.explicit_ok'],
                     options={'be_unfold': True}))
    # total for every length that can occur (< 2**64); beyond that (the length octets themselves longer than 8) the function may
    # refuse (bchr(len + 128) past 255, from 256**127 on) but a value it returns is still the right one
    reg.add(Contract(A + 'DerObject._definite_form', params={'length': 'nat'},
                     raises={'ValueError': ('only_if', 'length >= 2 ** 64')},
                     ensures={'ok': 'spec.der.length_ok(result)', 'value': 'spec.der.length_value(result) == length',
                              'octets': 'spec.der.length_octets(result) == len(result)',
                              'short': 'length < 2 ** 64 ==> len(result) <= 9'},
                     modifies=[], result='bytes', options={'be_unfold': True}))
    lemma_contract(reg, 'spec.der.lemma_len_prefix', {'d': 'bytes', 'p': 'bytes'})
    lemma_contract(reg, 'spec.der.lemma_tlv_build', {'t': 'int', 'd': 'bytes', 'p': 'bytes'},
                   opaque=['spec.der.length_ok', 'spec.der.length_octets', 'spec.der.length_value'])
    lemma_contract(reg, 'spec.der.lemma_len_trunc', {'d': 'bytes', 'n': 'nat'})
    lemma_contract(reg, 'spec.der.lemma_tlv_prefix', {'b': 'bytes', 't': 'int[0..255]|none'})
    LEN = ['spec.der.length_ok', 'spec.der.length_octets', 'spec.der.length_value']
    TLV = ['spec.der.tlv_ok', 'spec.der.tlv_size', 'spec.der.tlv_content', 'spec.der.explicit_ok']
    # result == tag || definite(len inner) || inner, where inner is the payload, or (EXPLICIT) itag || definite(len payload) || payload.
    # ValueError only for contents that cannot exist (2**64 octets and more; see _definite_form)
    d_out = 'result[1:len(result) - len(output_payload)]'
    d_in = 'output_payload[1:len(output_payload) - len(self.payload)]'
    itag = '(self._inner_tag_octet if hasattr(self, "_inner_tag_octet") else 0)'
    reg.add(Contract(A + 'DerObject.encode', params={},
                     requires=['self._tag_octet is not None', 'hasattr(self, "payload")'],
                     raises={'ValueError': ('only_if', 'len(self.payload) + 16 >= 2 ** 64')},
                     ensures={'tlv': 'spec.der.tlv_ok(result, self._tag_octet) and spec.der.tlv_size(result) == len(result)',
                              'first': 'result[0] == self._tag_octet', 'any_tag': 'spec.der.tlv_ok(result, None)',
                              'any_tag_explicit': 'hasattr(self, "_inner_tag_octet") ==> spec.der.explicit_ok(result, None, self._inner_tag_octet)',
                              'content': 'not hasattr(self, "_inner_tag_octet") ==> spec.der.tlv_content(result) == self.payload',
                              'explicit': 'hasattr(self, "_inner_tag_octet") ==> (spec.der.explicit_ok(result, self._tag_octet, self._inner_tag_octet) and '
                                          'spec.der.tlv_content(spec.der.tlv_content(result)) == self.payload)'},
                     instances={'exit': ['spec.der.lemma_len_prefix(%s, output_payload)' % d_out,
                                         'spec.der.lemma_tlv_build(self._tag_octet, %s, output_payload)' % d_out,
                                         'spec.der.lemma_len_prefix(%s, self.payload)' % d_in,
                                         'spec.der.lemma_tlv_build(%s, %s, self.payload)' % (itag, d_in)]},
                     lemmas={'exit': {'shape': 'result == bytes([self._tag_octet]) + %s + output_payload' % d_out,
                                      'len_ok': 'spec.der.length_ok(%s) and spec.der.length_octets(%s) == len(result) - len(output_payload) - 1 and '
                                                'spec.der.length_value(%s) == len(output_payload)' % (d_out, d_out, d_out),
                                      'inner_shape': 'hasattr(self, "_inner_tag_octet") ==> output_payload == bytes([self._inner_tag_octet]) + %s + self.payload' % d_in,
                                      'inner_len_ok': 'hasattr(self, "_inner_tag_octet") ==> (spec.der.length_ok(%s) and spec.der.length_octets(%s) == len(output_payload) - len(self.payload) - 1 and '
                                                      'spec.der.length_value(%s) == len(self.payload))' % (d_in, d_in, d_in),
                                      'plain': 'not hasattr(self, "_inner_tag_octet") ==> output_payload == self.payload'}},
                     opaque=LEN + TLV[:3], modifies=[], result='bytes'))      # explicit_ok stays revealed: a definition over the other three
    # DerInteger.encode: X.690 8.3 -- the contents octets are the minimal two's complement form of the value, then DerObject.encode.
    # The invariant value == number * 256**len(payload) + be(payload) is non-linear; the two products that change per iteration are
    # related by the (separately proved) arithmetic lemmas lemma_shift_split / lemma_scale, called at the loop head and at the exit.
    lemma_contract(reg, 'spec.der.lemma_shift_split', {'n': 'int', 'L': 'nat'})
    lemma_contract(reg, 'spec.der.lemma_scale', {'n': 'int', 'c': 'int', 'L': 'nat'})
    reg.add(Contract(A + 'DerInteger.encode', params={}, requires=['self._tag_octet is not None', 'hasattr(self, "value")'],
                     raises={'ValueError': ('only_if', 'True')},
                     on_raise={'ValueError': ['len(self.payload) + 16 >= 2 ** 64']},       # only contents that cannot exist are refused
                     ensures={'value': 'spec.der.int_value(self.payload) == self.value',
                              'minimal': 'spec.der.int_minimal(self.payload)',
                              'tlv': 'spec.der.tlv_ok(result, self._tag_octet) and spec.der.tlv_size(result) == len(result)',
                              'first': 'result[0] == self._tag_octet', 'any_tag': 'spec.der.tlv_ok(result, None)',
                              'any_tag_explicit': 'hasattr(self, "_inner_tag_octet") ==> spec.der.explicit_ok(result, None, self._inner_tag_octet)',
                              'content': 'not hasattr(self, "_inner_tag_octet") ==> spec.der.tlv_content(result) == self.payload',
                              'explicit': 'hasattr(self, "_inner_tag_octet") ==> (spec.der.explicit_ok(result, self._tag_octet, self._inner_tag_octet) and '
                                          'spec.der.tlv_content(spec.der.tlv_content(result)) == self.payload)'},
                     modifies=['self.payload'], result='bytes',
                     loops={0: {'invariant': ['self.value == number * pow2(8 * len(self.payload)) + be(self.payload)',
                                              'len(self.payload) >= 1 ==> (number != 0 and (number == -1 ==> self.payload[0] < 128))'],
                                'havoc': ['self.payload'],
                                'instances': {'head': ['spec.der.lemma_shift_split(number, len(self.payload))',
                                                       'spec.der.lemma_scale(number, 256, len(self.payload))']}}},
                     opaque=TLV, options={'be_unfold': True, 'on_raise_modifies': ['self.payload']}))
    # DerInteger.decode: DerObject.decode's body with the virtual call resolved to DerInteger._decodeFromStream (inlined here)
    iok = ('(spec.der.explicit_ok(der_encoded, self._tag_octet, self._inner_tag_octet) if hasattr(self, "_inner_tag_octet") '
           'else spec.der.tlv_ok(der_encoded, self._tag_octet))')
    icontent = '(spec.der.tlv_content(spec.der.tlv_content(der_encoded)) if hasattr(self, "_inner_tag_octet") else spec.der.tlv_content(der_encoded))'
    reg.add(Contract(A + 'DerInteger.decode', params={'der_encoded': 'bytes', 'strict': 'bool'},
                     raises={'ValueError': ('iff', 'not (%s and spec.der.tlv_size(der_encoded) == len(der_encoded)) or '
                                                   '(strict and (len(%s) == 0 or (len(%s) >= 2 and %s[0] == 0 and %s[1] < 128)))'
                                            % (iok, icontent, icontent, icontent, icontent))},
                     ensures={'self': 'result is self', 'payload': 'self.payload == ' + icontent,
                              'value': 'self.value == spec.der.int_value(self.payload)'},
                     modifies=['self.payload', 'self._tag_octet', 'self.value'], returns='self',
                     inline=[A + 'DerObject.decode'], opaque=TLV + ['spec.der.int_value']))
    # ---------------- tags: DerObject.__init__ / _convertTag (X.690 8.1.2: class bits 7-6, constructed bit 5, low tag number < 31)
    TAGT = 'int|bytes<1>|none'
    tagnum = lambda e: '(%s if isinstance(%s, int) else %s[0])' % (e, e, e)
    tag_ok = lambda e: '(0 <= %s and %s < 31)' % (tagnum(e), tagnum(e))
    reg.add(Contract(A + 'DerObject._convertTag', params={'self': 'any', 'tag': 'int|bytes<1>'},
                     raises={'ValueError': ('iff', 'not %s' % tag_ok('tag'))},
                     ensures={'value': 'result == %s' % tagnum('tag')}, result='int[0..30]', modifies=[]))
    # (registered only for its own proof unit: the other proofs of this area execute the constructors' bodies, as before)
    (reg.add if with_init else (lambda c: None))(Contract(A + 'DerObject.__init__',
                     params={'self': 'new:' + A + 'DerObject', 'asn1Id': TAGT, 'payload': 'bytes', 'implicit': TAGT, 'constructed': 'bool', 'explicit': TAGT},
                     raises={'ValueError': ('iff', 'asn1Id is not None and (not %s or (implicit is not None and explicit is not None) or '
                                                   '(implicit is not None and not %s) or (explicit is not None and not %s))'
                                            % (tag_ok('asn1Id'), tag_ok('implicit'), tag_ok('explicit')))},
                     ensures={'undetermined': 'asn1Id is None ==> (self._tag_octet is None and not hasattr(self, "payload") and not hasattr(self, "_inner_tag_octet"))',
                              'payload': 'asn1Id is not None ==> self.payload == payload',
                              'universal': '(asn1Id is not None and implicit is None and explicit is None) ==> '
                                           '(self._tag_octet == (32 if constructed else 0) + %s and not hasattr(self, "_inner_tag_octet"))' % tagnum('asn1Id'),
                              'implicit': '(asn1Id is not None and implicit is not None) ==> '
                                          '(self._tag_octet == 128 + (32 if constructed else 0) + %s and not hasattr(self, "_inner_tag_octet"))' % tagnum('implicit'),
                              'explicit': '(asn1Id is not None and explicit is not None) ==> '
                                          '(self._tag_octet == 128 + 32 + %s and self._inner_tag_octet == (32 if constructed else 0) + %s)' % (tagnum('explicit'), tagnum('asn1Id'))},
                     modifies=['self._tag_octet', 'self.payload', 'self._inner_tag_octet'], options={'bit_arith': True}))
    # ---------------- DerBoolean (X.690 8.2 + 11.1: one octet, 0x00 or 0xFF)
    reg.add(ClassContract(A + 'DerBoolean',
                          fields={'_tag_octet': 'int[0..255]|none', 'payload?': 'bytes', '_inner_tag_octet?': 'int[0..255]', 'value?': 'bool'}))
    reg.add(Contract(A + 'DerBoolean._decodeFromStream', params={'s': S, 'strict': 'bool'},
                     raises={'ValueError': ('iff', 'not %s or len(%s) != 1 or (%s[0] != 0 and %s[0] != 255)'
                                            % (ok, content % (rem, rem), content % (rem, rem), content % (rem, rem)))},
                     ensures={'payload': 'self.payload == ' + content % (orem, orem),
                              'value': 'self.value == (self.payload[0] == 255)',
                              'consumed': 's._index == old(s._index) + spec.der.tlv_size(%s)' % orem, 'valid': 'valid(s)'},
                     modifies=['s._index', 'self.payload', 'self._tag_octet', 'self.value'],
                     opaque=TLV, options={'on_raise_modifies': ['s._index', 'self.payload', 'self._tag_octet']}))
    reg.add(Contract(A + 'DerBoolean.encode', params={}, requires=['self._tag_octet is not None', 'hasattr(self, "value")'],
                     raises={},
                     ensures={'payload': 'self.payload == (bytes([255]) if self.value else bytes([0]))',
                              'tlv': 'spec.der.tlv_ok(result, self._tag_octet) and spec.der.tlv_size(result) == len(result)',
                              'first': 'result[0] == self._tag_octet', 'any_tag': 'spec.der.tlv_ok(result, None)',
                              'any_tag_explicit': 'hasattr(self, "_inner_tag_octet") ==> spec.der.explicit_ok(result, None, self._inner_tag_octet)',
                              'content': 'not hasattr(self, "_inner_tag_octet") ==> spec.der.tlv_content(result) == self.payload',
                              'explicit': 'hasattr(self, "_inner_tag_octet") ==> (spec.der.explicit_ok(result, self._tag_octet, self._inner_tag_octet) and '
                                          'spec.der.tlv_content(spec.der.tlv_content(result)) == self.payload)'},
                     modifies=['self.payload'], result='bytes', opaque=TLV))
    bok = ('(spec.der.explicit_ok(der_encoded, self._tag_octet, self._inner_tag_octet) if hasattr(self, "_inner_tag_octet") '
           'else spec.der.tlv_ok(der_encoded, self._tag_octet))')
    bcontent = '(spec.der.tlv_content(spec.der.tlv_content(der_encoded)) if hasattr(self, "_inner_tag_octet") else spec.der.tlv_content(der_encoded))'
    reg.add(Contract(A + 'DerBoolean.decode', params={'der_encoded': 'bytes', 'strict': 'bool'},
                     raises={'ValueError': ('iff', 'not (%s and spec.der.tlv_size(der_encoded) == len(der_encoded)) or len(%s) != 1 or '
                                                   '(%s[0] != 0 and %s[0] != 255)' % (bok, bcontent, bcontent, bcontent))},
                     ensures={'self': 'result is self', 'payload': 'self.payload == ' + bcontent, 'value': 'self.value == (self.payload[0] == 255)'},
                     modifies=['self.payload', 'self._tag_octet', 'self.value'], returns='self',
                     inline=[A + 'DerObject.decode'], opaque=TLV))
    # ---------------- DerBitString (X.690 8.6: initial octet = number of unused bits, which this class requires to be 0)
    reg.add(ClassContract(A + 'DerBitString',
                          fields={'_tag_octet': 'int[0..255]|none', 'payload?': 'bytes', '_inner_tag_octet?': 'int[0..255]', 'value?': 'bytes'}))
    reg.add(Contract(A + 'DerBitString._decodeFromStream', params={'s': S, 'strict': 'bool'},
                     raises={'ValueError': ('iff', 'not %s or (len(%s) >= 1 and %s[0] != 0)' % (ok, content % (rem, rem), content % (rem, rem)))},
                     ensures={'payload': 'self.payload == ' + content % (orem, orem), 'value': 'self.value == self.payload[1:]',
                              'consumed': 's._index == old(s._index) + spec.der.tlv_size(%s)' % orem, 'valid': 'valid(s)'},
                     modifies=['s._index', 'self.payload', 'self._tag_octet', 'self.value'],
                     opaque=TLV, options={'on_raise_modifies': ['s._index', 'self.payload', 'self._tag_octet']}))
    reg.add(Contract(A + 'DerBitString.encode', params={}, requires=['self._tag_octet is not None', 'hasattr(self, "value")'],
                     raises={'ValueError': ('only_if', 'True')}, on_raise={'ValueError': ['len(self.payload) + 16 >= 2 ** 64']},
                     ensures={'payload': 'self.payload == bytes([0]) + self.value',
                              'tlv': 'spec.der.tlv_ok(result, self._tag_octet) and spec.der.tlv_size(result) == len(result)',
                              'first': 'result[0] == self._tag_octet', 'any_tag': 'spec.der.tlv_ok(result, None)',
                              'any_tag_explicit': 'hasattr(self, "_inner_tag_octet") ==> spec.der.explicit_ok(result, None, self._inner_tag_octet)',
                              'content': 'not hasattr(self, "_inner_tag_octet") ==> spec.der.tlv_content(result) == self.payload',
                              'explicit': 'hasattr(self, "_inner_tag_octet") ==> (spec.der.explicit_ok(result, self._tag_octet, self._inner_tag_octet) and '
                                          'spec.der.tlv_content(spec.der.tlv_content(result)) == self.payload)'},
                     modifies=['self.payload'], result='bytes', opaque=TLV, options={'on_raise_modifies': ['self.payload']}))
    reg.add(Contract(A + 'DerBitString.decode', params={'der_encoded': 'bytes', 'strict': 'bool'},
                     raises={'ValueError': ('iff', 'not (%s and spec.der.tlv_size(der_encoded) == len(der_encoded)) or (len(%s) >= 1 and %s[0] != 0)'
                                            % (bok, bcontent, bcontent))},
                     ensures={'self': 'result is self', 'payload': 'self.payload == ' + bcontent, 'value': 'self.value == self.payload[1:]'},
                     modifies=['self.payload', 'self._tag_octet', 'self.value'], returns='self',
                     inline=[A + 'DerObject.decode'], opaque=TLV))
    # ---------------- round trips: client programs over the real encode / decode, verified against their CONTRACTS only
    HN = 'spec.der_harness.'
    same_tags = ['obj._tag_octet is not None', 'fresh._tag_octet is None or fresh._tag_octet == obj._tag_octet',
                 'hasattr(fresh, "_inner_tag_octet") == hasattr(obj, "_inner_tag_octet")',
                 'hasattr(obj, "_inner_tag_octet") ==> fresh._inner_tag_octet == obj._inner_tag_octet', 'fresh is not obj']
    OBJ = lambda cls: 'obj:' + A + cls
    reg.add(Contract(HN + 'object_roundtrip', params={'obj': OBJ('DerObject'), 'fresh': OBJ('DerObject'), 'strict': 'bool'},
                     requires=same_tags + ['hasattr(obj, "payload")'],
                     raises={'ValueError': ('only_if', 'len(obj.payload) + 16 >= 2 ** 64')},
                     ensures={'payload': 'result.payload == obj.payload', 'tag': 'result._tag_octet == obj._tag_octet', 'same': 'result is fresh'},
                     modifies=['fresh.payload', 'fresh._tag_octet'], opaque=LEN + TLV))
    reg.add(Contract(HN + 'integer_roundtrip', params={'obj': OBJ('DerInteger'), 'fresh': OBJ('DerInteger'), 'strict': 'bool'},
                     requires=same_tags + ['hasattr(obj, "value")'],
                     # the decoder never refuses what the encoder produced (strict or not): only the encoder may refuse, contents of 2**64 octets
                     raises={'ValueError': ('only_if', 'True')}, on_raise={'ValueError': ['len(obj.payload) + 16 >= 2 ** 64']},
                     ensures={'value': 'result.value == obj.value', 'payload': 'result.payload == obj.payload'},
                     modifies=['fresh.payload', 'fresh._tag_octet', 'fresh.value', 'obj.payload'], opaque=LEN + TLV + ['spec.der.int_value']))
    reg.add(Contract(HN + 'boolean_roundtrip', params={'obj': OBJ('DerBoolean'), 'fresh': OBJ('DerBoolean'), 'strict': 'bool'},
                     requires=same_tags + ['hasattr(obj, "value")'], raises={},
                     ensures={'value': 'result.value == obj.value'},
                     modifies=['fresh.payload', 'fresh._tag_octet', 'fresh.value', 'obj.payload'], opaque=LEN + TLV))
    reg.add(Contract(HN + 'bitstring_roundtrip', params={'obj': OBJ('DerBitString'), 'fresh': OBJ('DerBitString'), 'strict': 'bool'},
                     requires=same_tags + ['hasattr(obj, "value")'],
                     raises={'ValueError': ('only_if', 'True')}, on_raise={'ValueError': ['len(obj.payload) + 16 >= 2 ** 64']},
                     ensures={'value': 'result.value == obj.value'},
                     modifies=['fresh.payload', 'fresh._tag_octet', 'fresh.value', 'obj.payload'], opaque=LEN + TLV))
    # ---------------- DerSequence
    reg.add(ClassContract(A + 'DerSequence',
                          fields={'_tag_octet': 'int[0..255]|none', 'payload?': 'bytes', '_inner_tag_octet?': 'int[0..255]',
                                  '_seq?': 'list()', '_nr_elements': 'none|nat|tuple(nat,nat)|tuple(nat,nat,nat,nat)'}))
    sl = 'p._buffer[p._bookmark:p._index]'
    reg.add(Contract(A + 'DerSequence._decodeFromStream', params={'s': S, 'strict': 'bool'},
                     raises={'ValueError': ('only_if', 'True')},
                     ensures={'payload': 'self.payload == ' + content % (orem, orem),
                              'consumed': 's._index == old(s._index) + spec.der.tlv_size(%s)' % orem, 'valid': 'valid(s)',
                              # the members cover the whole content: the local stream p over the payload is at its end
                              'covers_payload': 'p._index == len(self.payload)',
                              'count': 'self._nr_elements is None or (len(self._seq) == self._nr_elements if isinstance(self._nr_elements, int) '
                                       'else len(self._seq) in self._nr_elements)'},
                     modifies=['s._index', 'self.payload', 'self._tag_octet', 'self._seq'],
                     loops={0: {'invariant': ['valid(p)', 'p._buffer == self.payload'],
                                'havoc': ['p._index', 'p._bookmark', 'self._seq'], 'types': {'self._seq': 'alist:seq', 'p._bookmark': 'nat'}}},
                     opaque=TLV + ['spec.der.int_value'],
                     options={'on_append_instances': {'seq': ['spec.der.lemma_tlv_prefix(p._buffer[p._bookmark:], None)']},
                              'on_append': {'seq': [
                         # every member handed out is either the complete TLV as found in the payload, or -- for INTEGERs -- its value
                         'isinstance(item, bytes) ==> item == %s' % sl,
                         'p._index == p._bookmark + spec.der.tlv_size(p._buffer[p._bookmark:]) and p._index <= len(p._buffer) and p._bookmark >= 0',
                         '%s == p._buffer[p._bookmark:p._bookmark + spec.der.tlv_size(p._buffer[p._bookmark:])]' % sl,
                         'p._buffer[p._bookmark:][:spec.der.tlv_size(p._buffer[p._bookmark:])] == p._buffer[p._bookmark:p._bookmark + spec.der.tlv_size(p._buffer[p._bookmark:])]',
                         'isinstance(item, bytes) ==> spec.der.tlv_ok(item, None)',
                         'isinstance(item, bytes) ==> spec.der.tlv_size(item) == len(item)',
                         'isinstance(item, bytes) ==> item[0] != 2',
                         'isinstance(item, int) ==> (spec.der.tlv_ok(%s, 2) and spec.der.tlv_size(%s) == len(%s) and '
                         'item == spec.der.int_value(spec.der.tlv_content(%s)))' % (sl, sl, sl, sl),
                         'isinstance(item, bytes) or isinstance(item, int)']}}))
    return reg


def units(prop, tier):
    from vf.pyunit import pyvc_unit
    if prop != 'C13':
        return []
    return [pyvc_unit(prop, 'asn1.' + t, (lambda: registry(with_init=True)) if t == 'DerObject.__init__' else registry, [A + t])
            for t in ['BytesIO_EOF.read', 'BytesIO_EOF.read_byte', 'DerObject._decodeLen', 'DerObject._decodeFromStream', 'DerObject.decode',
                      'DerInteger._decodeFromStream', 'DerObject._definite_form', 'DerObject.encode', 'DerInteger.encode', 'DerInteger.decode',
                      'DerSequence._decodeFromStream', 'DerObject._convertTag', 'DerObject.__init__',
                      'DerBoolean._decodeFromStream', 'DerBoolean.encode', 'DerBoolean.decode',
                      'DerBitString._decodeFromStream', 'DerBitString.encode', 'DerBitString.decode']] + \
           [pyvc_unit(prop, 'asn1.roundtrip.' + t, registry, ['spec.der_harness.' + t + '_roundtrip']) for t in ['object', 'integer', 'boolean', 'bitstring']] + \
           [pyvc_unit(prop, 'asn1.lemma.' + t, registry, ['spec.der.' + t])
            for t in ['lemma_len_prefix', 'lemma_tlv_build', 'lemma_len_trunc', 'lemma_tlv_prefix', 'lemma_shift_split', 'lemma_scale']]
