"""Contracts for lib/Crypto/Util/asn1.py (C13, C08, C04)."""
from vf.pyvc.contracts import Contract, ClassContract
from .base import base_registry

A = 'Crypto.Util.asn1.'


def registry():
    reg = base_registry()
    reg.add(ClassContract(A + 'BytesIO_EOF',
                          fields={'_buffer': 'bytes', '_index': 'nat', '_bookmark': 'nat|none'},
                          valid=['self._index <= len(self._buffer)']))
    reg.add(Contract(A + 'BytesIO_EOF.read', params={'length': 'nat'},
                     raises={'ValueError': ('iff', 'self._index + length > len(self._buffer)')},
                     ensures={'value': 'result == old(self._buffer)[old(self._index):old(self._index) + length]',
                              'index': 'self._index == old(self._index) + length', 'valid': 'valid(self)'},
                     returns='old(self._buffer)[old(self._index):old(self._index) + length]',
                     sets={'self._index': 'old(self._index) + length'},
                     modifies=['self._index'], unchanged_on_raise=True, result='bytes', options={'exact': True}))
    reg.add(Contract(A + 'BytesIO_EOF.read_byte', params={},
                     raises={'ValueError': ('iff', 'self._index + 1 > len(self._buffer)')},
                     ensures={'value': 'result == old(self._buffer)[old(self._index)]',
                              'index': 'self._index == old(self._index) + 1', 'valid': 'valid(self)'},
                     returns='old(self._buffer)[old(self._index)]', sets={'self._index': 'old(self._index) + 1'},
                     modifies=['self._index'], unchanged_on_raise=True, result='int[0..255]', options={'exact': True}))
    reg.add(ClassContract(A + 'DerObject',
                          fields={'_tag_octet': 'int[0..255]|none', 'payload?': 'bytes', '_inner_tag_octet?': 'int[0..255]'}))
    reg.add(Contract(A + 'DerObject._decodeLen', params={'self': 'any', 's': 'obj:' + A + 'BytesIO_EOF'},
                     raises={'ValueError': ('iff', 'not spec.der.length_ok(s._buffer[s._index:])')},
                     ensures={'value': 'result == spec.der.length_value(old(s._buffer)[old(s._index):])',
                              'consumed': 's._index == old(s._index) + spec.der.length_octets(old(s._buffer)[old(s._index):])',
                              'valid': 'valid(s)'},
                     modifies=['s._index'], result='nat'))
    S = 'obj:' + A + 'BytesIO_EOF'
    rem = 's._buffer[s._index:]'
    orem = 'old(s._buffer)[old(s._index):]'
    reg.add(Contract(A + 'DerObject._decodeFromStream', params={'s': S, 'strict': 'bool'},
                     raises={'ValueError': ('iff', 'not (spec.der.explicit_ok(%s, self._tag_octet, self._inner_tag_octet) if hasattr(self, "_inner_tag_octet") '
                                                   'else spec.der.tlv_ok(%s, self._tag_octet))' % (rem, rem))},
                     ensures={'tag': 'self._tag_octet == %s[0]' % orem,
                              'payload': 'self.payload == (spec.der.tlv_content(spec.der.tlv_content(%s)) if hasattr(self, "_inner_tag_octet") else spec.der.tlv_content(%s))' % (orem, orem),
                              'consumed': 's._index == old(s._index) + spec.der.tlv_size(%s)' % orem,
                              'valid': 'valid(s)'},
                     modifies=['s._index', 'self.payload', 'self._tag_octet'],
                     opaque=['spec.der.length_ok', 'spec.der.length_octets', 'spec.der.length_value']))
    reg.add(Contract(A + 'DerObject.decode', params={'der_encoded': 'bytes', 'strict': 'bool'},
                     raises={'ValueError': ('iff', 'not ((spec.der.explicit_ok(der_encoded, self._tag_octet, self._inner_tag_octet) if hasattr(self, "_inner_tag_octet") '
                                                   'else spec.der.tlv_ok(der_encoded, self._tag_octet)) and spec.der.tlv_size(der_encoded) == len(der_encoded))')},
                     ensures={'self': 'result is self',
                              'payload': 'self.payload == (spec.der.tlv_content(spec.der.tlv_content(der_encoded)) if hasattr(self, "_inner_tag_octet") else spec.der.tlv_content(der_encoded))'},
                     modifies=['self.payload', 'self._tag_octet'],
                     opaque=['spec.der.tlv_ok', 'spec.der.tlv_size', 'spec.der.tlv_content', 'spec.der.explicit_ok']))
    return reg


def units(prop, tier):
    from vf.pyunit import pyvc_unit
    if prop != 'C13':
        return []
    return [pyvc_unit(prop, 'asn1.' + t, registry, [A + t])
            for t in ['BytesIO_EOF.read', 'BytesIO_EOF.read_byte', 'DerObject._decodeLen', 'DerObject._decodeFromStream', 'DerObject.decode']]
