"""Contracts for lib/Crypto/Util/asn1.py (C13, C08, C04)."""
from vf.pyvc.contracts import Contract, ClassContract
from .base import base_registry

A = 'Crypto.Util.asn1.'


def registry():
    reg = base_registry()
    reg.add(ClassContract(A + 'BytesIO_EOF',
                          fields={'_buffer': 'bytes', '_index': 'nat', '_bookmark': 'nat|none'},
                          valid=['self._index <= len(self._buffer)']))
    reg.add(Contract(A + 'BytesIO_EOF.read', params={'length': 'nat'},
                     raises={'ValueError': ('iff', 'self._index + length > len(self._buffer)')},
                     ensures={'value': 'result == old(self._buffer)[old(self._index):old(self._index) + length]',
                              'index': 'self._index == old(self._index) + length', 'valid': 'valid(self)'},
                     returns='old(self._buffer)[old(self._index):old(self._index) + length]',
                     sets={'self._index': 'old(self._index) + length'},
                     modifies=['self._index'], unchanged_on_raise=True, result='bytes', options={'exact': True}))
    reg.add(Contract(A + 'BytesIO_EOF.read_byte', params={},
                     raises={'ValueError': ('iff', 'self._index + 1 > len(self._buffer)')},
                     ensures={'value': 'result == old(self._buffer)[old(self._index)]',
                              'index': 'self._index == old(self._index) + 1', 'valid': 'valid(self)'},
                     returns='old(self._buffer)[old(self._index)]', sets={'self._index': 'old(self._index) + 1'},
                     modifies=['self._index'], unchanged_on_raise=True, result='int[0..255]', options={'exact': True}))
    reg.add(ClassContract(A + 'DerObject',
                          fields={'_tag_octet': 'int[0..255]|none', 'payload?': 'bytes', '_inner_tag_octet?': 'int[0..255]'}))
    reg.add(Contract(A + 'DerObject._decodeLen', params={'self': 'any', 's': 'obj:' + A + 'BytesIO_EOF'},
                     raises={'ValueError': ('iff', 'not spec.der.length_ok(s._buffer[s._index:])')},
                     ensures={'value': 'result == spec.der.length_value(old(s._buffer)[old(s._index):])',
                              'consumed': 's._index == old(s._index) + spec.der.length_octets(old(s._buffer)[old(s._index):])',
                              'valid': 'valid(s)'},
                     modifies=['s._index'], result='nat'))
    return reg
