"""Shared registry content: contracts of Util.number / py3compat helpers that every area relies on."""
from vf.pyvc.contracts import Registry, Contract, ClassContract

N = 'Crypto.Util.number.'


def base_registry():
    reg = Registry()
    # py3compat helpers (bord, bchr, tobytes, byte_string, _copy_bytes ...) are NOT modelled: their real source is inlined.
    reg.add(Contract(N + 'bytes_to_long', params={'s': 'bytes'}, returns='be(s)', pure=True,
                     assumed='bounded: bounded/number.py against int.from_bytes; proved separately where listed under C13'))
    reg.add(Contract(N + 'long_to_bytes', params={'n': 'int', 'blocksize': 'int'},
                     raises={'ValueError': ('iff', 'n < 0 or blocksize < 0')}, result='bytes',
                     ensures={'value': 'be(result) == n',
                              'minimal': 'blocksize == 0 ==> (len(result) >= 1 and (n == 0 ==> result == bytes(1)) and (n > 0 ==> result[0] != 0))',
                              'blocks': 'blocksize > 0 ==> (len(result) % blocksize == 0 and len(result) >= 1)'},
                     pure=True, assumed='bounded: bounded/number.py against int.to_bytes'))
    return reg
