"""Shared registry content: contracts of Util.number / py3compat helpers that every area relies on."""
import z3
from vf.pyvc.contracts import Registry, Contract, ClassContract
from vf.pyvc import contracts as _c, interp as _i
from vf.pyvc.values import mk_bytes, mk_int, zint, INT, BYTES

# ---- entropy model (DESIGN 2.3): the system source is a ghost tape; the k-th read of n bytes is sys_tape(k, n)
SYS_TAPE = z3.Function('sys_tape', INT, INT, BYTES)


def sys_read(E, st, args, kwargs):
    n = args[0]
    zn = zint(n)
    outs = []
    neg, ok = E.split(st, zn < 0)
    if neg is not None:
        outs.append(('raise', neg, _i.exc(ValueError, 'negative argument not allowed')))
    if ok is not None:
        cur = ok.ghost.get('sys_cursor', 0)
        t = SYS_TAPE(zint(cur), zn)
        ok.fact(z3.Length(t) == zn)
        ok.ghost['sys_cursor'] = mk_int(zint(cur) + 1)
        outs.append(('val', ok, mk_bytes(t)))
    return outs


def _sf_sys_tape(E, st, args, kw):
    """spec form: sys_tape(k, n) = the bytes returned by the k-th read (of n bytes) from the system entropy source in this call"""
    t = SYS_TAPE(zint(args[0]), zint(args[1]))
    st.fact(z3.Length(t) == zint(args[1]))
    return [('val', st, mk_bytes(t))]


def _sf_sys_reads(E, st, args, kw):
    """spec form: number of reads from the system entropy source so far"""
    return [('val', st, st.ghost.get('sys_cursor', 0))]


_c.SPEC_FORMS['sys_tape'] = _sf_sys_tape
_c.SPEC_FORMS['sys_reads'] = _sf_sys_reads
_i.SPEC_BUILTINS['sys_tape'] = _i.BuiltinV('spec.sys_tape', _sf_sys_tape)
_i.SPEC_BUILTINS['sys_reads'] = _i.BuiltinV('spec.sys_reads', _sf_sys_reads)

N = 'Crypto.Util.number.'


def base_registry():
    reg = Registry()
    rd = _i.BuiltinV('os.urandom', sys_read)
    reg.overrides['os.urandom'] = rd
    reg.overrides['Crypto.Random.get_random_bytes'] = rd
    # py3compat helpers (bord, bchr, tobytes, byte_string, _copy_bytes ...) are NOT modelled: their real source is inlined.
    reg.add(Contract(N + 'bytes_to_long', params={'s': 'bytes'}, returns='be(s)', pure=True,
                     assumed='bounded: bounded/number.py against int.from_bytes; proved separately where listed under C13'))
    reg.add(Contract(N + 'long_to_bytes', params={'n': 'int', 'blocksize': 'int'},
                     raises={'ValueError': ('iff', 'n < 0 or blocksize < 0')}, result='bytes',
                     ensures={'value': 'be(result) == n',
                              'minimal': 'blocksize == 0 ==> (len(result) >= 1 and (n == 0 ==> result == bytes(1)) and (n > 0 ==> result[0] != 0))',
                              'blocks': 'blocksize > 0 ==> (len(result) % blocksize == 0 and len(result) >= 1)',
                              'one_block': '(blocksize > 0 and n < pow2(8 * blocksize)) ==> result == i2osp(n, blocksize)',
                              'short': 'blocksize == 0 ==> ((n < 256 ==> len(result) == 1) and (n < 65536 ==> len(result) <= 2) and '
                                       '(n < 2 ** 32 ==> len(result) <= 4) and (n < 2 ** 64 ==> len(result) <= 8) and (n >= 256 ==> len(result) >= 2))'},
                     pure=True, assumed='bounded: bounded/number.py against int.to_bytes'))
    return reg
