"""The abstract block cipher behind `cipher->encrypt` / `cipher->decrypt` (BlockBase, src/block_base.h).

E_K and D_K are uninterpreted functions on blocks: a block of block_len (8 or 16) bytes is packed little-endian into 128
bits; `ek(p, bl, t)` is byte t of E_K(p[0..bl)).  The contract says the callee reads in[0..data_len), writes exactly
out[0..data_len), block by block.  This is the abstraction DESIGN.md 2.4 prescribes for the chaining-mode code; the real
ciphers (AES.c, ...) are NOT proved to satisfy it here (C02 does that separately) -- it is an assumed contract."""
import z3

from vf.cvc.contracts import TV, ClauseError, shrink, to_index

B128 = z3.BitVecSort(128)
B64 = z3.BitVecSort(64)
B8 = z3.BitVecSort(8)
E_K = z3.Function('E_K', B128, B64, B8)
D_K = z3.Function('D_K', B128, B64, B8)


class OldView:
    """atold(p): the bytes p points to, as they were in the ENTRY state (p itself is a current value)"""

    def __init__(self, ptr):
        self.ptr = ptr


def atold(tr, args):
    p = args[0]
    if isinstance(p, OldView):
        return p
    if not tr.ctx.is_ptr(p):
        raise ClauseError('atold of a non-pointer')
    return OldView(p)


def _blen(tr, bl):
    bl = shrink(tr.as_tv(bl))
    if not z3.is_bv_value(bl.bv):
        raise ClauseError('block length must be a literal in this configuration')
    n = bl.bv.as_long()
    if n not in (8, 16):
        raise ClauseError('block length %d' % n)
    return n


def _bytes(tr, p, n):
    if isinstance(p, OldView):
        return [tr.ctx.elem(p.ptr, z3.BitVecVal(j, 64), True).bv for j in range(n)]
    return [tr.ctx.elem(p, z3.BitVecVal(j, 64), tr.old).bv for j in range(n)]


def _concat(bs, n):
    blk = z3.Concat(*reversed(bs))
    if n < 16:
        blk = z3.ZeroExt(128 - 8 * n, blk)
    return blk


def _pack(tr, p, bl):
    n = _blen(tr, bl)
    return _concat(_bytes(tr, p, n), n)


def ekx(tr, args):
    """ekx(p, q, bl, t): byte t of E_K(p[0..bl) xor q[0..bl)); p, q may be atold(...) views"""
    p, q, bl, t = args
    n = _blen(tr, bl)
    bs = [a ^ b for a, b in zip(_bytes(tr, p, n), _bytes(tr, q, n))]
    return TV(E_K(_concat(bs, n), to_index(tr.as_tv(t))), False)


def ek(tr, args):
    p, bl, t = args
    return TV(E_K(_pack(tr, p, bl), to_index(tr.as_tv(t))), False)


def dk(tr, args):
    p, bl, t = args
    return TV(D_K(_pack(tr, p, bl), to_index(tr.as_tv(t))), False)


def add_to(R):
    R.helpers = getattr(R, 'helpers', {})
    R.helpers['ek'] = ek
    R.helpers['dk'] = dk
    R.helpers['ekx'] = ekx
    R.helpers['atold'] = atold
    note = 'abstract block cipher: out[0..n) = blockwise E_K/D_K(in[0..n)), nothing else written, returns 0 (assumed, see contracts/c/blockcipher.py)'
    for name, h in (('block_encrypt', 'ek'), ('block_decrypt', 'dk')):
        R.fn(name, abstract=True, params=['state', 'in', 'out', 'data_len'], ret='int',
             regions={'state': 'struct', 'in': 'u8[data_len]', 'out': 'u8[data_len]'}, modifies=['out'],
             configs=[{'name': 'default', 'alias': [('in', 'out')]}],
             requires={'whole_blocks': 'data_len % state.block_len == 0'},
             ensures={'ok': 'result == 0',      # block_common.c: ERR_NULL / ERR_NOT_ENOUGH_DATA only for what `requires` excludes
                      'blocks': 'all(out[k] == old(%s(in + (k // state.block_len) * state.block_len, state.block_len, k %% state.block_len)) '
                                'for k in range(data_len))' % h},
             note=note)
        R.funcptr_contracts[name] = name
    R.assumptions.append(note)
