"""Sidecar contracts for src/chacha20.c (C11 counter / seek / ERR_MAX_DATA, C17 memory safety, C02 block function).

Postconditions from RFC 8439 (2.3 block function, 2.4 counter handling) and the original 64-bit-counter ChaCha layout for
8-byte nonces; `chacha20_seek` is specified over the INTEGERS (DESIGN.md C11): it is expected to fail on the pinned tree
(finding D9: block_high is truncated to 32 bits)."""
import z3

from vf.cvc.contracts import Registry, TV, ClauseError
from contracts.c import common
from spec import c_chacha

ERR_NULL, ERR_MEMORY, ERR_KEY_SIZE, ERR_NONCE_SIZE, ERR_MAX_DATA, ERR_MAX_OFFSET = 1, 2, 6, 7, 10, 11


def _words(tr, p, old):
    return [tr.ctx.elem(p, z3.BitVecVal(i, 64), old).bv for i in range(16)]


def h_block_word(tr, args):
    """chacha_word(h, i): i-th 32-bit word of the RFC 8439 block computed from the 16 state words h[0..16) (current mode)"""
    p, i = args
    i = tr._lit_tv(i)
    key = ('blk', tuple(w.get_id() for w in _words(tr, p, tr.old)))
    cache = tr.ctx.eng.__dict__.setdefault('_chacha_cache', {})
    if key not in cache:
        cache[key] = (c_chacha.block_words(_words(tr, p, tr.old)), _words(tr, p, tr.old))
    return TV(cache[key][0][i], False)


def h_round_word(tr, args):
    """chacha_rounds(h, i): i-th word of the working state after 20 rounds, without the final addition (HChaCha20)"""
    p, i = args
    i = tr._lit_tv(i)
    key = ('rnd', tuple(w.get_id() for w in _words(tr, p, tr.old)))
    cache = tr.ctx.eng.__dict__.setdefault('_chacha_cache', {})
    if key not in cache:
        cache[key] = (c_chacha.rounds(_words(tr, p, tr.old)), _words(tr, p, tr.old))
    return TV(cache[key][0][i], False)


def registry(strict=False):
    LOW = '' if strict else ' and block_low < 2**32'
    R = Registry('chacha20')
    R.file = 'src/chacha20.c'
    common.add_to(R)
    R.helpers = {'chacha_word': h_block_word, 'chacha_rounds': h_round_word}

    R.define('le32(p)', 'p[0] + p[1] * 2**8 + p[2] * 2**16 + p[3] * 2**24')
    R.define('counter64(s)', 's.h[13] * 2**32 + s.h[12]')

    NULL_INIT = 'null(pState) or null(nonce)'
    cfg_init = [{'name': 'default'}] + [{'name': 'null_' + n, 'null': [n]} for n in ('pState', 'key', 'nonce')]
    R.fn('chacha20_init', allocates=True, configs=cfg_init, escapes=['pState[0]'], cost=6,
         regions={'pState': 'cell', 'key': 'u8[keySize]', 'nonce': 'u8[nonceSize]'}, modifies=['pState'],
         ensures={
             'null_args': '(%s) ==> result == %d' % (NULL_INIT, ERR_NULL),
             'key_size': 'not (%s) and (null(key) or keySize != 32) ==> result == %d' % (NULL_INIT, ERR_KEY_SIZE),
             'nonce_size': 'not (%s) and not null(key) and keySize == 32 and nonceSize != 8 and nonceSize != 12 and nonceSize != 16 '
                           '==> result == %d' % (NULL_INIT, ERR_NONCE_SIZE),
             'memory': 'result == %d ==> alloc_failed' % ERR_MEMORY,
             'ok_iff': 'result == 0 ==> (not (%s) and not null(key) and keySize == 32 and (nonceSize == 8 or nonceSize == 12 or nonceSize == 16) '
                       'and not alloc_failed)' % NULL_INIT,
             'constants': 'result == 0 ==> (pState[0].h[0] == 0x61707865 and pState[0].h[1] == 0x3320646e and '
                          'pState[0].h[2] == 0x79622d32 and pState[0].h[3] == 0x6b206574)',
             'key': 'result == 0 ==> all(pState[0].h[4 + i] == le32(key + 4 * i) for i in range(8))',
             'nonce8': 'result == 0 and nonceSize == 8 ==> (pState[0].h[12] == 0 and pState[0].h[13] == 0 and '
                       'pState[0].h[14] == le32(nonce) and pState[0].h[15] == le32(nonce + 4))',
             'nonce12': 'result == 0 and nonceSize == 12 ==> (pState[0].h[12] == 0 and pState[0].h[13] == le32(nonce) and '
                        'pState[0].h[14] == le32(nonce + 4) and pState[0].h[15] == le32(nonce + 8))',
             'nonce16': 'result == 0 and nonceSize == 16 ==> all(pState[0].h[12 + i] == le32(nonce + 4 * i) for i in range(4))',
             'fields': 'result == 0 ==> (pState[0].nonceSize == nonceSize and pState[0].usedKeyStream == 64)'})

    R.fn('chacha20_destroy', regions={'state': 'struct'}, configs=[{'name': 'null', 'null': ['state']}],
         ensures={'null': 'null(state) ==> result == %d' % ERR_NULL},
         note='only the NULL branch: freeing a caller-owned block needs ownership transfer in the contract (not modelled)')

    # ------------------------------------------------------------------ one block + counter update
    R.fn('chacha20_core', regions={'state': 'struct', 'h': 'u32[16]'}, cost=15,
         modifies=['h', 'state.h', 'state.keyStream', 'state.usedKeyStream'],
         requires={'nonce': 'state.nonceSize == 8 or state.nonceSize == 12 or state.nonceSize == 16'},
         ensures={
             # RFC 8439 2.3: serialized (state + 20 rounds of state), little endian
             # (spec_: proved for chacha20_core, not handed to its callers -- they do not need the 20 rounds in their queries)
             'spec_keystream': 'all(le32(state.keyStream + 4 * i) == old(chacha_word(state.h, i)) for i in range(16))',
             'spec_rounds_out': 'all(h[i] == old(chacha_rounds(state.h, i)) for i in range(16))',
             'used': 'state.usedKeyStream == 0',
             'frame': 'all(state.h[i] == old(state.h[i]) for i in range(12)) and state.h[14] == old(state.h[14]) and '
                      'state.h[15] == old(state.h[15]) and state.nonceSize == old(state.nonceSize)',
             # 64-bit block counter (8-byte nonce), 32-bit block counter (12-byte nonce, RFC 8439 2.4), none (HChaCha20)
             'counter8': 'state.nonceSize == 8 ==> (counter64(state) == (old(counter64(state)) + 1) %% 2**64 and '
                         '((result == %d) <==> old(counter64(state)) == 2**64 - 1) and (result == 0 or result == %d))' % (ERR_MAX_DATA, ERR_MAX_DATA),
             'counter12': 'state.nonceSize == 12 ==> (state.h[12] == (old(state.h[12]) + 1) %% 2**32 and state.h[13] == old(state.h[13]) and '
                          '((result == %d) <==> old(state.h[12]) == 2**32 - 1) and (result == 0 or result == %d))' % (ERR_MAX_DATA, ERR_MAX_DATA),
             'counter16': 'state.nonceSize == 16 ==> (state.h[12] == old(state.h[12]) and state.h[13] == old(state.h[13]) and result == 0)'})

    # ------------------------------------------------------------------ seek: over the INTEGERS
    cfg_seek = [{'name': 'default'}, {'name': 'null_state', 'null': ['state']}]
    R.fn('chacha20_seek', regions={'state': 'struct'}, configs=cfg_seek, cost=10,
         modifies=['state.h', 'state.keyStream', 'state.usedKeyStream'],
         ensures={
             'null': 'null(state) ==> result == %d' % ERR_NULL,
             'nonce_size': 'not null(state) and state.nonceSize != 8 and state.nonceSize != 12 ==> result == %d' % ERR_NONCE_SIZE,
             'offset': 'not null(state) and (state.nonceSize == 8 or state.nonceSize == 12) and offset >= 64 ==> result == %d' % ERR_MAX_OFFSET,
             'codes': 'result == 0 or result == %d or result == %d or result == %d or result == %d'
                      % (ERR_NULL, ERR_NONCE_SIZE, ERR_MAX_OFFSET, ERR_MAX_DATA),
             # the caller asks for block number block_high * 2**32 + block_low; after a successful seek the key stream buffer
             # holds that block and the counter is the NEXT block -- as INTEGERS, no silent wrap (finding D9).
             # block_low < 2**32 is what the only caller (Crypto.Cipher.ChaCha20.seek: `block_low = position // 64 & 0xFFFFFFFF`)
             # passes; without it the clauses fail on the current tree because block_low is truncated to 32 bits as well
             # (finding F-CHACHA-1, C level only): registry(strict=True) drops the restriction and shows that.
             'position8': 'not null(state) and result == 0 and state.nonceSize == 8%s ==> '
                          'counter64(state) == block_high * 2**32 + block_low + 1' % LOW,
             'position12': 'not null(state) and result == 0 and state.nonceSize == 12%s ==> '
                           '(block_high == 0 and state.h[12] == block_low + 1)' % LOW,
             'used': 'not null(state) and result == 0 ==> state.usedKeyStream == offset'})

    # ------------------------------------------------------------------ encrypt: buffering
    cfg_enc = [{'name': 'disjoint'}, {'name': 'inplace', 'alias': [('in', 'out')]}] + \
              [{'name': 'null_' + n, 'null': [n], 'cost': 2} for n in ('state', 'in', 'out')]
    NULLS = 'null(state) or null(in) or null(out)'
    R.define('consumed()', 'u64(old(len) - len)')
    R.fn('chacha20_encrypt', regions={'state': 'struct', 'in': 'u8[len]', 'out': 'u8[len]'}, configs=cfg_enc, cost=130, quick=['inplace', 'null_state', 'null_in', 'null_out'],
         modifies=['out', 'state.h', 'state.keyStream', 'state.usedKeyStream'],
         requires={'buffer': 'null(state) or state.usedKeyStream <= 64'},
         ensures={
             'null_args': '(%s) ==> result == %d' % (NULLS, ERR_NULL),
             'nonce_size': 'not (%s) and state.nonceSize != 8 and state.nonceSize != 12 ==> result == %d' % (NULLS, ERR_NONCE_SIZE),
             'codes': 'result == 0 or result == %d or result == %d or result == %d' % (ERR_NULL, ERR_NONCE_SIZE, ERR_MAX_DATA),
             'buffer': 'not null(state) ==> state.usedKeyStream <= 64',
             # (the per-chunk statement out[i] == in[i] ^ keyStream[usedKeyStream + i] is the inner-loop invariant `xor`; a
             #  postcondition over the whole call needs the closed form across refills, see NOTES.md)
             'progress': 'not (%s) and result == 0 ==> state.nonceSize == old(state.nonceSize)' % NULLS},
         loops={
             0: dict(invariants={
                 'cursor': 'len <= old(len) and offset(in) == consumed() and offset(out) == consumed()',
                 'buffer': 'state.usedKeyStream <= 64',
                 'nonce': 'state.nonceSize == old(state.nonceSize)',
                 'unread': 'all(i >= consumed() ==> old(in)[i] == oldmem(old(in), i) for i in range(old(len)))'},
                 decreases='len'),
             1: dict(invariants={
                 'bounds': 'i <= keyStreamToUse and keyStreamToUse <= len and keyStreamToUse <= 64 - state.usedKeyStream',
                 'cursor': 'offset(in) == consumed() + i and offset(out) == consumed() + i',
                 'xor': 'all(old(out)[consumed() + t] == oldmem(old(in), consumed() + t) ^ state.keyStream[state.usedKeyStream + t] for t in range(i))',
                 'unread': 'all(k >= consumed() + i ==> old(in)[k] == oldmem(old(in), k) for k in range(old(len)))'},
                 decreases='keyStreamToUse - i')})
    return R


def registry_strict():
    """chacha20_seek specified for every unsigned long block_low (no wrapper-range restriction): expected to be VIOLATED on
    the current tree by block_low >= 2**32 (finding F-CHACHA-1)"""
    return registry(strict=True)
