"""Header helpers shared by several translation units (src/common.h, src/endianess.h): small, loop-free, always inlined."""


def add_to(R):
    for name in ('u32to8_little', 'u8to32_little', 'u32to8_big', 'u8to32_big', 'load_u8to32_little', 'load_u8to32_big',
                 'u64to8_little', 'u8to64_little', 'u64to8_big', 'u8to64_big', 'load_u8to64_little', 'load_u8to64_big'):
        R.fn(name, inline=True)
