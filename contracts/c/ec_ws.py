"""Sidecar contracts for src/ec_ws.c: ec_scalar_g_p256 / _p384 / _p521 (C17: memory safety only).

The fixed-base tables `prot_g` have `<curve>_n_tables` entries (ec_ws_new_context builds exactly that many); the loop runs
`bw.nr_windows = ceil(8 * exp_size / window_size)` times (after stripping leading zero bytes), so every `prot_g[i]` must be
guarded by `nr_windows <= n_tables` -- for EVERY exp_size (symbolic here).

ASSUMED callee contracts (bodies are in other translation units or out of the bit-precise subset; stated, not proved here):
  init_bit_window_rl  returns {window_size, nr_windows = (unsigned)((exp_len*8 + window_size - 1) / window_size),
                      bytes_left = (unsigned)exp_len, bits_left = 8, cursor = exp + exp_len - 1}     (src/modexp_utils.c:55)
  get_next_digit_rl   changes only *bw, keeps window_size and nr_windows                                (src/modexp_utils.c:99)
  gather              writes out[0 .. 2*words) 64-bit words, nothing else                               (src/modexp_utils.c:213)
  mont_set            writes out[0 .. words)                                                            (src/mont.c)
  ec_mix_add          writes x3, y3, z3 (words each), reads x2, y2 (words each); x3/y3/z3 may alias x13/y13/z13
The values of the extern constants <curve>_n_tables / _window_size are read from src/<curve>_table.c at run time."""
import os
import re

from vf.cvc.contracts import Registry
from vf.cvc import units as U

ERR_VALUE = 14
CURVES = {'p256': 4, 'p384': 6, 'p521': 9}


def _table_constants(src_dir):
    g = {}
    for cv in CURVES:
        try:
            with open(os.path.join(src_dir, '%s_table.c' % cv), errors='replace') as f:
                head = f.read(4000)
        except OSError:
            continue
        for name in ('n_tables', 'window_size', 'points_per_table'):
            m = re.search(r'const\s+unsigned\s+%s_%s\s*=\s*(\d+)\s*;' % (cv, name), head)
            if m:
                g['%s_%s' % (cv, name)] = int(m.group(1))
    return g


def registry():
    R = Registry('ec_ws')
    R.file = 'src/ec_ws.c'
    src_dir = os.environ.get('VERIF_C_SRC') or U.default_src()
    R.globals = _table_constants(src_dir)
    note = 'assumed callee contract (see the module docstring of contracts/c/ec_ws.py)'
    R.assumptions.append('ec_ws: init_bit_window_rl / get_next_digit_rl / gather / mont_set / ec_mix_add are assumed contracts; '
                         'prot_g has <curve>_n_tables entries; table constants read from src/<curve>_table.c: %s' % sorted(R.globals.items()))

    R.fn('init_bit_window_rl', abstract=True, params=['window_size', 'exp', 'exp_len'], ret='struct BitWindow_RL',
         result_ptrs={'cursor': 'exp + (exp_len - 1)'},
         requires={'window': '1 <= window_size and window_size <= 8'},
         ensures={'fields': 'result.window_size == window_size and result.bytes_left == u32(exp_len) and result.bits_left == 8 and '
                            'result.nr_windows == u32((exp_len * 8 + u32(window_size - 1)) // window_size)'}, note=note)
    R.fn('get_next_digit_rl', abstract=True, params=['bw'], ret='unsigned int', regions={'bw': 'struct'}, modifies=['bw'],
         ensures={'kept': 'bw.window_size == old(bw.window_size) and bw.nr_windows == old(bw.nr_windows)'}, note=note)

    for cv, words in CURVES.items():
        W = str(words)
        # per-curve instances of the assumed callees are not needed: the sizes below are the largest any curve hands over,
        # and each call site is checked against the size it really passes through the region specs of THIS function
        pass
    # the callee contracts take their sizes from a logical `words` that each call site fixes through its arguments: simpler to
    # register them per curve under the real names with the size of the curve being verified (one registry per curve)
    return R


def build(curve):
    R = registry()
    words = CURVES[curve]
    W = str(words)
    note = 'assumed callee contract (see the module docstring of contracts/c/ec_ws.py)'
    R.area = 'ec_ws_' + curve
    R.fn('gather', abstract=True, params=['out', 'prot', 'index'], ret='void', regions={'out': 'u64[%d]' % (2 * words)}, modifies=['out'], note=note)
    R.fn('mont_set', abstract=True, params=['out', 'x', 'ctx'], ret='int', regions={'out': 'u64[%s]' % W}, modifies=['out'], note=note)
    R.fn('ec_mix_add', abstract=True, params=['x3', 'y3', 'z3', 'x13', 'y13', 'z13', 'x2', 'y2', 'b', 'tmp', 'ctx'], ret='void',
         regions={p: 'u64[%s]' % W for p in ('x3', 'y3', 'z3', 'x13', 'y13', 'z13', 'x2', 'y2', 'b')},
         configs=[{'name': 'default', 'alias': [('x3', 'x13'), ('y3', 'y13'), ('z3', 'z13')]}],
         modifies=['x3', 'y3', 'z3'], note=note)
    nt = R.globals.get('%s_n_tables' % curve)
    R.fn('ec_scalar_g_' + curve, cost=20,
         regions={'x3': 'u64[%s]' % W, 'y3': 'u64[%s]' % W, 'z3': 'u64[%s]' % W, 'b': 'u64[%s]' % W, 'exp': 'u8[exp_size]',
                  'wp1': 'struct', 'wp2': 'struct', 'ctx': 'struct', 'prot_g': 'ptr[%d]' % (nt or 0)},
         modifies=['x3', 'y3', 'z3'],
         requires={'tables_known': '%d > 0' % (nt or 0)},
         ensures={'codes': 'result == 0 or result == %d' % ERR_VALUE},
         loops={0: dict(invariants={'cursor': 'exp_size <= old(exp_size) and offset(exp) == u64(old(exp_size) - exp_size)'},
                        decreases='exp_size'),
                # (nr_windows <= n_tables is NOT part of the invariant: it has to come from the guard before the loop, so that a
                #  missing / wrong guard shows up on the in_bounds obligation of prot_g[i] itself)
                1: dict(invariants={'windows': 'i <= bw.nr_windows and bw.nr_windows == pre(bw.nr_windows)'},
                        decreases='bw.nr_windows - i')})
    return R
