"""ec_scalar_g_p521 (see contracts/c/ec_ws.py)"""
from contracts.c import ec_ws


def registry():
    return ec_ws.build('p521')
