"""Sidecar contracts for `<HASH>_pbkdf2_hmac_assist` (src/hash_SHA2_template.c instantiated by SHA224/256/384/512.c).

RFC 8018 5.2: T = U_1 xor U_2 xor ... xor U_c with U_1 given (first_hmac) and U_{k+1} = HMAC step of U_k, where the HMAC step
(RFC 2104) is squeeze(absorb(outer, squeeze(absorb(inner, U_k)))) with the hash's update / finalize as uninterpreted functions
of the complete hash state (spec/c_hmac.py).  Postcondition: result[t] == X_iterations[t] for EVERY t < digest_size.

The callee contracts `<HASH>_update` and `sha_finalize` are ASSUMED (not proved here): update replaces the state by absorb(state,
data) and returns; finalize writes squeeze(state, t) to hash[0..digest_size) (and may change the state)."""
import z3

from vf.cvc.contracts import Registry, TV, ClauseError, shrink, to_index
from vf.cvc.mem import Ptr
from spec import c_hmac

ERR_NULL, ERR_NR_ROUNDS, ERR_DIGEST_SIZE = 1, 8, 9
# variant -> (file, digest sizes, finalize function, the functions take digest_size as a parameter)
VARIANTS = {'SHA224': ('src/SHA224.c', [28], 'sha_finalize', True), 'SHA256': ('src/SHA256.c', [32], 'sha_finalize', True),
            'SHA384': ('src/SHA384.c', [48], 'sha_finalize', True), 'SHA512': ('src/SHA512.c', [64, 28, 32], 'sha_finalize', True),
            'SHA1': ('src/SHA1.c', [20], 'sha_finalize', False), 'MD5': ('src/MD5.c', [16], 'md5_finalize', False)}


def _lit(tr, v):
    v = shrink(tr.as_tv(v))
    if not z3.is_bv_value(v.bv):
        raise ClauseError('literal expected')
    return v.bv.as_long()


def _state(tr, p, old):
    """(h, buf, curlen, totbits) z3 terms of the hash_state p points to, and its word size"""
    if not isinstance(p, Ptr) or p.region is None or p.region.kind != 'struct':
        raise ClauseError('hash state expected')
    mem = tr.ctx._mem(old)
    f = p.region.fields
    cur = mem.get(f['curlen'].id)
    tot = mem.get(f['totbits'].id)
    if cur is None or tot is None:
        raise ClauseError('hash state not initialised')
    return (mem[f['h'].id], mem[f['buf'].id], cur, tot), f['h'].bits


def h_absorbed(tr, args):
    """absorbed(hs, data, n): the CURRENT state of hs is absorb(OLD state of hs, old data[0..n))   (n literal)"""
    hs, data, n = args
    n = _lit(tr, n)
    new, w = _state(tr, hs, False)
    old, _ = _state(tr, hs, True)
    d = [tr.ctx.elem(data, z3.BitVecVal(j, 64), True).bv for j in range(n)]
    want = c_hmac.absorb(old, d, w)
    return z3.And(*[a == b for a, b in zip(new, want)])


def h_squeezed(tr, args):
    """squeezed(hs, t): byte t of the digest of the OLD state of hs"""
    hs, t = args
    old, w = _state(tr, hs, True)
    return TV(c_hmac.squeeze(old, to_index(tr.as_tv(t)), w), False)


def h_useq(tr, args):
    return TV(c_hmac.Useq(to_index(tr.as_tv(args[0])), to_index(tr.as_tv(args[1]))), False)


def h_xseq(tr, args):
    return TV(c_hmac.Xseq(to_index(tr.as_tv(args[0])), to_index(tr.as_tv(args[1]))), False)


def h_step(tr, args):
    """hmac_step(inner, outer, k, ds, t): byte t of the HMAC step applied to Useq(k, 0..ds)"""
    inner, outer, k, ds, t = args
    ds = _lit(tr, ds)
    t = _lit(tr, t)
    si, w = _state(tr, inner, tr.old)
    so, _ = _state(tr, outer, tr.old)
    kk = to_index(tr.as_tv(k))
    u = [c_hmac.Useq(kk, z3.BitVecVal(j, 64)) for j in range(ds)]
    return TV(c_hmac.hmac_step(si, so, u, w)[t], False)


def build(variant):
    path, sizes, fin, has_ds = VARIANTS[variant]
    R = Registry('pbkdf2_' + variant)
    R.file = path
    R.helpers = {'absorbed': h_absorbed, 'squeezed': h_squeezed, 'useq': h_useq, 'xseq': h_xseq, 'hmac_step': h_step}
    note = 'assumed: hash update / finalize are the uninterpreted absorb / squeeze of spec/c_hmac.py on the complete hash state'
    R.assumptions.append(note)
    DS = 'digest_size' if has_ds else str(sizes[0])
    keep = ' and hs.digest_size == old(hs.digest_size)' if has_ds else ''
    R.fn(variant + '_update', abstract=True, params=['hs', 'buf', 'len'], ret='int', regions={'hs': 'struct', 'buf': 'u8[len]'},
         modifies=['hs'], ensures={'absorb': 'absorbed(hs, buf, len)' + keep}, note=note)
    if has_ds:
        R.fn(fin, abstract=True, params=['hs', 'hash', 'digest_size'], ret='int',
             regions={'hs': 'struct', 'hash': 'u8[digest_size]'}, modifies=['hs', 'hash'],
             requires={'size': 'digest_size == hs.digest_size'},
             ensures={'squeeze': 'all(hash[t] == squeezed(hs, t) for t in range(digest_size))'}, note=note)
    else:
        R.fn(fin, abstract=True, params=['hs', 'hash'], ret='void',
             regions={'hs': 'struct', 'hash': 'u8[%s]' % DS}, modifies=['hs', 'hash'],
             ensures={'squeeze': 'all(hash[t] == squeezed(hs, t) for t in range(%s))' % DS}, note=note)

    fn = variant + '_pbkdf2_hmac_assist'
    if has_ds:
        cfgs = [{'name': 'ds%d' % n, 'set': {'digest_size': n}, 'cost': 40} for n in sizes]
    else:
        cfgs = [{'name': 'ds%d' % sizes[0], 'cost': 40}]
    cfgs += [{'name': 'null_' + p, 'null': [p], 'cost': 1} for p in ('inner', 'outer', 'first_hmac', 'result')]
    NULLS = 'null(inner) or null(outer) or null(first_hmac) or null(result)'
    SIZES_OK = ' and digest_size == inner.digest_size and digest_size == outer.digest_size' if has_ds else ''
    OK = 'not (%s) and iterations != 0' % NULLS + SIZES_OK
    ens = {
        'null_args': '(%s) ==> ret == %d' % (NULLS, ERR_NULL),
        'rounds': 'not (%s) and iterations == 0 ==> ret == %d' % (NULLS, ERR_NR_ROUNDS),
        'ok': OK + ' ==> ret == 0',
        # T = U_1 xor ... xor U_iterations over ALL digest bytes
        'xor_of_all': OK + ' ==> all(result[t] == xseq(iterations, t) for t in range(%s))' % DS}
    if has_ds:
        ens['digest_size'] = ('not (%s) and iterations != 0 and (digest_size != inner.digest_size or digest_size != outer.digest_size) ==> ret == %d'
                              % (NULLS, ERR_DIGEST_SIZE))
    R.fn(fn, regions={'inner': 'struct', 'outer': 'struct', 'first_hmac': 'u8[%s]' % DS, 'result': 'u8[%s]' % DS},
         configs=cfgs, modifies=['result'], cost=1, quick=[c['name'] for c in cfgs],
         # recursive definitions of the ghost sequences, first element (assumed: they DEFINE Useq / Xseq)
         requires={'def_U1': 'null(first_hmac) or all(useq(1, t) == first_hmac[t] and xseq(1, t) == first_hmac[t] for t in range(%s))' % DS},
         ensures=ens,
         loops={0: dict(
             invariants={'range': '1 <= i and i <= iterations',
                         'last': 'all(last_hmac[t] == useq(i, t) for t in range(%s))' % DS,
                         'acc': 'all(result[t] == xseq(i, t) for t in range(%s))' % DS},
             # recursive definitions, step k -> k+1 (assumed at the start of the iteration: they DEFINE Useq(i+1), Xseq(i+1))
             unfold={'def_U': 'all(useq(i + 1, t) == hmac_step(inner, outer, i, %s, t) for t in range(%s))' % (DS, DS),
                     'def_X': 'all(xseq(i + 1, t) == xseq(i, t) ^ useq(i + 1, t) for t in range(%s))' % DS},
             lemmas={'xor_step': 'all(result[t] == iter(result[t]) ^ last_hmac[t] for t in range(%s))' % DS},
             decreases='iterations - i')})
    return R
