"""PBKDF2 assist of MD5 (see contracts/c/pbkdf2_assist.py)"""
from contracts.c import pbkdf2_assist


def registry():
    return pbkdf2_assist.build('MD5')
