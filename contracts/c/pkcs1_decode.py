"""Sidecar contracts for src/pkcs1_decode.c (C07 functional, C17 memory safety).

Top-level postconditions are RFC 8017 7.2.2 step 3 (EME-PKCS1-v1_5 decoding) and 7.1.2 step 3.g (EME-OAEP), plus the
library's sentinel convention as stated in DESIGN.md "### C07" -- not read off the code."""
from vf.cvc.contracts import Registry

MAX = '18446744073709551615'      # SIZE_MAX on LP64


def registry():
    R = Registry('pkcs1_decode')
    R.file = 'src/pkcs1_decode.c'

    # ------------------------------------------------------------------ leaf helpers
    R.fn('rol8', inline=True,
         ensures={'rotate': '(result >> 1) == (x & 127) and (result & 1) == (x >> 7)'})

    R.fn('propagate_ones',
         ensures={'all_or_nothing': 'result == (0 if x == 0 else %s)' % MAX})

    R.fn('set_if_match', regions={'flag': 'u8[1]'}, modifies=['flag'],
         ensures={'flag': 'flag[0] == (255 if term1 == term2 else old(flag[0]))'})

    R.fn('set_if_no_match', regions={'flag': 'u8[1]'}, modifies=['flag'],
         ensures={'flag': 'flag[0] == (255 if term1 != term2 else old(flag[0]))'})

    R.fn('safe_select', regions={'in1': 'u8[len]', 'in2': 'u8[len]', 'out': 'u8[len]'}, modifies=['out'],
         ensures={'select': 'all(out[k] == (in1[k] if choice == 0 else in2[k]) for k in range(len))'},
         loops={0: dict(invariants={
             'bounds': 'i <= len',
             'masks': 'mask1 == (0 if choice == 0 else 255) and mask2 == 255 - mask1',
             'done': 'all(out[k] == (in1[k] if choice == 0 else in2[k]) for k in range(i))'},
             decreases='len - i')})

    R.fn('safe_select_idx',
         ensures={'select': 'result == (in1 if choice == 0 else in2)'})

    R.define('cmp_ok(in1, in2, eq, neq, k)',
             '(in1[k] != in2[k] ==> eq[k] == 0) and (in1[k] == in2[k] ==> neq[k] == 0)')
    R.fn('safe_cmp_masks',
         regions={'in1': 'u8[len]', 'in2': 'u8[len]', 'eq_mask': 'u8[len]', 'neq_mask': 'u8[len]'},
         ensures={'zero_iff': '(result == 0) <==> all(cmp_ok(in1, in2, eq_mask, neq_mask, k) for k in range(len))'},
         loops={0: dict(invariants={
             'bounds': 'i <= len',
             'cursors': 'offset(in1) == i and offset(in2) == i and offset(eq_mask) == i and offset(neq_mask) == i',
             'acc': '(result == 0) <==> all(cmp_ok(old(in1), old(in2), old(eq_mask), old(neq_mask), k) for k in range(i))'},
             decreases='len - i')})

    R.define('first_at(p, c, n, j)', 'j <= n and all(p[t] != c for t in range(j)) and (j == n or p[j] == c)')
    R.fn('safe_search', cost=8, regions={'in1': 'u8[len]'}, allocates=True,
         ensures={'failure_iff': '(result == %s) <==> (len == 0 or alloc_failed)' % MAX,
                  'first_match': 'result != %s ==> first_at(in1, c, len, result)' % MAX},
         loops={0: dict(invariants={
             'bounds': 'i <= len + 1',
             'copy': 'all(in1_c[k] == in1[k] for k in range(len)) and in1_c[len] == c',
             'mask': 'mask2 == 0 or mask2 == %s' % MAX,
             'not_yet': 'mask2 == 0 ==> (result == 0 and all(in1_c[t] != c for t in range(i)))',
             'found': 'mask2 != 0 ==> (result < i and in1_c[result] == c and all(in1_c[t] != c for t in range(result)))'},
             decreases='len + 1 - i')})

    # ------------------------------------------------------------------ EME-PKCS1-v1_5 decoding, RFC 8017 7.2.2 step 3
    R.define('bad_args(n, ls, expected)', 'n < 12 or ls > n or (expected > 0 and expected > n - 11)')
    R.define('prefix_ok(em)', 'em[0] == 0 and em[1] == 2 and all(em[i] != 0 for i in range(2, 10))')
    # j is THE index of the first zero octet at position >= 10, or n if there is none (unique, always exists)
    R.define('first_zero(em, n, j)', 'all(em[t] != 0 for t in range(10, j)) and (j == n or em[j] == 0)')
    R.define('ok(em, n, j, expected)', 'prefix_ok(em) and j < n and (expected == 0 or n - 1 - j == expected)')
    R.fn('pkcs1_decode', cost=70,
         regions={'em': 'u8[len_em_output]', 'sentinel': 'u8[len_sentinel]', 'output': 'u8[len_em_output]'},
         modifies=['output'], allocates=True,
         requires={'int_range': 'len_em_output <= 2147483647'},
         lemmas={'position': 'not alloc_failed ==> 10 <= pos and pos <= len_em_output and first_zero(em, len_em_output, pos)',
                 'selector': 'not alloc_failed ==> ((selector == 0) <==> ok(em, len_em_output, pos, expected_pt_len))',
                 'accept_at_pos': 'not alloc_failed and selector == 0 ==> '
                                  '(result == pos + 1 and all(output[k] == em[k] for k in range(len_em_output)))',
                 'reject_at_pos': 'not alloc_failed and selector != 0 ==> '
                                  '(result == len_em_output - len_sentinel '
                                  'and all(output[k] == 0 for k in range(len_em_output - len_sentinel)) '
                                  'and all(output[len_em_output - len_sentinel + k] == sentinel[k] for k in range(len_sentinel)))',
                 'unique': 'not alloc_failed ==> all(first_zero(em, len_em_output, j) ==> j == pos for j in range(10, len_em_output + 1))'},
         ensures={
             'bad_args': 'bad_args(len_em_output, len_sentinel, expected_pt_len) ==> result == -1',
             'error_only_if': 'result == -1 ==> (bad_args(len_em_output, len_sentinel, expected_pt_len) or alloc_failed)',
             'accept': 'not bad_args(len_em_output, len_sentinel, expected_pt_len) and not alloc_failed ==> '
                       'all((first_zero(em, len_em_output, j) and ok(em, len_em_output, j, expected_pt_len)) ==> '
                       '(result == j + 1 and all(output[k] == em[k] for k in range(len_em_output))) '
                       'for j in range(10, len_em_output + 1))',
             'reject': 'not bad_args(len_em_output, len_sentinel, expected_pt_len) and not alloc_failed ==> '
                       'all((first_zero(em, len_em_output, j) and not ok(em, len_em_output, j, expected_pt_len)) ==> '
                       '(result == len_em_output - len_sentinel '
                       'and all(output[k] == 0 for k in range(len_em_output - len_sentinel)) '
                       'and all(output[len_em_output - len_sentinel + k] == sentinel[k] for k in range(len_sentinel))) '
                       'for j in range(10, len_em_output + 1))'})

    # ------------------------------------------------------------------ EME-OAEP decoding, RFC 8017 7.1.2 step 3.g
    R.define('oaep_bad_args(em_len, hLen, db_len)', 'em_len < 2 * hLen + 2 or db_len != em_len - 1 - hLen')
    # DB = lHash' || PS (zeros) || 0x01 || M with the 0x01 at db[hLen + i]
    R.define('oaep_ok(em, lHash, hLen, db, i)',
             'em[0] == 0 and all(db[k] == lHash[k] for k in range(hLen)) and all(db[hLen + t] == 0 for t in range(i)) and db[hLen + i] == 1')
    R.fn('oaep_decode', cost=70,
         regions={'em': 'u8[em_len]', 'lHash': 'u8[hLen]', 'db': 'u8[db_len]'}, allocates=True,
         requires={'int_range': 'em_len <= 2147483647'},
         ensures={
             'bad_args': 'oaep_bad_args(em_len, hLen, db_len) ==> result == -1',
             'accept': 'not oaep_bad_args(em_len, hLen, db_len) and not alloc_failed ==> '
                       'all(oaep_ok(em, lHash, hLen, db, i) ==> result == hLen + 1 + i for i in range(db_len - hLen))',
             'only_if': 'result != -1 ==> (not oaep_bad_args(em_len, hLen, db_len) and '
                        'any(result == hLen + 1 + i and oaep_ok(em, lHash, hLen, db, i) for i in range(db_len - hLen)))'},
         lemmas={'witness': 'result != -1 ==> (result == hLen + 1 + one_pos and one_pos < db_len - hLen and '
                            'oaep_ok(em, lHash, hLen, db, one_pos))'},
         loops={0: dict(invariants={
             'bounds': 'i <= search_len',
             'hash_part': 'all(eq_mask[k] == 255 for k in range(hLen))',
             'ps_part': 'all(eq_mask[hLen + t] == (255 if t < one_pos else 0) for t in range(i))'},
             decreases='search_len - i')})
    return R
