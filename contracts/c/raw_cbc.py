"""Sidecar contracts for src/raw_cbc.c (NIST SP 800-38A 6.2, CBC): C_i = E_K(P_i xor C_{i-1}), P_i = D_K(C_i) xor C_{i-1},
C_0 = IV; the chaining value kept in the state for the next call is the last ciphertext block.  E_K / D_K are the
uninterpreted block functions of contracts/c/blockcipher.py; both aliasing configurations (out disjoint from in, out == in)."""
from vf.cvc.contracts import Registry
from contracts.c import blockcipher

ERR_NULL, ERR_MEMORY, ERR_NOT_ENOUGH_DATA, ERR_BLOCK_SIZE = 1, 2, 3, 12
ERR_CBC_IV_LEN = (1 << 16) | 1


def registry():
    R = Registry('raw_cbc')
    R.file = 'src/raw_cbc.c'
    blockcipher.add_to(R)

    SHAPE = {'cbcState': 'struct', 'cbcState.cipher': 'struct', 'cbcState.cipher.encrypt': 'fn:block_encrypt',
             'cbcState.cipher.decrypt': 'fn:block_decrypt', 'in': 'u8[data_len]', 'out': 'u8[data_len]'}
    cfgs = []
    for bl in (16, 8):
        for al in ('disjoint', 'inplace'):
            c = {'name': 'bl%d.%s' % (bl, al), 'set': {'cbcState.cipher.block_len': bl}}
            if al == 'inplace':
                c['alias'] = [('in', 'out')]
            cfgs.append(c)
    cfgs += [{'name': 'null_' + n, 'null': [n], 'set': {'cbcState.cipher.block_len': 16}, 'cost': 1} for n in ('in', 'out')]
    cfgs += [{'name': 'null_state', 'null': ['cbcState'], 'cost': 1},
             {'name': 'block_too_long', 'assume': ['cbcState.cipher.block_len > 16'], 'cost': 1}]
    NULLS = 'null(cbcState) or null(in) or null(out)'
    R.define('bl()', 'cbcState.cipher.block_len')
    R.define('consumed()', 'u64(old(data_len) - data_len)')
    R.define('whole()', '(old(data_len) // bl()) * bl()')          # bytes in whole blocks
    # chaining byte t for the block that starts at byte b: the IV of the state for the first block, else the previous
    # ciphertext block (encrypt: in the output; decrypt: in the ORIGINAL input)
    common_ens = {
        'null_args': '(%s) ==> result == %d' % (NULLS, ERR_NULL),
        'block_size': 'not (%s) and cbcState.cipher.block_len > 16 ==> result == %d' % (NULLS, ERR_BLOCK_SIZE),
        'not_enough_data': 'not (%s) and cbcState.cipher.block_len <= 16 ==> '
                           '((result == %d) <==> data_len %% bl() != 0) and (result == 0 or result == %d)'
                           % (NULLS, ERR_NOT_ENOUGH_DATA, ERR_NOT_ENOUGH_DATA),
    }
    OKARGS = 'not (%s) and cbcState.cipher.block_len <= 16' % NULLS

    enc = dict(common_ens)
    enc.update({
        'blocks': OKARGS + ' ==> all(out[k] == (ekx(atold(old(in) + (k // bl()) * bl()), atold(cbcState.iv), bl(), k % bl()) if k < bl() else '
                           'ekx(atold(old(in) + (k // bl()) * bl()), out + (k // bl()) * bl() - bl(), bl(), k % bl())) for k in range(whole()))',
        'iv': OKARGS + ' ==> all(t < bl() ==> cbcState.iv[t] == (old(cbcState.iv[t]) if whole() == 0 else out[whole() - bl() + t]) for t in range(16))',
        'tail': OKARGS + ' and not same(in, out) ==> all(k >= whole() ==> out[k] == old(out[k]) for k in range(data_len))'})
    R.fn('CBC_encrypt', regions=SHAPE, configs=cfgs, cost=60, quick=['bl16.inplace', 'bl16.disjoint', 'null_in', 'null_out', 'null_state', 'block_too_long'],
         modifies=['out', 'cbcState.iv'], ensures=enc,
         loops={0: dict(invariants={
             'cursor': 'data_len <= old(data_len) and offset(in) == consumed() and offset(out) == consumed() and consumed() % bl() == 0',
             'blocks': 'all(old(out)[k] == (ekx(atold(old(in) + (k // bl()) * bl()), atold(cbcState.iv), bl(), k % bl()) if k < bl() else '
                       'ekx(atold(old(in) + (k // bl()) * bl()), old(out) + (k // bl()) * bl() - bl(), bl(), k % bl())) for k in range(consumed()))',
             'chain': 'all(t < bl() ==> iv[t] == (old(cbcState.iv[t]) if consumed() == 0 else old(out)[consumed() - bl() + t]) for t in range(16))',
             'state_iv': 'all(cbcState.iv[t] == old(cbcState.iv[t]) for t in range(16))',
             'unread': 'all(k >= consumed() ==> old(in)[k] == oldmem(old(in), k) for k in range(old(data_len)))',
             'untouched': 'not same(in, out) ==> all(k >= consumed() ==> old(out)[k] == oldmem(old(out), k) for k in range(old(data_len)))'},
             decreases='data_len')})

    dec = dict(common_ens)
    dec.update({
        'blocks': OKARGS + ' ==> all(out[k] == dk(atold(old(in) + (k // bl()) * bl()), bl(), k % bl()) ^ '
                           '(old(cbcState.iv[k]) if k < bl() else oldmem(old(in), k - bl())) for k in range(whole()))',
        # the value chained into the next call is the last ciphertext block AS IT WAS ON ENTRY (in-place calls overwrite it)
        'iv': OKARGS + ' ==> all(t < bl() ==> cbcState.iv[t] == (old(cbcState.iv[t]) if whole() == 0 else oldmem(old(in), whole() - bl() + t)) '
                       'for t in range(16))',
        'tail': OKARGS + ' and not same(in, out) ==> all(k >= whole() ==> out[k] == old(out[k]) for k in range(data_len))'})
    R.fn('CBC_decrypt', regions=SHAPE, configs=cfgs, cost=60, quick=['bl16.inplace', 'bl16.disjoint', 'null_in', 'null_out', 'null_state', 'block_too_long'],
         modifies=['out', 'cbcState.iv'], ensures=dec,
         loops={0: dict(invariants={
             'cursor': 'data_len <= old(data_len) and offset(in) == consumed() and offset(out) == consumed() and consumed() % bl() == 0',
             'blocks': 'all(old(out)[k] == dk(atold(old(in) + (k // bl()) * bl()), bl(), k % bl()) ^ '
                       '(old(cbcState.iv[k]) if k < bl() else oldmem(old(in), k - bl())) for k in range(consumed()))',
             'chain': 'all(t < bl() ==> iv[t] == (old(cbcState.iv[t]) if consumed() == 0 else oldmem(old(in), consumed() - bl() + t)) for t in range(16))',
             'state_iv': 'all(cbcState.iv[t] == old(cbcState.iv[t]) for t in range(16))',
             'unread': 'all(k >= consumed() ==> old(in)[k] == oldmem(old(in), k) for k in range(old(data_len)))',
             'untouched': 'not same(in, out) ==> all(k >= consumed() ==> old(out)[k] == oldmem(old(out), k) for k in range(old(data_len)))'},
             decreases='data_len')})

    # ------------------------------------------------------------------ start / stop
    cfg_start = [{'name': 'default'}] + [{'name': 'null_' + n, 'null': [n]} for n in ('cipher', 'iv', 'pResult')]
    NS = 'null(cipher) or null(iv) or null(pResult)'
    R.fn('CBC_start_operation', allocates=True, configs=cfg_start, escapes=['pResult[0]'], modifies=['pResult'], cost=3,
         regions={'cipher': 'struct', 'iv': 'u8[iv_len]', 'pResult': 'cell'},
         ensures={'null_args': '(%s) ==> result == %d' % (NS, ERR_NULL),
                  'block_size': 'not (%s) and cipher.block_len > 16 ==> result == %d' % (NS, ERR_BLOCK_SIZE),
                  'iv_len': 'not (%s) and cipher.block_len <= 16 and cipher.block_len != iv_len ==> result == %d' % (NS, ERR_CBC_IV_LEN),
                  'memory': 'result == %d ==> alloc_failed' % ERR_MEMORY,
                  'state': 'result == 0 ==> (pResult[0].cipher == cipher and all(t < iv_len ==> pResult[0].iv[t] == iv[t] for t in range(16)) '
                           'and iv_len == cipher.block_len and iv_len <= 16)'})
    return R
