"""Sidecar contracts for src/raw_cbc.c (NIST SP 800-38A 6.2, CBC): C_i = E_K(P_i xor C_{i-1}), P_i = D_K(C_i) xor C_{i-1},
C_0 = IV; the chaining value kept in the state for the next call is the last ciphertext block.  E_K / D_K are the
uninterpreted block functions of contracts/c/blockcipher.py; both aliasing configurations (out disjoint from in, out == in)."""
from vf.cvc.contracts import Registry
from contracts.c import blockcipher

ERR_NULL, ERR_MEMORY, ERR_NOT_ENOUGH_DATA, ERR_BLOCK_SIZE = 1, 2, 3, 12
ERR_CBC_IV_LEN = (1 << 16) | 1


def registry():
    R = Registry('raw_cbc')
    R.file = 'src/raw_cbc.c'
    blockcipher.add_to(R)

    SHAPE = {'cbcState': 'struct', 'cbcState.cipher': 'struct', 'cbcState.cipher.encrypt': 'fn:block_encrypt',
             'cbcState.cipher.decrypt': 'fn:block_decrypt', 'in': 'u8[data_len]', 'out': 'u8[data_len]'}
    cfgs = []
    for bl in (16, 8):
        for al in ('disjoint', 'inplace'):
            c = {'name': 'bl%d.%s' % (bl, al), 'set': {'cbcState.cipher.block_len': bl}}
            if al == 'inplace':
                c['alias'] = [('in', 'out')]
            cfgs.append(c)
    cfgs += [{'name': 'null_' + n, 'null': [n], 'set': {'cbcState.cipher.block_len': 16}, 'cost': 1} for n in ('in', 'out')]
    cfgs += [{'name': 'null_state', 'null': ['cbcState'], 'cost': 1},
             {'name': 'block_too_long', 'assume': ['cbcState.cipher.block_len > 16'], 'cost': 1}]
    NULLS = 'null(cbcState) or null(in) or null(out)'
    R.define('bl()', 'cbcState.cipher.block_len')
    R.define('consumed()', 'u64(old(data_len) - data_len)')
    R.define('whole()', 'u64(old(data_len) - old(data_len) % bl())')          # bytes in whole blocks
    # chaining byte t for the block that starts at byte b: the IV of the state for the first block, else the previous
    # ciphertext block (encrypt: in the output; decrypt: in the ORIGINAL input)
    common_ens = {
        'null_args': '(%s) ==> result == %d' % (NULLS, ERR_NULL),
        'block_size': 'not (%s) and cbcState.cipher.block_len > 16 ==> result == %d' % (NULLS, ERR_BLOCK_SIZE),
        'not_enough_data': 'not (%s) and cbcState.cipher.block_len <= 16 ==> '
                           '((result == %d) <==> data_len %% bl() != 0) and (result == 0 or result == %d)'
                           % (NULLS, ERR_NOT_ENOUGH_DATA, ERR_NOT_ENOUGH_DATA),
    }
    OKARGS = 'not (%s) and cbcState.cipher.block_len <= 16' % NULLS

    def dec_blocks(out, upto):
        return ('all(b % bl() == 0 ==> all(' + out + '[b + t] == dk(atold(old(in) + b), bl(), t) ^ '
                '(old(cbcState.iv[t]) if b == 0 else oldmem(old(in), b - bl() + t)) for t in range(bl())) for b in range(' + upto + '))')

    def enc_blocks(out, upto):
        return ('all(b % bl() == 0 ==> all(' + out + '[b + t] == (ekx(atold(old(in) + b), atold(cbcState.iv), bl(), t) if b == 0 else '
                'ekx(atold(old(in) + b), ' + out + ' + b - bl(), bl(), t)) for t in range(bl())) for b in range(' + upto + '))')

    LEM = {'whole': OKARGS + ' and data_len < bl() ==> whole() == consumed()'}
    INV_COMMON = {
        'cursor': 'data_len <= old(data_len) and offset(in) == consumed() and offset(out) == consumed() and consumed() % bl() == 0',
        'state_iv': 'all(cbcState.iv[t] == old(cbcState.iv[t]) for t in range(16))',
        'unread': 'all(k >= consumed() ==> old(in)[k] == oldmem(old(in), k) for k in range(old(data_len)))',
        'untouched': 'not same(in, out) ==> all(k >= consumed() ==> old(out)[k] == oldmem(old(out), k) for k in range(old(data_len)))'}
    QUICK = ['bl16.inplace', 'bl16.disjoint', 'null_in', 'null_out', 'null_state', 'block_too_long']
    # the block just processed was still the caller's original input when the iteration started (ground instances of `unread`)
    # (inside iter(...) every name, hence consumed(), has its value at the start of the iteration)
    INPUT_BLOCK = 'all(iter(old(in)[consumed() + t]) == oldmem(old(in), consumed() - bl() + t) for t in range(bl()))'
    EARLIER = 'all(k < consumed() - bl() ==> old(out)[k] == iter(old(out)[k]) for k in range(old(data_len)))'

    enc = dict(common_ens)
    enc.update({
        'blocks': OKARGS + ' ==> ' + enc_blocks('out', 'whole()'),
        'iv': OKARGS + ' ==> all(t < bl() ==> cbcState.iv[t] == (old(cbcState.iv[t]) if whole() == 0 else out[whole() - bl() + t]) for t in range(16))',
        'tail': OKARGS + ' and not same(in, out) ==> all(k >= whole() ==> out[k] == old(out[k]) for k in range(data_len))'})
    inv = dict(INV_COMMON)
    inv.update({
        'blocks': enc_blocks('old(out)', 'consumed()'),
        'chain': 'all(t < bl() ==> iv[t] == (old(cbcState.iv[t]) if consumed() == 0 else old(out)[consumed() - bl() + t]) for t in range(16))'})
    R.fn('CBC_encrypt', regions=SHAPE, configs=cfgs, cost=150, quick=QUICK, modifies=['out', 'cbcState.iv'], ensures=enc, lemmas=LEM,
         strategy={'loop_inv_preserved.loop0.blocks': 'noematch'},
         loops={0: dict(invariants=inv, decreases='data_len', split={'blocks': ('b', 'consumed() - bl()', 'b + bl() <= consumed() - bl()')}, lemmas={
             'input_block': INPUT_BLOCK,
             'new_block': 'all(old(out)[consumed() - bl() + t] == (ekx(atold(old(in) + consumed() - bl()), atold(cbcState.iv), bl(), t) if consumed() == bl() else '
                          'ekx(atold(old(in) + consumed() - bl()), old(out) + consumed() - 2 * bl(), bl(), t)) for t in range(bl()))',
             'earlier': EARLIER})})

    dec = dict(common_ens)
    dec.update({
        'blocks': OKARGS + ' ==> ' + dec_blocks('out', 'whole()'),
        # the value chained into the next call is the last ciphertext block AS IT WAS ON ENTRY (in-place calls overwrite it)
        'iv': OKARGS + ' ==> all(t < bl() ==> cbcState.iv[t] == (old(cbcState.iv[t]) if whole() == 0 else oldmem(old(in), whole() - bl() + t)) '
                       'for t in range(16))',
        'tail': OKARGS + ' and not same(in, out) ==> all(k >= whole() ==> out[k] == old(out[k]) for k in range(data_len))'})
    inv = dict(INV_COMMON)
    inv.update({
        'blocks': dec_blocks('old(out)', 'consumed()'),
        'chain': 'all(t < bl() ==> iv[t] == (old(cbcState.iv[t]) if consumed() == 0 else oldmem(old(in), consumed() - bl() + t)) for t in range(16))'})
    R.fn('CBC_decrypt', regions=SHAPE, configs=cfgs, cost=110, quick=QUICK, modifies=['out', 'cbcState.iv'], ensures=dec, lemmas=LEM,
         strategy={'loop_inv_preserved.loop0.blocks': 'default'},
         loops={0: dict(invariants=inv, decreases='data_len', split={'blocks': ('b', 'consumed() - bl()', 'b + bl() <= consumed() - bl()')}, lemmas={
             'input_block': INPUT_BLOCK,
             'new_block': 'all(old(out)[consumed() - bl() + t] == dk(atold(old(in) + consumed() - bl()), bl(), t) ^ '
                          '(old(cbcState.iv[t]) if consumed() == bl() else oldmem(old(in), consumed() - 2 * bl() + t)) for t in range(bl()))',
             'earlier': EARLIER})})

    # ------------------------------------------------------------------ start / stop
    cfg_start = [{'name': 'default'}] + [{'name': 'null_' + n, 'null': [n]} for n in ('cipher', 'iv', 'pResult')]
    NS = 'null(cipher) or null(iv) or null(pResult)'
    R.fn('CBC_start_operation', allocates=True, configs=cfg_start, escapes=['pResult[0]'], modifies=['pResult'], cost=3,
         regions={'cipher': 'struct', 'iv': 'u8[iv_len]', 'pResult': 'cell'},
         ensures={'null_args': '(%s) ==> result == %d' % (NS, ERR_NULL),
                  'block_size': 'not (%s) and cipher.block_len > 16 ==> result == %d' % (NS, ERR_BLOCK_SIZE),
                  'iv_len': 'not (%s) and cipher.block_len <= 16 and cipher.block_len != iv_len ==> result == %d' % (NS, ERR_CBC_IV_LEN),
                  'memory': 'result == %d ==> alloc_failed' % ERR_MEMORY,
                  'state': 'result == 0 ==> (pResult[0].cipher == cipher and all(t < iv_len ==> pResult[0].iv[t] == iv[t] for t in range(16)) '
                           'and iv_len == cipher.block_len and iv_len <= 16)'})
    return R
