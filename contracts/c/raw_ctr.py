"""Sidecar contracts for src/raw_ctr.c (C11 counter/limit logic, C17 memory safety, C02 CTR keystream).

Counter semantics from NIST SP 800-38A B.1 (standard incrementing function on the m-bit counter field, here m = 8 *
counter_len, big or little endian as chosen by the caller)."""
from vf.cvc.contracts import Registry

ERR_NULL = 1
ERR_MEMORY = 2
ERR_CTR_COUNTER_BLOCK_LEN = (6 << 16) | 1
ERR_CTR_REPEATED_KEY_STREAM = (6 << 16) | 2


def registry():
    R = Registry('raw_ctr')
    R.file = 'src/raw_ctr.c'

    # The counter field p[0..n) read as an integer v (big or little endian).  Two equivalent statements of "v becomes
    # (v + a) mod 256**n": the readable one (`value`, proved for the leaf functions) and the LEFT-ALIGNED one used by callers,
    # aligned(v) = v * 2**(128-8n) as a 128-bit word, where the modulus is the natural wrap of 128-bit addition:
    #     aligned(v') == aligned(v) + a * 2**(128-8n)   (mod 2**128)      [v, v' < 256**n; x -> x * 2**(128-8n) is injective there]
    R.define('ctrval(p, n, big)', 'be(p, n, 16) if big else le(p, n, 16)')
    R.define('aligned(p, n, big)', 'shl(ctrval(p, n, big), 128 - 8 * n, 128)')
    R.define('unit(n)', 'shl(1, 128 - 8 * n, 128)')
    R.define('outside(t, prefix_len, n)', 't < prefix_len or t >= prefix_len + n')
    for name, big in (('increment_be', 'True'), ('increment_le', 'False')):
        R.fn(name, regions={'pCounter': 'u8[counter_len]'}, modifies=['pCounter'],
             requires={'len': '1 <= counter_len and counter_len <= 16', 'amount': 'amount <= 255'},
             ensures={'spec_value': 'ctrval(pCounter, counter_len, %s) == (old(ctrval(pCounter, counter_len, %s)) + amount) %% pow2(8 * counter_len, 128)' % (big, big),
                      'aligned': 'aligned(pCounter, counter_len, %s) == u128(old(aligned(pCounter, counter_len, %s)) + amount * unit(counter_len))' % (big, big)},
             # complete case split over the counter length (1..16): every byte position is then a literal
             configs=[{'name': 'len%d' % n, 'set': {'counter_len': n}} for n in range(1, 17)],
             loops={0: dict(unroll=16)})

    # ------------------------------------------------------------------ counter blocks
    # complete case split: block_len in {8, 16} (every cipher's BLOCK_SIZE), prefix_len in [0, block_len)
    cfgs_ccb = [{'name': '%s%d.p%d' % (e, bl, p), 'funcptr': {'increment': 'increment_' + e}, 'set': {'block_len': bl, 'prefix_len': p}}
                for e in ('be', 'le') for bl in (16, 8) for p in range(bl)]
    R.fn('create_counter_blocks', regions={'counter_block0': 'u8[block_len]'}, allocates=True,
         alloc_result='u8[block_len * 8]', configs=cfgs_ccb, escapes=['result'],
         logical={'big': 'increment == increment_be'},
         requires={'geometry': '1 <= counter_len and counter_len <= 16 and prefix_len + counter_len <= block_len',
                   'increment': 'increment == increment_be or increment == increment_le'},
         ensures={'template': 'not null(result) ==> all(outside(k % block_len, prefix_len, counter_len) ==> '
                              'result[k] == counter_block0[k % block_len] for k in range(8 * block_len))',
                  'block0': 'not null(result) ==> all(result[k] == counter_block0[k] for k in range(block_len))',
                  'counters': 'not null(result) ==> all(aligned(result + j * block_len + prefix_len, counter_len, big) == '
                              'u128(aligned(result + prefix_len, counter_len, big) + j * unit(counter_len)) for j in range(8))'})
    return R
