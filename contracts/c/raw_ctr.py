"""Sidecar contracts for src/raw_ctr.c (C11 counter/limit logic, C17 memory safety, C02 CTR keystream).

Counter semantics from NIST SP 800-38A B.1 (standard incrementing function on the m-bit counter field, here m = 8 *
counter_len, big or little endian as chosen by the caller)."""
from vf.cvc.contracts import Registry

ERR_NULL = 1
ERR_MEMORY = 2
ERR_CTR_COUNTER_BLOCK_LEN = (6 << 16) | 1
ERR_CTR_REPEATED_KEY_STREAM = (6 << 16) | 2


def registry():
    R = Registry('raw_ctr')
    R.file = 'src/raw_ctr.c'

    for name, fn in (('increment_be', 'be'), ('increment_le', 'le')):
        R.fn(name, regions={'pCounter': 'u8[counter_len]'}, modifies=['pCounter'],
             requires={'len': '1 <= counter_len and counter_len <= 16', 'amount': 'amount <= 255'},
             ensures={'value': '%s(pCounter, counter_len, 16) == (old(%s(pCounter, counter_len, 16)) + amount) %% pow2(8 * counter_len, 128)' % (fn, fn)},
             loops={0: dict(unroll=16)})

    # ------------------------------------------------------------------ counter blocks
    R.define('ctrval(p, n, big)', 'be(p, n, 16) if big else le(p, n, 16)')
    R.define('outside(t, prefix_len, n)', 't < prefix_len or t >= prefix_len + n')
    # complete case split: block_len in {8, 16} (every cipher's BLOCK_SIZE), prefix_len in [0, block_len)
    cfgs_ccb = [{'name': '%s%d.p%d' % (e, bl, p), 'funcptr': {'increment': 'increment_' + e}, 'set': {'block_len': bl, 'prefix_len': p}}
                for e in ('be', 'le') for bl in (16, 8) for p in range(bl)]
    R.fn('create_counter_blocks', regions={'counter_block0': 'u8[block_len]'}, allocates=True,
         alloc_result='u8[block_len * 8]', configs=cfgs_ccb, escapes=['result'],
         logical={'big': 'increment == increment_be'},
         requires={'geometry': '1 <= counter_len and counter_len <= 16 and prefix_len + counter_len <= block_len',
                   'increment': 'increment == increment_be or increment == increment_le'},
         ensures={'template': 'not null(result) ==> all(outside(k % block_len, prefix_len, counter_len) ==> '
                              'result[k] == counter_block0[k % block_len] for k in range(8 * block_len))',
                  'counters': 'not null(result) ==> all(ctrval(result + j * block_len + prefix_len, counter_len, big) == '
                              '(ctrval(counter_block0 + prefix_len, counter_len, big) + j) % pow2(8 * counter_len, 128) for j in range(8))'})
    return R
