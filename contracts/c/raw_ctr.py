"""Sidecar contracts for src/raw_ctr.c (C11 counter/limit logic, C17 memory safety, C02 CTR keystream).

Counter semantics from NIST SP 800-38A B.1 (standard incrementing function on the m-bit counter field, here m = 8 *
counter_len, big or little endian as chosen by the caller)."""
from vf.cvc.contracts import Registry

ERR_NULL = 1
ERR_MEMORY = 2
ERR_CTR_COUNTER_BLOCK_LEN = (6 << 16) | 1
ERR_CTR_REPEATED_KEY_STREAM = (6 << 16) | 2


def registry():
    R = Registry('raw_ctr')
    R.file = 'src/raw_ctr.c'

    for name, fn in (('increment_be', 'be'), ('increment_le', 'le')):
        R.fn(name, regions={'pCounter': 'u8[counter_len]'}, modifies=['pCounter'],
             requires={'len': '1 <= counter_len and counter_len <= 16', 'amount': 'amount <= 255'},
             ensures={'value': '%s(pCounter, counter_len, 16) == (old(%s(pCounter, counter_len, 16)) + amount) %% pow2(8 * counter_len, 128)' % (fn, fn)},
             loops={0: dict(unroll=16)})
    return R
