"""Sidecar contracts for src/raw_ctr.c (C11 counter/limit logic, C17 memory safety, C02 CTR keystream).

Counter semantics from NIST SP 800-38A B.1 (standard incrementing function on the m-bit counter field, here m = 8 *
counter_len, big or little endian as chosen by the caller)."""
from vf.cvc.contracts import Registry
from contracts.c import blockcipher

ERR_NULL = 1
ERR_MEMORY = 2
ERR_CTR_COUNTER_BLOCK_LEN = (6 << 16) | 1
ERR_CTR_REPEATED_KEY_STREAM = (6 << 16) | 2


def registry():
    R = Registry('raw_ctr')
    R.file = 'src/raw_ctr.c'
    blockcipher.add_to(R)

    # The counter field p[0..n) read as an integer v (big or little endian).  Two equivalent statements of "v becomes
    # (v + a) mod 256**n": the readable one (`value`, proved for the leaf functions) and the LEFT-ALIGNED one used by callers,
    # aligned(v) = v * 2**(128-8n) as a 128-bit word, where the modulus is the natural wrap of 128-bit addition:
    #     aligned(v') == aligned(v) + a * 2**(128-8n)   (mod 2**128)      [v, v' < 256**n; x -> x * 2**(128-8n) is injective there]
    R.define('ctrval(p, n, big)', 'be(p, n, 16) if big else le(p, n, 16)')
    R.define('aligned(p, n, big)', 'shl(ctrval(p, n, big), 128 - 8 * n, 128)')
    R.define('unit(n)', 'shl(1, 128 - 8 * n, 128)')
    R.define('outside(t, prefix_len, n)', 't < prefix_len or t >= prefix_len + n')
    for name, big in (('increment_be', 'True'), ('increment_le', 'False')):
        R.fn(name, regions={'pCounter': 'u8[counter_len]'}, modifies=['pCounter'], cost=2,
             requires={'len': '1 <= counter_len and counter_len <= 16', 'amount': 'amount <= 255'},
             ensures={'spec_value': 'ctrval(pCounter, counter_len, %s) == (old(ctrval(pCounter, counter_len, %s)) + amount) %% pow2(8 * counter_len, 128)' % (big, big),
                      'aligned': 'aligned(pCounter, counter_len, %s) == u128(old(aligned(pCounter, counter_len, %s)) + amount * unit(counter_len))' % (big, big)},
             # complete case split over the counter length (1..16): every byte position is then a literal
             configs=[{'name': 'len%d' % n, 'set': {'counter_len': n}} for n in range(1, 17)],
             loops={0: dict(unroll=16)})

    # ------------------------------------------------------------------ counter blocks
    # complete case split: block_len in {8, 16} (every cipher's BLOCK_SIZE), prefix_len in [0, block_len)
    cfgs_ccb = [{'name': '%s%d.p%d' % (e, bl, p), 'funcptr': {'increment': 'increment_' + e}, 'set': {'block_len': bl, 'prefix_len': p}}
                for e in ('be', 'le') for bl in (16, 8) for p in range(bl)]
    R.fn('create_counter_blocks', regions={'counter_block0': 'u8[block_len]'}, allocates=True, cost=3,
         quick=['be16.p3', 'le16.p0', 'be8.p5', 'le8.p2'],
         alloc_result='u8[block_len * 8]', configs=cfgs_ccb, escapes=['result'],
         logical={'big': 'increment == increment_be'},
         requires={'geometry': '1 <= counter_len and counter_len <= 16 and prefix_len + counter_len <= block_len',
                   'increment': 'increment == increment_be or increment == increment_le'},
         ensures={'template': 'not null(result) ==> all(outside(k % block_len, prefix_len, counter_len) ==> '
                              'result[k] == counter_block0[k % block_len] for k in range(8 * block_len))',
                  'block0': 'not null(result) ==> all(result[k] == counter_block0[k] for k in range(block_len))',
                  'counters': 'not null(result) ==> all(aligned(result + j * block_len + prefix_len, counter_len, big) == '
                              'u128(aligned(result + prefix_len, counter_len, big) + j * unit(counter_len)) for j in range(8))'})

    # ------------------------------------------------------------------ the CTR state
    GEOM = [(bl, p) for bl in (16, 8) for p in range(bl)]
    SHAPE = {'ctr_state': 'struct', 'ctr_state.cipher': 'struct', 'ctr_state.cipher.encrypt': 'fn:block_encrypt',
             'ctr_state.counter_blocks': 'u8[8 * ctr_state.cipher.block_len]',
             'ctr_state.counter': 'into:ctr_state.counter_blocks',
             'ctr_state.keystream': 'u8[8 * ctr_state.cipher.block_len]'}
    cfgs_state = [{'name': 'bl%d.p%d' % (bl, p), 'set': {'ctr_state.cipher.block_len': bl}, 'offsets': {'ctr_state.counter': p}}
                  for bl, p in GEOM]
    R.define('prefix(s)', 'offset(s.counter) - offset(s.counter_blocks)')
    R.define('geometry(s)', '1 <= s.counter_len and s.counter_len <= 16 and prefix(s) + s.counter_len <= s.cipher.block_len '
                            'and offset(s.counter) >= offset(s.counter_blocks)')
    R.define('big(s)', 's.little_endian == 0')
    R.define('field(s, j)', 's.counter_blocks + j * s.cipher.block_len + prefix(s)')
    # keystream buffer == E_K of the eight counter blocks
    R.define('ks_fresh(s)', 'all(s.keystream[k] == ek(s.counter_blocks + (k // s.cipher.block_len) * s.cipher.block_len, '
                            's.cipher.block_len, k % s.cipher.block_len) for k in range(8 * s.cipher.block_len))')
    # block j is block 0 with the counter field advanced by j
    R.define('blocks_consecutive(s)',
             'all(outside(k % s.cipher.block_len, prefix(s), s.counter_len) ==> s.counter_blocks[k] == s.counter_blocks[k % s.cipher.block_len] '
             'for k in range(8 * s.cipher.block_len)) and '
             'all(aligned(field(s, j), s.counter_len, big(s)) == u128(aligned(field(s, 0), s.counter_len, big(s)) + j * unit(s.counter_len)) '
             'for j in range(8))')

    R.fn('update_keystream', regions=SHAPE, configs=cfgs_state, cost=12, quick=['bl16.p3', 'bl8.p0'],
         modifies=['ctr_state.counter_blocks', 'ctr_state.keystream', 'ctr_state.used_ks'],
         requires={'geometry': 'geometry(ctr_state)'},
         ensures={'template': 'all(outside(k % ctr_state.cipher.block_len, prefix(ctr_state), ctr_state.counter_len) ==> '
                              'ctr_state.counter_blocks[k] == old(ctr_state.counter_blocks[k]) for k in range(8 * ctr_state.cipher.block_len))',
                  'counters': 'all(aligned(field(ctr_state, j), ctr_state.counter_len, big(ctr_state)) == '
                              'u128(old(aligned(field(ctr_state, j), ctr_state.counter_len, big(ctr_state))) + 8 * unit(ctr_state.counter_len)) '
                              'for j in range(8))',
                  'keystream': 'ks_fresh(ctr_state)',
                  'used': 'ctr_state.used_ks == 0'})

    R.fn('create_keystream', allocates=True, alloc_result='u8[block_len * 8]', escapes=['result'],
         regions={'cipher': 'struct', 'cipher.encrypt': 'fn:block_encrypt', 'counter_blocks': 'u8[8 * block_len]'},
         configs=[{'name': 'bl%d' % bl, 'set': {'block_len': bl, 'cipher.block_len': bl}} for bl in (16, 8)],
         requires={'block_len': 'block_len == cipher.block_len'},
         ensures={'keystream': 'not null(result) ==> all(result[k] == ek(counter_blocks + (k // block_len) * block_len, block_len, k % block_len) '
                               'for k in range(8 * block_len))'})

    # ------------------------------------------------------------------ CTR_start_operation
    R.define('bad_geometry(bl, cb0_len, prefix_len, counter_len)',
             'bl != cb0_len or counter_len == 0 or counter_len > bl or bl < prefix_len + counter_len')
    # SP 800-38A B.2: at most 256**counter_len blocks, i.e. block_len * 256**counter_len bytes; as a 128-bit pair.
    # For a 16-byte counter the product does not fit and the pair is 0 = "no limit below 2**128 bytes".
    R.define('limit(s)', 's.length_max_hi * 2**64 + s.length_max_lo')
    R.define('position(s)', 's.length_hi * 2**64 + s.length_lo')
    cfgs_start = [{'name': 'bl%d.p%d' % (bl, p), 'set': {'cipher.block_len': bl, 'prefix_len': p}} for bl, p in GEOM]
    cfgs_start += [{'name': 'bl%d.prefix_too_long' % bl, 'set': {'cipher.block_len': bl}, 'assume': ['prefix_len >= %d' % bl], 'cost': 2} for bl in (16, 8)]
    cfgs_start += [{'name': 'null_' + n, 'null': [n], 'set': {'cipher.block_len': 16}, 'cost': 1} for n in ('counter_block0', 'pResult')]
    cfgs_start += [{'name': 'null_cipher', 'null': ['cipher'], 'cost': 1}]
    R.fn('CTR_start_operation', allocates=True, configs=cfgs_start, escapes=['pResult[0]'], cost=10,
         quick=['bl16.p3', 'bl8.p4', 'bl16.prefix_too_long', 'bl8.prefix_too_long', 'null_counter_block0', 'null_pResult', 'null_cipher'],
         regions={'cipher': 'struct', 'cipher.encrypt': 'fn:block_encrypt', 'counter_block0': 'u8[counter_block0_len]', 'pResult': 'cell'},
         modifies=['pResult'],
         # the length test `block_len < prefix_len + counter_len` is computed in size_t and wraps for prefix_len >= 2**64 - counter_len
         # (see NOTES.md, finding F-CTR-1); every caller passes len(prefix) <= block_len
         requires={'prefix_small': 'prefix_len <= 4294967295'},
         ensures={
             'null_args': '(null(cipher) or null(counter_block0) or null(pResult)) ==> result == %d' % ERR_NULL,
             'arg_check': 'not (null(cipher) or null(counter_block0) or null(pResult)) ==> '
                          '((result == %d) <==> bad_geometry(cipher.block_len, counter_block0_len, prefix_len, counter_len))' % ERR_CTR_COUNTER_BLOCK_LEN,
             'codes': 'result == 0 or result == %d or result == %d or result == %d' % (ERR_NULL, ERR_MEMORY, ERR_CTR_COUNTER_BLOCK_LEN),
             'memory': 'result == %d ==> alloc_failed' % ERR_MEMORY,
             'state': 'result == 0 ==> (pResult[0].cipher == cipher and pResult[0].counter_len == counter_len and '
                      'pResult[0].little_endian == little_endian and pResult[0].used_ks == 0 and position(pResult[0]) == 0 and '
                      'pResult[0].counter == pResult[0].counter_blocks + prefix_len and offset(pResult[0].counter_blocks) == 0 and '
                      'len(pResult[0].counter_blocks) == 8 * cipher.block_len and len(pResult[0].keystream) == 8 * cipher.block_len)',
             'limit': 'result == 0 ==> limit(pResult[0]) == (0 if counter_len == 16 else cipher.block_len * pow2(8 * counter_len, 128))',
             'block0': 'result == 0 ==> all(pResult[0].counter_blocks[k] == counter_block0[k] for k in range(cipher.block_len))',
             'blocks': 'result == 0 ==> blocks_consecutive(pResult[0])',
             'keystream': 'result == 0 ==> ks_fresh(pResult[0])'})

    # ------------------------------------------------------------------ CTR_encrypt
    # Proved here: memory safety, the exact 128-bit position arithmetic, the limit / error logic, the buffering bound
    # (used_ks <= 8*block_len), the frame, and -- chunk by chunk -- that every output byte is the input byte xor the byte of the
    # key-stream buffer at the running index (inner-loop invariant `xor`).  The key-stream buffer itself is E_K(counter blocks)
    # and advances by exactly 8 counter values per refill (contract of update_keystream, proved above).
    # NOT proved: the closed form out[i] == in[i] ^ KS(pos + i) across an arbitrary number of refills (see NOTES.md).
    ENC_SHAPE = dict(SHAPE)
    ENC_SHAPE.update({'in': 'u8[data_len]', 'out': 'u8[data_len]'})
    cfgs_enc = []
    for bl in (16, 8):
        for al in ('disjoint', 'inplace'):
            cfg = {'name': 'bl%d.%s' % (bl, al), 'set': {'ctr_state.cipher.block_len': bl}}
            if al == 'inplace':
                cfg['alias'] = [('in', 'out')]
            cfgs_enc.append(cfg)
    cfgs_enc += [{'name': 'null_' + n, 'null': [n], 'set': {'ctr_state.cipher.block_len': 16}, 'cost': 2} for n in ('in', 'out')]
    cfgs_enc += [{'name': 'null_state', 'null': ['ctr_state'], 'cost': 1}]
    R.define('ks_size(s)', '8 * s.cipher.block_len')
    R.define('within_limit(s)', 'limit(s) == 0 or position(s) <= limit(s)')
    R.define('buffer_ok(s)', 'geometry(s) and s.used_ks <= ks_size(s)')
    NULLS = 'null(ctr_state) or null(in) or null(out)'
    R.define('consumed()', 'u64(old(data_len) - data_len)')     # bytes processed so far (data_len only decreases)
    R.fn('CTR_encrypt', regions=ENC_SHAPE, configs=cfgs_enc, cost=260,
         quick=['bl16.inplace', 'null_in', 'null_out', 'null_state'],
         modifies=['out', 'ctr_state.counter_blocks', 'ctr_state.keystream', 'ctr_state.used_ks', 'ctr_state.length_lo', 'ctr_state.length_hi'],
         requires={'valid': 'null(ctr_state) or buffer_ok(ctr_state)', 'within_limit': 'null(ctr_state) or within_limit(ctr_state)'},
         ensures={
             'null_args': '(%s) ==> result == %d' % (NULLS, ERR_NULL),
             'codes': 'not (%s) ==> (result == 0 or result == %d)' % (NULLS, ERR_CTR_REPEATED_KEY_STREAM),
             'error_iff': 'not (%s) ==> ((result == %d) <==> ((limit(ctr_state) != 0 and old(position(ctr_state)) + data_len > limit(ctr_state)) '
                          'or old(position(ctr_state)) + data_len >= 2**128))' % (NULLS, ERR_CTR_REPEATED_KEY_STREAM),
             'position': 'result == 0 ==> position(ctr_state) == old(position(ctr_state)) + data_len',
             'state': 'result == 0 ==> (buffer_ok(ctr_state) and within_limit(ctr_state))'},
         lemmas={'progress': 'consumed() <= old(data_len)',
                 'len_lo': 'not null(ctr_state) ==> ctr_state.length_lo == u64(old(ctr_state.length_lo) + consumed())',
                 'len_hi': 'not null(ctr_state) ==> ctr_state.length_hi == u64(old(ctr_state.length_hi) + (1 if ctr_state.length_lo < old(ctr_state.length_lo) else 0))',
                 'position': 'not null(ctr_state) ==> position(ctr_state) == old(position(ctr_state)) + consumed() or '
                             '(ctr_state.length_hi == 0 and result == %d)' % ERR_CTR_REPEATED_KEY_STREAM},
         loops={
             0: dict(invariants={
                 'cursor': 'data_len <= old(data_len) and offset(in) == consumed() and offset(out) == consumed()',
                 'buffer': 'buffer_ok(ctr_state)',
                 # the 128-bit byte count, word by word (each step is then 64-bit reasoning); `position` is their consequence
                 'length_lo': 'ctr_state.length_lo == u64(old(ctr_state.length_lo) + consumed())',
                 'length_hi': 'ctr_state.length_hi == u64(old(ctr_state.length_hi) + (1 if ctr_state.length_lo < old(ctr_state.length_lo) else 0))',
                 'no_wrap': 'ctr_state.length_hi >= old(ctr_state.length_hi)',
                 'limit_ok': 'within_limit(ctr_state)',
                 'unread': 'all(i >= consumed() ==> old(in)[i] == oldmem(old(in), i) for i in range(old(data_len)))'},
                 decreases='data_len'),
             1: dict(invariants={
                 'bounds': 'j <= ks_to_use and ks_to_use <= data_len and ks_to_use <= ks_size(ctr_state) - ctr_state.used_ks and ks_to_use <= 128',
                 'cursor': 'offset(in) == consumed() + j and offset(out) == consumed() + j',
                 'xor': 'all(old(out)[consumed() + t] == oldmem(old(in), consumed() + t) ^ ctr_state.keystream[ctr_state.used_ks + t] '
                        'for t in range(j))',
                 'unread': 'all(i >= consumed() + j ==> old(in)[i] == oldmem(old(in), i) for i in range(old(data_len)))'},
                 decreases='ks_to_use - j')})
    return R
