"""Sidecar contracts for src/raw_ocb.c (RFC 7253): the L table of OCB_start_operation, double_L, ntz.

RFC 7253 section 4.1 (key-dependent variables):  L_* = ENCIPHER(K, zeros(128)),  L_$ = double(L_*),  L_0 = double(L_$),
L_i = double(L_{i-1}) for every i >= 1, where double(S) = (S << 1) xor (0^120 10000111 if msb(S) else 0) on the 128-bit string S
read big endian (section 2).  The table has 65 entries because ntz(i) <= 64 for a 64-bit block counter."""
from vf.cvc.contracts import Registry
from contracts.c import blockcipher, common

ERR_NULL, ERR_MEMORY, ERR_BLOCK_SIZE = 1, 2, 12


def registry():
    R = Registry('raw_ocb')
    R.file = 'src/raw_ocb.c'
    blockcipher.add_to(R)
    common.add_to(R)

    R.define('blk(p)', 'be(p, 16, 16)')
    R.define('dbl(x)', 'u128(x * 2) ^ (135 if x >= 2**127 else 0)')

    R.fn('double_L', regions={'out': 'u8[16]', 'in': 'u8[16]'}, modifies=['out'],
         configs=[{'name': 'disjoint', 'alias': []}, {'name': 'inplace', 'alias': [('in', 'out')]}],
         ensures={'double': 'blk(out) == dbl(old(blk(in)))'})

    R.fn('ntz', cost=3,
         ensures={'range': 'result <= 64',
                  'zero': 'counter == 0 ==> result == 64',
                  'trailing_zeros': 'counter != 0 ==> ((counter // pow2(result, 64)) % 2 == 1 and counter % pow2(result, 64) == 0)'})

    cfgs = [{'name': 'default', 'set': {'cipher.block_len': 16}, 'cost': 40},
            {'name': 'other_block_len', 'assume': ['cipher.block_len != 16']},
            {'name': 'null_cipher', 'null': ['cipher']}, {'name': 'null_pState', 'null': ['pState'], 'set': {'cipher.block_len': 16}}]
    NULLS = 'null(cipher) or null(pState)'
    R.fn('OCB_start_operation', allocates=True, configs=cfgs, escapes=['pState[0]'], cost=1, quick=['default', 'other_block_len', 'null_cipher', 'null_pState'],
         regions={'cipher': 'struct', 'cipher.encrypt': 'fn:block_encrypt', 'offset_0': 'u8[offset_0_len]', 'pState': 'cell'},
         modifies=['pState'],
         ensures={
             'null_args': '(%s) ==> result == %d' % (NULLS, ERR_NULL),
             'block_size': 'not (%s) and (cipher.block_len != 16 or offset_0_len != 16) ==> result == %d' % (NULLS, ERR_BLOCK_SIZE),
             'memory': 'alloc_failed ==> result == %d' % ERR_MEMORY,
             # RFC 7253 4.1
             'L_star': 'result == 0 ==> all(pState[0].L_star[t] == ek(pState[0].checksum, 16, t) for t in range(16)) and '
                       'all(pState[0].checksum[t] == 0 for t in range(16))',
             'L_dollar': 'result == 0 ==> blk(pState[0].L_dollar) == dbl(blk(pState[0].L_star))',
             'L_0': 'result == 0 ==> blk(pState[0].L) == dbl(blk(pState[0].L_dollar))',
             'L_i': 'result == 0 ==> all(blk(pState[0].L + 16 * i) == dbl(blk(pState[0].L + 16 * (i - 1))) for i in range(1, 65))',
             'offset': 'result == 0 ==> all(pState[0].offset_P[t] == offset_0[t] for t in range(16))',
             'counters': 'result == 0 ==> (pState[0].counter_A == 1 and pState[0].counter_P == 1 and pState[0].cipher == cipher)',
             'zeroed': 'result == 0 ==> all(pState[0].offset_A[t] == 0 and pState[0].sum[t] == 0 for t in range(16))'})

    # ------------------------------------------------------------------ memory safety of the data-path functions
    # (functional OCB correctness is not stated here: only bounds -- in particular L[ntz(counter)] with ntz <= 64 --, error codes
    #  and the frame)
    STATE = {'state': 'struct', 'state.cipher': 'struct', 'state.cipher.encrypt': 'fn:block_encrypt',
             'state.cipher.decrypt': 'fn:block_decrypt'}
    SET = {'state.cipher.block_len': 16}
    ERR_TAG_SIZE, ERR_MAX_DATA = 13, 10

    upd = dict(STATE)
    upd['in'] = 'u8[in_len]'
    R.define('consumed()', 'u64(old(in_len) - in_len)')
    R.fn('OCB_update', regions=upd, cost=2, quick=['default', 'null_state', 'null_in'],
         configs=[{'name': 'default', 'set': SET, 'cost': 25}, {'name': 'null_state', 'null': ['state']}, {'name': 'null_in', 'null': ['in'], 'set': SET}],
         modifies=['state.offset_A', 'state.sum', 'state.counter_A'],
         ensures={'null_args': '(null(state) or null(in)) ==> result == %d' % ERR_NULL},
         loops={0: dict(invariants={'cursor': 'in_len <= old(in_len) and offset(in) == consumed()'}, decreases='in_len')})

    R.fn('OCB_digest', regions=dict(STATE, tag='u8[tag_len]'), cost=5,
         configs=[{'name': 'default', 'set': SET}, {'name': 'null_state', 'null': ['state']}, {'name': 'null_tag', 'null': ['tag'], 'set': SET}],
         modifies=['tag'],
         ensures={'null_args': '(null(state) or null(tag)) ==> result == %d' % ERR_NULL,
                  'tag_size': 'not (null(state) or null(tag)) and tag_len != 16 ==> result == %d' % ERR_TAG_SIZE})

    tr = dict(STATE)
    tr.update({'in': 'u8[in_len]', 'out': 'u8[in_len]'})
    R.fn('OCB_transcrypt', regions=tr, cost=2, quick=['encrypt', 'decrypt', 'null_state', 'null_in', 'null_out'],
         configs=[{'name': 'encrypt', 'set': dict(SET, direction=0), 'cost': 45}, {'name': 'decrypt', 'set': dict(SET, direction=1), 'cost': 45},
                  {'name': 'null_state', 'null': ['state']}, {'name': 'null_in', 'null': ['in'], 'set': SET},
                  {'name': 'null_out', 'null': ['out'], 'set': SET}],
         modifies=['out', 'state.offset_P', 'state.checksum', 'state.counter_P'],
         ensures={'null_args': '(null(state) or null(in) or null(out)) ==> result == %d' % ERR_NULL},
         loops={0: dict(invariants={'cursor': 'in_len <= old(in_len) and offset(in) == consumed() and offset(out) == consumed() '
                                              'and offset(checksummed) == consumed()'}, decreases='in_len'),
                4: dict(invariants={'bounds': 'i <= in_len and in_len < 16'}, decreases='in_len - i')})
    return R
