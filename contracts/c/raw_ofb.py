"""Sidecar contracts for src/raw_ofb.c (NIST SP 800-38A 6.4, OFB): I_1 = IV, O_j = E_K(I_j), I_{j+1} = O_j, C = P xor O.

The state keeps one key stream block and the number of its bytes already used.  Relative to the ENTRY state of a call the
ghost sequence KS is defined by recursion (definitions, assumed: `def_K0` in requires, `def_K` unfolded in the loop):

    KSP(t)                = ofbState->keyStream[t] on entry, t < block_len
    KSP(b + block_len + t) = byte t of E_K(KSP(b .. b + block_len))     for every b that is a multiple of block_len

i.e. KSP(q) is the key stream byte at position q counted from byte 0 of the block the state holds on entry (a state with
usedKeyStream == block_len has used its block up: position block_len is byte 0 of the NEXT block).  Postcondition of
OFB_encrypt over the whole call: out[k] == in[k] ^ KSP(u0 + k) for EVERY k < data_len (u0 = usedKeyStream on entry), the state on exit
holds the block of the last byte and the number of bytes used of it -- so a message cut anywhere continues the same stream
(segmentation, C09), in place or not.  E_K is the uninterpreted block function of contracts/c/blockcipher.py."""
import z3

from vf.cvc.contracts import Registry, TV, to_index
from contracts.c import blockcipher

ERR_NULL, ERR_MEMORY, ERR_BLOCK_SIZE = 1, 2, 12
ERR_OFB_IV_LEN = (3 << 16) | 1

B64 = z3.BitVecSort(64)
B8 = z3.BitVecSort(8)
KSP = z3.Function('OFB_KSP', B64, B8)


def h_ksp(tr, args):
    """ksp(q): the key stream byte at position q, position 0 being byte 0 of the block held by the state on entry"""
    return TV(KSP(to_index(tr.as_tv(args[0]))), False)


def h_ek_ksp(tr, args):
    """ek_ksp(base, bl, t): byte t of E_K(KSP(base .. base + bl))"""
    base, bl, t = args
    n = blockcipher._blen(tr, bl)
    bb = to_index(tr.as_tv(base))
    blk = blockcipher._concat([KSP(bb + z3.BitVecVal(i, 64)) for i in range(n)], n)
    return TV(blockcipher.E_K(blk, to_index(tr.as_tv(t))), False)


def registry():
    R = Registry('raw_ofb')
    R.file = 'src/raw_ofb.c'
    blockcipher.add_to(R)
    R.helpers['ksp'] = h_ksp
    R.helpers['ek_ksp'] = h_ek_ksp

    SHAPE = {'ofbState': 'struct', 'ofbState.cipher': 'struct', 'ofbState.cipher.encrypt': 'fn:block_encrypt',
             'ofbState.cipher.decrypt': 'fn:block_decrypt', 'in': 'u8[data_len]', 'out': 'u8[data_len]'}
    cfgs = []
    for bl in (16, 8):
        for al in ('disjoint', 'inplace'):
            c = {'name': 'bl%d.%s' % (bl, al), 'set': {'ofbState.cipher.block_len': bl}}
            if al == 'inplace':
                c['alias'] = [('in', 'out')]
            cfgs.append(c)
    cfgs += [{'name': 'null_' + n, 'null': [n], 'set': {'ofbState.cipher.block_len': 16}, 'cost': 1} for n in ('in', 'out')]
    cfgs += [{'name': 'null_state', 'null': ['ofbState'], 'cost': 1},
             {'name': 'block_too_long', 'assume': ['ofbState.cipher.block_len > 16'], 'cost': 1}]
    NULLS = 'null(ofbState) or null(in) or null(out)'
    OKARGS = 'not (%s) and ofbState.cipher.block_len <= 16' % NULLS
    R.define('bl()', 'ofbState.cipher.block_len')
    R.define('u0()', 'old(ofbState.usedKeyStream)')
    R.define('consumed()', 'u64(old(data_len) - data_len)')
    R.define('pos()', 'u0() + consumed()')                       # stream position reached
    R.define('base()', 'u64(pos() - ofbState.usedKeyStream)')    # stream position of byte 0 of the block held by the state

    XOR_ALL = 'all(%s[k] == %s ^ ksp(u0() + k) for k in range(%s))'
    ens = {
        'null_args': '(%s) ==> result == %d' % (NULLS, ERR_NULL),
        'block_size': 'not (%s) and ofbState.cipher.block_len > 16 ==> result == %d' % (NULLS, ERR_BLOCK_SIZE),
        'ok': OKARGS + ' ==> result == 0',
        # SP 800-38A 6.4 over the whole call
        'stream': OKARGS + ' ==> ' + XOR_ALL % ('out', 'old(in[k])', 'data_len'),
        # the state on exit: the block of the last byte produced, and how much of it is used
        'used': OKARGS + ' ==> (ofbState.usedKeyStream == (u0() if data_len == 0 else (u0() + data_len - 1) % bl() + 1))',
        'block': OKARGS + ' ==> all(ofbState.keyStream[t] == ksp(u0() + data_len - ofbState.usedKeyStream + t) for t in range(bl()))',
        'buffer': OKARGS + ' ==> ofbState.usedKeyStream <= bl()'}
    inv0 = {
        'cursor': 'data_len <= old(data_len) and offset(in) == consumed() and offset(out) == consumed()',
        'buffer': 'ofbState.usedKeyStream <= bl() and ofbState.usedKeyStream <= pos() and (pos() - ofbState.usedKeyStream) % bl() == 0',
        'used': 'ofbState.usedKeyStream == (u0() if consumed() == 0 else (pos() - 1) % bl() + 1)',
        'block': 'all(ofbState.keyStream[t] == ksp(base() + t) for t in range(bl()))',
        # the same for the unused part of the block, kept as a quantified fact (instantiated at the symbolic index the xor uses)
        'block_q': 'all(ofbState.keyStream[t] == ksp(base() + t) for t in range(ofbState.usedKeyStream, bl()))',
        'stream': XOR_ALL % ('old(out)', 'oldmem(old(in), k)', 'consumed()'),
        'unread': 'all(k >= consumed() ==> old(in)[k] == oldmem(old(in), k) for k in range(old(data_len)))'}
    inv1 = {
        'bounds': 'i <= keyStreamToUse and keyStreamToUse <= data_len and keyStreamToUse <= bl() - ofbState.usedKeyStream',
        'cursor': 'offset(in) == consumed() + i and offset(out) == consumed() + i',
        'xor': 'all(old(out)[consumed() + t] == oldmem(old(in), consumed() + t) ^ ofbState.keyStream[ofbState.usedKeyStream + t] for t in range(i))',
        'block_q': 'all(ofbState.keyStream[t] == ksp(base() + t) for t in range(ofbState.usedKeyStream, bl()))',
        # ... hence, byte by byte as the loop reads keyStream[i + usedKeyStream], the stream byte of that position
        'xor_s': 'all(old(out)[consumed() + t] == oldmem(old(in), consumed() + t) ^ ksp(u0() + consumed() + t) for t in range(i))',
        'stream': XOR_ALL % ('old(out)', 'oldmem(old(in), k)', 'consumed()'),
        'unread': 'all(k >= consumed() + i ==> old(in)[k] == oldmem(old(in), k) for k in range(old(data_len)))'}
    R.fn('OFB_encrypt', regions=SHAPE, configs=cfgs, cost=60, quick=['bl16.inplace', 'bl16.disjoint', 'null_in', 'null_out', 'null_state', 'block_too_long'],
         modifies=['out', 'ofbState.keyStream', 'ofbState.usedKeyStream'],
         requires={'buffer': 'null(ofbState) or ofbState.usedKeyStream <= ofbState.cipher.block_len',
                   # definition of the ghost stream, first block (assumed: it DEFINES KSP(0..block_len))
                   'def_K0': 'null(ofbState) or all(ksp(t) == ofbState.keyStream[t] for t in range(16))'},
         ensures=ens,
         loops={0: dict(invariants=inv0, decreases='data_len',
                        # definition, block at `base` -> next block (assumed at the start of the iteration for the ALIGNED base only)
                        unfold={'def_K': '(pos() - ofbState.usedKeyStream) % bl() == 0 ==> '
                                         'all(ksp(base() + bl() + t) == ek_ksp(base(), bl(), t) for t in range(bl()))'},
                        lemmas={'used_now': 'ofbState.usedKeyStream >= consumed() - iter(consumed()) and consumed() >= iter(consumed()) and ofbState.usedKeyStream <= bl()',
                                'chunk_t': 'all(old(out)[iter(consumed()) + t] == oldmem(old(in), iter(consumed()) + t) ^ '
                                           'ofbState.keyStream[ofbState.usedKeyStream - (consumed() - iter(consumed())) + t] for t in range(consumed() - iter(consumed())))',
                                'chunk_s': 'all(old(out)[iter(consumed()) + t] == oldmem(old(in), iter(consumed()) + t) ^ ksp(u0() + iter(consumed()) + t) '
                                           'for t in range(consumed() - iter(consumed())))',
                                'chunk': 'all(k >= iter(consumed()) ==> old(out)[k] == oldmem(old(in), k) ^ ksp(u0() + k) for k in range(consumed()))'}),
                1: dict(invariants=inv1, decreases='keyStreamToUse - i', split={'xor_s': ('t', 'i - 1'), 'xor': ('t', 'i - 1')},
                        # the key stream byte just used (i was incremented at the end of the body), as a ground fact
                        lemmas={'cur': 'i >= 1 and ofbState.keyStream[ofbState.usedKeyStream + i - 1] == ksp(u0() + consumed() + i - 1)',
                                'cur_out': 'old(out)[consumed() + i - 1] == oldmem(old(in), consumed() + i - 1) ^ ksp(u0() + consumed() + i - 1)'})})

    # ------------------------------------------------------------------ start
    cfg_start = [{'name': 'default'}] + [{'name': 'null_' + n, 'null': [n]} for n in ('cipher', 'iv', 'pResult')]
    NS = 'null(cipher) or null(iv) or null(pResult)'
    R.fn('OFB_start_operation', allocates=True, configs=cfg_start, escapes=['pResult[0]'], modifies=['pResult'], cost=3,
         regions={'cipher': 'struct', 'iv': 'u8[iv_len]', 'pResult': 'cell'},
         ensures={'null_args': '(%s) ==> result == %d' % (NS, ERR_NULL),
                  'block_size': 'not (%s) and cipher.block_len > 16 ==> result == %d' % (NS, ERR_BLOCK_SIZE),
                  'iv_len': 'not (%s) and cipher.block_len <= 16 and cipher.block_len != iv_len ==> result == %d' % (NS, ERR_OFB_IV_LEN),
                  'memory': 'result == %d ==> alloc_failed' % ERR_MEMORY,
                  # I_1 = IV: the "block held" is the IV itself, all of it used, so the first byte comes from E_K(IV)
                  'state': 'result == 0 ==> (pResult[0].cipher == cipher and all(t < iv_len ==> pResult[0].keyStream[t] == iv[t] for t in range(16)) '
                           'and iv_len == cipher.block_len and iv_len <= 16 and pResult[0].usedKeyStream == iv_len)'})
    return R
