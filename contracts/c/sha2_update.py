"""Sidecar contracts for `<HASH>_update` and `add_bits` (src/hash_SHA2_template.c instantiated by SHA224/256/384/512.c).

FIPS 180-4 5.1: the padding ends with the length of the WHOLE message in bits (64-bit for SHA-224/256, 128-bit for SHA-384/512).
The state keeps that length as two words `totbits[1]:totbits[0]` (bits of the blocks already compressed) plus `curlen` bytes waiting
in `buf`.  Contract of update (for EVERY len, including single calls of 2**29 bytes and more, which no test feeds):

    message_bits(hs) = (totbits[1] * 2**W + totbits[0]) + 8 * curlen
    result == 0  ==>  message_bits(hs) == old(message_bits(hs)) + 8 * len      (as integers: no wrap without ERR_MAX_DATA)
                      curlen == (old(curlen) + len) % BLOCK_SIZE  and  curlen < BLOCK_SIZE

`sha_compress` is abstract here (it reads buf and writes h only: assumed; the compression function itself is bounded, C03).
Memory safety of the buffering (memcpy into buf[curlen..]) is part of the same units (C17)."""
from vf.cvc.contracts import Registry

ERR_NULL, ERR_MAX_DATA = 1, 10
VARIANTS = {'SHA224': ('src/SHA224.c', 32, 64), 'SHA256': ('src/SHA256.c', 32, 64), 'SHA384': ('src/SHA384.c', 64, 128), 'SHA512': ('src/SHA512.c', 64, 128)}


def build(variant):
    path, W, BS = VARIANTS[variant]
    R = Registry('sha2_' + variant)
    R.file = path
    note = 'assumed: sha_compress reads hs->buf and hs->h and writes hs->h only (the compression function itself is bounded: bounded/hashes.py)'
    R.assumptions.append(note)
    R.fn('sha_compress', abstract=True, params=['hs'], ret='void', regions={'hs': 'struct'}, modifies=['hs.h'], ensures={}, note=note)
    R.define('tot(p)', 'p.totbits[1] * 2**%d + p.totbits[0]' % W)
    R.fn('add_bits', regions={'hs': 'struct'}, modifies=['hs.totbits'], cost=2,
         ensures={'sum': 'result == 0 ==> tot(hs) == old(tot(hs)) + bits',
                  'overflow': '(result == %d) <==> old(tot(hs)) + bits >= 2**%d' % (ERR_MAX_DATA, 2 * W),
                  'codes': 'result == 0 or result == %d' % ERR_MAX_DATA})
    fn = variant + '_update'
    NULLS = 'null(hs) or null(buf)'
    R.define('consumed()', 'u64(old(len) - len)')
    R.define('msgbits(p)', 'tot(p) + 8 * p.curlen')
    R.fn(fn, regions={'hs': 'struct', 'buf': 'u8[len]'}, modifies=['hs.buf', 'hs.curlen', 'hs.totbits', 'hs.h'], cost=20,
         configs=[{'name': 'default'}, {'name': 'null_hs', 'null': ['hs'], 'cost': 1}, {'name': 'null_buf', 'null': ['buf'], 'cost': 1}],
         quick=['default', 'null_hs', 'null_buf'],
         requires={'buffer': 'null(hs) or hs.curlen < %d' % BS},
         ensures={'null_args': '(%s) ==> result == %d' % (NULLS, ERR_NULL),
                  'codes': 'result == 0 or result == %d or result == %d' % (ERR_NULL, ERR_MAX_DATA),
                  # FIPS 180-4 5.1: the length that will be appended is the length of everything absorbed
                  'message_bits': 'not (%s) and result == 0 ==> msgbits(hs) == old(msgbits(hs)) + 8 * len' % NULLS,
                  'no_silent_wrap': 'not (%s) and old(msgbits(hs)) + 8 * len < 2**%d ==> result == 0' % (NULLS, 2 * W),
                  'curlen': 'not (%s) and result == 0 ==> (hs.curlen == (old(hs.curlen) + len) %% %d and hs.curlen < %d)' % (NULLS, BS, BS),
                  'digest_size': 'not (%s) ==> hs.digest_size == old(hs.digest_size)' % NULLS},
         loops={0: dict(invariants={
             'cursor': 'len <= old(len) and offset(buf) == consumed()',
             'buffer': 'hs.curlen < %d' % BS,
             'message_bits': 'msgbits(hs) == old(msgbits(hs)) + 8 * consumed()',
             'curlen': 'hs.curlen == (old(hs.curlen) + consumed()) %% %d' % BS,
             'digest_size': 'hs.digest_size == old(hs.digest_size)'},
             decreases='len')})
    return R
