"""update / add_bits of SHA224 (see contracts/c/sha2_update.py)"""
from contracts.c import sha2_update


def registry():
    return sha2_update.build('SHA224')
