"""Area module of the CVC (C sources) engine: `units(prop, tier)` is called for every property id and returns the runner
units this engine contributes (unit ids are unique and start with `c.`); [] for properties it has nothing for.

    C01  src/raw_ocb.c: L table of OCB_start_operation (L_* = E_K(0), doublings), double_L, ntz
    C07  src/pkcs1_decode.c, every function: functional postconditions (RFC 8017 7.2.2 / 7.1.2) + memory safety
    C11  src/raw_ctr.c (increments, counter blocks, start_operation limits, CTR_encrypt position/limit logic),
         src/chacha20.c (init, core counter + ERR_MAX_DATA, seek over the integers, encrypt buffering)
    C02  src/chacha20.c:chacha20_core == RFC 8439 block function; src/raw_ocb.c L table (when registered)
    C09  in-place == out-of-place configurations of CTR_encrypt / chacha20_encrypt / CBC_encrypt / CBC_decrypt
    C03  <HASH>_update / add_bits of the SHA-2 template: message bit count == 8 * bytes absorbed for every length, buffer accounting
    C12  <HASH>_pbkdf2_hmac_assist (SHA-224/256/384/512, SHA-1, MD5): T = U_1 xor ... xor U_c over all digest bytes
    C17  ec_scalar_g_p256/p384/p521 (src/ec_ws.c): prot_g[i] / buffer indexing for every exp_size, callee contracts assumed;
         memory-safety obligations of all of the above + whole-library scans alloc_checked / const_index
    C19  whole-library scan static_const
"""
import importlib

from vf.cvc import units as U

MODULES = {
    'pkcs1_decode': 'contracts.c.pkcs1_decode',
    'raw_ctr': 'contracts.c.raw_ctr',
    'chacha20': 'contracts.c.chacha20',
    'raw_ocb': 'contracts.c.raw_ocb',
    'raw_cbc': 'contracts.c.raw_cbc',
    'raw_ofb': 'contracts.c.raw_ofb',
}
PBKDF2 = ['contracts.c.pbkdf2_sha224', 'contracts.c.pbkdf2_sha256', 'contracts.c.pbkdf2_sha384', 'contracts.c.pbkdf2_sha512',
          'contracts.c.pbkdf2_sha1', 'contracts.c.pbkdf2_md5']
CBC_FUNCS = ['CBC_start_operation', 'CBC_encrypt', 'CBC_decrypt']
OFB_FUNCS = ['OFB_start_operation', 'OFB_encrypt']
CTR_COUNTER_FUNCS = ['increment_be', 'increment_le', 'create_counter_blocks', 'update_keystream', 'create_keystream', 'CTR_start_operation']
SHA2_UPDATE = ['contracts.c.sha2_update_sha224', 'contracts.c.sha2_update_sha256', 'contracts.c.sha2_update_sha384', 'contracts.c.sha2_update_sha512']
EC_WS = ['contracts.c.ec_ws_p256', 'contracts.c.ec_ws_p384', 'contracts.c.ec_ws_p521']
SCAN_CHUNKS = 8


def _have(mod):
    try:
        importlib.import_module(mod)
        return True
    except ImportError:
        return False


def _prefix(us):
    for u in us:
        if not u.uid.startswith('c.'):
            u.uid = 'c.' + u.uid
    return us


def _ofb_units(prop):
    """src/raw_ofb.c, functional: the cheap configurations (NULL arguments, oversized block, start_operation) in both tiers; the stream
    postcondition of OFB_encrypt with out disjoint from in (block length 16 and 8) in the thorough tier only: its inner-loop invariant needs
    40-230 s of z3 on an idle machine, too close to the budget for the quick tier.  NOT PROVED: the in-place configurations (bl16.inplace was
    discharged once in 277 s, bl8.inplace left `loop1.xor_s` undecided): in-place OFB stays with the bounded harness (bounded/modes.py)."""
    us = U.c_units(prop, MODULES['raw_ofb'], ['OFB_start_operation'], kinds='functional')
    us += U.c_units(prop, MODULES['raw_ofb'], ['OFB_encrypt'], kinds='functional', config_filter=lambda c: c.startswith('null') or c == 'block_too_long')
    us += U.c_units(prop, MODULES['raw_ofb'], ['OFB_encrypt'], kinds='functional', tiers=('thorough',), config_filter=lambda c: 'disjoint' in c)
    return us


def units(prop, tier):
    us = []
    if prop == 'C01':
        # OCB (RFC 7253) key-dependent table: wrong L entries break the AEAD only after 2**16 blocks -- out of reach for tests
        if _have(MODULES['raw_ocb']):
            us += U.c_units(prop, MODULES['raw_ocb'], ['double_L', 'ntz', 'OCB_start_operation'], kinds='functional')
    elif prop == 'C07':
        us += U.c_units(prop, MODULES['pkcs1_decode'])
    elif prop == 'C11':
        us += U.c_units(prop, MODULES['raw_ctr'])
        us += U.c_units(prop, MODULES['chacha20'], ['chacha20_init', 'chacha20_core', 'chacha20_seek', 'chacha20_encrypt'])
    elif prop == 'C02':
        us += U.c_units(prop, MODULES['chacha20'], ['chacha20_core'], kinds='functional')
        # SP 800-38A B.1 / B.2: the counter blocks of CTR mode (both byte orders, every counter length, the +1 and the +8 steps)
        us += U.c_units(prop, MODULES['raw_ctr'], CTR_COUNTER_FUNCS, kinds='functional')
        if _have(MODULES['raw_ocb']):
            us += U.c_units(prop, MODULES['raw_ocb'], ['double_L', 'ntz', 'OCB_start_operation'], kinds='functional')
        us += U.c_units(prop, MODULES['raw_cbc'], CBC_FUNCS, kinds='functional', config_filter=lambda c: 'inplace' not in c)
        us += _ofb_units(prop)
    elif prop == 'C09':
        us += U.c_units(prop, MODULES['raw_ctr'], ['CTR_encrypt'], kinds='functional')
        us += U.c_units(prop, MODULES['chacha20'], ['chacha20_encrypt'], kinds='functional')
        # CBC: in-place == out-of-place, chaining value for the next call (segmentation)
        us += U.c_units(prop, MODULES['raw_cbc'], ['CBC_encrypt', 'CBC_decrypt'], kinds='functional')
        # OFB: key stream position carried by the state, any cut of the message continues the same stream
        us += _ofb_units(prop)
    elif prop == 'C03':
        # FIPS 180-4 5.1: the bit length appended by the padding == 8 * (bytes absorbed), for every update length (no silent wrap)
        for m in SHA2_UPDATE:
            us += U.c_units(prop, m, kinds='functional')
    elif prop == 'C12':
        for m in PBKDF2:
            us += U.c_units(prop, m, kinds='functional')
    elif prop == 'C17':
        for m in ('pkcs1_decode', 'raw_ctr', 'chacha20', 'raw_ocb', 'raw_cbc', 'raw_ofb'):
            if _have(MODULES[m]):
                us += U.c_units(prop, MODULES[m], kinds='safety')
        for m in PBKDF2 + SHA2_UPDATE:
            us += U.c_units(prop, m, kinds='safety')
        # fixed-base scalar multiplication: table indexing for every scalar length (invariants included: only C17 has them)
        for m in EC_WS:
            us += U.c_units(prop, m)
        us += U.scan_units(prop, 'alloc_checked', SCAN_CHUNKS)
        us += U.scan_units(prop, 'const_index', SCAN_CHUNKS)
    elif prop == 'C19':
        us += U.scan_units(prop, 'static_const', SCAN_CHUNKS)
    return _prefix(us)
