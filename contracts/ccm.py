"""Contracts for lib/Crypto/Cipher/_mode_ccm.py (C01, C02 glue, C09, C10, C11) -- NIST SP 800-38C.

State abstraction.  CcmMode keeps no copy of the associated data A and the payload P, so they are *views* of the ghost
state of its native collaborators:  S = self._mac.g_fed + self._cache  is every byte pushed into the CBC-MAC layer so
far (g_fed: bytes already encrypted by the CBC object, _cache: partial block), and
    A = S[a_start : a_start + _cumul_assoc_len]          P = S[p_start:]   (once the payload phase has begun)
(a_start = 16 + length of the encoded AAD length, p_start = end of the AAD rounded up to a block).  valid(self) says
that S has the SP 800-38C A.2 layout: S[:16] == B_0, then the AAD length header, then A, zero padding, then P.
Before the MAC can start (msg_len or assoc_len undeclared) _cache is the list of parked AAD segments and A is their
concatenation.  Every public method states its effect on A and P, its exact refusal conditions and valid(self).

Per-value instantiation (DESIGN 2.6 / GUIDE "Finite configuration state"): `_next` (5 reachable values), the
declared/undeclared combination of assoc_len/msg_len ('started' = both known, MAC running; 'nn', 'nd', 'dn' = parking
phase with assoc_len / msg_len None or declared), and the SHAPE of the parked list (0..3 segments; the code touches the
list only through append / insert(0|1) / b"".join / sum(len(x)), so a list of n segments and the 1-segment list holding
their concatenation are indistinguishable -- the other shapes are run in addition to catch code that stops being
homomorphic in the shape).  Everything else (all lengths, all data, nonce and tag lengths) is symbolic.

Scope notes.  (1) valid(self) is established on normal return and on TypeError (object unchanged); after a ValueError
(length accounting refusals) the object is not claimed to be usable.  (2) assoc_len < 2**64 (SP 800-38C: a < 2^64) and
"all parked data fits in memory" (< 2**64 bytes) are domain preconditions.  (3) cipher_params is the empty mapping."""
from vf.pyvc.contracts import Contract, ClassContract
from .aead2_common import registry_with_natives, FACTORY, NO_PARAMS

M = 'Crypto.Cipher._mode_ccm.'
C = M + 'CcmMode'

ALL = ['update', 'encrypt', 'decrypt', 'digest', 'verify']
NEXTS = {'all': ALL, 'ed': ['encrypt', 'digest'], 'd': ['digest'], 'dv': ['decrypt', 'verify'], 'v': ['verify']}
CFGS = ('nn', 'nd', 'dn', 's1', 's2', 't1', 't2')
PARKED = ('nn', 'nd', 'dn')

# MacStatus.NOT_STARTED / PROCESSING_AUTH_DATA / PROCESSING_PLAINTEXT are 0 / 1 / 2

S = 'spec.aead2.cat(self._mac.g_fed, self._cache)'
OS = 'spec.aead2.cat(old(self._mac.g_fed), old(self._cache))'
B0 = 'spec.aead2.ccm_b0(self.nonce, self._mac_len, self._assoc_len, self._msg_len)'
HDR = 'spec.aead2.ccm_hdr(self._assoc_len)'
AST = 'spec.aead2.ccm_a_start(self._assoc_len)'
AEND = 'spec.aead2.ccm_a_end(self._assoc_len)'
PST = 'spec.aead2.ccm_p_start(self._assoc_len)'
MAXLEN = 'spec.aead2.pow256(15 - len(self.nonce))'


def old_(s):
    """the same expression over the entry state"""
    return s.replace('self.', 'old(self).')


def views(cfg, old=False):
    """(A, P) as expressions over the state: parked segments, or slices of the MAC stream"""
    if cfg in PARKED:
        a, p = 'b"".join(self._cache)', 'b""'
    elif cfg == 's1':
        a, p = '%s[%s:]' % (S, AST), 'b""'
    else:
        a, p = '%s[%s:%s]' % (S, AST, AEND), '%s[%s:]' % (S, PST)
    return (old_(a), old_(p)) if old else (a, p)


RUNNING = 'self._mac_status != 0 ==> '
VALID = [
    # one atom per clause: a conjunction inside a clause is evaluated with Python's short-circuit semantics (path splits)
    'self.block_size == 16',
    '7 <= len(self.nonce)', 'len(self.nonce) <= 13',
    'self._mac_len in (4, 6, 8, 10, 12, 14, 16)',
    'len(self._s_0) == 16', 'self._s_0 == spec.aead2.ccm_s0(self._key, self.nonce)',
    'self._mac.g_key == self._key', 'self._mac.g_iv == bytes(16)', 'len(self._mac.g_fed) % 16 == 0',
    'self._cipher.g_key == self._key', 'self._cipher.g_ctr0 == spec.aead2.ccm_ctr0(self.nonce)',
    'self._cipher.g_pos == 16 + self._cumul_msg_len',
    'self._mac_status in (0, 1, 2)',
    '(self._mac_status == 0) == (self._assoc_len is None or self._msg_len is None)',
    'self._msg_len is not None ==> 0 <= self._msg_len',
    'self._msg_len is not None ==> self._msg_len < %s' % MAXLEN,
    'self._msg_len is not None ==> self._cumul_msg_len <= self._msg_len',
    'self._assoc_len is not None ==> 0 <= self._assoc_len',
    'self._assoc_len is not None ==> self._assoc_len < 2 ** 64',
    'self._assoc_len is not None ==> self._cumul_assoc_len <= self._assoc_len',
    '0 <= self._cumul_assoc_len', 'self._cumul_assoc_len < 2 ** 64', '0 <= self._cumul_msg_len',
    # call-order state vs MAC phase
    '"update" in self._next ==> self._mac_status != 2',
    '"update" not in self._next ==> self._mac_status != 0',
    '("update" in self._next or "encrypt" in self._next or "decrypt" in self._next) ==> self._mac_tag is None',
    # parking phase
    'self._mac_status == 0 ==> isinstance(self._cache, list)',
    'self._mac_status == 0 ==> len(b"".join(self._cache)) == self._cumul_assoc_len',
    'self._mac_status == 0 ==> self._cumul_msg_len == 0',
    'self._mac_status == 0 ==> self._mac.g_fed == b""',
    'self._mac_status == 0 ==> self._mac_tag is None',
    # MAC running: cache discipline and CBC-MAC value
    RUNNING + 'isinstance(self._cache, bytes)',
    RUNNING + 'len(self._cache) < 16',
    RUNNING + 'len(self._mac.g_fed) >= 16',
    RUNNING + 'self._t == spec.aead2.cbcmac(self._key, self._mac.g_fed)',
    # MAC running: SP 800-38C A.2 layout of the stream: B_0, the AAD length header, A, zero padding, P
    RUNNING + '%s.startswith(%s + %s)' % (S, B0, HDR),
    RUNNING + 'len(%s) == 16' % B0,
    RUNNING + 'len(%s) == spec.aead2.ccm_hdr_len(self._assoc_len)' % HDR,
    '(self._mac_status == 1 and self._mac_tag is None) ==> len(%s) == %s + self._cumul_assoc_len' % (S, AST),
    '(self._mac_status == 1 and self._mac_tag is None) ==> self._cumul_msg_len == 0',
    '(self._mac_status == 2 and self._mac_tag is None) ==> self._cumul_assoc_len == self._assoc_len',
    '(self._mac_status == 2 and self._mac_tag is None) ==> len(%s) == %s + self._cumul_msg_len' % (S, PST),
    '(self._mac_status == 2 and self._mac_tag is None) ==> %s[%s:%s] == rep(b"\\x00", %s - %s)' % (S, AEND, PST, PST, AEND),
    # cached tag: computed once (digest()/verify() are idempotent); from then on only digest() xor verify() are permitted
    'self._mac_tag is not None ==> self._mac_status != 0',
    'self._mac_tag is not None ==> len(self._mac_tag) == self._mac_len',
]
INV = {('inv%02d' % i): cl for i, cl in enumerate(VALID)}        # valid(self) at exit, one obligation per atom
CORE = {k: cl for k, cl in INV.items() if '_next' not in cl}      # what the internal _digest needs and keeps (digest()/verify() set _next first)

# spec functions that stay uninterpreted outside the functions that establish / consume their definitions
FMT = ['spec.aead2.ccm_b0', 'spec.aead2.ccm_hdr']
OPQ = FMT + ['spec.aead2.ccm_tag', 'spec.aead2.ccm_s0', 'spec.aead2.ccm_ctr0', 'spec.aead2.cat', 'spec.aead2.ccm_hdr_len']


def ccm_class(nxt='all', cfg='s1', shape=1):
    """cfg: 'nn' (assoc_len, msg_len both undeclared) | 'nd' (assoc_len undeclared) | 'dn' (msg_len undeclared): parking phase;
    's1' / 's2': MAC running, AAD / payload phase, no tag yet; 't1' / 't2': the same with the tag computed; 'init': no field yet"""
    if cfg == 'init':
        return ClassContract(C, fields={}, valid=list(VALID))
    f = {'block_size': 'int', 'nonce': 'bytes', '_factory': FACTORY, '_key': 'bytes', '_mac_len': 'int', '_cipher_params': NO_PARAMS,
         '_mac': 'obj:native.CBC', '_t': 'bytes|none', '_next': ('const', list(NEXTS[nxt])),
         '_cumul_assoc_len': 'int', '_cumul_msg_len': 'int', '_cipher': 'obj:native.CTR', '_s_0': 'bytes'}
    if cfg in PARKED or cfg == 'dd':       # 'dd': both lengths known but the MAC not started yet (entry state of _start_mac only)
        f.update({'_assoc_len': 'none' if cfg[0] == 'n' else 'int', '_msg_len': 'none' if cfg[1] == 'n' else 'int',
                  '_cache': 'list(%s)' % ','.join(['bytes'] * shape), '_mac_tag': 'none', '_mac_status': ('const', 0)})
    else:
        f.update({'_msg_len': 'int', '_assoc_len': 'int', '_cache': 'bytes', '_t': 'bytes',
                  '_mac_tag': 'bytes' if cfg[0] == 't' else 'none', '_mac_status': ('const', int(cfg[1]))})
    return ClassContract(C, fields=f, valid=list(VALID))


FIELD_T = {'self._next': None, 'self._assoc_len': 'int', 'self._msg_len': 'int', 'self._cumul_assoc_len': 'int', 'self._cumul_msg_len': 'int',
           'self._mac_status': 'int', 'self._mac_tag': 'bytes', 'self._cache': 'bytes', 'self._t': 'bytes', 'self._mac.g_fed': 'bytes',
           'self._cipher.g_pos': 'int'}


def NEXT_MOD(d, value):
    """... plus self._next, whose value after the call is the given list of names (= the ensures clause `next`, which is what is proved)"""
    d = dict(d)
    d['self._next'] = 'list(%s)' % ','.join('const:%r' % x for x in value)
    return d


def frame(paths, parked, cache_stays_list=False):
    """modifies clause with the types of the values at exit (the declared field types describe the entry configuration only);
    in the parking phase the parked list itself is written too"""
    d = {}
    if parked:
        d['self._cache.*'] = 'none'
    for p in paths:
        if p == 'self._next':
            continue
        d[p] = FIELD_T[p]
    if cache_stays_list and parked:
        d.pop('self._cache', None)
    return d


def registry(nxt='all', cfg='s1', shape=1, upd='run', data='bytes', cfg2=None):
    """cfg: configuration of the entry state of the function under proof; cfg2: configuration in which the digest()/verify() family is
    CALLED inside a composite (encrypt_and_digest / decrypt_and_verify), when it differs from cfg"""
    reg = registry_with_natives()
    reg.add(ccm_class(nxt, cfg, shape))
    parked = cfg in PARKED
    A_OLD, P_OLD = views(cfg, old=True)          # in postconditions
    A_IN, P_IN = views(cfg)                      # in refusal conditions (evaluated over the entry state)
    RUN_MOD = {'self._cache': 'bytes', 'self._t': 'bytes', 'self._mac.g_fed': 'bytes'}
    RUN_PRE = ['self.block_size == 16', 'self._mac_status != 0',
               'isinstance(self._cache, bytes) and len(self._cache) < 16 and len(self._mac.g_fed) % 16 == 0 and self._mac.g_iv == bytes(16)',
               'len(self._mac.g_fed) > 0 ==> self._t == spec.aead2.cbcmac(self._mac.g_key, self._mac.g_fed)']
    RUN_POST = {'cache': 'isinstance(self._cache, bytes) and len(self._cache) < 16 and len(self._mac.g_fed) % 16 == 0',
                'grows': 'len(self._mac.g_fed) >= len(old(self._mac.g_fed))',
                't': 'len(self._mac.g_fed) > 0 ==> self._t == spec.aead2.cbcmac(self._mac.g_key, self._mac.g_fed)'}
    # ------------------------------------------------------------------------------------------------ _update (C09)
    if upd == 'park':
        # parking phase: the segment is appended to the list, as an immutable copy when the caller's buffer is mutable
        reg.add(Contract(C + '._update', params={'assoc_data_pt': 'buffer'},
                         requires=['self._mac_status == 0', 'isinstance(self._cache, list)'], raises={},
                         ensures={'appended': 'len(self._cache) == len(old(self._cache)) + 1 and self._cache[:len(old(self._cache))] == old(self._cache)',
                                  'value': 'self._cache[len(self._cache) - 1] == assoc_data_pt',
                                  'immutable_copy': 'isinstance(self._cache[len(self._cache) - 1], (bytes, memoryview))'},
                         modifies=['self._cache.*'], options={'assume_valid': False}))
    else:
        # MAC running: the stream grows by exactly the data; whole blocks go to the CBC object, the rest stays cached
        reg.add(Contract(C + '._update', params={'assoc_data_pt': 'buffer'}, requires=RUN_PRE, raises={},
                         ensures=dict(RUN_POST, stream='%s == %s + assoc_data_pt' % (S, OS)),
                         modifies=RUN_MOD, options={'assume_valid': False}))
    # ------------------------------------------------------------------------------------------------ _pad_cache_and_update
    # A.2.2/A.2.3: the least number of zero bytes (possibly none) that completes the block
    reg.add(Contract(C + '._pad_cache_and_update', params={}, requires=RUN_PRE, raises={},
                     ensures=dict(RUN_POST, stream='%s == %s + spec.aead2.zpad(len(%s))' % (S, OS, OS), flushed='self._cache == b""',
                                  fed_is_stream='self._mac.g_fed == %s' % S),
                     lemmas={'exit': {'len': 'len(self._mac.g_fed) + len(self._cache) == len(old(self._mac.g_fed)) + len(old(self._cache)) + (0 - len(old(self._cache))) % 16',
                                      'aligned': 'len(self._cache) % 16 == 0'}},
                     modifies=RUN_MOD, options={'assume_valid': False}))
    # ------------------------------------------------------------------------------------------------ _start_mac
    # A.2.1/A.2.2: B_0 and the encoded AAD length go first, then everything parked so far
    reg.add(Contract(C + '._start_mac', params={},
                     requires=['self.block_size == 16', 'self._mac_status == 0', 'isinstance(self._cache, list)',
                               'self._assoc_len is not None and self._msg_len is not None',
                               '0 <= self._assoc_len and self._assoc_len < 2 ** 64',
                               '7 <= len(self.nonce) and len(self.nonce) <= 13', 'self._mac_len in (4, 6, 8, 10, 12, 14, 16)',
                               '0 <= self._msg_len and self._msg_len < %s' % MAXLEN,
                               'self._mac.g_fed == b"" and self._mac.g_iv == bytes(16)'],
                     raises={},
                     ensures=dict(RUN_POST, status='self._mac_status == 1',
                                  b0_len='len(%s) == 16' % B0,
                                  hdr_len='len(%s) == spec.aead2.ccm_hdr_len(self._assoc_len)' % HDR,
                                  stream='%s == %s + %s + b"".join(old(self._cache))' % (S, B0, HDR),
                                  started='len(self._mac.g_fed) >= 16'),
                     modifies={'self._cache.*': 'none', 'self._cache': 'bytes', 'self._t': 'bytes', 'self._mac.g_fed': 'bytes', 'self._mac_status': 'int'},
                     # proof steps over the locals of _start_mac (a renamed local makes them untranslatable = undecided, never a violation)
                     lemmas={'exit': {'flags': 'flags == spec.aead2.ccm_flags(self._mac_len, 15 - len(self.nonce), self._assoc_len)',
                                      'b0': 'b_0 == %s' % B0,
                                      'b0_len': 'len(b_0) == 16',
                                      'hdr': 'assoc_len_encoded == %s' % HDR,
                                      'first': 'first_data_to_mac == b_0 + assoc_len_encoded + b"".join(old(self._cache))',
                                      'fed': '%s == first_data_to_mac' % S,
                                      'total': 'len(self._mac.g_fed) + len(self._cache) >= 16'}},
                     bv_width=8, options={'assume_valid': False}))
    # ------------------------------------------------------------------------------------------------ update (C09, C10)
    aad_long = '(self._assoc_len is not None and self._cumul_assoc_len + len(assoc_data) > self._assoc_len)'
    reg.add(Contract(C + '.update', params={'assoc_data': data},
                     requires=['self._cumul_assoc_len + len(assoc_data) < 2 ** 64'],          # scope note (2)
                     raises={'TypeError': ('iff', '"update" not in self._next'),
                             'ValueError': ('iff', '"update" in self._next and ' + aad_long)},
                     unchanged_on_raise=['TypeError'],
                     ensures={'next': 'self._next == ["update", "encrypt", "decrypt", "digest", "verify"]',
                              'self': 'result is self',
                              # C09: the associated data so far grows by exactly this segment (parked: the concatenation of the list;
                              # MAC running: the MAC input stream, whose tail after B_0 and the length header is A)
                              'aad': ('b"".join(self._cache) == b"".join(old(self._cache)) + assoc_data' if parked else '%s == %s + assoc_data' % (S, OS)),
                              'count': 'self._cumul_assoc_len == old(self._cumul_assoc_len) + len(assoc_data)',
                              'kept': 'self._assoc_len == old(self._assoc_len) and self._msg_len == old(self._msg_len) and self._mac_status == old(self._mac_status)',
                              **INV},
                     modifies=NEXT_MOD(frame(['self._cumul_assoc_len'] + ([] if parked else ['self._cache', 'self._t', 'self._mac.g_fed']), parked, True), ALL),
                     returns='self', inline=[C + '._update'] if parked else [], opaque=OPQ))
    # ------------------------------------------------------------------------------------------------ encrypt / decrypt (C01, C02, C09, C10, C11)
    aad_short = '(self._assoc_len is not None and self._cumul_assoc_len < self._assoc_len)'
    A2, P2 = views('s2')
    for kind, arg in (('encrypt', 'plaintext'), ('decrypt', 'ciphertext')):
        too_long = '(self._msg_len is None and len(%s) >= %s)' % (arg, MAXLEN)                     # C11: 2**(8q) limit
        beyond = '(self._msg_len is not None and self._cumul_msg_len + len(%s) > self._msg_len)' % arg
        nxt_decl = '["encrypt", "digest"]' if kind == 'encrypt' else '["decrypt", "verify"]'
        nxt_und = '["digest"]' if kind == 'encrypt' else '["verify"]'
        msg = arg if kind == 'encrypt' else 'result'          # the MAC always runs over the plaintext
        # C09: effect on the MAC input stream (the MAC always runs over the plaintext): the payload is appended, after the zero padding
        # that closes the associated data (A.2.3) and, when the MAC could not start earlier, after B_0, the length header and the parked data
        steps = {}
        if cfg == 's2':
            stream = '%s == %s + %s' % (S, OS, msg)
            # (recalled facts: the solver ladder also tries the last few hypotheses only)
            steps = {'r_stream': stream, 'r_len': 'len(%s) == %s + old(self._cumul_msg_len)' % (OS, PST)}
        elif cfg == 's1':
            stream = '%s == %s + spec.aead2.zpad(len(%s)) + %s' % (S, OS, OS, msg)
            steps = {'r_stream': stream, 'a_end': 'len(%s) == %s' % (OS, AEND), 'p_start': '%s + len(spec.aead2.zpad(%s)) == %s' % (AEND, AEND, PST)}
        else:
            stream = '%s == %s + %s + b"".join(old(self._cache)) + spec.aead2.zpad(%s) + %s' % (S, B0, HDR, AEND, msg)
            steps = {'r_stream': stream, 'a_end': 'len(%s) + len(%s) + len(b"".join(old(self._cache))) == %s' % (B0, HDR, AEND),
                     'p_start': '%s + len(spec.aead2.zpad(%s)) == %s' % (AEND, AEND, PST)}
        reg.add(Contract(C + '.' + kind, params={arg: data, 'output': 'none'},
                         raises={'TypeError': ('iff', '"%s" not in self._next' % kind),
                                 'ValueError': ('iff', '"%s" in self._next and (%s or %s or %s)' % (kind, aad_short, too_long, beyond))},
                         unchanged_on_raise=['TypeError'],
                         ensures={'next': 'self._next == (%s if old(self._msg_len) is not None else %s)' % (nxt_decl, nxt_und),
                                  'result': 'result == spec.aead2.ccm_crypt(self._key, self.nonce, old(self._cumul_msg_len), %s)' % arg,
                                  'stream': stream,
                                  # the same in terms of the views: A is untouched, P grows by the plaintext
                                  'aad_view': '%s == %s' % (A2, A_OLD),
                                  'msg_view': '%s == %s + %s' % (P2, P_OLD, msg),
                                  'counts': 'self._cumul_assoc_len == old(self._cumul_assoc_len) and self._cumul_msg_len == old(self._cumul_msg_len) + len(%s)' % arg,
                                  'lens': 'self._assoc_len == (old(self._assoc_len) if old(self._assoc_len) is not None else old(self._cumul_assoc_len)) and '
                                          'self._msg_len == (old(self._msg_len) if old(self._msg_len) is not None else len(%s))' % arg,
                                  'phase': 'self._mac_status == 2', **INV},
                         lemmas={'exit': steps},
                         modifies=NEXT_MOD(frame(['self._assoc_len', 'self._msg_len', 'self._cumul_msg_len', 'self._mac_status',
                                                  'self._cache', 'self._t', 'self._mac.g_fed', 'self._cipher.g_pos'], parked),
                                           eval(nxt_und if cfg in ('nn', 'dn') else nxt_decl)),
                         result='bytes', opaque=OPQ))
    # ------------------------------------------------------------------------------------------------ _digest / digest / verify (C01, C10)
    # the tag of SP 800-38C 6.1 for the associated data and payload seen so far; refused when data is short of the declared lengths;
    # once computed, the cached tag is returned / compared and nothing changes
    msg_short = '(self._msg_len is not None and self._cumul_msg_len != self._msg_len)'
    refuse = '(self._mac_tag is None and (%s or %s))' % (aad_short, msg_short)
    steps = {}
    entry_cfg, entry_views = cfg, (A_OLD, P_OLD, A_IN, P_IN)
    if cfg2 is not None:
        cfg = cfg2
        parked = cfg in PARKED
        A_OLD, P_OLD = views(cfg, old=True)
        A_IN, P_IN = views(cfg)
    if cfg[0] == 't':
        TAG_IN = 'self._mac_tag'
        post = {'tag': 'self._mac_tag == old(self._mac_tag)'}
        DIG_MOD = {}
    else:
        TAG_OLD = 'spec.aead2.ccm_tag(self._key, self.nonce, self._mac_len, %s, %s)' % (A_OLD, P_OLD)
        TAG_IN = 'spec.aead2.ccm_tag(self._key, self.nonce, self._mac_len, %s, %s)' % (A_IN, P_IN)
        post = {'tag': 'self._mac_tag == %s and len(self._mac_tag) == self._mac_len' % TAG_OLD,
                'lens': 'self._cumul_assoc_len == self._assoc_len and self._cumul_msg_len == self._msg_len and self._assoc_len == old(self._cumul_assoc_len) '
                        'and self._msg_len == old(self._cumul_msg_len)'}
        DIG_MOD = frame(['self._assoc_len', 'self._msg_len', 'self._mac_status', 'self._mac_tag', 'self._cache', 'self._t', 'self._mac.g_fed'], parked)
        # proof steps: the stream is B_0 || header || A || 0* || P, so after the final padding the CBC object has been fed exactly ccm_fmt(...)
        HL = 'spec.aead2.ccm_hdr_len(self._assoc_len)'
        steps['a_len'] = 'len(%s) == self._assoc_len' % A_OLD
        steps['p_len'] = 'len(%s) == self._msg_len' % P_OLD
        if cfg == 's2':
            # (recalled entry facts first: the solver ladder also tries the last few hypotheses only)
            steps['r_prefix'] = '%s.startswith(%s + %s)' % (OS, B0, HDR)
            steps['r_len'] = 'len(%s) + len(%s) == %s' % (B0, HDR, AST)
            steps['r_bounds'] = '%s <= %s and %s <= len(%s)' % (AEND, PST, PST, OS)
            steps['split'] = '%s == %s + %s + %s + %s[%s:%s] + %s' % (OS, B0, HDR, A_OLD, OS, AEND, PST, P_OLD)
            steps['zeros'] = '%s[%s:%s] == spec.aead2.zpad(%s + self._assoc_len)' % (OS, AEND, PST, HL)
            steps['pad'] = 'spec.aead2.zpad(len(%s)) == spec.aead2.zpad(self._msg_len)' % OS
        elif cfg == 's1':
            steps['split'] = '%s == %s + %s + %s' % (OS, B0, HDR, A_OLD)
            steps['pad'] = 'spec.aead2.zpad(len(%s)) == spec.aead2.zpad(%s + self._assoc_len)' % (OS, HL)
        else:
            steps['pad'] = 'spec.aead2.zpad(len(%s) + len(%s) + len(%s)) == spec.aead2.zpad(%s + self._assoc_len)' % (B0, HDR, A_OLD, HL)
        steps['fed'] = 'self._mac.g_fed == spec.aead2.ccm_fmt(self.nonce, self._mac_len, %s, %s)' % (A_OLD, P_OLD)
    reg.add(Contract(C + '._digest', params={}, requires=list(CORE.values()),
                     raises={'ValueError': ('iff', refuse)},
                     ensures=dict(post, result='result == self._mac_tag', **CORE), lemmas={'exit': steps},
                     modifies=DIG_MOD, opaque=FMT + ['spec.aead2.ccm_s0', 'spec.aead2.ccm_ctr0', 'spec.aead2.cat', 'spec.aead2.ccm_hdr_len'],
                     # implied_ms: the stepwise proof of `split` depends on one slice-bound implication that takes z3 1-3 s here; on the
                     # harness machine it missed the default 3 s budget and the lemma was left undecided (vp check 3) -- 20 s for this function
                     result='bytes', options={'assume_valid': False, 'implied_ms': 20000}))
    post = dict(post, **INV)
    reg.add(Contract(C + '.digest', params={},
                     raises={'TypeError': ('iff', '"digest" not in self._next'), 'ValueError': ('iff', '"digest" in self._next and ' + refuse)},
                     unchanged_on_raise=['TypeError'],
                     ensures=dict(post, result='result == self._mac_tag', next='self._next == ["digest"]'),
                     modifies=NEXT_MOD(DIG_MOD, ['digest']), result='bytes', opaque=OPQ))
    reg.add(Contract(C + '.verify', params={'received_mac_tag': data},
                     raises={'TypeError': ('iff', '"verify" not in self._next'),
                             'ValueError': ('iff', '"verify" in self._next and (%s or received_mac_tag != %s)' % (refuse, TAG_IN))},
                     unchanged_on_raise=['TypeError'],
                     ensures=dict(post, next='self._next == ["verify"]', accepted='received_mac_tag == self._mac_tag', result='result is None'),
                     modifies=NEXT_MOD(DIG_MOD, ['verify']), opaque=OPQ))
    # ------------------------------------------------------------------------------------------------ encrypt_and_digest / decrypt_and_verify (C01, C02)
    # one-shot use from any state in which encrypt()/decrypt() is permitted: the tag is the SP 800-38C tag of (A so far, P so far || this piece)
    cfg = entry_cfg
    parked = cfg in PARKED
    A_OLD, P_OLD, A_IN, P_IN = entry_views
    for kind, arg in (('encrypt_and_digest', 'plaintext'), ('decrypt_and_verify', 'ciphertext')):
        base = 'encrypt' if kind[0] == 'e' else 'decrypt'
        too_long = '(self._msg_len is None and len(%s) >= %s)' % (arg, MAXLEN)
        incomplete = '(self._msg_len is not None and self._cumul_msg_len + len(%s) != self._msg_len)' % arg
        crypt_in = 'spec.aead2.ccm_crypt(self._key, self.nonce, self._cumul_msg_len, %s)' % arg
        pt_in = arg if base == 'encrypt' else crypt_in
        TAG = 'spec.aead2.ccm_tag(self._key, self.nonce, self._mac_len, %s, %s + %s)'
        tag_in = TAG % (A_IN, P_IN, pt_in)
        bad_tag = '' if base == 'encrypt' else ' or received_mac_tag != ' + tag_in
        params = {arg: data, 'output': 'none'} if base == 'encrypt' else {arg: data, 'received_mac_tag': data, 'output': 'none'}
        crypt_old = 'spec.aead2.ccm_crypt(self._key, self.nonce, old(self._cumul_msg_len), %s)' % arg
        tag_old = TAG % (A_OLD, P_OLD, arg if base == 'encrypt' else crypt_old)
        ens = {'next': 'self._next == %s' % ('["digest"]' if base == 'encrypt' else '["verify"]'),
               'tag': 'self._mac_tag == %s' % tag_old,
               'result': ('result == (%s, self._mac_tag)' % crypt_old) if base == 'encrypt' else ('result == %s' % crypt_old)}
        if base == 'decrypt':
            ens['accepted'] = 'received_mac_tag == self._mac_tag'
        reg.add(Contract(C + '.' + kind, params=params,
                         raises={'TypeError': ('iff', '"%s" not in self._next' % base),
                                 'ValueError': ('iff', '"%s" in self._next and (%s or %s or %s%s)' % (base, aad_short, too_long, incomplete, bad_tag))},
                         unchanged_on_raise=['TypeError'], ensures=dict(ens, **INV),
                         modifies=NEXT_MOD(frame(['self._assoc_len', 'self._msg_len', 'self._cumul_msg_len', 'self._mac_status', 'self._mac_tag',
                                                  'self._cache', 'self._t', 'self._mac.g_fed', 'self._cipher.g_pos'], parked),
                                           ['digest'] if base == 'encrypt' else ['verify']),
                         opaque=OPQ))
    # ------------------------------------------------------------------------------------------------ __init__ (C02 glue, C11, C01)
    # parameter domain of SP 800-38C (t even in 4..16, n in 7..13, Plen < 2**(8q)); Ctr_0 = [q-1] || N || 0 (A.3); S_0 = first key stream
    # block; the MAC starts at once when both lengths are declared (stream == B_0 || header)
    too_long = '(msg_len is not None and msg_len >= spec.aead2.pow256(15 - len(nonce)))'
    reg.add(Contract(C + '.__init__', params={'factory': FACTORY, 'key': 'bytes', 'nonce': 'bytes', 'mac_len': 'int', 'msg_len': 'nat|none',
                                              'assoc_len': 'int[0..18446744073709551615]|none', 'cipher_params': NO_PARAMS},
                     raises={'ValueError': ('iff', 'factory.block_size != 16 or mac_len not in (4, 6, 8, 10, 12, 14, 16) or len(nonce) < 7 or len(nonce) > 13 '
                                                   'or %s or not spec.aead2.key_ok(len(key))' % too_long)},
                     ensures=dict(INV, nonce='self.nonce == nonce', key='self._key == key', mac_len='self._mac_len == mac_len',
                                  lens='self._msg_len == msg_len and self._assoc_len == assoc_len and self._cumul_assoc_len == 0 and self._cumul_msg_len == 0',
                                  next='self._next == ["update", "encrypt", "decrypt", "digest", "verify"]',
                                  tag='self._mac_tag is None',
                                  started='self._mac_status == (1 if (msg_len is not None and assoc_len is not None) else 0)',
                                  stream='self._mac_status == 1 ==> %s == %s + %s' % (S, B0, HDR),
                                  parked='self._mac_status == 0 ==> self._cache == []'),
                     modifies=None, opaque=FMT + ['spec.aead2.cat', 'spec.aead2.ccm_hdr_len'], options={'assume_valid': False}))
    return reg


# reachable (entry configuration, _next) pairs in error-free histories
REACH = {'all': ('s1', 'nn', 'nd', 'dn'), 'ed': ('s2',), 'dv': ('s2',), 'd': ('s2', 't1', 't2'), 'v': ('s2', 't1', 't2')}
GUARD = {'update': 'update', 'encrypt': 'encrypt', 'decrypt': 'decrypt', 'digest': 'digest', 'verify': 'verify',
         'encrypt_and_digest': 'encrypt', 'decrypt_and_verify': 'decrypt'}


def _unit(prop, func, nxt='all', cfg='s1', shape=1, **kw):
    from vf.pyunit import pyvc_unit
    uid = 'ccm.%s.%s.%s' % (func, cfg, nxt) + ('.n%d' % shape if cfg in PARKED + ('dd',) and shape != 1 else '') + \
          ''.join('.%s' % v for k, v in sorted(kw.items()) if k != 'cfg2')
    # 60 s per query instead of 30: the stepwise proofs need < 8 s on an idle machine, the larger budget is for a loaded one
    return pyvc_unit(prop, uid, lambda: registry(nxt=nxt, cfg=cfg, shape=shape, **kw), [C + '.' + func], timeout_ms=60000)


def units(prop, tier):
    from spec import fsm        # the per-value enumeration of `_next` is exactly the reachable state set of the documented automaton
    assert sorted(tuple(sorted(v)) for v in NEXTS.values()) == sorted(fsm.reach('CCM')), 'spec.fsm CCM table and contract enumeration differ'
    q = tier == 'quick'
    us = []
    shapes = (1,) if q else (0, 1, 2, 3)
    if prop == 'C01':
        us += [_unit(prop, '_start_mac', cfg='dd', shape=n) for n in ((2,) if q else (0, 1, 2, 3))]
        for cfg in (('s2', 'nn') if q else ('s1', 's2', 'nn', 'nd', 'dn')):
            us += [_unit(prop, '_digest', REACH_NEXT[cfg], cfg, n) for n in (shapes if cfg in PARKED else (1,))]
        for nxt, cfg in ((('dv', 's2'),) if q else (('all', 's1'), ('all', 'nn'), ('all', 'nd'), ('all', 'dn'), ('dv', 's2'), ('v', 's2'), ('v', 't1'), ('v', 't2'))):
            us.append(_unit(prop, 'verify', nxt, cfg))
        for nxt, cfg in ((('all', 's1'),) if q else (('all', 's1'), ('all', 'nn'), ('all', 'nd'), ('all', 'dn'), ('dv', 's2'))):
            us.append(_unit(prop, 'decrypt_and_verify', nxt, cfg, cfg2='s2'))
    elif prop == 'C02':
        us.append(_unit(prop, '__init__', cfg='init'))
        # B0 and the encoding of the AAD length (SP 800-38C A.2.1/A.2.2) are part of "computes its specification" as much as of the tag
        # check (seeded change C02-ccm-aad-length-encoding-65280 was first caught under C02 by the bounded harness only)
        us += [_unit(prop, '_start_mac', cfg='dd', shape=n) for n in ((2,) if q else (0, 1, 2, 3))]
        for nxt, cfg in ((('all', 's1'),) if q else (('all', 's1'), ('all', 'nn'), ('all', 'nd'), ('all', 'dn'), ('ed', 's2'))):
            us.append(_unit(prop, 'encrypt_and_digest', nxt, cfg, cfg2='s2'))
    elif prop == 'C09':
        us.append(_unit(prop, '_update', cfg='s1'))
        us += [_unit(prop, '_update', cfg='nn', shape=n, upd='park') for n in ((1,) if q else (0, 1, 2, 3))]
        us.append(_unit(prop, '_pad_cache_and_update', cfg='s1'))
        for cfg in (('s1', 'nn') if q else ('s1', 'nn', 'nd', 'dn')):
            us += [_unit(prop, 'update', 'all', cfg, n, data='buffer') for n in (shapes if cfg in PARKED else (1,))]
        for kind in ('encrypt', 'decrypt'):
            for nxt, cfg in ((('all', 's1'),) if q else (('all', 's1'), ('ed' if kind == 'encrypt' else 'dv', 's2'))):
                us.append(_unit(prop, kind, nxt, cfg, data='bytes' if q else 'buffer'))
    elif prop == 'C10':
        for func in ('update', 'encrypt', 'decrypt', 'digest', 'verify'):
            for nxt in NEXTS:
                permitted = GUARD[func] in NEXTS[nxt]
                cfgs = REACH[nxt]
                if not permitted:
                    cfgs = cfgs[:1] if q else cfgs          # refusal happens before any state is read
                elif q:
                    cfgs = tuple(c for c in cfgs if c in ('s1', 's2', 'nn', 't2') or (c == 'dn' and func == 'encrypt'))
                for cfg in cfgs:
                    us += [_unit(prop, func, nxt, cfg, n) for n in (shapes if (cfg in PARKED and permitted) else (1,))]
    elif prop == 'C11':
        us.append(_unit(prop, '__init__', cfg='init'))
        for kind in ('encrypt', 'decrypt'):
            for cfg in (('nn',) if q else ('nn', 'dn', 'nd', 's1')):
                us.append(_unit(prop, kind, 'all', cfg))
    return us


REACH_NEXT = {'s1': 'all', 's2': 'ed', 'nn': 'all', 'nd': 'all', 'dn': 'all', 't1': 'd', 't2': 'd'}


# ------------------------------------------------------------------------------------------------------------------------------------
# ASSUMED (used at call sites, not proved here; see contracts/aead2_common.py): native CBC object (last cipher block of everything fed ==
#   spec.aead2.cbcmac), native CTR object (output == data xor spec.aead2.ctr_ks at the running position), <cipher module>.new dispatch,
#   strxor (bytewise, exact for <= 32 bytes), long_to_bytes (minimal length / exact block encoding), BLAKE2s-160 comparison (injective, 2^-160),
#   get_random_bytes.  Bounded harnesses: bounded/modes.py (CBC, CTR, CCM one-shot / segmentation / buffers), bounded/accel.py (strxor),
#   bounded/bigint.py (long_to_bytes), bounded/hashes.py (BLAKE2s).
# TRUSTED STEP: the parked list is instantiated per shape (0..3 segments); see the module docstring.
# NOT PROVED: _create_ccm_cipher (keyword popping + default nonce/mac_len; it needs CcmMode.__init__ inlined through the **kwargs record) -- not registered.
# NOT PROVED: output= (bytearray/memoryview destination) paths of encrypt()/decrypt(): the contracts are stated for output=None only.
# NOT PROVED: valid(self) after a ValueError (length refusals); e.g. update() beyond assoc_len leaves _cumul_assoc_len already increased.
# NOTE (domain, not a property of the list): CcmMode(assoc_len >= 2**64, msg_len declared) is accepted and would format a non-standard length
#   header (SP 800-38C requires a < 2^64); unreachable in practice because that much data cannot be supplied before digest().
#
# Mutants (tools/mut.py, lib/Crypto/Cipher/_mode_ccm.py; every one gave exit 1 on the named obligation, the benign one exit 0):
#   M1 C09 _update: `filler = min(self.block_size - len(self._cache) - 1, ...`            -> ccm._update ensures.stream
#   M2 C01 _start_mac: `flags |= ((self._mac_len - 2) // 2) << 2`                          -> _start_mac lemma.flags
#   M3 C01 _start_mac: `if self._assoc_len < (2 ** 16):` (header form boundary)            -> _start_mac lemma.hdr
#   M4 C01 _digest: `strxor(self._t, self._s_0)[:self._mac_len - 1]`                       -> _digest ensures.tag (+ inv44 tag length)
#   M5 C10 encrypt: `self._next = ["encrypt", "digest", "update"]`                         -> encrypt ensures.next (+ inv23)
#   M6 C10 update: `self._cumul_assoc_len >= self._assoc_len`                              -> update raises_iff.ValueError.only_if
#   M7 C11 encrypt: `len(long_to_bytes(len(plaintext))) > q + 1`                           -> encrypt call_pre of _start_mac (msg_len < 256**q)
#   M8 C02 __init__: `nonce=struct.pack("B", q) + self.nonce` (counter block flags)        -> __init__ ensures.inv05 (S_0) / inv10 (Ctr_0)
#   M9 C09 _update (parking): `if False:` instead of `if is_writeable_buffer(...)`         -> _update ensures.immutable_copy
#   B1 C09 _update: local `filler` renamed to `fill_n`                                     -> exit 0
