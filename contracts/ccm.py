"""Contracts for lib/Crypto/Cipher/_mode_ccm.py (C01, C02 glue, C09, C10, C11) -- NIST SP 800-38C.

State abstraction.  CcmMode keeps no copy of the associated data A and the payload P, so they are *views* of the ghost
state of its native collaborators:  S = self._mac.g_fed + self._cache  is every byte pushed into the CBC-MAC layer so
far (g_fed: bytes already encrypted by the CBC object, _cache: partial block), and
    A = S[16 + hdr : 16 + hdr + _cumul_assoc_len]      P = S[p_start : p_start + _cumul_msg_len]
(hdr = length of the encoded AAD length, p_start = the AAD part rounded up to a block).  valid(self) says that S has
the SP 800-38C A.2 layout: S[:16] == B_0, then the AAD length header, then A, zero padding, then P.
Before the MAC can start (msg_len or assoc_len undeclared) _cache is the list of parked AAD segments.

Per-value instantiation (DESIGN 2.6 / GUIDE "Finite configuration state"): `_next` (5 reachable values), the
declared/undeclared combination of assoc_len/msg_len, and the SHAPE of the parked list (0..3 segments; the code touches
the list only through append / insert(0|1) / b"".join / sum(len(x)), so a list of n segments and the 1-segment list
holding their concatenation are indistinguishable -- the shapes 0, 2, 3 are run in addition to catch code that stops
being homomorphic in the shape).  Everything else (all lengths, all data, nonce and tag lengths) is symbolic."""
from vf.pyvc.contracts import Contract, ClassContract
from .aead2_common import registry_with_natives, FACTORY, NO_PARAMS

M = 'Crypto.Cipher._mode_ccm.'
C = M + 'CcmMode'

ALL = ['update', 'encrypt', 'decrypt', 'digest', 'verify']
NEXTS = {'all': ALL, 'ed': ['encrypt', 'digest'], 'd': ['digest'], 'dv': ['decrypt', 'verify'], 'v': ['verify']}

# MacStatus.NOT_STARTED / PROCESSING_AUTH_DATA / PROCESSING_PLAINTEXT
NS, AUTH, PT = 0, 1, 2

S = '(self._mac.g_fed + self._cache)'
OS = '(old(self._mac.g_fed) + old(self._cache))'
HL = 'spec.aead2.ccm_hdr_len(self._assoc_len)'
AEND = 'spec.aead2.ccm_a_end(self._assoc_len)'
PST = 'spec.aead2.ccm_p_start(self._assoc_len)'

VALID = [
    'self.block_size == 16',
    '7 <= len(self.nonce) and len(self.nonce) <= 13',
    'self._mac_len in (4, 6, 8, 10, 12, 14, 16)',
    'len(self._s_0) == 16',
    'self._s_0 == spec.aead2.ccm_s0(self._key, self.nonce)',
    'self._mac.g_key == self._key and self._mac.g_iv == bytes(16)',
    'self._cipher.g_key == self._key and self._cipher.g_ctr0 == spec.aead2.ccm_ctr0(self.nonce)',
    'self._cipher.g_pos == 16 + self._cumul_msg_len',
    'self._mac_status in (0, 1, 2)',
    '(self._mac_status == 0) == (self._assoc_len is None or self._msg_len is None)',
    'self._msg_len is not None ==> (self._msg_len < 256 ** (15 - len(self.nonce)) and self._cumul_msg_len <= self._msg_len)',
    'self._assoc_len is not None ==> (self._assoc_len < 2 ** 64 and self._cumul_assoc_len <= self._assoc_len)',
    # parking phase
    'self._mac_status == 0 ==> (isinstance(self._cache, list) and len(b"".join(self._cache)) == self._cumul_assoc_len '
    'and self._cumul_msg_len == 0 and self._mac.g_fed == b"" and self._mac_tag is None)',
    # MAC running: cache discipline and CBC-MAC value
    'self._mac_status != 0 ==> (isinstance(self._cache, bytes) and len(self._cache) < 16 and len(self._mac.g_fed) >= 16 '
    'and self._t == spec.aead2.cbcmac(self._key, self._mac.g_fed))',
    # MAC running: SP 800-38C A.2 layout of the stream
    'self._mac_status != 0 ==> (%s[:16] == spec.aead2.ccm_b0(self.nonce, self._mac_len, self._assoc_len, self._msg_len) '
    'and %s[16:16 + %s] == spec.aead2.ccm_hdr(self._assoc_len))' % (S, S, HL),
    '(self._mac_status == 1 and self._mac_tag is None) ==> (len(%s) == %s - self._assoc_len + self._cumul_assoc_len and self._cumul_msg_len == 0)' % (S, AEND),
    '(self._mac_status == 2 and self._mac_tag is None) ==> (self._cumul_assoc_len == self._assoc_len and len(%s) == %s + self._cumul_msg_len)' % (S, PST),
    'self._mac_status == 2 ==> %s[%s:%s] == rep(b"\\x00", %s - %s)' % (S, AEND, PST, PST, AEND),
    # cached tag
    'self._mac_tag is not None ==> (self._mac_status != 0 and self._cumul_assoc_len == self._assoc_len and self._cumul_msg_len == self._msg_len '
    'and self._mac_tag == spec.aead2.ccm_tag(self._key, self.nonce, self._mac_len, %s[%s - self._assoc_len:%s], %s[%s:%s + self._msg_len]))'
    % (S, AEND, AEND, S, PST, PST),
]


def ccm_class(nxt='all', cfg='started', shape=1, nonce_len=None):
    """cfg: 'started' | 'nn' (assoc_len, msg_len both undeclared) | 'nd' (assoc_len undeclared) | 'dn' (msg_len undeclared)"""
    f = {'block_size': 'int', 'nonce': 'bytes', '_factory': FACTORY, '_key': 'bytes', '_mac_len': 'int', '_cipher_params': NO_PARAMS,
         '_mac_tag': 'bytes|none', '_mac': 'obj:native.CBC', '_mac_status': 'int', '_t': 'bytes|none', '_next': ('const', list(NEXTS[nxt])),
         '_cumul_assoc_len': 'nat', '_cumul_msg_len': 'nat', '_cipher': 'obj:native.CTR', '_s_0': 'bytes'}
    if cfg == 'started':
        f.update({'_msg_len': 'nat', '_assoc_len': 'nat', '_cache': 'bytes'})
    else:
        f.update({'_assoc_len': 'none' if cfg[0] == 'n' else 'nat', '_msg_len': 'none' if cfg[1] == 'n' else 'nat',
                  '_cache': 'list(%s)' % ','.join(['bytes'] * shape)})
    valid = list(VALID)
    if nonce_len is not None:
        valid.append('len(self.nonce) == %d' % nonce_len)
    return ClassContract(C, fields=f, valid=valid)


def registry(nxt='all', cfg='started', shape=1, nonce_len=None, upd='run'):
    reg = registry_with_natives()
    reg.add(ccm_class(nxt, cfg, shape, nonce_len))
    RUN_MOD = {'self._cache': 'bytes', 'self._t': 'bytes', 'self._mac.g_fed': 'bytes'}
    # ------------------------------------------------------------------------------------------------ _update (C09)
    if upd == 'park':
        # parking phase: the segment is appended to the list, as an immutable copy when the caller's buffer is mutable
        reg.add(Contract(C + '._update', params={'assoc_data_pt': 'buffer'},
                         requires=['self._mac_status == 0', 'isinstance(self._cache, list)'], raises={},
                         ensures={'appended': 'len(self._cache) == len(old(self._cache)) + 1 and self._cache[:len(old(self._cache))] == old(self._cache)',
                                  'value': 'self._cache[len(self._cache) - 1] == assoc_data_pt',
                                  'immutable_copy': 'isinstance(self._cache[len(self._cache) - 1], (bytes, memoryview))'},
                         modifies=['self._cache.*'], options={'assume_valid': False}))
    else:
        # MAC running: the stream grows by exactly the data; whole blocks go to the CBC object, the rest stays cached
        reg.add(Contract(C + '._update', params={'assoc_data_pt': 'buffer'},
                         requires=['self.block_size == 16', 'self._mac_status != 0',
                                   'isinstance(self._cache, bytes) and len(self._cache) < 16 and len(self._mac.g_fed) % 16 == 0 and self._mac.g_iv == bytes(16)',
                                   'len(self._mac.g_fed) > 0 ==> self._t == spec.aead2.cbcmac(self._mac.g_key, self._mac.g_fed)'],
                         raises={},
                         ensures={'stream': '%s == %s + assoc_data_pt' % (S, OS),
                                  'cache': 'isinstance(self._cache, bytes) and len(self._cache) < 16 and len(self._mac.g_fed) % 16 == 0',
                                  'grows': 'len(self._mac.g_fed) >= len(old(self._mac.g_fed))',
                                  't': 'len(self._mac.g_fed) > 0 ==> self._t == spec.aead2.cbcmac(self._mac.g_key, self._mac.g_fed)'},
                         modifies=RUN_MOD, options={'assume_valid': False}))
    RUN_PRE = ['self.block_size == 16', 'self._mac_status != 0',
               'isinstance(self._cache, bytes) and len(self._cache) < 16 and len(self._mac.g_fed) % 16 == 0 and self._mac.g_iv == bytes(16)',
               'len(self._mac.g_fed) > 0 ==> self._t == spec.aead2.cbcmac(self._mac.g_key, self._mac.g_fed)']
    RUN_POST = {'cache': 'isinstance(self._cache, bytes) and len(self._cache) < 16 and len(self._mac.g_fed) % 16 == 0',
                'grows': 'len(self._mac.g_fed) >= len(old(self._mac.g_fed))',
                't': 'len(self._mac.g_fed) > 0 ==> self._t == spec.aead2.cbcmac(self._mac.g_key, self._mac.g_fed)'}
    # ------------------------------------------------------------------------------------------------ _pad_cache_and_update
    # A.2.2/A.2.3: the least number of zero bytes (possibly none) that completes the block
    reg.add(Contract(C + '._pad_cache_and_update', params={}, requires=RUN_PRE, raises={},
                     ensures=dict(RUN_POST, stream='%s == %s + spec.aead2.zpad(len(%s))' % (S, OS, OS), flushed='self._cache == b""'),
                     lemmas={'exit': {'len': 'len(self._mac.g_fed) + len(self._cache) == len(old(self._mac.g_fed)) + len(old(self._cache)) + (0 - len(old(self._cache))) % 16',
                                      'aligned': 'len(self._cache) % 16 == 0'}},
                     modifies=RUN_MOD, options={'assume_valid': False}))
    # ------------------------------------------------------------------------------------------------ _start_mac
    # A.2.1/A.2.2: B_0 and the encoded AAD length go first, then everything parked so far
    reg.add(Contract(C + '._start_mac', params={},
                     requires=['self.block_size == 16', 'self._mac_status == 0', 'isinstance(self._cache, list)',
                               'self._assoc_len is not None and self._msg_len is not None',
                               '0 <= self._assoc_len and self._assoc_len < 2 ** 64',
                               '7 <= len(self.nonce) and len(self.nonce) <= 13', 'self._mac_len in (4, 6, 8, 10, 12, 14, 16)',
                               '0 <= self._msg_len and self._msg_len < 256 ** (15 - len(self.nonce))',
                               'self._mac.g_fed == b"" and self._mac.g_iv == bytes(16)'],
                     raises={},
                     ensures=dict(RUN_POST, status='self._mac_status == 1',
                                  stream='%s == spec.aead2.ccm_b0(self.nonce, self._mac_len, self._assoc_len, self._msg_len) + '
                                         'spec.aead2.ccm_hdr(self._assoc_len) + b"".join(old(self._cache))' % S,
                                  started='len(self._mac.g_fed) >= 16'),
                     modifies={'self._cache.*': 'none', 'self._cache': 'bytes', 'self._t': 'bytes', 'self._mac.g_fed': 'bytes', 'self._mac_status': 'int'},
                     bv_width=8, options={'assume_valid': False}))
    return reg


def units(prop, tier):
    return []
