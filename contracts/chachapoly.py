"""Contracts for lib/Crypto/Cipher/ChaCha20_Poly1305.py (C01, C02 glue, C09, C10): ChaCha20Poly1305Cipher, new().

The MAC layer is the byte stream  P = _authenticator.g_fed  (ghost of the native Poly1305 object: everything fed so far).
RFC 8439 2.8 MACs  AAD || pad16 || ciphertext || pad16 || le64(len AAD) || le64(len ciphertext)  under the one-time key
poly1305_key_gen(key, nonce) (2.6).  The methods' contracts say how P grows (update: P' = P ++ aad; first encrypt/decrypt:
P' = pad16(P) ++ ct; later: P' = P ++ ct), so for any call history P = A, then P = pad16(A) ++ C, whatever the segmentation
(C09); _compute_mac gives the tag as Poly1305_otk(pad16(P) ++ le64(len A) ++ le64(len C)) (C01), which is the RFC's input
because pad16(pad16(A) ++ C) = pad16(A) ++ pad16(C).
Domain: RFC 8439 defines the construction for AAD and ciphertext of at most 2^64-1 bytes (the le64 fields).  The code has
no check of its own (the ChaCha20 object stops a 12-byte-nonce message at 2^38 bytes; an 8-byte-nonce object would go on to
2^70), so `_len_aad`, `_len_ct` <= 2^64-1 is a precondition here, not a proved refusal (reported)."""
from vf.pyvc.contracts import Contract, ClassContract
from vf.pyvc.values import *       # noqa
from .base import base_registry
from . import aead1_natives as nat
from .gcm import next_type, next_is, after, add_number, BUFS
from spec import fsm

CP = 'Crypto.Cipher.ChaCha20_Poly1305.'
CC = CP + 'ChaCha20Poly1305Cipher'
CH = 'Crypto.Cipher.ChaCha20.ChaCha20Cipher'
PM = 'Crypto.Hash.Poly1305.Poly1305_MAC'
KEY_ = 'ChaCha20_Poly1305'

P = 'self._authenticator.g_fed'
OP = 'old(self._authenticator.g_fed)'
OTK = 'self._authenticator.g_key'
CKEY, CNONCE = 'self._cipher.g_key', 'self._cipher.g_nonce'
LEN_MAX = '18446744073709551615'       # 2^64 - 1

STATE_NAMES = {('decrypt', 'digest', 'encrypt', 'update', 'verify'): 'init', ('digest', 'encrypt'): 'encrypting',
               ('decrypt', 'verify'): 'decrypting', ('digest',): 'digested', ('verify',): 'verified'}
assert sorted(STATE_NAMES) == sorted(fsm.reach(KEY_))

TAG_NOW = 'spec.aead1.poly1305(%s, spec.aead1.cp_s_input(%s, self._len_aad, self._len_ct))' % (OTK, P)
TAG = '(self._mac_tag if self._mac_tag is not None else %s)' % TAG_NOW

INV = {
    'aad_max': 'self._len_aad <= %s' % LEN_MAX, 'ct_max': 'self._len_ct <= %s' % LEN_MAX,
    # ghost links: the Poly1305 one-time key is the first 32 key-stream bytes of block 0 under the 96-bit nonce (RFC 8439
    # 2.6; a 64-bit nonce is preceded by 32 zero bits, 2.3), the cipher runs on the same key and starts at block 1
    'otk': '%s == spec.aead1.cp_otk(%s, spec.aead1.nonce12(%s))' % (OTK, CKEY, CNONCE),
    'key_len': 'len(%s) == 32' % CKEY,
    'pos': 'self._cipher.g_pos == 64 + self._len_ct',
    'dir_enc': '("encrypt" in self._next) ==> self._cipher.g_dir != 2',
    'dir_dec': '("decrypt" in self._next) ==> self._cipher.g_dir != 1',
    'aad_first': '("update" in self._next) ==> conj(self._status == 1, self._len_ct == 0)',
    'msg_phase': '("update" not in self._next and ("encrypt" in self._next or "decrypt" in self._next)) ==> self._status == 2',
    'no_tag_yet': '("update" in self._next or "encrypt" in self._next or "decrypt" in self._next) ==> self._mac_tag is None',
    'open': 'iff(self._mac_tag is None, self._status != 3)',
    'mac_open': 'impl(self._mac_tag is None, not self._authenticator.g_done)',
    'len_aad': 'impl(self._status == 1, conj(self._len_ct == 0, len(%s) == self._len_aad))' % P,
    'len_msg': 'impl(self._status == 2, len(%s) == self._len_aad + (16 - self._len_aad %% 16) %% 16 + self._len_ct)' % P,
    'fin_len': 'self._mac_tag is not None ==> len(self._mac_tag) == 16',
    'fin_tag': 'impl(self._mac_tag is not None, self._mac_tag == spec.aead1.poly1305(%s, %s))' % (OTK, P),
}
VALID = list(INV.values())
INV = {'inv_' + k: v for k, v in INV.items()}


def ens(d):
    d = dict(d)
    d.update(INV)
    return d


FIELDS = {'_mac_tag': 'bytes|none', '_len_aad': 'nat', '_len_ct': 'nat', '_status': 'int[1..3]',
          '_cipher': 'obj:' + CH, '_authenticator': 'obj:' + PM}


def add_chacha_natives(reg):
    """ChaCha20 cipher object and Poly1305 MAC object (native state behind ctypes) -- abstract, assumed"""
    # --- ChaCha20Cipher: ghost key, nonce (as passed to ChaCha20.new), byte position in the key stream, direction, and the
    # position at which the native block counter refuses to go on (src/chacha20.c ERR_MAX_DATA -> ValueError)
    reg.add(ClassContract(CH, fields={'g_key': 'bytes', 'g_nonce': 'bytes', 'g_pos': 'nat', 'g_dir': 'int[0..2]', 'g_limit': 'int'},
                          valid=['self.g_limit > 64', 'self.g_limit <= 2**70'], abstract=True))
    why = ('native ChaCha20 (src/chacha20.c; bounded: bounded/blockciphers.py ChaCha20.keystream_eq_spec incl. seek, '
           'bounded/modes.py ChaCha20-Poly1305 vs RFC 8439 reference incl. output=)')
    reg.add(Contract(CH + '.seek', params={'self': 'obj:' + CH, 'position': 'int'},
                     raises={'ValueError': ('iff', 'position < 0 or position >= self.g_limit')},
                     sets={'self.g_pos': 'position'}, modifies=['self.g_pos'], options={'exact': True}, assumed=why + ' (seek proved under C11)'))
    for meth, d, other in (('encrypt', 1, 2), ('decrypt', 2, 1)):
        arg = 'plaintext' if meth == 'encrypt' else 'ciphertext'
        val = 'spec.aead1.xor(bytes(%s), spec.aead1.chacha20_ks(self.g_key, self.g_nonce, old(self.g_pos), len(%s)))' % (arg, arg)
        over = 'self.g_pos + len(%s) > self.g_limit' % arg
        sets = {'self.g_pos': 'old(self.g_pos) + len(%s)' % arg, 'self.g_dir': '%d' % d}
        c_ret = Contract('%s.%s#ret' % (CH, meth), params={'self': 'obj:' + CH, arg: 'bytes', 'output': 'none'},
                         raises={'TypeError': ('iff', 'self.g_dir == %d' % other), 'ValueError': ('iff', over)},
                         returns=val, sets=sets, modifies=['self.g_pos', 'self.g_dir'],
                         options={'exact': True, 'on_raise_modifies': ['self.g_pos', 'self.g_dir']}, assumed=why)
        c_out = Contract('%s.%s#out' % (CH, meth), params={'self': 'obj:' + CH, arg: 'bytes', 'output': 'bytearray'},
                         raises={'TypeError': ('iff', 'self.g_dir == %d' % other),
                                 'ValueError': ('iff', 'disj(len(output) != len(%s), %s)' % (arg, over))},
                         ensures={'out': 'bytes(output) == ' + val}, sets=sets, modifies=['output', 'self.g_pos', 'self.g_dir'],
                         options={'on_raise_modifies': ['self.g_pos', 'self.g_dir']}, assumed=why)
        nat.dispatch(reg, '%s.%s' % (CH, meth), ['self', arg, 'output'],
                     lambda E, st, env: 'ret' if env.get('output') is None else 'out', {'ret': c_ret, 'out': c_out})
    # ChaCha20.new(key=, nonce=) as called by ChaCha20Poly1305Cipher.__init__ (8/12-byte nonce, 32-byte key)
    nat.dispatch(reg, 'Crypto.Cipher.ChaCha20.new', [], lambda E, st, env: 'kw' if set(env) == {'key', 'nonce'} else None,
                 {'kw': Contract('Crypto.Cipher.ChaCha20.new#key,nonce', params={'key': 'bytes', 'nonce': 'bytes'},
                                 raises={'ValueError': ('iff', 'len(key) != 32 or len(nonce) not in (8, 12, 24)')},
                                 requires=['len(nonce) != 24'],          # the XChaCha20 route of ChaCha20.new is not used by this class
                                 result='obj:' + CH,
                                 ensures={'id': 'result.g_key == bytes(key) and result.g_nonce == bytes(nonce)',
                                          'fresh': 'result.g_pos == 0 and result.g_dir == 0'},
                                 modifies=[], assumed='ChaCha20.new / ChaCha20Cipher.__init__ (C02; ' + why + ')')})
    # --- Poly1305 MAC object: ghost one-time key (r || s), data fed, finalised flag
    reg.add(ClassContract(PM, fields={'g_key': 'bytes', 'g_fed': 'bytes', 'g_done': 'bool'}, valid=['len(self.g_key) == 32'], abstract=True))
    whyp = 'native Poly1305 (src/poly1305.c; bounded: bounded/hashes.py Poly1305 vs RFC 8439 reference, all cuts)'
    reg.add(Contract(PM + '.update', params={'self': 'obj:' + PM, 'data': 'bytes'},
                     raises={'TypeError': ('iff', 'self.g_done')},
                     sets={'self.g_fed': 'old(self.g_fed) + bytes(data)'}, modifies=['self.g_fed'], returns='self',
                     options={'exact': True}, assumed=whyp))
    reg.add(Contract(PM + '.digest', params={'self': 'obj:' + PM}, returns='spec.aead1.poly1305(self.g_key, self.g_fed)',
                     sets={'self.g_done': 'True'}, modifies=['self.g_done'], options={'exact': True}, assumed=whyp))
    # Poly1305.new(key=, nonce=, cipher=ChaCha20): (r, s) = ChaCha20 block 0 of (key, 96-bit nonce) -- Poly1305.new +
    # ChaCha20._derive_Poly1305_key_pair (RFC 8439 2.6; 64-bit nonces get 32 zero bits in front)
    nat.dispatch(reg, 'Crypto.Hash.Poly1305.new', [], lambda E, st, env: 'kw' if set(env) == {'key', 'nonce', 'cipher'} else None,
                 {'kw': Contract('Crypto.Hash.Poly1305.new#key,nonce,cipher=ChaCha20', params={'key': 'bytes', 'nonce': 'bytes', 'cipher': 'any'},
                                 raises={'ValueError': ('iff', 'len(key) != 32 or len(nonce) not in (8, 12)')}, result='obj:' + PM,
                                 ensures={'otk': 'result.g_key == spec.aead1.cp_otk(bytes(key), spec.aead1.nonce12(bytes(nonce)))',
                                          'fresh': 'result.g_fed == b"" and not result.g_done'},
                                 modifies=[], assumed='Poly1305.new / ChaCha20._derive_Poly1305_key_pair (C03; ' + whyp + ')')})
    reg.add(Contract('Crypto.Cipher.ChaCha20._HChaCha20', params={'key': 'bytes', 'nonce': 'bytes'},
                     requires=['len(key) == 32', 'len(nonce) == 16'],          # = its asserts
                     returns='spec.aead1.hchacha20(bytes(key), bytes(nonce))', modifies=[], options={'exact': True},
                     assumed='native hchacha20 (src/chacha20.c; bounded: bounded/blockciphers.py XChaCha20 vs reference)'))


def registry(state=None, buf='buffer', out='none|bytearray'):
    reg = base_registry()
    add_number(reg)
    nat.add_random(reg)
    nat.add_blake2s_compare(reg)
    add_chacha_natives(reg)
    t = fsm.FSM[KEY_]
    state = tuple(t['init']) if state is None else tuple(state)
    M = t['methods']
    fields = dict(FIELDS)
    fields['_next'] = next_type(state, as_tuple=True)
    if set(state) & {'update', 'encrypt', 'decrypt'}:
        fields['_mac_tag'] = 'none'
    reg.add(ClassContract(CC, fields=fields, valid=VALID))
    OPQ = ['spec.aead1.cp_otk', 'spec.aead1.nonce12', 'spec.aead1.cp_s_input']

    # ------------------------------------------------------------------ update (C09/C10)
    ok = '"update" in self._next'
    reg.add(Contract(CC + '.update', params={'data': buf}, requires=['self._len_aad + len(data) <= %s' % LEN_MAX],
                     raises={'TypeError': ('iff', 'not (%s)' % ok)},
                     ensures=ens({'stream': '%s == %s + bytes(data)' % (P, OP), 'len_aad': 'self._len_aad == old(self._len_aad) + len(data)',
                                  'next': next_is(M, after(KEY_, 'update')), 'none': 'result is None'}),
                     modifies=['self._len_aad', 'self._authenticator.g_fed'], unchanged_on_raise=['TypeError'], opaque=OPQ + ['spec.aead1.pad16']))
    # _pad_aad: only called in the associated-data phase (its assert); P' = pad16(P)
    reg.add(Contract(CC + '._pad_aad', params={}, requires=['self._status == 1', 'len(%s) == self._len_aad' % P, 'not self._authenticator.g_done'],
                     raises={}, ensures={'stream': '%s == spec.aead1.pad16(%s)' % (P, OP), 'status': 'self._status == 2'},
                     modifies=['self._status', 'self._authenticator.g_fed'], options={'assume_valid': False}))

    # ------------------------------------------------------------------ encrypt / decrypt
    def ks(arg):
        return 'spec.aead1.chacha20_ks(%s, %s, 64 + old(self._len_ct), len(%s))' % (CKEY, CNONCE, arg)
    for meth, arg in (('encrypt', 'plaintext'), ('decrypt', 'ciphertext')):
        ok = '"%s" in self._next' % meth
        mismatch = '(output is not None and len(output) != len(%s))' % arg
        val = 'spec.aead1.xor(bytes(%s), %s)' % (arg, ks(arg))
        ctv = '(result if output is None else bytes(output))' if meth == 'encrypt' else 'bytes(ciphertext)'
        nat.by_output(reg, Contract('%s.%s' % (CC, meth), params={arg: buf, 'output': out},
                      requires=['self._len_ct + len(%s) <= %s' % (arg, LEN_MAX)],
                      raises={'TypeError': ('iff', 'not (%s)' % ok),
                              'ValueError': ('iff', '%s and disj(%s, 64 + self._len_ct + len(%s) > self._cipher.g_limit)' % (ok, mismatch, arg))},
                      ensures=ens({'value': '(output is None ==> result == %s) and (output is not None ==> (result is None and bytes(output) == %s))' % (val, val),
                                   'stream_first': 'impl(old(self._status) == 1, %s == spec.aead1.pad16(%s) + %s)' % (P, OP, ctv),
                                   'stream_next': 'impl(old(self._status) == 2, %s == %s + %s)' % (P, OP, ctv),
                                   'lengths': 'conj(self._len_ct == old(self._len_ct) + len(%s), self._len_aad == old(self._len_aad), self._status == 2)' % arg,
                                   'next': next_is(M, after(KEY_, meth))}),
                      sets={'self._next': repr(tuple(after(KEY_, meth)))},
                      modifies=['self._next', 'self._status', 'self._authenticator.g_fed', 'self._len_ct', 'self._cipher.g_pos',
                                'self._cipher.g_dir', 'output'],
                      unchanged_on_raise=['TypeError'], opaque=OPQ))

    # ------------------------------------------------------------------ tag
    fin_mod = ['self._mac_tag', 'self._status', 'self._authenticator.g_fed', 'self._authenticator.g_done']
    idem = ('old(self._mac_tag is not None) ==> (self._mac_tag == old(%s) and self._status == old(self._status) and ' % TAG +
            '%s == %s and self._authenticator.g_done == old(self._authenticator.g_done))' % (P, OP))
    closed = 'not ("update" in self._next or "encrypt" in self._next or "decrypt" in self._next)'
    reg.add(Contract(CC + '._compute_mac', params={}, requires=['valid(self)', closed], raises={},
                     ensures=ens({'tag': 'result == old(%s)' % TAG, 'cached': 'self._mac_tag == result', 'idempotent': idem}),
                     sets={'self._mac_tag': 'old(%s)' % TAG}, returns='old(%s)' % TAG,
                     lemmas={'exit': {
                         'residue': 'impl(old(self._status == 2), old(len(%s) %% 16 == self._len_ct %% 16))' % P,
                         'stream': 'old(self._mac_tag is None) ==> %s == spec.aead1.pad16(%s) + spec.aead1.u64le(self._len_aad) + spec.aead1.u64le(self._len_ct)' % (P, OP)}},
                     modifies=fin_mod, opaque=['spec.aead1.cp_otk', 'spec.aead1.nonce12']))
    reg.add(Contract(CC + '.digest', params={}, raises={'TypeError': ('iff', 'not ("digest" in self._next)')},
                     ensures=ens({'tag': 'result == old(%s)' % TAG, 'cached': 'self._mac_tag == result', 'idempotent': idem,
                                  'next': next_is(M, after(KEY_, 'digest'))}),
                     sets={'self._next': repr(tuple(after(KEY_, 'digest'))), 'self._mac_tag': 'old(%s)' % TAG}, returns='old(%s)' % TAG,
                     modifies=['self._next'] + fin_mod, unchanged_on_raise=['TypeError'], opaque=OPQ + ['spec.aead1.pad16']))
    reg.add(Contract(CC + '.verify', params={'received_mac_tag': buf},
                     raises={'TypeError': ('iff', 'not ("verify" in self._next)'),
                             'ValueError': ('iff', '"verify" in self._next and bytes(received_mac_tag) != %s' % TAG)},
                     ensures=ens({'cached': 'self._mac_tag == old(%s)' % TAG, 'idempotent': idem, 'none': 'result is None',
                                  'next': next_is(M, after(KEY_, 'verify'))}),
                     on_raise={'ValueError': ['self._mac_tag == old(%s)' % TAG, next_is(M, after(KEY_, 'verify')), idem]},
                     sets={'self._next': repr(tuple(after(KEY_, 'verify'))), 'self._mac_tag': 'old(%s)' % TAG},
                     modifies=['self._next'] + fin_mod, unchanged_on_raise=['TypeError'], opaque=OPQ + ['spec.aead1.pad16'],
                     options={'on_raise_modifies': ['self._next'] + fin_mod}))
    # ------------------------------------------------------------------ one-call forms
    def s_after(ct):
        return '(ite(self._status == 1, spec.aead1.pad16(%s), %s) + %s)' % (P, P, ct)
    ct_val = 'spec.aead1.xor(bytes(plaintext), %s)' % ks('plaintext')
    both_mod = ['self._next', 'self._status', 'self._authenticator.g_fed', 'self._len_ct', 'self._cipher.g_pos', 'self._cipher.g_dir',
                'self._mac_tag', 'self._authenticator.g_done']
    tag_e = ('spec.aead1.poly1305(%s, spec.aead1.cp_s_input(%s, self._len_aad, self._len_ct + len(plaintext)))'
             % (OTK, s_after(ct_val.replace('old(self._len_ct)', 'self._len_ct'))))
    tag_d = ('spec.aead1.poly1305(%s, spec.aead1.cp_s_input(%s, self._len_aad, self._len_ct + len(ciphertext)))' % (OTK, s_after('bytes(ciphertext)')))
    reg.add(Contract(CC + '.encrypt_and_digest', params={'plaintext': buf}, requires=['self._len_ct + len(plaintext) <= %s' % LEN_MAX],
                     raises={'TypeError': ('iff', 'not ("encrypt" in self._next)'),
                             'ValueError': ('iff', '"encrypt" in self._next and 64 + self._len_ct + len(plaintext) > self._cipher.g_limit')},
                     ensures={'ciphertext': 'result[0] == %s' % ct_val, 'tag': 'result[1] == old(%s)' % tag_e, 'cached': 'self._mac_tag == result[1]',
                              'next': next_is(M, after(KEY_, 'digest'))},
                     modifies=both_mod, unchanged_on_raise=['TypeError'], opaque=OPQ + ['spec.aead1.pad16']))
    reg.add(Contract(CC + '.decrypt_and_verify', params={'ciphertext': buf, 'received_mac_tag': buf},
                     requires=['self._len_ct + len(ciphertext) <= %s' % LEN_MAX],
                     raises={'TypeError': ('iff', 'not ("decrypt" in self._next)'),
                             'ValueError': ('iff', '"decrypt" in self._next and disj(64 + self._len_ct + len(ciphertext) > self._cipher.g_limit, '
                                                   'bytes(received_mac_tag) != %s)' % tag_d)},
                     ensures={'plaintext': 'result == spec.aead1.xor(bytes(ciphertext), %s)' % ks('ciphertext'),
                              'cached': 'self._mac_tag == old(%s)' % tag_d, 'next': next_is(M, after(KEY_, 'verify'))},
                     modifies=both_mod, unchanged_on_raise=['TypeError'], opaque=OPQ + ['spec.aead1.pad16']))

    # ------------------------------------------------------------------ construction (C02 glue)
    fresh = ('conj(%s == b"", self._len_aad == 0, self._len_ct == 0, self._status == 1, self._cipher.g_dir == 0, not self._authenticator.g_done)' % P)
    nat.ctor_at_call_sites(reg, Contract(CC + '.__init__', params={'key': buf, 'nonce': buf},
                           raises={'ValueError': ('iff', 'len(key) != 32 or len(nonce) not in (8, 12)')},
                           ensures=ens({'cipher': 'conj(%s == bytes(key), %s == bytes(nonce))' % (CKEY, CNONCE), 'fresh': fresh,
                                        'no_tag': 'self._mac_tag is None', 'next': next_is(M, t['init'])}),
                           sets={'self._next': repr(tuple(t['init']))},
                           modifies=['self.*'], options={'assume_valid': False}, opaque=['spec.aead1.cp_otk', 'spec.aead1.nonce12']),
                           dict(FIELDS, _mac_tag='none'))
    # new(**kwargs): key, nonce (optional; None = absent); XChaCha20-Poly1305 for 24-byte nonces (draft-irtf-cfrg-xchacha 2.3)
    HK = '"key" in kwargs'
    NG = '("nonce" in kwargs and kwargs["nonce"] is not None)'
    BADV = '(len(kwargs["key"]) != 32 or (%s and len(kwargs["nonce"]) not in (8, 12, 24)))' % NG
    EXTRA = '(len(kwargs) > (2 if "nonce" in kwargs else 1))'
    R = lambda c: c.replace('self.', 'result.')       # noqa
    rk, rn = 'result._cipher.g_key', 'result._cipher.g_nonce'
    new_ens = {R(k): R(v) for k, v in INV.items()}
    new_ens.update({
        'nonce_attr': '(%s ==> result.nonce == bytes(old(kwargs["nonce"]))) and (not %s ==> len(result.nonce) == 12)' % (NG.replace('kwargs', 'old(kwargs)'), NG.replace('kwargs', 'old(kwargs)')),
        'key': '%s == (spec.aead1.hchacha20(bytes(old(kwargs["key"])), result.nonce[:16]) if len(result.nonce) == 24 else bytes(old(kwargs["key"])))' % rk,
        'cipher_nonce': '%s == (b"\\x00\\x00\\x00\\x00" + result.nonce[16:] if len(result.nonce) == 24 else result.nonce)' % rn,
        'fresh': R(fresh), 'no_tag': 'result._mac_tag is None', 'next': R(next_is(M, t['init']))})
    reg.add(Contract(CP + 'new', params={'kwargs': 'dict(key:bytes,nonce:bytes)'},
                     raises={'TypeError': ('iff', 'not %s or (not %s and %s)' % (HK, BADV, EXTRA)), 'ValueError': ('iff', '%s and %s' % (HK, BADV))},
                     ensures=new_ens, modifies=['kwargs'], options={'assume_valid': False}, opaque=['spec.aead1.cp_otk', 'spec.aead1.nonce12']))
    return reg


def _st(name):
    for k, v in STATE_NAMES.items():
        if v == name:
            return k
    raise KeyError(name)


PERMITTED = {'update': ['init'], 'encrypt': ['init', 'encrypting'], 'decrypt': ['init', 'decrypting'],
             'digest': ['init', 'encrypting', 'digested'], 'verify': ['init', 'decrypting', 'verified'],
             'encrypt_and_digest': ['init', 'encrypting'], 'decrypt_and_verify': ['init', 'decrypting']}
NEW_KW = ['dict(key:bytes,nonce:bytes)', 'dict(key:bytearray,nonce:memoryview)', 'dict(key:memoryview,nonce:bytearray)',
          'dict(key:bytes)', 'dict(key:bytes,nonce:none)', 'dict(nonce:bytes)', 'dict()', 'dict(key:bytes,nonce:bytes,mac_len:int)',
          'dict(key:bytes,unknown:int)']


def _reg_with(target, params, state=None):
    reg = registry(state)
    c = reg.contracts[target]
    c.params = dict(c.params, **params)
    return reg


def units(prop, tier):
    from vf.pyunit import pyvc_unit
    import functools
    out = []
    quick = tier == 'quick'

    def u(targets, state='init', buf='buffer', out_t='none|bytearray', tag=''):
        uid = 'chachapoly.%s%s@%s' % ('+'.join(targets), tag, state)
        out.append(pyvc_unit(prop, uid, functools.partial(registry, _st(state), buf, out_t), [CC + '.' + t for t in targets]))

    def per_buf(target, states, bufs=BUFS):
        for s in states:
            for b in bufs:
                u([target], s, b, tag='[%s]' % b)
    one = ['bytes'] if quick else BUFS
    init3 = [('bytes', 'bytes'), ('bytearray', 'memoryview'), ('memoryview', 'bytearray')] if quick else [(a, b) for a in BUFS for b in BUFS]

    def ctor():
        for k, n in init3:
            out.append(pyvc_unit(prop, 'chachapoly.__init__[key:%s,nonce:%s]' % (k, n),
                                 functools.partial(_reg_with, CC + '.__init__', {'key': k, 'nonce': n}), [CC + '.__init__']))
        out.append(pyvc_unit(prop, 'chachapoly.new', functools.partial(_reg_with, CP + 'new', {'kwargs': '|'.join(NEW_KW)}), [CP + 'new']))
    if prop == 'C09':
        u(['update', '_pad_aad'])
        per_buf('encrypt', PERMITTED['encrypt'])
        per_buf('decrypt', PERMITTED['decrypt'])
    elif prop == 'C10':
        for m in ('update', 'encrypt', 'decrypt', 'digest', 'verify', 'encrypt_and_digest', 'decrypt_and_verify'):
            for s in STATE_NAMES.values():
                if s in PERMITTED[m]:
                    per_buf(m, [s], ['bytes'] if m != 'update' else ['buffer'])
                else:
                    u([m], s, 'bytes', tag='[forbidden]')
        u(['_compute_mac'], 'digested')
        u(['_compute_mac'], 'verified')
    elif prop == 'C01':
        per_buf('verify', PERMITTED['verify'], BUFS if not quick else ['bytes', 'bytearray'])
        u(['_compute_mac'], 'digested')
        u(['_compute_mac'], 'verified')
        for s in PERMITTED['digest']:
            u(['digest'], s)
        per_buf('decrypt_and_verify', PERMITTED['decrypt_and_verify'], one)
        per_buf('encrypt_and_digest', PERMITTED['encrypt_and_digest'], one)
    elif prop == 'C02':
        ctor()
        per_buf('encrypt', PERMITTED['encrypt'], one)
        per_buf('decrypt', PERMITTED['decrypt'], one)
    return out


# NOT PROVED: hexdigest / hexverify (string formatting, binascii: outside the subset); output= as writable memoryview / aliased with the input.
# Domain note (reported): no AAD / ciphertext length check in the class; `_len_aad`, `_len_ct` <= 2^64-1 are preconditions.
#
# Vacuity / strength check (tools/mut.py, quick tier, 2026-09-26): semantic mutants -> exit 1 on the named obligation; benign -> exit 0.
#   C09  encrypt: `_authenticator.update(result)` -> `update(plaintext)`          -> encrypt.ensures.stream_first
#   C09  _pad_aad: `16 - (self._len_aad & 0x0F)` -> `15 - ...`                    -> _pad_aad.ensures.stream
#   C09  update: `self._len_aad += len(data)` -> `+= 1`                           -> update.ensures.inv_len_aad, .len_aad
#   C09  benign: encrypt's local `result` split into `ct` / `result`              -> exit 0
#   C10  decrypt: successor `("decrypt","verify")` + "digest"                     -> decrypt.ensures.next
#   C10  verify: guard -> `if False`                                              -> verify.raises_iff.TypeError (state `encrypting`)
#   C01  _compute_mac: le64(len ct) written big endian (no `[::-1]`)              -> _compute_mac.lemma.stream
#   C01  _compute_mac: first length field `_len_aad` -> `_len_ct`                 -> _compute_mac.lemma.stream
#   C01  verify: `data=received_mac_tag` -> `received_mac_tag[:16]`               -> verify.raises_iff.ValueError
#   C02  new: `_HChaCha20(key, nonce[:16])` -> `nonce[8:24]`                      -> new.ensures.key
#   C02  new: XChaCha nonce prefix `\0\0\0\0` -> `\0\0\0\1`                       -> new.ensures.cipher_nonce
#   C02  new: `len(nonce) in (8, 12)` -> `(8, 12, 16)`                            -> new.raises_iff.TypeError.only_if
#   C02  __init__: `self._cipher.seek(64)` -> `seek(0)`                           -> __init__.ensures.inv_pos
