"""Contracts for the cipher factories: lib/Crypto/Cipher/__init__.py (_create_cipher), AES.py, DES.py, DES3.py, Blowfish.py,
CAST.py, ARC2.py (_create_base_cipher, adjust_key_parity).                       Properties C02, C16, C17, C19.

Native side: `<X>_start_operation(key, key_len, pResult)` of src/block_common.c (CIPHER_START_OPERATION) is a python model
(it allocates the abstract native state through the out-parameter); `<X>_stop_operation` is an assumed contract.
The abstract native state is native.State (see native_classes): one class for block-cipher states (g_kind == 0) and the
mode states that own them (g_kind == 1..5)."""
import z3

from vf.pyvc.contracts import Contract, ClassContract
from vf.pyvc.values import Ref, zint
from .base import base_registry
from . import rawapi
from .rawapi import val

C = 'Crypto.Cipher.'
SP = rawapi.SMARTPTR
ALG = {'AES': 1, 'DES': 2, 'DES3': 3, 'Blowfish': 4, 'CAST': 5, 'ARC2': 6}       # spec.modes.ALG
BLOCK = {'AES': 16, 'DES': 8, 'DES3': 8, 'Blowfish': 8, 'CAST': 8, 'ARC2': 8}     # FIPS 197 / FIPS 46-3 / the 64-bit block ciphers
LIBS = {
    # cipher module: (library global, native library name, C prefix)
    'AES': ('_raw_aes_lib', 'native.raw_aes', 'AES'),
    'DES': ('_raw_des_lib', 'native.raw_des', 'DES'),
    'DES3': ('_raw_des3_lib', 'native.raw_des3', 'DES3'),
    'Blowfish': ('_raw_blowfish_lib', 'native.raw_blowfish', 'Blowfish'),
    'CAST': ('_raw_cast_lib', 'native.raw_cast', 'CAST'),
    'ARC2': ('_raw_arc2_lib', 'native.raw_arc2', 'ARC2'),
}
KIND = {'cipher': 0, 'ecb': 1, 'cbc': 2, 'cfb': 3, 'ofb': 4, 'ctr': 5}

STATE_FIELDS = {'g_kind': 'int[0..5]', 'g_alg': 'int[1..6]', 'g_impl': 'int[0..1]', 'g_key': 'bytes', 'g_block_len': 'int[8..16]',
                'g_iv': 'bytes', 'g_seg': 'int[1..16]', 'g_prefix_len': 'int[0..15]', 'g_counter_len': 'int[1..16]', 'g_le': 'bool',
                'g_fed': 'bytes', 'g_dir': 'int[0..2]', 'g_freed': 'bool', 'g_owned': 'bool'}


def native_classes(reg):
    if 'native.State' not in reg.classes:
        reg.add(ClassContract('native.State', fields=dict(STATE_FIELDS),
                              valid=['self.g_block_len == 8 or self.g_block_len == 16'], abstract=True,
                              doc='a native allocation behind a void*: g_kind 0 = BlockBase* of <cipher>_start_operation (g_alg, g_impl 1 = AES-NI, '
                                  'g_key, g_block_len; g_owned = handed over to a mode state), 1..5 = state of src/raw_<mode>.c (configuration '
                                  'g_iv = IV / initial counter block, g_seg, g_prefix_len, g_counter_len, g_le; g_fed = every byte processed so '
                                  'far; g_dir = 0 fresh / 1 encrypting / 2 decrypting); g_freed = released'))


def new_state(st, **kw):
    f = {'g_kind': 0, 'g_alg': 1, 'g_impl': 0, 'g_key': b'', 'g_block_len': 16, 'g_iv': b'', 'g_seg': 1, 'g_prefix_len': 0,
         'g_counter_len': 1, 'g_le': False, 'g_fed': b'', 'g_dir': 0, 'g_freed': False, 'g_owned': False}
    f.update(kw)
    return rawapi.new_native(st, 'native.State', **f)


def start_model(name, impl=0, prefix=None):
    """<X>_start_operation(key, key_len[, effective_key_len], pResult): 0 and a fresh BlockBase iff the key length is legal"""
    alg = ALG[name]

    def model(E, st, args, kwargs):
        if name == 'ARC2':
            key, key_len, ekl, cell = args
        else:
            key, key_len, cell = args
            ekl = None
        env = {'key': key, 'key_len': key_len, 'pResult': cell, 'effective_key_len': ekl}
        rawapi.oblige_pre(E, st, '%s_start_operation' % (prefix or name),
                          ['key_len == len(key)',                                  # the length passed is the length of the buffer passed
                           'pResult.g_ptr is None'], env)                          # out-parameter: an empty cell
        outs = []
        bad = 'not spec.modes.key_len_ok(%d, key_len)' % alg
        if name == 'ARC2':
            bad += ' or not (40 <= effective_key_len and effective_key_len <= 1024)'
        from vf.pyvc.interp import Frame
        fr = Frame(dict(env), None)
        fr.spec_mode = True
        st.frames.append(fr)
        try:
            from vf.pyvc.contracts import eval_clause, _as_z3
            t = _as_z3(eval_clause(E, bad, st))
        finally:
            st.frames.pop()
        err, ok = E.split(st, t)
        if err is not None:
            r = E.fresh_int('err')
            err.assume(r.t != 0)
            outs += val(err, r)
        if ok is not None:
            data = rawapi.buf_data(ok, key)
            from vf.pyvc.values import SBytes, zbytes
            data = data if isinstance(data, bytes) else SBytes(zbytes(data), 'bytes')
            ref = new_state(ok, g_kind=0, g_alg=alg, g_impl=impl, g_key=data, g_block_len=BLOCK[name])
            ok.heap[cell.oid].fields['g_ptr'] = ref
            ok.writes.append((cell.oid, 'g_ptr'))
            outs += val(ok, 0)
        return outs
    return model


def stop_contract(libname, cname, impl=0, alg=None):
    return Contract('%s.%s' % (libname, cname), params={'state': 'obj:native.State'},
                    requires=['state is not None and state.g_kind == 0 and not state.g_freed and not state.g_owned',      # no double free, not owned by a mode
                              'state.g_impl == %d' % impl] + (['state.g_alg == %d' % alg] if alg else []),               # freed by the library that allocated it
                    result='int', modifies=['state.g_freed'], ensures={'freed': 'state.g_freed', 'code': 'result == 0'},
                    assumed='src/block_common.c CIPHER_STOP_OPERATION (CVC C17: free of the state allocated by the matching start)')


def install_cipher_lib(reg, name, have_aesni=True):
    g, libname, P = LIBS[name]
    rawapi.install_lib(reg, C + name + '.' + g, libname,
                       {P + '_start_operation': start_model(name), P + '_stop_operation': stop_contract(libname, P + '_stop_operation', 0, ALG[name])})
    if name == 'AES':
        if have_aesni:
            rawapi.install_lib(reg, C + 'AES._raw_aesni_lib', 'native.raw_aesni',
                               {'AESNI_start_operation': start_model('AES', impl=1, prefix='AESNI'),
                                'AESNI_stop_operation': stop_contract('native.raw_aesni', 'AESNI_stop_operation', 1, 1)})
        else:
            reg.overrides[C + 'AES._raw_aesni_lib'] = None


# ------------------------------------------------------------------------------------------------ _create_base_cipher

KEYT = ('bytes', 'bytearray', 'memoryview')


def dict_shapes(required, optional, extra=()):
    """union of dict(...) types: every subset of the optional entries, each with every listed type; `required`/`optional`/`extra`
    are lists of (key, [types])"""
    import itertools
    alts = []
    entries = [(k, ts, True) for k, ts in required] + [(k, ts, False) for k, ts in optional] + [(k, ts, False) for k, ts in extra]
    choices = []
    for k, ts, req in entries:
        choices.append([(k, t) for t in ts] + ([] if req else [None]))
    for combo in itertools.product(*choices):
        alts.append('dict(%s)' % ','.join('%s:%s' % kt for kt in combo if kt is not None))
    return '|'.join(alts)


def keyok_expr(name, keyexpr):
    """clause: the key (a buffer expression) is acceptable for the cipher"""
    if name == 'DES3':
        return 'spec.modes.tdes_key_ok(bytes(%s))' % keyexpr
    return 'spec.modes.key_len_ok(%d, len(%s))' % (ALG[name], keyexpr)


def key_value_expr(name, keyexpr):
    """clause: the key the native state is keyed with (TDES: after parity adjustment)"""
    if name == 'DES3':
        return 'spec.modes.des_parity(bytes(%s))' % keyexpr
    return 'bytes(%s)' % keyexpr


KEY_OPAQUE = ['spec.modes.key_len_ok', 'spec.modes.tdes_key_ok', 'spec.modes.des_parity']
AKP = C + 'DES3.adjust_key_parity'


def adjust_key_parity_contract(variant='call'):
    """DES3.adjust_key_parity: odd parity per byte; refusal iff the key is not a TDEA key (length, K1 == K2 or K2 == K3).
    variant 'call' = the form callers use (any length, spec functions opaque); 'tdes' / 'badlen' = the two instances it is
    proved in: exactly 16 / 24 individual bytes (the function iterates over the key), and every other length"""
    params = {'key_in': 'bytes'}
    requires = []
    if variant == 'tdes':
        params = {'key_in': 'bytes<16>|bytes<24>'}
    elif variant == 'badlen':
        requires = ['len(key_in) != 16 and len(key_in) != 24']
    elif variant == 'all_bytes':
        # ground instances (same obligations, concrete keys): every byte value 0..255 occurs (16 keys of 16 consecutive values), plus
        # 24-byte keys with K1 == K2, K2 == K3, K1 == K3 (legal: two-key TDEA spelled out) and keys that differ in parity bits only.
        # z3 proves the symbolic instances but does not find counter-models for a wrong parity rule; these instances decide it.
        lit = lambda b: 'const:b"' + ''.join('\\x%02x' % x for x in b) + '"'
        keys = [bytes(range(16 * i, 16 * i + 16)) for i in range(16)]
        k1, k2, k3 = bytes(range(1, 9)), bytes(range(17, 25)), bytes(range(33, 41))
        keys += [k1 + k1 + k3, k1 + k2 + k2, k1 + k2 + k1, k1 + k2 + k3, k1 + bytes(x ^ 1 for x in k1), k1 + k2 + bytes(x ^ 1 for x in k2)]
        params = {'key_in': '|'.join(lit(k) for k in keys)}
    extra = {}
    if variant == 'all_bytes':
        # the same statement byte by byte, on the ground instances only: for symbolic keys these two are consequences of `value`
        # (des_parity is the per-byte fold) that cost z3 minutes and flip with the solver seed (seed 1: time-out), so they are not
        # restated there; nothing is lost, `value` is the stronger clause
        extra = {'parity_first': 'result[0] == spec.modes.odd_parity_fold(key_in[0])',
                 'parity_last': 'result[len(key_in) - 1] == spec.modes.odd_parity_fold(key_in[len(key_in) - 1])'}
    return Contract(AKP, params=params, requires=requires,
                    raises={'ValueError': ('iff', 'not spec.modes.tdes_key_ok(key_in)')},
                    ensures={**extra, 'value': 'result == spec.modes.des_parity(key_in)', 'len': 'len(result) == len(key_in)',
                             'len_ok': 'len(result) == 16 or len(result) == 24', 'bytes': 'isinstance(result, bytes)'},
                    result='bytes', modifies=[], options={'bit_arith': True}, opaque=KEY_OPAQUE if variant == 'call' else [])


def parity_lemma_contract():
    ones = ' + '.join('result // %d %% 2' % (2 ** i) for i in range(8))
    return Contract('spec.modes.lemma_parity', params={'b': 'int[0..255]'}, raises={},
                    lemmas={'exit': {'arith': 'result == spec.modes.odd_parity(b)'}},    # the declarative (arithmetic) definition, proved first
                    ensures={'key_bits': 'result // 2 == b // 2 and 0 <= result and result <= 255',      # FIPS 46-3: bits 7..1 are the key material
                             'odd': '(%s) %% 2 == 1' % ones},                         # ... and the byte has an odd number of ones
                    modifies=[], options={'bit_arith': True})


def base_cipher_contract(name, have_aesni=True, for_call=False):
    """<cipher>._create_base_cipher(dict_parameters): pops its own parameters, checks the key length, returns a SmartPointer
    that owns a live native block-cipher state keyed with exactly the key passed"""
    alg = ALG[name]
    q = C + name + '._create_base_cipher'
    own = ['key'] + (['use_aesni'] if name == 'AES' else []) + (['effective_keylen'] if name == 'ARC2' else [])
    opt = []
    if name == 'AES':
        opt.append(('use_aesni', ['bool']))
    if name == 'ARC2':
        opt.append(('effective_keylen', ['int']))
    shapes = dict_shapes([], [('key', KEYT)] + opt, extra=[('iv', ['bytes'])])
    P = 'result._raw_pointer'
    keyok = keyok_expr(name, "dict_parameters['key']")
    bad = "'key' in dict_parameters and not %s" % keyok
    if name == 'ARC2':
        bad = "'key' in dict_parameters and (not %s or not (40 <= dict_parameters.get('effective_keylen', 1024) and dict_parameters.get('effective_keylen', 1024) <= 1024))" % keyok
    ensures = {
        'popped': ' and '.join("'%s' not in dict_parameters" % k for k in own),
        'rest': "('iv' in dict_parameters) == old('iv' in dict_parameters) and len(dict_parameters) == (1 if 'iv' in dict_parameters else 0)",
        'rest_value': "'iv' in dict_parameters ==> dict_parameters['iv'] == old(dict_parameters['iv'])",
        'state': '%s.g_kind == 0 and %s.g_alg == %d and %s.g_block_len == %d and not %s.g_freed and not %s.g_owned' % (P, P, alg, P, BLOCK[name], P, P),
        'key': "%s.g_key == old(%s)" % (P, key_value_expr(name, "dict_parameters['key']")),
    }
    stop = LIBS[name][2] + '_stop_operation'
    if name == 'AES':
        # C16: use_aesni only selects the library; both routes share the key-length check (the raises clauses do not mention it)
        ensures['impl'] = "%s.g_impl == (1 if (old(dict_parameters.get('use_aesni', True)) and %s) else 0)" % (P, have_aesni)
        ensures['pair'] = "result._destructor.__name__ == ('AESNI_stop_operation' if %s.g_impl == 1 else 'AES_stop_operation')" % P
    else:
        ensures['impl'] = '%s.g_impl == 0' % P
        ensures['pair'] = "result._destructor.__name__ == '%s'" % stop
    if for_call:
        # shape of the keyword record at call sites is whatever the caller holds: `rest*` are replaced by the dict_pops effect
        del ensures['rest'], ensures['rest_value'], ensures['popped'], ensures['pair']      # (the destructor is an opaque value for callers)
    return Contract(q, params={'dict_parameters': shapes},
                    raises={'TypeError': ('iff', "'key' not in dict_parameters"), 'ValueError': ('iff', bad)},
                    ensures=ensures, result='obj:' + SP, modifies=None, opaque=KEY_OPAQUE[1:] if name == 'DES3' else [],
                    options={'dict_pops': {'dict_parameters': own}})


# ------------------------------------------------------------------------------------------------ Cipher._create_cipher

MODE_FACTORIES = ['ecb', 'cbc', 'cfb', 'ofb', 'ctr', 'openpgp', 'eax', 'ccm', 'siv', 'gcm', 'ocb', 'kw', 'kwp']
CC = C + '_create_cipher'


def made_model(which):
    """abstract _create_<which>_cipher(factory, **kwargs): returns an object that records which constructor ran, for which
    factory, with which keyword record (a snapshot)"""
    def model(E, st, args, kwargs):
        from vf.pyvc.values import HObj
        snap = st.alloc(HObj('dict', items=dict(kwargs)))
        ref = rawapi.new_native(st, 'native.Made', g_which=which, g_factory=getattr(args[0], 'name', None) if args else None, g_kwargs=snap, g_nargs=len(args))
        return val(st, ref)
    return model


def create_cipher_contract(name, extra):
    ex = 'True' if extra else 'False'
    shapes = ['dict()', 'dict(nonce:bytes)', 'dict(IV:bytes)', 'dict(segment_size:int)']
    if extra:
        shapes = ['dict(add_aes_modes:const:True%s)' % (',' + x[5:-1] if x != 'dict()' else '') for x in shapes]
    pos = 'spec.modes.positional_parameter(mode)'
    sel = 'spec.modes.mode_factory(mode, %s)' % ex
    K = 'result.g_kwargs'
    toomany = '(len(args) > 1 and %s is not None) or (len(args) > 0 and (mode == 1 or mode == 6))' % pos
    return Contract(CC, params={'factory': 'module:Crypto.Cipher.' + name, 'key': 'bytes', 'mode': 'int', 'args': 'tuple()|tuple(bytes)|tuple(bytes,bytes)',
                                'kwargs': '|'.join(shapes)},
                    raises={'TypeError': ('iff', toomany), 'ValueError': ('iff', 'not (%s) and %s is None' % (toomany, sel))},
                    ensures={'dispatch': 'result.g_which == %s' % sel,
                             'factory': "result.g_factory == 'Crypto.Cipher.%s' and result.g_nargs == 1" % name,       # the same factory module, alone
                             'key': "%s['key'] == key" % K,
                             'positional': "(len(args) == 1 and %s is not None) ==> %s[%s] == args[0]" % (pos, K, pos),
                             'private': "'add_aes_modes' not in %s" % K,
                             # nothing else is added or lost: every caller keyword is passed on unchanged
                             'passed_on': "all([k in %s for k in old(kwargs.keys()) if k != 'add_aes_modes']) and "
                                          "len(%s) == old(len(kwargs)) - %d + 1 + (1 if (len(args) == 1 and %s is not None and %s not in old(kwargs.keys())) else 0)"
                                          % (K, K, 1 if extra else 0, pos, pos),
                             'values': "('segment_size' in %s ==> %s['segment_size'] == old(kwargs['segment_size'])) and "
                                       "((len(args) == 0 and 'nonce' in %s) ==> %s['nonce'] == old(kwargs['nonce'])) and "
                                       "((len(args) == 0 and 'IV' in %s) ==> %s['IV'] == old(kwargs['IV']))" % (K, K, K, K, K, K)},
                    modifies=['kwargs'])


def create_cipher_registry(name='AES', extra=True):
    reg = base_registry()
    reg.add(ClassContract('native.Made', fields={'g_which': 'str', 'g_factory': 'any', 'g_kwargs': 'any', 'g_nargs': 'int'}, abstract=True))
    mods = {'kw': '_mode_kw', 'kwp': '_mode_kwp'}
    for w in MODE_FACTORIES:
        reg.models[C + mods.get(w, '_mode_' + w) + '._create_%s_cipher' % w] = made_model(w)
    reg.add(create_cipher_contract(name, extra))
    return reg


def registry(name='AES', have_aesni=True, akp=None):
    reg = base_registry()
    if akp == 'lemma':
        reg.add(parity_lemma_contract())
        return reg
    if akp:
        reg.add(adjust_key_parity_contract(akp))
        return reg
    rawapi.install_glue(reg)
    native_classes(reg)
    rawapi.smartpointer_contract(reg, 'obj:native.State')
    install_cipher_lib(reg, name, have_aesni)
    reg.add(base_cipher_contract(name, have_aesni))
    if name == 'DES3':
        reg.add(adjust_key_parity_contract('call'))
    return reg


def units(prop, tier):
    from vf.pyunit import pyvc_unit
    out = []
    if prop in ('C02', 'C16', 'C17'):
        for name in ALG:
            if prop == 'C16' and name != 'AES':
                continue
            out.append(pyvc_unit(prop, 'factory.%s.base' % name, lambda name=name: registry(name), [C + name + '._create_base_cipher']))
        out.append(pyvc_unit(prop, 'factory.AES.base_noaesni', lambda: registry('AES', False), [C + 'AES._create_base_cipher']))
    if prop == 'C02':
        out.append(pyvc_unit(prop, 'factory.create_cipher.AES', lambda: create_cipher_registry('AES', True), [CC], weight=2))
        out.append(pyvc_unit(prop, 'factory.create_cipher.DES3', lambda: create_cipher_registry('DES3', False), [CC]))
        out.append(pyvc_unit(prop, 'factory.DES3.adjust_key_parity', lambda: registry(akp='tdes'), [AKP], weight=4))
        out.append(pyvc_unit(prop, 'factory.DES3.adjust_key_parity_all_bytes', lambda: registry(akp='all_bytes'), [AKP]))
        out.append(pyvc_unit(prop, 'factory.DES3.adjust_key_parity_badlen', lambda: registry(akp='badlen'), [AKP]))
        out.append(pyvc_unit(prop, 'factory.DES3.parity_lemma', lambda: registry(akp='lemma'), ['spec.modes.lemma_parity']))
    return out


# ======================================================================================================================
# Notes
#
# adjust_key_parity: the symbolic instances (16 / 24 individual bytes) are proved against spec.modes.des_parity, which folds the
#   parity bit by bit (odd_parity_fold, same shape as the code); unit factory.DES3.parity_lemma proves fold == the declarative
#   arithmetic definition (bits 7..1 kept, odd number of ones) for every byte.  z3 proves these but does not FIND counter-models
#   of a wrong parity rule (undecided, exit 2); the ground instances of unit factory.DES3.adjust_key_parity_all_bytes (every byte
#   value, all K1/K2/K3 coincidence patterns) decide those.
# OBSERVATION: Cipher._create_cipher ignores positional arguments for mode ids that take none other than ECB and CTR (KW / KWP,
#   unknown ids); `kwargs[...] = args[0]` silently overrides a keyword of the same name.
#
# Strength check (tools/mut.py):
#   AES.py   dict_parameters.get("use_aesni", True)  (not popped)          exit 1 @ AES._create_base_cipher.ensures.popped, ensures.rest (C16)
#   AES.py   if _raw_aesni_lib:  (use_aesni ignored)                       exit 1 @ AES._create_base_cipher.ensures.impl
#   AES.py   AESNI start paired with AES_stop_operation                    exit 1 @ AES._create_base_cipher.ensures.pair
#   AES.py   key-length check only when use_aesni                          exit 1 @ AES._create_base_cipher.call_pre.key_len_len_key
#   DES3.py  for i in range(1, 7)                                          exit 1 @ adjust_key_parity.ensures.parity_first, parity_last, value (all_bytes unit)
#   DES3.py  K2 == K3 test removed                                         exit 1 @ adjust_key_parity.raises_iff.ValueError.if
#   DES3.py  key_byte & 0xFC                                               exit 1 @ adjust_key_parity.ensures.parity_last, ensures.value
#   DES3.py  RENAME parity -> par                                          exit 0
#   Cipher/__init__.py  elif mode in (2, 3, 5)  (7 dropped)                exit 1 @ _create_cipher.ensures.positional, raises_iff.TypeError.if
#   Cipher/__init__.py  kwargs["IV"] = args[0]  (nonce modes)              exit 1 @ _create_cipher.ensures.positional, ensures.passed_on
#   Cipher/__init__.py  elif True:  (extra modes for every cipher)         exit 1 @ _create_cipher.ensures.dispatch, raises_iff.ValueError.if
