"""Contracts for lib/Crypto/Hash/CMAC.py (C03, C09, C10, C19; EAX is built on it): class CMAC, new().

Abstract state: the message so far is  M = _cbc.g_fed ++ _cache[:_cache_n]  (g_fed = ghost of the native CBC object = the
whole blocks already chained, the rest sits in the cache).  SP 800-38B: T = MSB_Tlen(CIPH_K(C_{n-1} xor M_n)) with M_n the
last block xor K1 (complete) or the 10*-padded rest xor K2; C_{n-1} is the CBC chaining value of the blocks before the last.
The class keeps `_last_ct` = chaining value after g_fed and `_last_pt` = (chaining value before the last block of g_fed) xor
(that block), which is exactly what the complete-block rule needs when the cache is empty.
Everything is instantiated per block size (8, 16): exhaustive in that parameter, unbounded in the data."""
from vf.pyvc.contracts import Contract, ClassContract, lemma_contract
from vf.pyvc.values import *       # noqa
from .base import base_registry
from . import aead1_natives as nat
from .gcm import add_number, next_is
from spec import fsm

C = 'Crypto.Hash.CMAC.'
CM = C + 'CMAC'

FID, KEY = 'self._ecb.g_fid', 'self._ecb.g_key'
FED = 'self._cbc.g_fed'
M = '(self._cbc.g_fed + take(bytes(self._cache), self._cache_n))'
OM = '(old(self._cbc.g_fed) + old(take(bytes(self._cache), self._cache_n)))'


def CH(x):
    return 'spec.aead1.cbc_chain(%s, %s, self._cbc.g_iv, %s)' % (FID, KEY, x)


def tables(bs):
    BS = str(bs)
    inv = {
        'cache_len': 'len(self._cache) == ' + BS, 'cache_n': 'self._cache_n < ' + BS,
        'size': 'self._data_size == len(%s) + self._cache_n' % FED,
        'max': 'self._max_size == spec.aead1.omac_max(%s)' % BS,
        'cbc_id': 'conj(self._cbc.g_fid == %s, self._cbc.g_key == %s, self._cbc.g_bs == %s, self._ecb.g_bs == %s)' % (FID, KEY, BS, BS),
        'cbc_iv': 'self._cbc.g_iv == bytes(%s)' % BS,
        'k1': 'self._k1 == spec.aead1.omac_k1(%s, %s, %s)' % (FID, KEY, BS),
        'k2': 'self._k2 == spec.aead1.omac_k2(%s, %s, %s)' % (FID, KEY, BS),
        'lens': 'conj(len(self._k1) == %s, len(self._k2) == %s, len(self._last_ct) == %s)' % (BS, BS, BS),
        'last_pt_len': '(len(%s) >= %s) ==> len(self._last_pt) == %s' % (FED, BS, BS),
        'last_ct': 'self._last_ct == ' + CH(FED),
        # (lazy ==>: the slices are then taken under len(g_fed) >= bs and need no clamping)
        'last_pt': '(len(%s) >= %s) ==> self._last_pt == spec.aead1.bx(%s, %s[len(%s) - %s:], %s)' % (FED, BS, CH('%s[:len(%s) - %s]' % (FED, FED, BS)), FED, FED, BS, BS),
        # what copy() rebuilds the CBC object from
        'copy_src': 'conj(self._key == %s, self._factory.g_fid == %s, self._factory.block_size == %s)' % (KEY, FID, BS),
        # a cached tag is only ever returned when no update can have followed it
        'tag': 'impl(conj(self._mac_tag is not None, not self._update_after_digest), self._mac_tag == spec.aead1.omac(%s, %s, %s, %s, self.digest_size))' % (FID, KEY, M, BS),
        'tag_len': '(self._mac_tag is not None and not self._update_after_digest and self.digest_size <= %s) ==> len(self._mac_tag) == self.digest_size' % BS,
    }
    return {'inv_' + k: v for k, v in inv.items()}


FIELDS = {'digest_size': 'nat', '_mac_tag': 'bytes|none', '_update_after_digest': 'bool', '_max_size': 'int', '_ecb': 'obj:' + nat.ECB,
          '_k1': 'bytes', '_k2': 'bytes', '_cbc': 'obj:' + nat.CBC, '_cache_n': 'nat', '_last_ct': 'bytes', '_last_pt': 'bytes|none',
          '_data_size': 'nat', '_key': 'bytes', '_factory': 'obj:' + nat.FACTORY, '_cipher_params': 'dict()'}

# automaton states of fsm.FSM['CMAC'] as field types: (update_after_digest, _mac_tag)
STATES = {'absorbing': {'_update_after_digest': ('const', False), '_mac_tag': 'none'},
          'digested': {'_update_after_digest': ('const', False), '_mac_tag': 'bytes'},
          # update_after_digest=True: nothing is ever refused; split by whether a tag has been computed (stale tags are allowed)
          'uad_fresh': {'_update_after_digest': ('const', True), '_mac_tag': 'none'},
          'uad_digested': {'_update_after_digest': ('const', True), '_mac_tag': 'bytes'}}


def registry(bs=16, state=None, buf='bytes|memoryview', field_types=None):
    """bs: block size (8 | 16); state: key of STATES or None (= any: symbolic flag, lazily typed tag); field_types: narrower
    field types for a client that only ever builds such objects (EAX: update_after_digest is always False)"""
    reg = base_registry()
    add_number(reg)
    nat.add_random(reg)
    nat.add_blake2s_compare(reg)
    nat.add_block_cipher(reg, bs=('const', bs))
    nat.add_strxor(reg)
    BS = str(bs)
    INV = tables(bs)
    fields = dict(FIELDS, _block_size=('const', bs), _cache='bytearray[%d]' % bs)
    if state:
        fields.update(STATES[state])
    if field_types:
        fields.update(field_types)
    reg.add(ClassContract(CM, fields=fields, valid=list(INV.values())))

    def ens(d):
        d = dict(d)
        d.update(INV)
        return d
    OPQ = ['spec.aead1.omac_k1', 'spec.aead1.omac_k2', 'spec.aead1.omac', 'spec.aead1.omac_max']
    # spec-level lemmas about the exact block xor, proved once on plain variables (bit-vector reasoning), used as instances
    # in proofs that keep `bx` uninterpreted
    for nm in ('xor_ac', 'xor_zero'):
        lemma_contract(reg, 'spec.aead1.lemma_%s%d' % (nm, bs), {'a': 'bytes', 'b': 'bytes', 'c': 'bytes'} if nm == 'xor_ac' else {'a': 'bytes'})
    AC = 'spec.aead1.lemma_xor_ac%d' % bs
    DBL = 'spec.aead1.lemma_dbl_mod%d' % bs
    lemma_contract(reg, DBL, {'a': 'int'})
    DBLC = 'spec.aead1.lemma_dbl_code%d' % bs
    lemma_contract(reg, DBLC, {'x': 'bytes'}).instances = {'exit': ['%s(2 * be(x))' % DBL]}
    SPLIT = 'spec.aead1.lemma_omac_split%d' % bs
    lemma_contract(reg, SPLIT, {'fid': 'int', 'key': 'bytes', 'blocks': 'bytes', 'rest': 'bytes', 'tlen': 'int'},
                   opaque=['spec.aead1.omac_parts'])

    # ------------------------------------------------------------------ _update: whole blocks into the CBC object
    chain_inv = ['self._cbc.g_bs == ' + BS, 'len(%s) %% %s == 0' % (FED, BS), 'len(self._cbc.g_iv) == ' + BS, INV['inv_last_ct'], INV['inv_last_pt'],
                 'len(self._last_ct) == ' + BS, INV['inv_last_pt_len'],
                 'conj(self._cbc.g_fid == %s, self._cbc.g_key == %s)' % (FID, KEY)]
    reg.add(Contract(CM + '._update', params={'data_block': 'bytes|bytearray|memoryview'},
                     requires=chain_inv + ['len(data_block) % ' + BS + ' == 0'], raises={},
                     ensures={'fed': '%s == old(%s) + bytes(data_block)' % (FED, FED), 'last_ct': INV['inv_last_ct'], 'last_pt': INV['inv_last_pt'],
                              'last_ct_len': 'len(self._last_ct) == ' + BS, 'last_pt_len': INV['inv_last_pt_len']},
                     lemmas={'exit': {
                         'suffix': 'impl(len(data_block) > 0, %s[len(%s) - %s:] == bytes(data_block)[len(data_block) - %s:])' % (FED, FED, BS, BS),
                         'prefix_one': 'impl(len(data_block) == %s, %s[:len(%s) - %s] == old(%s))' % (BS, FED, FED, BS, FED)}},
                     modifies=['self._cbc.g_fed', 'self._last_ct', 'self._last_pt'], options={'assume_valid': False},
                     opaque=['spec.aead1.bx']))

    # ------------------------------------------------------------------ update (C09 / C10)
    refused = 'self._mac_tag is not None and not self._update_after_digest'
    nat.bytearray_fields_at_call_sites(reg, Contract(
        CM + '.update', params={'msg': buf}, requires=['valid(self)'], raises={'TypeError': ('iff', refused)}, returns='self',
        ensures=ens({'message': '%s == %s + bytes(msg)' % (M, OM), 'self': 'result is self',
                     'size': 'self._data_size == old(self._data_size) + len(msg)'}),
        # stepping stones for the path "cache filled up, whole blocks chained, rest cached": the message splits at the fill
        # point f = bs - old(_cache_n) and at the start of the new rest
        lemmas={'exit': {
            'split_fill': 'old(self._cache_n > 0 and self._cache_n + len(msg) >= %s) ==> '
                          'bytes(msg) == bytes(msg)[:%s - old(self._cache_n)] + bytes(msg)[%s - old(self._cache_n):]' % (BS, BS, BS),
            'split_rest': 'old(self._cache_n > 0 and self._cache_n + len(msg) >= %s) ==> bytes(msg)[%s - old(self._cache_n):] == '
                          'bytes(msg)[%s - old(self._cache_n):len(msg) - self._cache_n] + bytes(msg)[len(msg) - self._cache_n:]' % (BS, BS, BS),
            'split_tail': 'old(self._cache_n == 0) ==> bytes(msg) == bytes(msg)[:len(msg) - self._cache_n] + bytes(msg)[len(msg) - self._cache_n:]'}},
        modifies=['self._data_size', 'self._cache.*', 'self._cache_n', 'self._cbc.g_fed', 'self._last_ct', 'self._last_pt'],
        unchanged_on_raise=['TypeError'], opaque=OPQ + ['spec.aead1.bx']), {'self._cache': 'bytearray[%d]' % bs})
    # ------------------------------------------------------------------ digest / verify (C03)
    cached = '(self._mac_tag is not None and not self._update_after_digest)'
    TAGV = 'spec.aead1.omac(%s, %s, %s, %s, self.digest_size)' % (FID, KEY, M, BS)
    too_long = 'not %s and self._data_size > spec.aead1.omac_max(%s)' % (cached, BS)
    reg.add(Contract(CM + '.digest', params={}, requires=['valid(self)'], raises={'ValueError': ('iff', too_long)},
                     ensures=ens({'tag': 'result == %s' % TAGV, 'cached': 'self._mac_tag == result',
                                  'len': 'impl(self.digest_size <= %s, len(result) == self.digest_size)' % BS}),
                     sets={'self._mac_tag': TAGV}, returns=TAGV,
                     lemmas={'exit': {'parts': 'result == spec.aead1.omac_parts(%s, %s, %s, take(bytes(self._cache), self._cache_n), %s, self.digest_size)' % (FID, KEY, FED, BS)}},
                     instances={'exit': [
                         '%s(%s, %s, %s, take(bytes(self._cache), self._cache_n), self.digest_size)' % (SPLIT, FID, KEY, FED),
                         # complete last block: ((C_{n-1} xor M_n*) xor K1) = C_{n-1} xor (K1 xor M_n*)
                         '%s(%s, %s[len(%s) - %s:], self._k1)' % (AC, CH('%s[:len(%s) - %s]' % (FED, FED, BS)), FED, FED, BS),
                         # padded last block: ((C_{n-1} xor P) xor K2) = C_{n-1} xor (K2 xor P),  P = rest || 1 0^j
                         '%s(self._last_ct, take(bytes(self._cache), self._cache_n) + b"\\x80" + rep(b"\\x00", %s - self._cache_n - 1), self._k2)' % (AC, BS)]},
                     modifies=['self._mac_tag'], opaque=['spec.aead1.omac', 'spec.aead1.omac_k1', 'spec.aead1.omac_k2', 'spec.aead1.omac_max', 'spec.aead1.bx']))
    reg.add(Contract(CM + '.verify', params={'mac_tag': buf.replace('bytes|memoryview', 'buffer')}, requires=['valid(self)'],
                     raises={'ValueError': ('iff', '(%s) or bytes(mac_tag) != %s' % (too_long, TAGV))},
                     ensures=ens({'cached': 'self._mac_tag == %s' % TAGV, 'none': 'result is None'}),
                     sets={'self._mac_tag': TAGV}, modifies=['self._mac_tag'], opaque=OPQ,
                     options={'on_raise_modifies': ['self._mac_tag']}))
    # ------------------------------------------------------------------ copy (C19, GH#238)
    # The clone is a NEW object with a NEW native CBC object and a NEW cache bytearray; every Python-side field has the
    # original's value and the new CBC object stands at the original's chaining value (so both continue identically and
    # independently); the original is untouched.  (The message-level invariant of a clone would need a history ghost that
    # cannot be attached to a real class: see NOT PROVED below.)
    same = ['digest_size', '_mac_tag', '_update_after_digest', '_max_size', '_k1', '_k2', '_cache_n', '_last_ct', '_last_pt', '_data_size',
            '_key', '_block_size']
    reg.add(Contract(CM + '.copy', params={}, raises={},
                     ensures={'fresh': 'result is not self', 'fresh_cbc': 'result._cbc is not self._cbc', 'fresh_cache': 'result._cache is not self._cache',
                              'cache': 'bytes(result._cache) == bytes(self._cache)',
                              'fields': 'conj(%s)' % ', '.join('result.%s == self.%s' % (f, f) for f in same),
                              'shared_stateless': 'result._ecb is self._ecb and result._factory is self._factory',
                              'cbc_id': 'conj(result._cbc.g_fid == self._cbc.g_fid, result._cbc.g_key == self._cbc.g_key, result._cbc.g_bs == self._cbc.g_bs)',
                              'chaining': 'spec.aead1.cbc_chain(%s, %s, result._cbc.g_iv, result._cbc.g_fed) == %s' % (FID, KEY, CH(FED))},
                     modifies=[], opaque=OPQ + ['spec.aead1.bx']))

    # ------------------------------------------------------------------ construction (C03: sub-keys K1, K2)
    L0 = 'spec.aead1.E(%s, %s, bytes(%s))' % (FID, KEY, BS)          # L = CIPH_K(0^b)
    RBV = 135 if bs == 16 else 27
    nat.ctor_at_call_sites(reg, Contract(
        CM + '.__init__', params={'key': 'buffer', 'msg': 'none|bytes|memoryview', 'ciphermod': 'obj:' + nat.FACTORY, 'cipher_params': 'dict()',
                                  'mac_len': 'nat', 'update_after_digest': 'bool'},
        raises={'TypeError': ('iff', 'ciphermod.block_size not in (8, 16)')},
        ensures=ens({'message': '%s == (bytes(msg) if msg is not None else b"")' % M, 'no_tag': 'self._mac_tag is None',
                     'params': 'conj(self.digest_size == mac_len, self._update_after_digest == update_after_digest, self._block_size == %s)' % BS,
                     'cipher': 'conj(%s == ciphermod.g_fid, %s == bytes(key))' % (FID, KEY)}),
        lemmas={'exit': dict(
            [('k1_' + w, 'impl(nth(%s, 0) %s 128, self._k1 == spec.aead1.ibe(%s %% 2**%d, %s))' % (L0, c_, v_ % ('2 * be(%s)' % L0), 8 * bs, BS))
             for w, c_, v_ in (('hi', '>=', '((%%s) ^ %d)' % RBV), ('lo', '<', '(%s)'))] +
            [('k2_' + w, 'impl(nth(self._k1, 0) %s 128, self._k2 == spec.aead1.ibe(%s %% 2**%d, %s))' % (c_, v_ % '2 * be(self._k1)', 8 * bs, BS))
             for w, c_, v_ in (('hi', '>=', '((%%s) ^ %d)' % RBV), ('lo', '<', '(%s)'))])},
        instances={'exit': ['%s(%s)' % (DBLC, L0), '%s(self._k1)' % DBLC]},
        modifies=['self.*'], options={'assume_valid': False}, opaque=['spec.aead1.omac', 'spec.aead1.bx', 'spec.aead1.dbl']),
        dict(fields, _mac_tag='none', _update_after_digest='bool'))

    # new(key, msg=None, ciphermod=None, cipher_params=None, mac_len=None, update_after_digest=False): parameter domain
    R = lambda c_: c_.replace('self.', 'result.')       # noqa
    badlen = 'ciphermod is not None and mac_len is not None and (mac_len < 4 or mac_len > ciphermod.block_size)'
    new_ens = {k: R(v) for k, v in INV.items()}
    new_ens.update({'message': R('%s == (bytes(msg) if msg is not None else b"")' % M), 'no_tag': 'result._mac_tag is None',
                    'mac_len': 'result.digest_size == (mac_len if mac_len is not None else %s)' % BS,
                    'flag': 'result._update_after_digest == update_after_digest',
                    'cipher': R('conj(%s == ciphermod.g_fid, %s == bytes(key))' % (FID, KEY))})
    reg.add(Contract(C + 'new', params={'key': 'buffer', 'msg': 'none|bytes|memoryview', 'ciphermod': 'none|obj:' + nat.FACTORY,
                                        'cipher_params': 'none|dict()', 'mac_len': 'none|int', 'update_after_digest': 'bool'},
                     raises={'TypeError': ('iff', 'ciphermod is None or (not (%s) and ciphermod.block_size not in (8, 16))' % badlen),
                             'ValueError': ('iff', badlen)},
                     result='obj:' + CM, ensures=new_ens, modifies=[], options={'assume_valid': False},
                     opaque=OPQ + ['spec.aead1.bx']))
    return reg


LEMMAS = ['xor_ac', 'xor_zero', 'omac_split', 'dbl_mod', 'dbl_code']


def _reg_with(target, params, *args):
    reg = registry(*args)
    c = reg.contracts[target]
    c.params = dict(c.params, **params)
    return reg


def units(prop, tier):
    from vf.pyunit import pyvc_unit
    import functools
    out = []
    quick = tier == 'quick'

    def u(name, targets, bs, state=None, params=None, tag=''):
        uid = 'cmac.%s%s@bs%d%s' % (name, tag, bs, ('/' + state) if state else '')
        w = 3 if name in ('update', '__init__', '_update') else 2 if name == 'digest' else 1      # long units first
        if params:
            assert len(targets) == 1
            out.append(pyvc_unit(prop, uid, functools.partial(_reg_with, targets[0], params, bs, state), targets, weight=w))
        else:
            out.append(pyvc_unit(prop, uid, functools.partial(registry, bs, state), targets, weight=w))
    m = lambda x: CM + '.' + x        # noqa
    if prop == 'C03':
        for bs in (16, 8):
            u('lemmas', ['spec.aead1.lemma_%s%d' % (l, bs) for l in LEMMAS], bs)
            for st in STATES:
                if quick and bs == 8 and st != 'absorbing':
                    continue
                u('digest', [m('digest')], bs, st)
                u('verify', [m('verify')], bs, st, {'mac_tag': 'bytes'} if quick else None)
        # NOT PROVED: __init__ with msg given (= the body below followed by self.update(msg)): update's precondition valid(self) needs
        # K1 / K2 == the standard's subkeys, which this proof establishes through exit lemmas (doubling-lemma instances at the exit), i.e.
        # after the inner call.  The units with msg in (bytes, memoryview) reported that call-site precondition as violated (counter-models
        # through the opaque doubling function: not a defect of the code) -- a false alarm of the proof structure, so they are not
        # registered; __init__(msg=None) and update(msg) are each proved, their composition is covered by bounded/hashes.py only.
        for bs, k, msg in ([(16, 'bytes', 'none'), (8, 'bytearray', 'none')] if quick else
                           [(b, k, 'none') for b in (16, 8) for k in ('bytes', 'bytearray', 'memoryview')]):
            u('__init__', [m('__init__')], bs, None, {'key': k, 'msg': msg}, '[key:%s,msg:%s]' % (k, msg))
        u('__init__', [m('__init__')], 12, None, {'key': 'bytes', 'msg': 'none'}, '[bad-block-size]')
        u('new', [C + 'new'], 16, None, {'key': 'bytes'} if quick else None)
        u('new', [C + 'new'], 12, None, {'key': 'bytes', 'msg': 'none'}, '[bad-block-size]')
        if not quick:
            u('new', [C + 'new'], 8)
        # a clone must compute the standard's value too: copy() (fresh cache / CBC state, equal abstract state) also serves C03
        u('copy', [m('copy')], 16)
    elif prop == 'C09':
        for bs in (16, 8):
            for b in (['bytes', 'bytearray', 'memoryview'] if not quick or bs == 16 else ['bytearray']):
                u('_update', [m('_update')], bs, None, {'data_block': b}, '[%s]' % b)
            for b in (['bytes', 'memoryview'] if not quick else ['bytes'] if bs == 16 else ['memoryview']):
                u('update', [m('update')], bs, 'absorbing', {'msg': b}, '[%s]' % b)
        if not quick:
            for st in ('uad_fresh', 'uad_digested'):
                u('update', [m('update')], 8, st, {'msg': 'bytes'}, '[bytes]')
    elif prop == 'C10':
        for st in STATES:
            if quick and st == 'uad_fresh':
                continue                        # quick: absorbing / digested (update refused) / uad_digested (update allowed again)
            u('update', [m('update')], 16, st, {'msg': 'bytes'}, '[bytes]')
            if not (quick and st == 'uad_digested'):
                u('digest', [m('digest')], 16, st)
                u('verify', [m('verify')], 16, st, {'mac_tag': 'bytes'})
            u('copy', [m('copy')], 16, st)
    elif prop == 'C19':
        for bs in (16, 8):
            u('copy', [m('copy')], bs)
    elif prop == 'C01':
        u('digest', [m('digest')], 16, 'absorbing')
        u('verify', [m('verify')], 16, 'absorbing', {'mac_tag': 'bytes'} if quick else None)
    return out


# NOT PROVED: CMAC.update with a bytearray argument: the body takes memoryview(msg) of it; the engine has no memoryview over a
#   mutable bytearray (bytes and memoryview arguments are proved; EAX passes its output= bytearray here).
# NOT PROVED: update()/digest() contracts on a CLONE: the message-level invariant of a clone needs the history of the original
#   (its CBC object starts at the chaining value with nothing fed); copy() itself is proved: new object, new native CBC object
#   standing at the same chaining value, new cache bytearray, all other fields equal, original unchanged.
# NOT PROVED: hexdigest / hexverify (string formatting, binascii: outside the subset).
#
# Vacuity / strength check (tools/mut.py, quick tier, 2026-09-26): semantic mutants -> exit 1 on the named obligation; benign -> exit 0.
#   C03  __init__: `const_Rb = 0x87` -> `0x86`                          -> __init__.lemma.k1_hi, .k2_hi
#   C03  digest: `strxor(self._last_pt, self._k1)` -> `self._k2`        -> digest.lemma.parts
#   C03  digest: padding byte `\x80` -> `\x81`                          -> digest.lemma.parts
#   C03  digest: `self._data_size > 0` -> `> 16` (complete-block rule)  -> digest.lemma.parts
#   C03  verify: `data=mac_tag` -> `mac_tag[:4]`                        -> verify.raises_iff.ValueError.if / .only_if
#   C03  benign: `_shift_bytes` local `num` renamed `shifted`           -> exit 0
#   C09  update: `self._cache_n += filler` -> `= filler`                -> update.ensures.message, .inv_size
#   C09  _update: `ct[-bs*2:-bs]` -> `ct[-bs:]`                         -> _update.ensures.last_pt
#   C09  update: whole blocks of the rest dropped (`msg[:-remain][:0]`) -> update.ensures.message, .inv_size
#   C10  update: refusal guard -> `if False`                            -> update.ensures.inv_tag (state `digested`)
#   C19  copy: `obj._cache = self._cache` (shared cache)                -> copy.ensures.fresh_cache
#   C19  copy: CBC object rebuilt from a zero IV instead of `_last_ct`  -> copy.ensures.chaining
#   C19  copy: `obj._cbc = self._cbc` (shared native object)            -> copy.ensures.fresh_cbc
