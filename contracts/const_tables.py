"""Constant tables of the real source, compared with the registry they transcribe (C08: encodings are canonical / interoperable).

A module-level dict literal is data, not control flow: the obligation `table == registry` is decided by evaluating the literal
of the CURRENT source text (ast.literal_eval on the node the loader finds; nothing is imported or executed) -- a proof by computation
over the real text.  A derived table (`{v: k for k, v in t.items()}`) is covered by the injectivity obligation on its source."""
import ast
import time

from vf.core import Unit
from vf.pyvc import loader

# RFC 8018 B.1.2 (id-hmacWithSHA1 .. SHA512-256 under rsadsi digestAlgorithm 1.2.840.113549.2) and NIST CSOR hashAlgs
# (id-hmacWithSHA3-224 .. 512 = 2.16.840.1.101.3.4.2.13 .. 16), keyed by the hash OIDs (FIPS 180-4 / 202 registrations)
HMAC_OIDS = {
    '1.3.14.3.2.26': '1.2.840.113549.2.7', '2.16.840.1.101.3.4.2.4': '1.2.840.113549.2.8', '2.16.840.1.101.3.4.2.1': '1.2.840.113549.2.9',
    '2.16.840.1.101.3.4.2.2': '1.2.840.113549.2.10', '2.16.840.1.101.3.4.2.3': '1.2.840.113549.2.11',
    '2.16.840.1.101.3.4.2.5': '1.2.840.113549.2.12', '2.16.840.1.101.3.4.2.6': '1.2.840.113549.2.13',
    '2.16.840.1.101.3.4.2.7': '2.16.840.1.101.3.4.2.13', '2.16.840.1.101.3.4.2.8': '2.16.840.1.101.3.4.2.14',
    '2.16.840.1.101.3.4.2.9': '2.16.840.1.101.3.4.2.15', '2.16.840.1.101.3.4.2.10': '2.16.840.1.101.3.4.2.16'}

TABLES = [('Crypto.Hash.HMAC', '_hash2hmac_oid', HMAC_OIDS, 'RFC 8018 B.1.2 / NIST CSOR: hash OID -> HMAC OID')]


def table_unit(prop, modname, name, want, what):
    uid = 'const.%s.%s' % (modname.replace('Crypto.', ''), name)

    def run():
        t0 = time.time()
        base = '%s.%s.%s' % (prop, modname.replace('Crypto.', ''), name)
        res = []

        def add(k, clause, ok, detail, witness=None):
            res.append({'id': '%s.%s' % (base, k), 'kind': 'ensures', 'clause': clause, 'status': 'discharged' if ok else 'violated', 'backend': 'literal-eval',
                        'seconds': round(time.time() - t0, 3), 'detail': detail, 'witness': witness, 'replayed': False if not ok else None,
                        'target': '%s.%s' % (modname, name)})
        mod = loader.load_module(modname)
        d = mod.defs.get(name) if mod else None
        if not d or d[0] != 'assign':
            return {'functions': [], 'assumptions': [], 'trusted': [], 'results': [
                {'id': base + '.translate', 'kind': 'structure', 'clause': 'the table is a module-level literal', 'status': 'undecided', 'backend': '',
                 'seconds': 0, 'detail': 'no module-level assignment %s in %s' % (name, modname), 'witness': None}]}
        try:
            got = ast.literal_eval(d[1])
        except Exception as ex:      # noqa
            return {'functions': [], 'assumptions': [], 'trusted': [], 'results': [
                {'id': base + '.translate', 'kind': 'structure', 'clause': 'the table is a module-level literal', 'status': 'undecided', 'backend': '',
                 'seconds': 0, 'detail': 'not a literal: %s' % ex, 'witness': None}]}
        diff = {k: (got.get(k), want.get(k)) for k in set(got) | set(want) if got.get(k) != want.get(k)}
        add('equals_registry', '%s == registry (%s)' % (name, what), not diff, 'entries that differ (source, registry): %r' % diff if diff else '%d entries' % len(got),
            {'differs': {k: list(v) for k, v in diff.items()}} if diff else None)
        inv = {}
        for k, v in got.items():
            inv.setdefault(v, []).append(k)
        dup = {v: ks for v, ks in inv.items() if len(ks) > 1}
        add('injective', '%s is injective (the inverted table used by the decoders loses nothing)' % name, not dup,
            'values with several keys: %r' % dup if dup else 'all %d values distinct' % len(inv), {'duplicates': dup} if dup else None)
        fn = {'target': '%s.%s' % (modname, name), 'engine': 'PYVC-const', 'status': 'proved' if all(r['status'] == 'discharged' for r in res) else 'not-proved',
              'source': {'file': mod.path.lstrip('/'), 'lines': [d[1].lineno, d[1].end_lineno]}, 'obligations': len(res), 'seconds': round(time.time() - t0, 3)}
        return {'functions': [fn], 'results': res, 'assumptions': [], 'trusted': ['the registry transcribed in contracts/const_tables.py (%s)' % what]}
    return Unit(uid, run, 'pyvc', ('quick', 'thorough'), 1)


# class attribute `oid` of the hash classes (FIPS 180-4 / FIPS 202 / RFC 1319-1321 / ISO 10118 registrations): they end up in
# PKCS#1 v1.5 DigestInfo (C04), in PBES2 / PKCS#8 AlgorithmIdentifiers (C08) and select the HMAC OID above
HASH_OIDS = {'MD2.MD2Hash': '1.2.840.113549.2.2', 'MD4.MD4Hash': '1.2.840.113549.2.4', 'MD5.MD5Hash': '1.2.840.113549.2.5',
             'RIPEMD160.RIPEMD160Hash': '1.3.36.3.2.1', 'SHA1.SHA1Hash': '1.3.14.3.2.26', 'SHA224.SHA224Hash': '2.16.840.1.101.3.4.2.4',
             'SHA256.SHA256Hash': '2.16.840.1.101.3.4.2.1', 'SHA384.SHA384Hash': '2.16.840.1.101.3.4.2.2',
             'SHA3_224.SHA3_224_Hash': '2.16.840.1.101.3.4.2.7', 'SHA3_256.SHA3_256_Hash': '2.16.840.1.101.3.4.2.8',
             'SHA3_384.SHA3_384_Hash': '2.16.840.1.101.3.4.2.9', 'SHA3_512.SHA3_512_Hash': '2.16.840.1.101.3.4.2.10',
             'SHAKE128.SHAKE128_XOF': '2.16.840.1.101.3.4.2.11', 'SHAKE256.SHAKE256_XOF': '2.16.840.1.101.3.4.2.12'}


def hash_oid_unit(prop):
    def run():
        t0 = time.time()
        res, fns = [], []
        for key, want in sorted(HASH_OIDS.items()):
            modname, clsname = key.split('.')
            base = '%s.Hash.%s.oid' % (prop, modname)
            mod = loader.load_module('Crypto.Hash.' + modname)
            ci = mod.get_class(clsname) if mod else None
            node = ci.attr_nodes.get('oid') if ci else None
            try:
                got = ast.literal_eval(node) if node is not None else None
            except Exception:      # noqa
                got = None
            if got is None:
                res.append({'id': base + '.translate', 'kind': 'structure', 'clause': 'class attribute oid is a string literal', 'status': 'undecided',
                            'backend': '', 'seconds': 0, 'detail': 'no literal class attribute oid in Crypto.Hash.%s.%s' % (modname, clsname), 'witness': None})
                continue
            ok = got == want
            res.append({'id': base + '.equals_registry', 'kind': 'ensures', 'clause': 'Crypto.Hash.%s.%s.oid == %r (registered object identifier)' % (modname, clsname, want),
                        'status': 'discharged' if ok else 'violated', 'backend': 'literal-eval', 'seconds': round(time.time() - t0, 3),
                        'detail': 'source says %r' % got, 'witness': None if ok else {'source': got, 'registry': want}, 'replayed': None if ok else False,
                        'target': 'Crypto.Hash.%s.%s.oid' % (modname, clsname)})
            fns.append({'target': 'Crypto.Hash.%s.%s.oid' % (modname, clsname), 'engine': 'PYVC-const', 'status': 'proved' if ok else 'not-proved',
                        'source': {'file': mod.path.lstrip('/'), 'lines': [node.lineno, node.end_lineno]}, 'obligations': 1, 'seconds': 0})
        return {'functions': fns, 'results': res, 'assumptions': [], 'trusted': ['the object identifiers transcribed in contracts/const_tables.py (HASH_OIDS)']}
    return Unit('const.Hash.oids', run, 'pyvc', ('quick', 'thorough'), 1)


def units(prop, tier):
    if prop in ('C08', 'C03'):
        return [table_unit(prop, *t) for t in TABLES] + [hash_oid_unit(prop)]
    if prop == 'C04':
        return [hash_oid_unit(prop)]
    return []
