"""Contracts for lib/Crypto/Cipher/_mode_ctr.py and lib/Crypto/Util/Counter.py.        Properties C02, C09, C10, C11, C17, C19.

CtrMode.encrypt/decrypt/__init__ come from the generators of contracts/modes_classic.py (mode 'ctr'): FSM guard, buffer
checks, the link to the C preconditions, 0x60002 -> OverflowError with nothing returned (C11), value == CTR one-shot function.
Here: _create_ctr_cipher (both routes) and Counter.new.

SP 800-38A B.2: initial counter block = prefix || counter field || suffix, the counter field holding the initial value in
the chosen byte order (spec.modes.ctr_block).  The counter length makes the arithmetic non-linear (256**counter_len) and
drives a loop in the Counter route: that route is instantiated per counter_len value (DESIGN 2.6): exhaustive in
counter_len, unbounded in prefix / suffix / initial value."""
from vf.pyvc.contracts import Contract, ClassContract
from . import rawapi
from . import cipher_factory as cf
from . import modes_classic as mc

C = 'Crypto.Cipher.'
Q = C + '_mode_ctr._create_ctr_cipher'
CN = 'Crypto.Util.Counter.new'


def ctr_factory_contract(name, route, cl=None, part=None):
    bs, alg = cf.BLOCK[name], cf.ALG[name]
    P = 'result._state._raw_pointer'
    has_key = "'key' in kwargs"
    keyok = "(%s and %s)" % (has_key, cf.keyok_expr(name, "kwargs['key']"))
    common = {'key': "%s.g_key == old(%s) and %s.g_alg == %d" % (P, cf.key_value_expr(name, "kwargs['key']"), P, alg),
              'block_size': 'result.block_size == %d' % bs,
              'valid': 'valid(result)'}
    if route == 'nonce':
        # nonce= / initial_value= (big endian counter after the nonce, no suffix)
        shapes = cf.dict_shapes([], [('key', ['bytes']), ('nonce', list(cf.KEYT)), ('initial_value', ['int', 'bytes', 'bytearray']), ('bogus', ['int'])])
        if part is not None:
            # the keyword-record shapes are spread over several units (i-th of n): same contract, disjoint entry states
            shapes = '|'.join(shapes.split('|')[part[0]::part[1]])
        nl = "len(kwargs['nonce'])"
        clen = "(%d - %s if 'nonce' in kwargs else %d)" % (bs, nl, bs - bs // 2)
        ivint = "('initial_value' in kwargs and isinstance(kwargs['initial_value'], int))"
        ivbytes = "('initial_value' in kwargs and not isinstance(kwargs['initial_value'], int))"
        tfault = "(not %s or 'bogus' in kwargs or ('nonce' not in kwargs and %d < 16))" % (has_key, bs)
        vfault = ("(%s and (not %s or ('nonce' in kwargs and %s >= %d) or "
                  "(('nonce' in kwargs or %d >= 16) and ((%s and (kwargs['initial_value'] < 0 or kwargs['initial_value'] >= pow2(8 * %s))) or "
                  "(%s and len(kwargs['initial_value']) != %s)))))" % (has_key, keyok, nl, bs, bs, ivint, clen, ivbytes, clen))
        ensures = dict(common)
        ensures.update({
            'accepted': 'old(not %s and not %s)' % (tfault, vfault),
            # the nonce attribute is the value passed (or the generated one) and is the prefix of the native counter block
            'nonce_attr': "(old('nonce' in kwargs) ==> result.nonce == old(bytes(kwargs['nonce']))) and (not old('nonce' in kwargs) ==> result.nonce == sys_tape(0, %d))" % (bs // 2),
            'layout': '%s.g_prefix_len == len(result.nonce) and %s.g_counter_len == %d - len(result.nonce) and not %s.g_le' % (P, P, bs, P),
            'icb_int': "not old(%s) ==> %s.g_iv == spec.modes.ctr_block(result.nonce, old(kwargs.get('initial_value', 0)), %d - len(result.nonce), False, b'')" % (ivbytes, P, bs),
            'icb_bytes': "old(%s) ==> %s.g_iv == result.nonce + old(bytes(kwargs['initial_value']))" % (ivbytes, P),
        })
        return Contract(Q, params={'factory': 'module:Crypto.Cipher.' + name, 'kwargs': shapes},
                        raises={'TypeError': ('only_if', tfault), 'ValueError': ('only_if', vfault)}, ensures=ensures, modifies=['kwargs'],
                        opaque=cf.KEY_OPAQUE, options={'pow2_consts': True})
    if route == 'both':
        # counter= together with nonce= / initial_value=: refused
        shapes = cf.dict_shapes([('key', ['bytes']), ('counter', ['dict(counter_len:int,prefix:bytes,suffix:bytes,initial_value:int,little_endian:bool)'])],
                                [('nonce', ['bytes']), ('initial_value', ['int'])])
        return Contract(Q, params={'factory': 'module:Crypto.Cipher.' + name, 'kwargs': shapes},
                        requires=["'nonce' in kwargs or 'initial_value' in kwargs", keyok],
                        raises={'TypeError': ('iff', "'counter' in kwargs and ('nonce' in kwargs or 'initial_value' in kwargs)")},
                        ensures={'unreachable': 'False'}, modifies=['kwargs'], opaque=cf.KEY_OPAQUE)
    if route == 'malformed':
        # a counter object that lacks one of the five entries: TypeError
        base = [('counter_len', 'int'), ('prefix', 'bytes'), ('suffix', 'bytes'), ('initial_value', 'int'), ('little_endian', 'bool')]
        alts = []
        for i in range(len(base)):
            alts.append('dict(key:bytes,counter:dict(%s))' % ','.join('%s:%s' % kt for j, kt in enumerate(base) if j != i))
        return Contract(Q, params={'factory': 'module:Crypto.Cipher.' + name, 'kwargs': '|'.join(alts)}, requires=[keyok],
                        raises={'TypeError': ('iff', "len(kwargs['counter']) < 5")}, ensures={'unreachable': 'False'}, modifies=['kwargs'],
                        opaque=cf.KEY_OPAQUE)
    ctr = "kwargs['counter']"
    if route == 'counter_faults':
        # counter= with a missing key / an unknown parameter: refused before the counter object is looked at (any counter_len)
        cd = 'dict(counter_len:int,prefix:bytes,suffix:bytes,initial_value:int,little_endian:bool)'
        shapes = '|'.join(['dict(counter:%s)' % cd, 'dict(counter:%s,key:bytes,bogus:int)' % cd, 'dict(counter:%s,bogus:int)' % cd])
        return Contract(Q, params={'factory': 'module:Crypto.Cipher.' + name, 'kwargs': shapes}, requires=["not %s or %s" % (has_key, keyok)],
                        raises={'TypeError': ('iff', "'key' not in kwargs or 'bogus' in kwargs")}, ensures={'unreachable': 'False'},
                        modifies=['kwargs'], opaque=cf.KEY_OPAQUE)
    # route == 'counter': a Crypto.Util.Counter object (the dict Counter.new returns) with counter_len == cl
    cd = 'dict(counter_len:const:%d,prefix:bytes,suffix:bytes,initial_value:int,little_endian:bool)' % cl
    shapes = cf.dict_shapes([('counter', [cd]), ('key', ['bytes'])], [])
    total = "(len(%s['prefix']) + %d + len(%s['suffix']))" % (ctr, cl, ctr)
    tfault = "(not %s or 'bogus' in kwargs)" % has_key
    vfault = '(%s and (not %s or %s != %d or %d == 0))' % (has_key, keyok, total, bs, cl)
    ensures = dict(common)
    ensures.update({
        'accepted': 'old(not %s and not %s)' % (tfault, vfault),
        # (digit-by-digit form of spec.modes.ctr_block; equal to it by the lemma units ctr.digits.*)
        'icb': "%s.g_iv == old(spec.modes.ctr_block_digits(%s['prefix'], %s['initial_value'], %d, %s['little_endian'], %s['suffix']))" % (P, ctr, ctr, cl, ctr, ctr),
        'layout': "%s.g_prefix_len == old(len(%s['prefix'])) and %s.g_counter_len == %d and %s.g_le == old(%s['little_endian'])" % (P, ctr, P, cl, P, ctr),
        'nonce_attr': "hasattr(result, 'nonce') == old(len(%s['suffix']) == 0) and (hasattr(result, 'nonce') ==> result.nonce == old(%s['prefix']))" % (ctr, ctr),
        # (the caller's counter object is outside `modifies`: any write to it is a frame violation)
    })
    return Contract(Q, params={'factory': 'module:Crypto.Cipher.' + name, 'kwargs': shapes},
                    # domain: what Counter.new returns (its contract below): 0 <= initial_value < 256**counter_len
                    requires=["0 <= %s['initial_value'] and %s['initial_value'] < %d" % (ctr, ctr, 256 ** cl)],
                    raises={'TypeError': ('only_if', tfault), 'ValueError': ('only_if', vfault)}, ensures=ensures, modifies=['kwargs'],
                    # the byte loop forks once per byte (exit or continue): complete unrolling needs counter_len + 1 forks
                    options={'max_inline_depth': 40, 'fork_unroll_limit': 40},
                    opaque=cf.KEY_OPAQUE)


def digits_lemma_contract(n):
    """spec-level lemma, per length n: the digit-by-digit encodings equal I2OSP / I2LE.  Stepwise (DESIGN 2.6): one ground
    instance of (x // 256**(k-1)) // 256 == x // 256**k per digit, each proved on its own and then available"""
    lem = dict(('div%02d' % k, '(value // %d) // 256 == value // %d' % (256 ** (k - 1), 256 ** k)) for k in range(2, max(n, 2)))
    return Contract('spec.modes.lemma_digits', params={'prefix': 'bytes', 'value': 'int', 'n': ('const', n), 'little': 'bool', 'suffix': 'bytes'},
                    requires=['0 <= value and value < %d' % (256 ** n)], raises={},
                    ensures={'ctr_block': 'result == spec.modes.ctr_block(prefix, value, %d, little, suffix)' % n,
                             'length': 'len(result) == len(prefix) + %d + len(suffix)' % n},
                    lemmas={'exit': lem}, modifies=[], options={'max_inline_depth': 40})


def counter_new_contract(nbits=None):
    """Counter.new: ValueError iff nbits is not a multiple of 8 or the (non-negative) initial value needs more than nbits bits;
    otherwise exactly the five entries _create_ctr_cipher reads.  Instantiated per nbits value (bit_length vs 2**nbits)."""
    params = {'nbits': 'int', 'prefix': 'bytes', 'suffix': 'bytes', 'initial_value': 'int', 'little_endian': 'bool', 'allow_wraparound': 'bool'}
    requires = ['initial_value >= 0']
    if nbits is None:
        requires.append('nbits % 8 != 0')
        return Contract(CN, params=params, requires=requires, raises={'ValueError': ('iff', 'nbits % 8 != 0')}, ensures={'unreachable': 'False'}, modifies=[])
    params['nbits'] = ('const', nbits)
    return Contract(CN, params=params, requires=requires,
                    raises={'ValueError': ('iff', 'initial_value >= %d' % (2 ** nbits if nbits >= 0 else 0))},
                    ensures={'entries': "len(result) == 5 and result['counter_len'] == %d and result['prefix'] == prefix and result['suffix'] == suffix and "
                                        "result['initial_value'] == initial_value and result['little_endian'] == little_endian" % (nbits // 8),
                             'range': "0 <= result['initial_value'] and result['initial_value'] < %d" % (256 ** (nbits // 8) if nbits >= 0 else 0)},
                    modifies=[], options={'bitlen_thresholds': [nbits] if nbits >= 0 else []})


def registry(variant='rw', name='AES', route='nonce', cl=None, nbits=None, part=None):
    if variant in ('rw', 'ro', 'init'):
        return mc.registry('ctr', variant)
    if variant == 'counter_new':
        from .base import base_registry
        reg = base_registry()
        reg.add(counter_new_contract(nbits))
        return reg
    if variant == 'digits':
        from .base import base_registry
        reg = base_registry()
        reg.add(digits_lemma_contract(cl))
        return reg
    reg = mc.registry('ctr', 'factory0')
    reg.add(mc.init_contract('ctr', for_call=True))
    reg.add(cf.base_cipher_contract(name, for_call=True))
    reg.add(ctr_factory_contract(name, route, cl, part))
    return reg


def units(prop, tier):
    from vf.pyunit import pyvc_unit
    out = []
    q = lambda what: mc.qual('ctr', what)
    if prop in ('C02', 'C09', 'C10', 'C11', 'C17', 'C19'):
        for op in ('encrypt', 'decrypt'):
            out.append(pyvc_unit(prop, 'mode.ctr.%s' % op, lambda: registry('rw'), [q(op)]))
    if prop in ('C09', 'C10', 'C17'):
        out.append(pyvc_unit(prop, 'mode.ctr.readonly_output', lambda: registry('ro'), [q('encrypt'), q('decrypt')]))
    if prop in ('C02', 'C11', 'C17'):
        out.append(pyvc_unit(prop, 'mode.ctr.init', lambda: registry('init'), [q('__init__')]))
    if prop in ('C02', 'C11'):
        # (DES3 = 8-byte blocks: no default nonce, other counter lengths; its Counter route runs in both tiers, its nonce route in thorough)
        for name, n in ((('AES', 4),) if tier == 'quick' else (('AES', 4), ('DES3', 2))):
            for i in range(n):
                out.append(pyvc_unit(prop, 'mode.ctr.factory.%s.nonce.part%d' % (name, i),
                                     lambda name=name, i=i, n=n: registry('factory', name, 'nonce', part=(i, n)), [Q], weight=2))
        out.append(pyvc_unit(prop, 'mode.ctr.factory.AES.both', lambda: registry('factory', 'AES', 'both'), [Q]))
        out.append(pyvc_unit(prop, 'mode.ctr.factory.AES.malformed', lambda: registry('factory', 'AES', 'malformed'), [Q]))
        out.append(pyvc_unit(prop, 'mode.ctr.factory.AES.counter_faults', lambda: registry('factory', 'AES', 'counter_faults'), [Q]))
        # Counter route: exhaustive in counter_len (0 and 17 = refused geometries); unbounded in prefix, suffix, initial value
        for cl in ([0, 1, 8, 16, 17] if tier == 'quick' else list(range(0, 18))):
            out.append(pyvc_unit(prop, 'mode.ctr.factory.AES.counter%02d' % cl, lambda cl=cl: registry('factory', 'AES', 'counter', cl), [Q], weight=3))
        for cl in ([4] if tier == 'quick' else list(range(0, 10))):
            out.append(pyvc_unit(prop, 'mode.ctr.factory.DES3.counter%02d' % cl, lambda cl=cl: registry('factory', 'DES3', 'counter', cl), [Q], weight=2))
        # spec-level lemma: the digit-by-digit counter field of the Counter route == I2OSP / I2LE, per length
        for n in ([0, 1, 4, 8, 16] if tier == 'quick' else list(range(0, 17))):
            out.append(pyvc_unit(prop, 'counter.digits_lemma.n%02d' % n, lambda n=n: registry('digits', cl=n), ['spec.modes.lemma_digits']))
        out.append(pyvc_unit(prop, 'counter.new.unaligned', lambda: registry('counter_new'), [CN]))
        for n in ([0, 8, 32, 64, 128, -8] if tier == 'quick' else [8 * k for k in range(-1, 18)]):
            out.append(pyvc_unit(prop, 'counter.new.nbits%s' % n, lambda n=n: registry('counter_new', nbits=n), [CN]))
    return out


# ======================================================================================================================
# Notes
#
# OBSERVATION (no clause violated): Counter.new(64, initial_value=-5) is accepted ((-5).bit_length() == 3) and the cipher then
#   starts at 0; the contracts take initial_value >= 0 as the domain (documented: "positive integer").
# The Counter route is stated with spec.modes.ctr_block_digits (counter field digit by digit, the shape of the code's byte loop);
#   units counter.digits_lemma.nNN prove ctr_block_digits == ctr_block (I2OSP / I2LE) for every length 0..16.
# `_create_ctr_cipher` raises: which exception wins when several parameters are wrong at once is not documented; the contract
#   says TypeError only for a TypeError-worthy fault, ValueError only for a ValueError-worthy one, and none on normal return.
#
# Strength check (tools/mut.py):
#   _mode_ctr.py  self._next = ["encrypt"] -> ["encrypt", "decrypt"]       exit 1 @ CtrMode.encrypt.ensures.next, ensures.valid, on_raise.OverflowError  (C10)
#   _mode_ctr.py  if "decrypt" not in self._next  (in encrypt)             exit 1 @ CtrMode.encrypt.raises_iff.TypeError.if / .only_if  (C10)
#   _mode_ctr.py  create_string_buffer(len(plaintext) + 1)                 exit 1 @ CtrMode.encrypt.call_pre.isinstance_out_bytearray_and_len_out_data_len  (C17)
#   _mode_ctr.py  c_size_t(len(plaintext) + 1)                             exit 1 @ CtrMode.encrypt.call_pre.data_len_len_in            (C17)
#   _mode_ctr.py  if result == 0x60003  (was 0x60002)                      exit 1 @ CtrMode.encrypt.raises_iff.ValueError.only_if       (C11)
#   _mode_ctr.py  if len(ciphertext) < len(output)  (was !=)               exit 1 @ CtrMode.decrypt.call_pre.isinstance_out_...         (C17)
#   _mode_ctr.py  self.nonce = _copy_bytes(None, counter_len, icb)         exit 1 @ CtrMode.__init__.ensures.nonce_value, ensures.valid (C02)
#   _mode_ctr.py  block_cipher.release() removed                           exit 1 @ CtrMode.__init__.ensures.handover                   (C17)
#   _mode_ctr.py  (1 << (counter_len * 8)) < initial_value  (no -1)        exit 1 @ _create_ctr_cipher.ensures.accepted, ensures.icb_int (C11)
#   _mode_ctr.py  if little_endian:  (was if not)                          exit 1 @ _create_ctr_cipher.ensures.icb                      (C02)
#   _mode_ctr.py  initial_value & 127                                      exit 1 @ _create_ctr_cipher.ensures.icb
#   _mode_ctr.py  suffix + b"".join(words) + prefix                        exit 1 @ _create_ctr_cipher.ensures.icb, ensures.nonce_attr
#   _mode_ctr.py  if len(nonce) > factory.block_size  (was >=)             exit 0: equivalent mutant -- counter_len == 0 is refused by CTR_start_operation
#                                                                           (native model) and still surfaces as ValueError
#   _mode_ctr.py  RENAME _counter -> _cnt                                  exit 0
#   Counter.py    if iv_bl > nbits + 1                                     exit 1 @ Counter.new.raises_iff.ValueError.if, ensures.range (C11)
#   Counter.py    "counter_len": nbits // 4                                exit 1 @ Counter.new.ensures.entries
