"""EXACT abstraction of the DER classes of Crypto.Util.asn1 for the export / import round-trip lemmas (C08): encoders are the
uninterpreted constructors and decoders the uninterpreted observers of spec/der_abs.py, whose facts are the asn1 round-trip and
strictness theorems (ASSUMED here: C13 asn1 area / bounded).  No units are defined here.

Python side: DerSequence([...]) keeps its members; encode() is seqK(encodings of the members) for K in {1, 2, 3, 6, 9}; decode(b, ...)
accepts iff is_seq(b) and the member count is allowed (and every member is an INTEGER with only_ints_expected); a member read from a
decoded sequence is an int|bytes union: int_val(elem) if is_int(elem) else the member's encoding -- exactly what the real class
hands out.  DerObjectId / DerOctetString / DerNull / DerInteger likewise."""
import z3

from vf.pyvc.contracts import ClassContract, apply_opaque
from vf.pyvc.interp import exc
from vf.pyvc.values import (SStrL1, SUnionIB, ANY, HObj, Ref, Unsupported, is_intlike, is_byteslike, mk_int, mk_bytes, mk_bool, zint, zbytes, zbool,
                            SBytes)
from . import rawapi
from .ecc_common import int_of

A = 'Crypto.Util.asn1.'
XSEQ, XOID, XOCT, XNULL, XINT = 'absx.DerSequence', 'absx.DerObjectId', 'absx.DerOctetString', 'absx.DerNull', 'absx.DerInteger'
D = 'spec.der_abs.'
ASSUMED = 'asn1 round trip / strictness per DER type (spec/der_abs.py facts): C13 asn1 area; bounded'


def val(st, v):
    return [('val', st, v)]


def rz(st, pycls, msg=''):
    return [('raise', st, exc(pycls, msg))]


def uf(E, st, name, *args):
    return apply_opaque(E, D + name, st, list(args), {})[0][2]


def enc_of(E, st, v):
    """DER encoding of a member as DerSequence.encode() computes it: INTEGER for ints / Integer objects, the bytes themselves for an
    already encoded member, obj.encode() for a DER object"""
    iv = int_of(st, v)
    if iv is not None:
        return uf(E, st, 'int_enc', iv)
    if is_byteslike(v):
        return v
    if isinstance(v, Ref):
        gid = getattr(st.heap[v.oid], 'ghost_id', None)
        if gid in (XSEQ, XOID, XOCT, XNULL, XINT):
            return encode(E, st, v)
    raise Unsupported('member %r of an abstract DER sequence' % (v,))


def encode(E, st, ref):
    h = st.heap[ref.oid]
    gid = h.ghost_id
    if gid == XSEQ:
        if h.fields.get('g_src') is not None:
            return h.fields['g_src']                       # a decoded sequence re-encodes to what it was decoded from (canonical DER)
        items = h.fields['g_items']
        if len(items) not in (1, 2, 3, 6, 9):
            raise Unsupported('abstract DER sequence of %d members' % len(items))
        return uf(E, st, 'seq%d' % len(items), *[enc_of(E, st, x) for x in items])
    if gid == XOID:
        v = h.fields['value']
        if not isinstance(v, str):
            raise Unsupported('encoding a symbolic OID')
        return uf(E, st, 'oid_enc', v.encode('latin-1'))
    if gid == XOCT:
        return uf(E, st, 'octet_enc', h.fields['payload'])
    if gid == XNULL:
        return uf(E, st, 'null_enc')
    if gid == XINT:
        return uf(E, st, 'int_enc', h.fields['value'])
    raise Unsupported('encode of ' + gid)


def _bytes_arg(E, st, x):
    """the byte-string alternatives of a decode() argument: list of (state, bytes) -- an int (INTEGER member) is refused with ValueError"""
    if isinstance(x, SUnionIB):
        outs = []
        for s1, v1 in E.resolve_union(st, x):
            outs += _bytes_arg(E, s1, v1)
        return outs
    if is_byteslike(x):
        return [(st, x)]
    if isinstance(x, Ref) and st.heap[x.oid].kind == 'bytearray':
        return [(st, st.heap[x.oid].items)]
    return [(st, None)]


def install_der_exact(reg):
    for gid, fields in ((XSEQ, {}), (XOID, {'value': 'any'}), (XOCT, {'payload': 'bytes'}), (XNULL, {}), (XINT, {'value': 'int'})):
        reg.add(ClassContract(gid, fields=fields, abstract=True))
    reg.used.add('assumed: ' + ASSUMED)

    def ctor_seq(E, st, args, kw):
        start = args[0] if args else kw.get('startSeq')
        if set(kw) - {'startSeq'} or len(args) > 1:
            raise Unsupported('DerSequence(implicit / explicit)')
        items = tuple(E.iter_concrete(start, st)) if start is not None else ()
        return val(st, rawapi.new_native(st, XSEQ, g_items=items, g_src=None, g_ints=False))
    reg.models[A + 'DerSequence'] = ctor_seq

    def ctor1(gid, field):
        def fn(E, st, args, kw):
            if kw or len(args) > 1:
                raise Unsupported('%s(implicit / explicit)' % gid)
            return val(st, rawapi.new_native(st, gid, **({field: (args[0] if args else None)} if field else {})))
        return fn
    reg.models[A + 'DerObjectId'] = ctor1(XOID, 'value')
    reg.models[A + 'DerOctetString'] = ctor1(XOCT, 'payload')
    reg.models[A + 'DerNull'] = ctor1(XNULL, None)
    reg.models[A + 'DerInteger'] = ctor1(XINT, 'value')
    for gid in (XSEQ, XOID, XOCT, XNULL, XINT):
        reg.models[gid + '.encode'] = lambda E, st, args, kw: val(st, encode(E, st, args[0]))

    def seq_append(E, st, args, kw):
        h = st.heap[args[0].oid]
        h.fields['g_items'] = h.fields['g_items'] + (args[1],)
        st.writes.append((args[0].oid, 'g_items'))
        return val(st, args[0])
    reg.models[XSEQ + '.append'] = seq_append

    def seq_decode(E, st, args, kw):
        self, x = args[0], args[1]
        nr = kw.get('nr_elements', args[3] if len(args) > 3 else None)
        only_ints = bool(kw.get('only_ints_expected', args[4] if len(args) > 4 else False))
        outs = []
        for s1, b in _bytes_arg(E, st, x):
            if b is None:
                outs += rz(s1, ValueError, 'Input is not a byte string')
                continue
            cnt = uf(E, s1, 'seq_count', b)
            conds = [zbool(uf(E, s1, 'is_seq', b))]
            if isinstance(nr, int):
                conds.append(zint(cnt) == nr)
            elif isinstance(nr, (tuple, range)):
                conds.append(z3.Or([zint(cnt) == k for k in nr]))
            elif nr is not None:
                raise Unsupported('nr_elements %r' % (nr,))
            if only_ints:
                if not isinstance(nr, int):
                    raise Unsupported('only_ints_expected without a fixed member count')
                conds += [zbool(uf(E, s1, 'is_int', uf(E, s1, 'seq_elem', b, i))) for i in range(nr)]
            ok, bad = E.split(s1, z3.And(conds))
            if bad is not None:
                outs += rz(bad, ValueError, 'DER')
            if ok is not None:
                h = ok.heap[self.oid]
                h.fields.update({'g_src': b, 'g_items': None, 'g_ints': only_ints, 'g_n': nr if isinstance(nr, int) else cnt})
                outs += val(ok, self)
        return outs
    reg.models[XSEQ + '.decode'] = seq_decode

    def member(E, st, self, i):
        h = st.heap[self.oid]
        if h.fields.get('g_src') is None:
            return h.fields['g_items'][i]
        e = uf(E, st, 'seq_elem', h.fields['g_src'], i)
        if h.fields['g_ints']:
            return uf(E, st, 'int_val', e)
        return SUnionIB(E.fresh(ANY, 'member'), zbool(uf(E, st, 'is_int', e)), zint(uf(E, st, 'int_val', e)), zbytes(e))

    def count(st, self):
        h = st.heap[self.oid]
        return len(h.fields['g_items']) if h.fields.get('g_src') is None else h.fields['g_n']

    def seq_getitem(E, st, args, kw):
        self, i = args
        n = count(st, self)
        if isinstance(i, slice):
            if not isinstance(n, int) or not all(x is None or isinstance(x, int) for x in (i.start, i.stop, i.step)):
                raise Unsupported('slice of a DER sequence with symbolic bounds / member count')
            return val(st, st.alloc(HObj('list', items=[member(E, st, self, k) for k in range(n)[i]])))
        if not isinstance(i, int):
            raise Unsupported('symbolic index into an abstract DER sequence')
        outs = []
        bad, ok = E.split(st, z3.Or(i >= zint(n), i < -zint(n)) if not isinstance(n, int) else z3.BoolVal(not -n <= i < n))
        if bad is not None:
            outs += rz(bad, IndexError, 'list index out of range')
        if ok is not None:
            if i < 0:
                if not isinstance(n, int):
                    raise Unsupported('negative index with symbolic member count')
                i += n
            outs += val(ok, member(E, ok, self, i))
        return outs
    reg.models[XSEQ + '.__getitem__'] = seq_getitem
    reg.models[XSEQ + '.__len__'] = lambda E, st, args, kw: val(st, count(st, args[0]))

    def seq_iter(E, st, args, kw):
        n = count(st, args[0])
        if not isinstance(n, int):
            raise Unsupported('iteration over a DER sequence with a symbolic member count')
        return val(st, tuple(member(E, st, args[0], k) for k in range(n)))
    reg.models[XSEQ + '.__iter__'] = seq_iter

    def simple_decode(gid):
        def fn(E, st, args, kw):
            self, x = args[0], args[1]
            outs = []
            for s1, b in _bytes_arg(E, st, x):
                if b is None:
                    outs += rz(s1, ValueError, 'Input is not a byte string')
                    continue
                pred = {XOID: 'is_oid', XOCT: 'is_octet', XNULL: 'is_null', XINT: 'is_int'}[gid]
                ok, bad = E.split(s1, zbool(uf(E, s1, pred, b)))
                if bad is not None:
                    outs += rz(bad, ValueError, 'DER')
                if ok is not None:
                    h = ok.heap[self.oid]
                    if gid == XOID:
                        h.fields['value'] = SStrL1(zbytes(uf(E, ok, 'oid_str', b)))
                    elif gid == XOCT:
                        h.fields['payload'] = uf(E, ok, 'octet_payload', b)
                    elif gid == XINT:
                        h.fields['value'] = uf(E, ok, 'int_val', b)
                    outs += val(ok, self)
            return outs
        return fn
    for gid in (XOID, XOCT, XNULL, XINT):
        reg.models[gid + '.decode'] = simple_decode(gid)
    return reg
