"""Contracts for lib/Crypto/Protocol/DH.py (C06 item 4): _compute_ecdh (shared secret = x coordinate of d*Q in the encoding of
SP 800-56A 5.7.1.2 / RFC 7748 5, neutral result refused), key_agreement (role matrix of SP 800-56A 6: which key pairs feed Zs and
Ze, Z = Ze || Zs, refusals) and the symmetry lemma 'both parties obtain the same Z'.  One registry per curve id (ecc_common)."""
from vf.pyvc.contracts import Contract
from vf.pyvc.interp import exc
from vf.pyvc.values import SOpaque
from . import ecc_common as EC
from . import key_ecc as KE
from .key_common import INT, OINT, BIGINT
import spec.keys as SK

D = 'Crypto.Protocol.DH.'
H = 'spec.keys_harness.'
OKEY = KE.OKEY


def install_integer_to_bytes(reg):
    reg.add(Contract(INT + '.to_bytes', params={'block_size': 'int', 'byteorder': "enum('big','little')"}, requires=['block_size > 0'],
                     raises={'ValueError': ('iff', 'self._value < 0 or self._value >= pow2(8 * block_size) or byteorder not in ("big", "little")')},
                     returns='(i2osp(self._value, block_size) if byteorder == "big" else i2le(self._value, block_size))',
                     # the most significant octet of the n-octet encoding is value div 256^(n-1)  (definition of I2OSP, RFC 8017 4.1)
                     ensures={'msb_octet': 'nth(result, 0 if byteorder == "big" else block_size - 1) == self._value // pow2(8 * (block_size - 1))'},
                     modifies=[], result='bytes',
                     assumed='Integer.to_bytes(n > 0) == I2OSP(value, n) / its little-endian twin, ValueError when it does not fit; ' + BIGINT))


def Z_expr(cid, priv, pub):
    """the shared point d*Q as an abstract element (x-only: the u coordinate or -1)"""
    Q = KE.Q_expr(cid, pub)
    return 'spec.ecgroup.%s(%d, %s, %s._d._value)' % ('xsmul' if cid in (8, 9) else 'smul', cid, Q, priv)


def z_bytes(cid, Z):
    n = SK.curve_bytes(cid)
    if cid in (8, 9):
        return 'i2le(%s, %d)' % (Z, n)                         # RFC 7748 5: little-endian u, 32 / 56 octets
    return 'i2osp(spec.ecgroup.px(%s), %d)' % (Z, n)           # SP 800-56A r3 5.7.1.2 + App. C.2: x_P as a string of ceil(log2 p / 8) octets


def neutral_test(cid, Z):
    return ('%s == -1' % Z) if cid in (8, 9) else ('%s == spec.ecgroup.neutral(%d)' % (Z, cid))


def kdf_hook(E, st, f, args, kwargs):
    """the caller's `kdf`: an arbitrary function of Z; its result is the uninterpreted spec.keys.kdf_out(Z)"""
    if not (isinstance(f, SOpaque) and f.label.startswith('callable:kdf')):
        return None
    if len(args) != 1 or kwargs:
        return [('raise', st, exc(TypeError, 'kdf takes one argument'))]
    from vf.pyvc.contracts import apply_opaque
    from vf.pyvc.models import b_bytes
    outs = []
    for o in b_bytes(E, st, [args[0]], {}):
        outs += apply_opaque(E, 'spec.keys.kdf_out', o[1], [o[2]], {}) if o[0] == 'val' else [o]
    return outs


def registry(cid, tier='thorough'):
    reg = KE.registry(cid, tier)
    install_integer_to_bytes(reg)
    reg.opaque_call_hook = kdf_hook
    inl = [KE.KEY + '.pointQ', KE.KEY + '.d', KE.KEY + '.seed', KE.KEY + '.has_private']
    Z = Z_expr(cid, 'key_priv', 'key_pub')
    reg.add(Contract(D + '_compute_ecdh', params={'key_priv': OKEY, 'key_pub': OKEY}, requires=['key_priv._d is not None'],
                     raises={'ValueError': ('iff', neutral_test(cid, Z))},
                     ensures={'Z': 'bytes(result) == old(%s)' % z_bytes(cid, Z), 'len': 'len(result) == %d' % SK.curve_bytes(cid),
                              # the only write is the cache of the peer's public point: its value is the point the key denoted before
                              'cache': 'key_pub._point is not None and key_pub._point._point._raw_pointer.%s == old(%s)' % (KE.gfield(cid), KE.Q_expr(cid, 'key_pub'))},
                     on_raise={'ValueError': ['key_pub._point is not None and key_pub._point._point._raw_pointer.%s == old(%s)' % (KE.gfield(cid), KE.Q_expr(cid, 'key_pub'))]},
                     modifies=['key_pub._point'], options={'on_raise_modifies': ['key_pub._point']}, inline=inl, result='bytes'))
    # symmetry: party A holds (dA, QB), party B holds (dB, QA) with QA = dA*G, QB = dB*G: both obtain the same Z, or both are refused
    G = KE.G_expr(cid)
    mont = cid in (8, 9)
    assoc = 'spec.ecgroup.%s' % ('xsmul_assoc' if mont else 'smul_assoc')
    gf = KE.gfield(cid)
    reg.add(Contract(H + 'ecdh_both_parties', params={'priv_a': OKEY, 'pub_a': OKEY, 'priv_b': OKEY, 'pub_b': OKEY},
                     requires=['priv_a._d is not None and priv_b._d is not None',
                               'pub_a._point is not None and pub_a._point._point._raw_pointer.%s == %s' % (gf, KE.mul_G(cid, 'priv_a._d._value')),
                               'pub_b._point is not None and pub_b._point._point._raw_pointer.%s == %s' % (gf, KE.mul_G(cid, 'priv_b._d._value')),
                               # ground instances of the group axiom b*(a*G) == (a*b)*G (trusted mathematics, spec/ecgroup.py)
                               '%s(%d, %s, priv_a._d._value, priv_b._d._value)' % (assoc, cid, G),
                               '%s(%d, %s, priv_b._d._value, priv_a._d._value)' % (assoc, cid, G)],
                     raises={'ValueError': ('iff', neutral_test(cid, KE.mul_G(cid, 'priv_a._d._value * priv_b._d._value')))},
                     ensures={'same_Z': 'bytes(result[0]) == bytes(result[1])'}, modifies=['pub_a._point', 'pub_b._point'],
                     inline=inl + [D + '_compute_ecdh']))      # the two calls are executed from the real source
    # role matrix (SP 800-56A r3 6.1-6.3: C(2e,2s), C(2e,0s), C(1e,2s), C(1e,1s), C(0e,2s)); every key is on this registry's curve
    def zs(priv, pub):
        return 'old(%s)' % z_bytes(cid, Z_expr(cid, 'kwargs["%s"]' % priv, 'kwargs["%s"]' % pub))
    has = lambda k: '("%s" in kwargs)' % k
    sp, spub, ep, epub = has('static_priv'), has('static_pub'), has('eph_priv'), has('eph_pub')
    Zs = '(%s if (%s and %s) else b"")' % (zs('static_priv', 'static_pub'), sp, spub)
    Ze = '(%s if (%s and %s) else (%s if (%s and %s) else (%s if (%s and %s) else b"")))' % (
        zs('eph_priv', 'eph_pub'), ep, epub, zs('eph_priv', 'static_pub'), ep, spub, zs('static_priv', 'eph_pub'), epub, sp)
    def neutral(priv, pub):
        return neutral_test(cid, Z_expr(cid, 'kwargs["%s"]' % priv, 'kwargs["%s"]' % pub))      # raises conditions are read in the entry state
    not_private = ' or '.join('(%s and kwargs["%s"]._d is None)' % (has(k), k) for k in ('static_priv', 'eph_priv'))
    n_priv = '(int(%s) + int(%s))' % (sp, ep)
    n_pub = '(int(%s) + int(%s))' % (spub, epub)
    too_few = '(%s + %s < 2 or %s == 0 or %s == 0)' % (n_priv, n_pub, n_priv, n_pub)
    mode_bad = '(%s and %s and (%s != %s))' % (ep, epub, sp, spub)             # C(2e, 1s) is not a scheme of SP 800-56A
    zs_neutral = '(%s and %s and %s)' % (sp, spub, neutral('static_priv', 'static_pub'))
    ze_neutral = '((%s and %s and %s) or (not (%s and %s) and %s and %s and %s) or (not (%s and %s) and not (%s and %s) and %s and %s and %s))' % (
        ep, epub, neutral('eph_priv', 'eph_pub'), ep, epub, ep, spub, neutral('eph_priv', 'static_pub'),
        ep, epub, ep, spub, epub, sp, neutral('static_priv', 'eph_pub'))
    shapes = []
    keys4 = ('static_priv', 'static_pub', 'eph_priv', 'eph_pub')
    for mask in range(16):
        items = ['%s:%s' % (k, OKEY) for i, k in enumerate(keys4) if mask >> i & 1]
        shapes.append('dict(%s)' % ', '.join(items + ['kdf:any:callable:kdf']))
    shapes.append('dict(static_priv:%s, static_pub:%s)' % (OKEY, OKEY))            # no kdf
    reg.add(Contract(D + 'key_agreement', params={'kwargs': '|'.join(shapes)},
                     # the keys passed in are keys the library handed out (object invariant of EccKey; not implied for members of **kwargs)
                     requires=['("%s" not in kwargs) or valid(kwargs["%s"])' % (k, k) for k in keys4],
                     raises={'ValueError': ('iff', '"kdf" not in kwargs or (not (%s) and (%s or %s or %s or %s))' % (not_private, too_few, zs_neutral, mode_bad, ze_neutral)),
                             'TypeError': ('iff', '"kdf" in kwargs and (%s)' % not_private)},
                     ensures={'Z': 'result == spec.keys.kdf_out(%s + %s)' % (Ze, Zs)},
                     modifies=None, inline=inl, result='bytes'))
    return KE.finish(reg)


def units(prop, tier):
    from vf.pyunit import pyvc_unit
    out = []
    if prop == 'C06':
        for cid in EC.ALL_CIDS:
            out.append(pyvc_unit(prop, 'dh.ecdh.%s' % EC.LABEL[cid], lambda cid=cid: registry(cid, tier),
                                 [D + '_compute_ecdh', H + 'ecdh_both_parties']))
            # the role matrix is curve-independent Python (the encodings are dh.ecdh.*): the quick tier runs it on P-256, thorough on all nine
            out.append(pyvc_unit(prop, 'dh.agreement.%s' % EC.LABEL[cid], lambda cid=cid: registry(cid, tier), [D + 'key_agreement'], weight=4,
                                 tiers=('quick', 'thorough') if cid == 3 else ('thorough',)))
    return out


# ======================================================================================================================================
# Vacuity / strength checks (lib/Crypto/Protocol/DH.py, C06 --only dh.):
#   `Ze = _compute_ecdh(eph_priv, static_pub)` -> `(static_priv, static_pub)`   exit 1  key_agreement.ensures.Z (+ call_pre key_priv._d is not None)
#   `Z = Ze + Zs` -> `Zs + Ze`                                                  exit 1  key_agreement.ensures.Z
#   X25519: `to_bytes(32, byteorder='little')` -> `'big'`                       exit 1  _compute_ecdh.ensures.Z (curve25519)
#   `if pointP.is_point_at_infinity():` disabled                                exit 1  _compute_ecdh.raises_iff.ValueError.if (+ symmetry lemma)
#   `key_pub.pointQ * key_priv.d` -> `key_priv.pointQ * key_priv.d`             exit 1  _compute_ecdh.ensures.Z / .cache / raises_iff (29 obligations)
#   local `pointP` renamed                                                      exit 0
# Assumed: the native point libraries (ecc_common.install_native; bounded/ec.py), Integer.to_bytes == I2OSP (bounded/bigint.py), the group axiom instances
#          smul_assoc / xsmul_assoc (spec/ecgroup.py: trusted mathematics).  The caller's kdf is an uninterpreted function of Z.
# NOT PROVED: key_agreement with keys of DIFFERENT curves (TypeError branch 'incompatible curve'): every registry is built for one curve, so that branch
#             is unreachable here; import_x25519_* / import_x448_* wrappers (two-line compositions of proved functions).
