"""Contracts for lib/Crypto/Cipher/_mode_eax.py (C01, C02 glue, C09, C10): EaxMode, built on the CMAC contracts of cmac.py.

EAX (Bellare-Rogaway-Wagner, Fig. 3):  N' = OMAC^0_K(N), H' = OMAC^1_K(H), C = CTR^{N'}_K(M), C' = OMAC^2_K(C),
Tag = N' xor H' xor C' truncated to tau;  OMAC^t_K(X) = OMAC_K([t]_n || X).
The three CMAC objects _omac[0..2] carry the abstract messages M_t (M of cmac.py); __init__ makes them [0]_n || N, [1]_n, [2]_n
(so by induction over any call history M_t = [t]_n || data_t); update() appends to M_1
(through `_signer`, which IS _omac[1]), encrypt()/decrypt() append the ciphertext to M_2 (C09: whatever the segmentation, and
from the output buffer when output= is used), the CTR object starts at N'.  digest()/verify() give
eax_tag_streams(K, M_0, M_1, M_2) = eax_tag(K, N, H, C) (C01).  Instantiated per block size (8, 16)."""
from vf.pyvc.contracts import Contract, ClassContract, lemma_contract
from vf.pyvc.values import *       # noqa
from . import aead1_natives as nat
from . import cmac
from .gcm import next_type, next_is, after
from spec import fsm

X = 'Crypto.Cipher._mode_eax.'
EM = X + 'EaxMode'
KEY_ = 'EAX'
STATE_NAMES = {('decrypt', 'digest', 'encrypt', 'update', 'verify'): 'init', ('digest', 'encrypt'): 'encrypting',
               ('decrypt', 'verify'): 'decrypting', ('digest',): 'digested', ('verify',): 'verified'}
assert sorted(STATE_NAMES) == sorted(fsm.reach(KEY_))


def O(i):
    return 'self._omac[%d]' % i


def Mi(i):
    return cmac.M.replace('self.', O(i) + '.')


FID, KEY = O(0) + '._ecb.g_fid', O(0) + '._ecb.g_key'


def tables(bs):
    BS = str(bs)

    def om(i):
        return 'spec.aead1.omac(%s, %s, %s, %s, %s)' % (FID, KEY, Mi(i), BS, BS)
    TAG_NOW = 'spec.aead1.eax_tag_streams(%s, %s, %s, %s, %s, %s, self._mac_len)' % (FID, KEY, Mi(0), Mi(1), Mi(2), BS)
    inv = {}
    for i in range(3):
        inv['omac%d' % i] = 'valid(%s)' % O(i)
        inv['cfg%d' % i] = 'conj(%s.digest_size == %s, not %s._update_after_digest)' % (O(i), BS, O(i))
    inv.update({
        'one_key': 'conj(%s)' % ', '.join('%s._ecb.g_fid == %s, %s._ecb.g_key == %s' % (O(i), FID, O(i), KEY) for i in (1, 2)),
        'mac_len': 'conj(2 <= self._mac_len, self._mac_len <= %s)' % BS,
        # N: complete and digested at construction; the CTR object starts at N'
        'nonce': '%s == bytes(%d) + bytes([0]) + self.nonce' % (Mi(0), bs - 1),
        'n_done': '%s._mac_tag is not None' % O(0),
        'ctr_id': 'conj(self._cipher.g_fid == %s, self._cipher.g_key == %s, self._cipher.g_plen == 0, self._cipher.g_limit == %s)'
                  % (FID, KEY, '-1' if bs == 16 else str(8 * 2 ** 64)),
        'ctr_icb': 'self._cipher.g_icb == ' + om(0),
        'ctr_pos': 'self._cipher.g_pos == len(%s) - %s' % (Mi(2), BS),
        'dir_enc': '("encrypt" in self._next) ==> self._cipher.g_dir != 2',
        'dir_dec': '("decrypt" in self._next) ==> self._cipher.g_dir != 1',
        'open': '("update" in self._next or "encrypt" in self._next or "decrypt" in self._next) ==> '
                '(self._mac_tag is None and %s._mac_tag is None and %s._mac_tag is None)' % (O(1), O(2)),
        'fin_len': 'self._mac_tag is not None ==> len(self._mac_tag) == self._mac_len',
        'fin_tag': 'impl(self._mac_tag is not None, self._mac_tag == %s)' % TAG_NOW,
    })
    return {'inv_' + k: v for k, v in inv.items()}, TAG_NOW


def registry(bs=16, state=None, buf='bytes|memoryview', out='none|bytearray'):
    reg = cmac.registry(bs, None, field_types={'_update_after_digest': ('const', False)})      # CMAC.new(...) without update_after_digest
    BS = str(bs)
    INV, TAG_NOW = tables(bs)
    TAG = '(self._mac_tag if self._mac_tag is not None else %s)' % TAG_NOW
    t = fsm.FSM[KEY_]
    state = tuple(t['init']) if state is None else tuple(state)
    Mth = t['methods']
    fields = {'_mac_len': 'int', '_mac_tag': 'bytes|none', 'nonce': 'bytes', 'block_size': ('const', bs),
              '_omac': 'list(obj:%s,obj:%s,obj:%s)' % (cmac.CM, cmac.CM, cmac.CM), '_signer': 'obj:' + cmac.CM,
              '_cipher': 'obj:' + nat.CTR, '_next': next_type(state)}
    if set(state) & {'update', 'encrypt', 'decrypt'}:
        fields['_mac_tag'] = 'none'
    cc = ClassContract(EM, fields=fields, valid=list(INV.values()))
    cc.aliases = {'_signer': 'self._omac[1]'}          # `self._signer = self._omac[1]`: one object, two fields
    reg.add(cc)

    def ens(d, keep=None):
        """postconditions + the invariant clauses that mention state the method may change (the others speak of locations
        outside its frame and keep holding for that reason)"""
        d = dict(d)
        d.update({k: v for k, v in INV.items() if keep is None or k[4:] in keep})
        return d
    def need(*names):
        """the part of the object invariant a method relies on, as explicit precondition (a method that touches one OMAC object
        is proved without the facts about the other two: smaller queries)"""
        return [INV['inv_' + n] for n in names]
    OPQ = ['spec.aead1.omac', 'spec.aead1.omac_k1', 'spec.aead1.omac_k2', 'spec.aead1.omac_max', 'spec.aead1.bx', 'spec.aead1.eax_tag_streams']
    omods = lambda i: ['%s.%s' % (O(i), f) for f in ('_data_size', '_cache', '_cache_n', '_cbc.g_fed', '_last_ct', '_last_pt')]    # noqa

    # ------------------------------------------------------------------ update
    ok = '"update" in self._next'
    reg.add(Contract(EM + '.update', params={'assoc_data': buf}, raises={'TypeError': ('iff', 'not (%s)' % ok)}, returns='self',
                     requires=need('omac1', 'cfg1', 'open', 'dir_enc', 'dir_dec'), options={'assume_valid': False},
                     ensures=ens({'stream': '%s == old(%s) + bytes(assoc_data)' % (Mi(1), Mi(1)), 'next': next_is(Mth, after(KEY_, 'update')),
                                  'self': 'result is self'}, keep=['omac1', 'open', 'dir_enc', 'dir_dec']),
                     lemmas={'exit': {'stream': '%s == old(%s) + bytes(assoc_data)' % (Mi(1), Mi(1)),
                                      'len': 'len(%s) == old(len(%s)) + len(assoc_data)' % (Mi(1), Mi(1))}},
                     sets={'self._next': repr(tuple(after(KEY_, 'update')))},
                     modifies=['self._next'] + omods(1), unchanged_on_raise=['TypeError'], opaque=OPQ))

    # ------------------------------------------------------------------ encrypt / decrypt
    def ks(arg):
        return ('spec.aead1.ctr_ks(%s, %s, spec.aead1.omac(%s, %s, %s, %s, %s), 0, old(len(%s)) - %s, len(%s))'
                % (FID, KEY, FID, KEY, Mi(0), BS, BS, Mi(2), BS, arg))
    for meth, arg in (('encrypt', 'plaintext'), ('decrypt', 'ciphertext')):
        ok = '"%s" in self._next' % meth
        mismatch = '(output is not None and len(output) != len(%s))' % arg
        over = 'conj(self._cipher.g_limit >= 0, self._cipher.g_pos + len(%s) > self._cipher.g_limit)' % arg
        val = 'spec.aead1.xor(bytes(%s), %s)' % (arg, ks(arg))
        ctv = '(result if output is None else bytes(output))' if meth == 'encrypt' else 'bytes(ciphertext)'
        nat.by_output(reg, Contract('%s.%s' % (EM, meth), params={arg: buf, 'output': out},
                      requires=need('omac2', 'cfg2', 'ctr_id', 'ctr_icb', 'ctr_pos', 'open', 'dir_enc', 'dir_dec'),
                      options={'assume_valid': False},
                      raises={'TypeError': ('iff', 'not (%s)' % ok), 'ValueError': ('iff', '%s and %s' % (ok, mismatch)),
                              'OverflowError': ('iff', '%s and conj(not %s, %s)' % (ok, mismatch, over))},
                      ensures=ens({'value': '(output is None ==> result == %s) and (output is not None ==> (result is None and bytes(output) == %s))' % (val, val),
                                   'stream': '%s == old(%s) + %s' % (Mi(2), Mi(2), ctv), 'next': next_is(Mth, after(KEY_, meth))},
                                  keep=['omac2', 'ctr_pos', 'open', 'dir_enc', 'dir_dec']),
                      lemmas={'exit': {'stream': '%s == old(%s) + %s' % (Mi(2), Mi(2), ctv),
                                       'len': 'len(%s) == old(len(%s)) + len(%s)' % (Mi(2), Mi(2), arg)}},
                      sets={'self._next': repr(tuple(after(KEY_, meth)))},
                      modifies=['self._next', 'self._cipher.g_pos', 'self._cipher.g_dir', 'output'] + omods(2),
                      unchanged_on_raise=['TypeError'], opaque=OPQ))

    # ------------------------------------------------------------------ digest / verify
    lemma_contract(reg, 'spec.aead1.lemma_eax_streams%d' % bs, {'fid': 'int', 'key': 'bytes', 'n': 'bytes', 'h': 'bytes', 'c': 'bytes', 'tau': 'int'},
                   opaque=['spec.aead1.omac', 'spec.aead1.bx'])
    ZERO = 'spec.aead1.lemma_xor_zero%d' % bs
    # CMAC refuses to finalise more than 2^48 (2^21) blocks; an OMAC object finalised by an earlier, failed attempt answers from its cache
    too_long = ('self._mac_tag is None and disj(%s)' % ', '.join('conj(%s._mac_tag is None, %s._data_size > spec.aead1.omac_max(%s))' % (O(i), O(i), BS)
                                                                for i in (1, 2)))
    fin_mod = ['self._mac_tag'] + [O(i) + '._mac_tag' for i in range(3)]
    FIN_KEEP = ['omac1', 'omac2', 'open', 'dir_enc', 'dir_dec', 'fin_len', 'fin_tag']
    idem = 'old(self._mac_tag is not None) ==> self._mac_tag == old(%s)' % TAG
    reg.add(Contract(EM + '.digest', params={},
                     raises={'TypeError': ('iff', 'not ("digest" in self._next)'), 'ValueError': ('iff', '"digest" in self._next and %s' % too_long)},
                     ensures=ens({'tag': 'result == old(%s)' % TAG, 'cached': 'self._mac_tag == result', 'idempotent': idem,
                                  'next': next_is(Mth, after(KEY_, 'digest'))}, keep=FIN_KEEP),
                     sets={'self._next': repr(tuple(after(KEY_, 'digest'))), 'self._mac_tag': 'old(%s)' % TAG}, returns='old(%s)' % TAG,
                     instances={'entry': ['%s(spec.aead1.omac(%s, %s, %s, %s, %s))' % (ZERO, FID, KEY, Mi(0), BS, BS)]},
                     modifies=['self._next'] + fin_mod, unchanged_on_raise=['TypeError'], opaque=OPQ[:-1],
                     options={'on_raise_modifies': ['self._next'] + fin_mod}))
    reg.add(Contract(EM + '.verify', params={'received_mac_tag': buf.replace('bytes|memoryview', 'buffer')},
                     raises={'TypeError': ('iff', 'not ("verify" in self._next)'),
                             'ValueError': ('iff', '"verify" in self._next and ((%s) or bytes(received_mac_tag) != %s)' % (too_long, TAG))},
                     ensures=ens({'cached': 'self._mac_tag == old(%s)' % TAG, 'idempotent': idem, 'none': 'result is None',
                                  'next': next_is(Mth, after(KEY_, 'verify'))}, keep=FIN_KEEP),
                     sets={'self._next': repr(tuple(after(KEY_, 'verify'))), 'self._mac_tag': 'old(%s)' % TAG},
                     instances={'entry': ['%s(spec.aead1.omac(%s, %s, %s, %s, %s))' % (ZERO, FID, KEY, Mi(0), BS, BS)]},
                     modifies=['self._next'] + fin_mod, unchanged_on_raise=['TypeError'], opaque=OPQ[:-1],
                     options={'on_raise_modifies': ['self._next'] + fin_mod}))
    # ------------------------------------------------------------------ construction (C02 glue, C01 mac_len domain)
    # (a nonce longer than CMAC's per-key message span is refused by the OMAC^0 object: "MAC is unsafe for this message")
    bad = ('mac_len < 2 or mac_len > %s or len(nonce) == 0 or (factory.block_size in (8, 16) and %s + len(nonce) > spec.aead1.omac_max(%s))'
           % (BS, BS, BS))
    flds = dict(fields, _mac_tag='none', _mac_len='int')
    flds.pop('_signer')
    nat.ctor_at_call_sites(reg, Contract(
        EM + '.__init__', params={'factory': 'obj:' + nat.FACTORY, 'key': 'bytes', 'nonce': buf.replace('bytes|memoryview', 'buffer'), 'mac_len': 'int',
                                  'cipher_params': 'dict()'},
        raises={'ValueError': ('iff', bad), 'TypeError': ('iff', 'not (%s) and factory.block_size not in (8, 16)' % bad)},
        ensures=ens({'nonce_attr': 'self.nonce == bytes(nonce)', 'mac_len_attr': 'self._mac_len == mac_len',
                     'cipher': 'conj(%s == factory.g_fid, %s == bytes(key))' % (FID, KEY),
                     'streams': 'conj(%s == bytes(%d) + bytes([1]), %s == bytes(%d) + bytes([2]))' % (Mi(1), bs - 1, Mi(2), bs - 1),
                     'signer': 'self._signer is self._omac[1]', 'no_tag': 'self._mac_tag is None',
                     'fresh': 'conj(self._cipher.g_pos == 0, self._cipher.g_dir == 0)', 'next': next_is(Mth, t['init'])}),
        sets={'self._next': repr(tuple(t['init']))},
        lemmas={'exit': {'nonce_attr': 'self.nonce == bytes(nonce)',
                         'm0': '%s == bytes(%d) + bytes([0]) + bytes(nonce)' % (Mi(0), bs - 1),
                         'm2': '%s == bytes(%d) + bytes([2])' % (Mi(2), bs - 1), 'len2': 'len(%s) == %s' % (Mi(2), BS)}},
        modifies=['self.*'], options={'assume_valid': False}, opaque=OPQ), flds)
    return reg


def _st(name):
    for k, v in STATE_NAMES.items():
        if v == name:
            return k
    raise KeyError(name)


PERMITTED = {'update': ['init'], 'encrypt': ['init', 'encrypting'], 'decrypt': ['init', 'decrypting'],
             'digest': ['init', 'encrypting', 'digested'], 'verify': ['init', 'decrypting', 'verified']}


def _reg_with(target, params, *args, lean=False):
    reg = registry(*args)
    c = reg.contracts[target]
    c.params = dict(c.params, **params)
    if lean:
        # a forbidden call: every path is the immediate TypeError; proved for ARBITRARY objects (no invariant assumed at all)
        c.requires = []
        c.options = dict(c.options, assume_valid=False)
    return reg


def units(prop, tier):
    """the three OMAC objects make every EAX unit expensive to explore (1-2 min of CPU): the quick tier takes a covering
    selection for block size 16 (+ one 8), the thorough tier every method x state x block size x buffer type"""
    from vf.pyunit import pyvc_unit
    import functools
    out = []
    quick = tier == 'quick'
    m = lambda x: EM + '.' + x        # noqa
    ARG = {'update': 'assoc_data', 'encrypt': 'plaintext', 'decrypt': 'ciphertext', 'verify': 'received_mac_tag'}

    def u(meth, state, bs=16, b='bytes', tag=''):
        params = {ARG[meth]: b} if meth in ARG else {}
        uid = 'eax.%s%s%s@bs%d/%s' % (meth, ('[%s]' % b) if meth in ARG else '', tag, bs, state)
        out.append(pyvc_unit(prop, uid, functools.partial(_reg_with, m(meth), params, bs, _st(state), lean=(tag == '[forbidden]')), [m(meth)],
                             weight=1 if tag else 4 if meth in ('digest', 'verify') else 2))

    def init(bs, b):
        out.append(pyvc_unit(prop, 'eax.__init__[nonce:%s]@bs%d' % (b, bs), functools.partial(_reg_with, m('__init__'), {'nonce': b}, bs), [m('__init__')], weight=4))
    bufs = ['bytes', 'memoryview']
    if prop == 'C09':
        if quick:
            u('update', 'init'); u('encrypt', 'init'); u('decrypt', 'decrypting', 8, 'memoryview')
        else:
            for bs in (16, 8):
                for b in bufs:
                    for meth in ('update', 'encrypt', 'decrypt'):
                        for s in PERMITTED[meth]:
                            u(meth, s, bs, b)
    elif prop == 'C10':
        if quick:
            for meth, s in (('update', 'init'), ('encrypt', 'init'), ('decrypt', 'decrypting'), ('digest', 'init'),
                            ('digest', 'digested'), ('verify', 'verified')):
                u(meth, s)
            for meth, s in (('update', 'encrypting'), ('encrypt', 'digested'), ('decrypt', 'encrypting'), ('digest', 'decrypting'), ('verify', 'encrypting'),
                            ('update', 'verified')):
                u(meth, s, tag='[forbidden]')
        else:
            for bs in (16, 8):
                for meth in PERMITTED:
                    for s in STATE_NAMES.values():
                        u(meth, s, bs, tag='' if s in PERMITTED[meth] else '[forbidden]')
    elif prop == 'C01':
        out.append(pyvc_unit(prop, 'eax.lemmas', functools.partial(registry, 16), ['spec.aead1.lemma_eax_streams16']))
        out.append(pyvc_unit(prop, 'eax.lemmas8', functools.partial(registry, 8), ['spec.aead1.lemma_eax_streams8']))
        if quick:
            u('digest', 'encrypting'); u('verify', 'decrypting'); u('verify', 'verified', 8, 'bytearray'); init(16, 'bytes')
        else:
            for bs in (16, 8):
                for s in PERMITTED['digest']:
                    u('digest', s, bs)
                for s in PERMITTED['verify']:
                    for b in ('bytes', 'bytearray', 'memoryview'):
                        u('verify', s, bs, b)
                for b in ('bytes', 'bytearray', 'memoryview'):
                    init(bs, b)
    elif prop == 'C02':
        init(16, 'bytes' if quick else 'bytearray')
        init(8, 'memoryview')
        init(12, 'bytes')
        u('encrypt', 'encrypting'); u('decrypt', 'init', 8)
    return out


# NOT PROVED: _create_eax_cipher (kwargs glue): left out for time; EaxMode.__init__ carries the parameter domain (mac_len 2..block
#   size, non-empty nonce) and the derived state (three OMAC prefixes, N' as initial counter block).
# NOT PROVED: encrypt_and_digest / decrypt_and_verify / hexdigest / hexverify of EaxMode (compositions of the proved methods;
#   hex forms use binascii / string formatting outside the subset).
# NOT PROVED: bytearray arguments to update/encrypt/decrypt data parameters: they reach CMAC.update, whose body takes
#   memoryview(msg) (engine: no memoryview over a mutable bytearray); the output= bytearray path IS proved (it reaches CMAC.update
#   only through the callee contract).
#
# Vacuity / strength check (tools/mut.py, quick tier, 2026-09-26): semantic mutants -> exit 1 on the named obligation.
#   C09  encrypt: `_omac[2].update(ct)` -> `update(plaintext)`          -> encrypt.lemma.stream
#   C10  decrypt: successor `["decrypt","verify"]` + "digest"           -> decrypt.ensures.next
#   C10  encrypt: guard -> `if False` (state `digested`)                -> encrypt.call_pre.valid_self / raises_iff (26 obligations)
#   C01  digest: `tag[:self._mac_len]` -> `[:self._mac_len - 1]`        -> digest.ensures.tag, .inv_fin_len, .inv_fin_tag
#   C01  __init__: `2 <= self._mac_len` -> `1 <=`                       -> __init__.raises_iff.ValueError.if, .inv_mac_len
#   C02  __init__: OMAC prefix byte `i` -> `i + 1`                      -> __init__.lemma.m0
#   C02  __init__: `initial_value=counter_int` -> `counter_int + 1`     -> __init__.ensures.inv_ctr_icb
