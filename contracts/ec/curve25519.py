"""Sidecar contracts (CVC algebraic mode) for the Montgomery ladder step of src/curve25519.c (and, by subclassing, src/curve448.c).
Curve: y^2 = x^3 + A x^2 + x (B = 1), x-only arithmetic on (X:Z).      C06 item 1 (xDBL / xADD).

Convention check.  RFC 7748 section 5 uses a24 = (A - 2)/4 (121665 resp. 39081) in  z_2 = E*(AA + a24*E).  The C code uses the
constant a24_C = 121666 resp. 39082 = (A + 2)/4 in  z2 = E*(BB + a24_C*E).  Because E = AA - BB the two agree:
BB + (a24+1)*E == AA + a24*E.  The contract states the RFC's formulas (spec.curves.rfc7748_ladder_step with the RFC's a24)
and the hypothesis a24_C == a24_RFC + 1 == (A + 2)/4, which the `constant` obligation checks on the value read from the source.

Ladder invariant (DESIGN C06 item 2 needs exactly this step lemma): given x(P) = X1 (affine), (X2:Z2) = x(Q), (X3:Z3) = x(R) with
R - Q = P, after the step (X2':Z2') = x(2Q) and (X3':Z3') = x(Q + R).  With Q = [n]P, R = [n+1]P this is x([2n]P), x([2n+1]P)."""
import sympy as sp

from spec import curves as C
from vf.cvc_alg import witness as W
from vf.cvc_alg.contract import ConstEq, FnContract, NotIdentZero, Zero
from .ec_ws import frac

X1, X2, Z2, X3, Z3, a24, A = sp.symbols('X1 X2 Z2 X3 Z3 a24 A')
xq, yq, xr, yr, z2, z3, lam, mu = sp.symbols('xq yq xr yr z2 z3 lam mu')
NAMES = ('X2n', 'Z2n', 'X3n', 'Z3n')

TRUSTED = [
    'the affine chord/tangent law on y^2 = x^3 + A x^2 + x is the group law (spec.curves.mont_add_affine / mont_double_affine)',
    'sympy 1.14 polynomial arithmetic / Groebner bases; clang-14 AST agrees with the compiler used for the build',
]
AREL = 4 * a24 - A - 2            # a24 (C convention) == (A + 2)/4
CQ = C.mont_curve(xq, yq, A)
CR = C.mont_curve(xr, yr, A)


class LadderStep(FnContract):
    area = 'curve25519'
    file = 'curve25519.c'
    family = '25519'
    function = 'curve25519_ladder_step'
    prop = 'C06'
    configs = ('only',)
    abstract_consts = {'a24': 'a24'}
    trusted = TRUSTED
    curve = 'Curve25519'
    spec = C.X25519

    def setup(self, H, cfg):
        ptrs = [H.elem(s, n) for s, n in ((X2, 'x2'), (Z2, 'z2'), (X3, 'x3'), (Z3, 'z3'), (X1, 'xp'))]
        return dict(args=ptrs, outs=ptrs[:4], xp=ptrs[4])

    def outputs(self, pv):
        return dict(zip(NAMES, (pv.fe(q) for q in pv.env['outs'])))

    def const_obs(self, pv):
        yield ConstEq('a24_value', 'the limb constant a24[10] denotes (A + 2)/4 = %d, A = %d from RFC 7748 4.1 (the RFC\'s own a24 is (A - 2)/4 = %d; '
                      'see the convention check in the contract header)' % ((self.spec['A'] + 2) // 4, self.spec['A'], self.spec['a24_rfc']),
                      pv.consts.get('a24'), (self.spec['A'] + 2) // 4)

    def frame(self, pv):
        yield Zero('frame_xp', 'the fixed x(P) is not modified', pv.fe(pv.env['xp']) - X1, kind='frame')

    def sample(self, rng):
        return W.mont_sample(rng, self.curve)

    def ensures(self, pv):
        out = self.outputs(pv)
        pv.env['out_exprs'] = out
        yield from self.const_obs(pv)
        ref = dict(zip(NAMES, C.rfc7748_ladder_step(X1, X2, Z2, X3, Z3, a24 - 1)))
        for n in NAMES:
            yield Zero('rfc_' + n, '%s equals the RFC 7748 section 5 ladder-step polynomial exactly (RFC a24 = a24_C - 1)' % n, out[n] - ref[n])
        yield from self.frame(pv)
        # ---- group law, differential form
        xD = sp.together(C.mont_add_affine((xr, yr), (xq, -yq), A)[0])          # x(R - Q) = x(P)
        xS = sp.together(C.mont_add_affine((xq, yq), (xr, yr), A)[0])           # x(Q + R)
        x2Q = sp.together(C.mont_double_affine((xq, yq), A)[0])                 # x(2Q)
        inst = {X1: xD, X2: xq * z2, Z2: z2, X3: xr * z3, Z3: z3}
        o = {n: sp.together(v.subs(inst, simultaneous=True)) for n, v in out.items()}
        n_, d_ = frac(x2Q)
        yield Zero('xDBL', '(X2\':Z2\') == x(2Q) for Q on the curve, (X2:Z2) any representative of x(Q): X2\'*den - num*Z2\' == 0 modulo the curve equation, a24 == (A+2)/4',
                   o['X2n'] * d_ - n_ * o['Z2n'], hyps=[CQ, AREL], inputs=inst)
        n_, d_ = frac(xS)
        yield Zero('xADD', '(X3\':Z3\') == x(Q+R) for Q, R on the curve with x(R-Q) == X1: X3\'*den - num*Z3\' == 0 modulo the two curve equations',
                   o['X3n'] * d_ - n_ * o['Z3n'], hyps=[CQ, CR, AREL], inputs=inst)
        yield NotIdentZero('xDBL_nondegenerate', 'Z2\' is not identically zero on the curve', o['Z2n'], hyps=[CQ, AREL])
        yield NotIdentZero('xADD_nondegenerate', 'Z3\' is not identically zero on curve x curve', o['Z3n'], hyps=[CQ, CR, AREL])
        yield Zero('xDBL_z_formula', 'Z2\' == 4*X2*Z2*(X2^2 + A*X2*Z2 + Z2^2) given a24 == (A+2)/4: it vanishes exactly for Q neutral (Z2 = 0) or of order 2 '
                   '(y = 0), where 2Q is neutral indeed', out['Z2n'] - 4 * X2 * Z2 * (X2 ** 2 + A * X2 * Z2 + Z2 ** 2), hyps=[AREL])
        # ---- homogeneity
        for n, (dq, dr) in zip(NAMES, ((4, 0), (4, 0), (2, 2), (2, 2))):
            s = {X2: lam * X2, Z2: lam * Z2, X3: mu * X3, Z3: mu * Z3}
            yield Zero('homogeneous_' + n, '%s is bihomogeneous of degree (%d,%d) in ((X2,Z2),(X3,Z3))' % (n, dq, dr),
                       out[n].subs(s, simultaneous=True) - lam ** dq * mu ** dr * out[n])
        # ---- ladder start: (X2:Z2) = (1:0) neutral, (X3:Z3) = (X1:1)
        st = {X2: 1, Z2: 0, X3: X1, Z3: 1}
        o = {n: v.subs(st) for n, v in out.items()}
        yield Zero('start_neutral_z', 'first iteration: 2*neutral is neutral, Z2\' == 0', o['Z2n'], inputs=st)
        yield Zero('start_neutral_x', 'first iteration: X2\' == 1 (non-zero)', o['X2n'] - 1, inputs=st)
        yield Zero('start_add', 'first iteration: (X3\':Z3\') == (X1:1), i.e. neutral + P == P', o['X3n'] - X1 * o['Z3n'], inputs=st)

    def witness(self, pv, ob, asg, p, meta):
        out = pv.env['out_exprs']
        inst = getattr(ob, 'inputs', None) or {}
        ins = {}
        for s in (X1, X2, Z2, X3, Z3):
            ins[s.name] = W.ev(sp.sympify(inst.get(s, s)), asg, p)
        a2 = dict(asg)
        a2.update(ins)
        res = {n: W.ev(e, a2, p) for n, e in out.items()}
        E_ = C.MontCurve(self.spec, self.curve)
        Q, R = meta['Q'], meta['R']
        want2 = E_.add(Q, Q)
        want3 = E_.add(Q, R)

        def aff(xn, zn):
            return None if zn == 0 else xn * pow(zn, -1, p) % p

        got2, got3 = aff(res['X2n'], res['Z2n']), aff(res['X3n'], res['Z3n'])
        wit = {'curve': self.curve, 'Q': W.hx(Q), 'R': W.hx(R), 'x(P) = x(R-Q)': hex(ins['X1']),
               'inputs': {k: hex(v) for k, v in ins.items()}, 'C_formula_x(2Q)': W.hx(got2), 'group_law_x(2Q)': W.hx(want2 and want2[0]),
               'C_formula_x(Q+R)': W.hx(got3), 'group_law_x(Q+R)': W.hx(want3 and want3[0]),
               'differs': got2 != (want2 and want2[0]) or got3 != (want3 and want3[0])}
        # replay: scalar multiplication of the installed library against the RFC 7748 ladder oracle on the same base point
        replayed, rec = W.replay_mont_scalar(self.curve, ins['X1'], 0x5A5 + (ins['X1'] & 0xFF), 16)
        return wit, rec, replayed


CONTRACTS = [LadderStep()]
