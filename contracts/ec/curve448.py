"""Sidecar contracts (CVC algebraic mode) for src/curve448.c: the same ladder step as curve25519.c, over mont.c numbers, with a24 taken
from Curve448Context.a24 (set to 39082 = (156326 + 2)/4 in curve448_new_context, which is executed symbolically for the
`constant` obligations).  See contracts/ec/curve25519.py for the statement and the a24 convention check."""
from spec import curves as C
from vf.cvc_alg.contract import E, Zero
from . import curve25519 as X
from . import ed448 as ED448

X1, X2, Z2, X3, Z3, a24 = X.X1, X.X2, X.Z2, X.X3, X.Z3, X.a24


class LadderStep(X.LadderStep):
    area = 'curve448'
    file = 'curve448.c'
    family = 'mont'
    function = 'curve448_ladder_step'
    abstract_consts = {}
    curve = 'Curve448'
    spec = C.X448

    def setup(self, H, cfg):
        ctx = H.struct('MontContext', 'ctx', bytes=H.sym('nbytes'), words=H.sym('nwords'), modulus_type=H.sym('modulus_type'), modulus_len=H.sym('modulus_len'))
        ectx = H.struct('Curve448Context', 'ec_ctx', mont_ctx=ctx, a24=E(a24))
        wp2 = H.struct('WorkplaceCurve448', 'P2.wp', a='temp', b='temp', scratch='scratch')
        p2 = H.struct('Curve448Point', 'P2', ec_ctx=ectx, wp=wp2, x=E(X2), z=E(Z2))
        p3 = H.struct('Curve448Point', 'P3', x=E(X3), z=E(Z3))
        p1 = H.struct('Curve448Point', 'P1', x=E(X1), z=E(1))
        return dict(args=[p2, p3, p1], p2=p2, p3=p3, p1=p1, ectx=ectx)

    def outputs(self, pv):
        e = pv.env
        return dict(zip(X.NAMES, (pv.fe(e['p2'], 'x'), pv.fe(e['p2'], 'z'), pv.fe(e['p3'], 'x'), pv.fe(e['p3'], 'z'))))

    def const_obs(self, pv):
        return ()

    def frame(self, pv):
        yield Zero('frame_xp', 'the fixed x(P) is not modified', pv.fe(pv.env['p1'], 'x') - X1, kind='frame')
        yield Zero('frame_a24', 'the context constant a24 is not modified', pv.fe(pv.env['ectx'], 'a24') - a24, kind='frame')


class NewContext(ED448.NewContext):
    area = 'curve448'
    file = 'curve448.c'
    function = 'curve448_new_context'
    ctx_type = 'Curve448Context *'
    field = 'a24'

    def expected(self):
        return (C.X448['A'] + 2) // 4, 'a24 == (A + 2)/4 = 39082 with A = 156326 (RFC 7748 4.2); the RFC\'s own a24 is (A - 2)/4 = 39081'


CONTRACTS = [LadderStep(), NewContext()]
