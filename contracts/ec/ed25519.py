"""Sidecar contracts (CVC algebraic mode) for src/ed25519.c: twisted Edwards curve -x^2 + y^2 = 1 + d x^2 y^2 over 2^255-19 in
extended homogeneous coordinates (X:Y:Z:T), x = X/Z, y = Y/Z, x*y = T/Z.     C06 item 1 (add/double), C05 (on-curve test).

The constants are read from the source AST: `static const uint32_t k[10]` (limbs, radix 2^25.5) in ed25519_add_internal and the hex
string `d` in ed25519_new_point; during execution they are the symbols k and d, and separate `constant` obligations compare
their concrete values with RFC 8032 (d = -121665/121666, k = 2d mod p)."""
import sympy as sp

from spec import curves as C
from vf.cvc_alg import witness as W
from vf.cvc_alg.contract import ConstEq, E, FnContract, Holds, NotIdentZero, Zero
from vf.cvc_alg.engine import IntV, PtrV
from .ec_ws import err_code, frac

X1, Y1, Z1, T1, X2, Y2, Z2, T2 = sp.symbols('X1 Y1 Z1 T1 X2 Y2 Z2 T2')
x1, y1, x2, y2, d, k, lam, mu = sp.symbols('x1 y1 x2 y2 d k lam mu')
x, y = sp.symbols('x y')
P = C.ED25519['p']

TRUSTED = [
    'completeness of the twisted Edwards addition law for a square, d non-square (Bernstein-Birkner-Joye-Lange-Peters 2008, Thm 3.3 / '
    'Hisil-Wong-Carter-Dawson 2008): the denominators 1 +- d*x1*x2*y1*y2 never vanish on the curve; a = -1 is a square and d is a '
    'non-square mod 2^255-19 (checked numerically in spec.curves.selfcheck)',
    'sympy 1.14 polynomial arithmetic / Groebner bases; clang-14 AST agrees with the compiler used for the build',
]

AFF1 = {X1: x1, Y1: y1, Z1: 1, T1: x1 * y1}
AFF2 = {X2: x2, Y2: y2, Z2: 1, T2: x2 * y2}
CURVE1 = C.ted_curve(x1, y1, -1, d)
CURVE2 = C.ted_curve(x2, y2, -1, d)
KREL = k - 2 * d
EXT1 = T1 * Z1 - X1 * Y1
EXT2 = T2 * Z2 - X2 * Y2
PCURVE1 = -X1 ** 2 + Y1 ** 2 - Z1 ** 2 - d * T1 ** 2       # projective curve equation in extended coordinates
NAMES = ('X3', 'Y3', 'Z3', 'T3')
FIELDS = ('X', 'Y', 'Z', 'T')


class _Ed(FnContract):
    area = 'ed25519'
    file = 'ed25519.c'
    family = '25519'
    prop = 'C06'
    trusted = TRUSTED
    curve = 'Ed25519'

    def sample(self, rng):
        return W.ted_sample(rng, self.curve)

    def _point(self, H, label, syms):
        return H.struct('Point', label, **{f: E(s, canon=False) for f, s in zip(FIELDS, syms)})

    def _out(self, pv, ptr):
        return dict(zip(NAMES, (pv.fe(ptr, f) for f in FIELDS)))

    def _explain(self, pv, ob, asg, p, meta, op):
        out = pv.env['out_exprs']
        inst = getattr(ob, 'inputs', None) or {}
        ins = {}
        for s in (X1, Y1, Z1, T1, X2, Y2, Z2, T2):
            ins[s.name] = W.ev(sp.sympify(inst.get(s, s)), asg, p)
        a2 = dict(asg)
        a2.update(ins)
        res = {n: W.ev(e, a2, p) for n, e in out.items()}
        E_ = C.TedCurve(C.ED25519 if self.curve == 'Ed25519' else C.ED448, self.curve)
        P1 = W.proj_to_affine(ins['X1'], ins['Y1'], ins['Z1'], p)
        P2 = W.proj_to_affine(ins['X2'], ins['Y2'], ins['Z2'], p) if op == 'add' else P1
        want = E_.add(P1, P2)
        got = W.proj_to_affine(res['X3'], res['Y3'], res['Z3'], p)
        wit = {'curve': self.curve, 'P1_affine': W.hx(P1), 'C_formula_result': {n: hex(v) for n, v in res.items()},
               'C_formula_result_affine': W.hx(got), 'group_law_result_affine': W.hx(want), 'differs': got != want}
        if 'T3' in res and got is not None:
            wit['T3*Z3 == X3*Y3'] = (res['T3'] * res['Z3'] - res['X3'] * res['Y3']) % p == 0
        if op == 'add':
            wit['P2_affine'] = W.hx(P2)
        replayed, rec = W.replay_ted(self.curve, op, P1, P2, want)
        return wit, rec, replayed


class Add(_Ed):
    function = 'ed25519_add_internal'
    configs = ('distinct', 'P3=P1', 'P3=P2', 'P3=P1=P2')
    abstract_consts = {'k': 'k'}

    def setup(self, H, cfg):
        p1 = self._point(H, 'P1', (X1, Y1, Z1, T1))
        p2 = p1 if cfg == 'P3=P1=P2' else self._point(H, 'P2', (X2, Y2, Z2, T2))
        p3 = {'distinct': None, 'P3=P1': p1, 'P3=P2': p2, 'P3=P1=P2': p1}[cfg] or H.struct('Point', 'P3')
        return dict(args=[p3, p1, p2], p1=p1, p2=p2, p3=p3)

    def ensures(self, pv):
        env = pv.env
        out = self._out(pv, env['p3'])
        env['out_exprs'] = out
        same = pv.cfg == 'P3=P1=P2'
        Q2 = (X1, Y1, Z1, T1) if same else (X2, Y2, Z2, T2)
        ref = dict(zip(('X3', 'Y3', 'Z3', 'T3'), C.rfc8032_ed25519_add((X1, Y1, Z1, T1), Q2, d)))
        yield ConstEq('k_is_2d', 'the limb constant k[10] in ed25519_add_internal denotes 2*d mod 2^255-19 with d = -121665/121666 (RFC 8032 5.1)',
                      pv.consts.get('k'), 2 * C.ED25519['d'], P)
        for n in NAMES:
            yield Zero('rfc_' + n, '%s equals the RFC 8032 5.1.4 polynomial exactly, given k == 2d%s' % (n, ' [P2 is the same object as P1]' if same else ''),
                       out[n] - ref[n], hyps=[KREL])
        if pv.cfg in ('distinct', 'P3=P2'):
            for f, s in zip(FIELDS, (X1, Y1, Z1, T1)):
                yield Zero('frame_P1.' + f, 'input P1.%s is not modified' % f, pv.fe(env['p1'], f) - s, kind='frame')
        if pv.cfg in ('distinct', 'P3=P1'):
            for f, s in zip(FIELDS, (X2, Y2, Z2, T2)):
                yield Zero('frame_P2.' + f, 'input P2.%s is not modified' % f, pv.fe(env['p2'], f) - s, kind='frame')
        if pv.cfg != 'distinct':
            return
        a = {n: v.subs({**AFF1, **AFF2}) for n, v in out.items()}
        xs, ys = C.ted_add_affine((x1, y1), (x2, y2), -1, d)
        (xn, xd), (yn, yd) = frac(xs), frac(ys)
        inst = {**AFF1, **AFF2}
        h = [KREL, CURVE1, CURVE2]
        yield Zero('law_x', 'for affine points on the curve (ANY pair, the law is unified): X3/Z3 equals the Edwards addition law x3', a['X3'] * xd - xn * a['Z3'], hyps=h, inputs=inst)
        yield Zero('law_y', 'for affine points on the curve: Y3/Z3 equals the Edwards addition law y3', a['Y3'] * yd - yn * a['Z3'], hyps=h, inputs=inst)
        t = d * x1 * x2 * y1 * y2
        yield Zero('z_formula', 'Z3 == 4*(1 - d x1x2y1y2)*(1 + d x1x2y1y2): never zero on the curve by the trusted completeness theorem, so the result is always a valid point',
                   a['Z3'] - 4 * (1 - t) * (1 + t), hyps=h, inputs=inst)
        yield Zero('extended_invariant', 'T3*Z3 == X3*Y3 (the output is a consistent extended representation)', out['T3'] * out['Z3'] - out['X3'] * out['Y3'])
        for n, e in out.items():
            s = {v: lam * v for v in (X1, Y1, Z1, T1)}
            s.update({v: mu * v for v in (X2, Y2, Z2, T2)})
            yield Zero('homogeneous_' + n, '%s is bihomogeneous of degree (2,2): the result does not depend on the representatives chosen' % n,
                       e.subs(s, simultaneous=True) - lam ** 2 * mu ** 2 * e)
        # neutral operand (0:1:1:0)
        o = {n: v.subs({X2: 0, Y2: 1, Z2: 1, T2: 0}) for n, v in out.items()}
        for n, c in zip(NAMES, (X1, Y1, Z1, T1)):
            yield Zero('neutral_right_' + n, 'P + (0:1:1:0) == 4*Z1*(X1:Y1:Z1:T1) modulo T1*Z1 == X1*Y1', o[n] - 4 * Z1 * c, hyps=[EXT1],
                       inputs={X2: 0, Y2: 1, Z2: 1, T2: 0})
        # inverse: -P = (-X1 : Y1 : Z1 : -T1)
        sub = {X2: -X1, Y2: Y1, Z2: Z1, T2: -T1}
        o = {n: v.subs(sub) for n, v in out.items()}
        h = [KREL, EXT1, PCURVE1]
        yield Zero('P_plus_negP_x', 'P + (-P): X3 == 0', o['X3'], hyps=h, inputs=sub)
        yield Zero('P_plus_negP_t', 'P + (-P): T3 == 0', o['T3'], hyps=h, inputs=sub)
        yield Zero('P_plus_negP_yz', 'P + (-P): Y3 == Z3, i.e. the neutral element (0:c:c:0)', o['Y3'] - o['Z3'], hyps=h, inputs=sub)
        yield NotIdentZero('P_plus_negP_nondegenerate', 'P + (-P): Z3 is not identically zero', o['Z3'], hyps=h)

    def witness(self, pv, ob, asg, p, meta):
        return self._explain(pv, ob, asg, p, meta, 'add')


class Double(_Ed):
    function = 'ed25519_double_internal'
    configs = ('distinct', 'P3=P1')

    def setup(self, H, cfg):
        p1 = self._point(H, 'P1', (X1, Y1, Z1, T1))
        p3 = p1 if cfg == 'P3=P1' else H.struct('Point', 'P3')
        return dict(args=[p3, p1], p1=p1, p3=p3)

    def ensures(self, pv):
        env = pv.env
        out = self._out(pv, env['p3'])
        env['out_exprs'] = out
        ref = dict(zip(('X3', 'Y3', 'Z3', 'T3'), C.rfc8032_ed25519_double((X1, Y1, Z1, T1))))
        for n in NAMES:
            yield Zero('rfc_' + n, '%s equals the RFC 8032 5.1.4 doubling polynomial exactly' % n, out[n] - ref[n])
        if pv.cfg != 'distinct':
            return
        for f, s in zip(FIELDS, (X1, Y1, Z1, T1)):
            yield Zero('frame_P1.' + f, 'input P1.%s is not modified' % f, pv.fe(env['p1'], f) - s, kind='frame')
        a = {n: v.subs(AFF1) for n, v in out.items()}
        xs, ys = C.ted_add_affine((x1, y1), (x1, y1), -1, d)
        (xn, xd), (yn, yd) = frac(xs), frac(ys)
        yield Zero('law_x', 'for an affine point on the curve: X3/Z3 equals the Edwards law applied to (P, P), modulo the curve equation', a['X3'] * xd - xn * a['Z3'],
                   hyps=[CURVE1], inputs=AFF1)
        yield Zero('law_y', 'for an affine point on the curve: Y3/Z3 equals the Edwards law applied to (P, P)', a['Y3'] * yd - yn * a['Z3'], hyps=[CURVE1], inputs=AFF1)
        t = d * x1 * x1 * y1 * y1
        yield Zero('z_formula', 'Z3 == -(1 - d x1^2 y1^2)*(1 + d x1^2 y1^2) modulo the curve equation: never zero on the curve (trusted completeness theorem)',
                   a['Z3'] + (1 - t) * (1 + t), hyps=[CURVE1], inputs=AFF1)
        yield Zero('extended_invariant', 'T3*Z3 == X3*Y3', out['T3'] * out['Z3'] - out['X3'] * out['Y3'])
        for n, e in out.items():
            yield Zero('homogeneous_' + n, '%s is homogeneous of degree 4 in (X1,Y1,Z1)' % n,
                       e.subs({v: lam * v for v in (X1, Y1, Z1, T1)}, simultaneous=True) - lam ** 4 * e)
        o = {n: v.subs({X1: 0, Y1: 1, Z1: 1, T1: 0}) for n, v in out.items()}
        yield Zero('neutral_x', '2*(0:1:1:0): X3 == 0', o['X3'])
        yield Zero('neutral_t', '2*(0:1:1:0): T3 == 0', o['T3'])
        yield Zero('neutral_yz', '2*(0:1:1:0): Y3 == Z3 != 0', o['Y3'] - o['Z3'])
        yield Holds('neutral_z_nonzero', '2*(0:1:1:0): Z3 is a non-zero constant', o['Z3'].is_number and o['Z3'] != 0, 'Z3 = %s' % o['Z3'])

    def witness(self, pv, ob, asg, p, meta):
        return self._explain(pv, ob, asg, p, meta, 'double')


class NewPoint(_Ed):
    function = 'ed25519_new_point'
    configs = ('only',)
    prop = 'C05'
    abstract_consts = {'d': 'd'}
    point_type = 'Point *'

    def setup(self, H, cfg):
        out = H.var(self.point_type, '*out')
        return dict(args=[out, H.bytes(x, 'x', 32), H.bytes(y, 'y', 32), H.sym('modsize'), H.null], out=out)

    def ensures_all(self, pvs):
        ok = [pv for pv in pvs if pv.ret_is_zero() and not pv.failed() and pv.zero_facts()]
        no = [pv for pv in pvs if pv.ret_is_zero() is False and not pv.failed() and pv.nonzero_facts()]
        yield Holds('accepting_path_exists', 'some path runs the curve test and accepts (the per-path obligations are not vacuous)', bool(ok),
                    'no path accepts after a successful comparison: every point is refused', witness={'note': 'any point of the curve, e.g. the base point'})
        yield Holds('refusing_path_exists', 'some path runs the curve test and refuses', bool(no),
                    'no path refuses after a failed comparison', witness={'note': 'any off-curve pair (x, y)'})

    def oom_replay(self, pv, clause):
        return None

    def stored(self, pv, ptr):
        return [('X', x), ('Y', y), ('Z', 1), ('T', x * y)]

    def curve_poly(self):
        return C.ted_curve(x, y, -1, d)

    def const_obs(self, pv):
        yield ConstEq('d_is_rfc8032', 'the hex constant d in ed25519_new_point equals -121665/121666 mod 2^255-19 (RFC 8032 5.1)', pv.consts.get('d'), C.ED25519['d'], P)

    def ensures(self, pv):
        env = pv.env
        op = pv.opaque()
        zf, nz = pv.zero_facts(), pv.nonzero_facts()
        r0 = pv.ret_is_zero()
        failed = pv.failed()
        # argument-validation exits: no field comparison happened, the function refuses, and some test on the opaque arguments was made
        early = [('' if v else 'not ') + k for k, v in op.items() if not k.startswith('FAIL ')] if (not zf + nz and r0 is False) else []
        ptr = pv.scalar(env['out'])
        if failed or early:
            why = (failed + early)[0]
            yield Holds('error_return_nonzero', 'a failed allocation/constructor or a bad length makes the function return non-zero',
                        r0 is False, 'path [%s] returns %r' % (pv.path.describe(), pv.ret), witness={'path': pv.path.describe(), 'failing_call': why}, kind='robustness',
                        replay_fn=self.oom_replay(pv, 'ret_nonzero'))
            yield Holds('error_no_dangling', 'on failure the out pointer is NULL (or was never written)', ptr is None or (isinstance(ptr, PtrV) and ptr.is_null()),
                        'path [%s] leaves the out pointer = %r' % (pv.path.describe(), ptr), witness={'path': pv.path.describe(), 'failing_call': why}, kind='robustness')
            live = [o.label for i, o in pv.path.objs.items() if o.heap and not o.freed and i in pv.path.allocs]
            yield Holds('error_no_leak', 'on failure everything allocated by the call is freed', not live,
                        'path [%s] leaves %s allocated' % (pv.path.describe(), live), witness={'failing_call': why, 'leaked': live}, kind='robustness',
                        replay_fn=self.oom_replay(pv, 'no_leak'))
            return
        if not zf + nz:
            # no field comparison at all on a path that is not an error exit: the verdict does not depend on the point
            import random
            asg, p_, meta = self.sample(random.Random(0))
            bad = (asg['x'], (asg['y'] + 1) % p_) if r0 else (asg['x'], asg['y'])
            yield Holds('accept_iff', 'returns 0 exactly when the curve test succeeds; otherwise non-zero', False,
                        'path [%s] returns %r without comparing anything: %s' % (pv.path.describe(), pv.ret, 'every point is accepted' if r0 else 'every point is refused'),
                        witness={'curve': self.curve, 'point': W.hx(bad), 'on_curve': not r0, 'C_verdict': 'accepted' if r0 else 'refused'})
            return
        yield Holds('path_shape', 'exactly one field comparison decides acceptance', len(zf + nz) == 1, 'path facts: %s' % pv.path.describe(), definite=False)
        if len(zf + nz) != 1:
            return
        e = (zf + nz)[0]
        cp = self.curve_poly()
        yield from self.const_obs(pv)
        yield Zero('curve_test_polynomial', 'the two compared values differ exactly by +-(curve equation) as polynomials in x, y, d: the test is the curve equation',
                   (e - cp) * (e + cp))
        ok = e in zf
        model = {'curve_test': 'equal' if ok else 'different'}
        yield Holds('accept_iff', 'returns 0 exactly when the curve test succeeds; otherwise non-zero', r0 is not None and r0 == ok,
                    'path [%s] returns %r' % (pv.path.describe(), pv.ret), witness=model)
        if r0:
            yield Holds('accept_pointer', 'the out pointer is a fresh point', isinstance(ptr, PtrV) and not ptr.is_null(), 'pointer %r' % (ptr,), witness=model)
            for f, w in self.stored(pv, ptr):
                yield Zero('stored_' + f, 'the stored point is the affine input in the internal representation [%s]' % f, pv.fe(ptr, f) - w)
        else:
            yield Holds('reject_code', 'an off-curve point is refused with ERR_EC_POINT', isinstance(pv.ret, IntV) and pv.ret.val == err_code(pv.ex.tu, 'ERR_EC_POINT'),
                        'returns %r' % (pv.ret,), witness=model)
            yield Holds('reject_no_dangling', 'on refusal the out pointer is NULL', isinstance(ptr, PtrV) and ptr.is_null(), 'out pointer = %r' % (ptr,), witness=model)
            live = [o.label for i, o in pv.path.objs.items() if o.heap and not o.freed and i in pv.path.allocs]
            yield Holds('reject_no_leak', 'on refusal everything allocated by the call is freed', not live, 'live heap objects: %s' % live, kind='robustness')

    def candidates(self, rng):
        for i in range(6):
            asg, p, meta = self.sample(rng)
            yield asg, p, meta
            yield dict(asg, y=(asg['y'] + 1 + i) % p), p, dict(meta, note='off curve')

    def witness(self, pv, ob, asg, p, meta):
        Pt = meta['P']
        wit = {'curve': self.curve, 'point': W.hx(Pt), 'on_curve_by_definition': True,
               'C_compared_polynomial_value': 'non-zero: the C test refuses this valid point'}
        code = "from Crypto.PublicKey.ECC import EccPoint\nEccPoint(%s, %s, curve=%r)   # must be accepted\n" % (hex(Pt[0]), hex(Pt[1]), self.curve)
        rec = {'how': 'python3-vt with PYTHONPATH=/verif:/repo/lib', 'code': code, 'note': W.SO_NOTE}
        try:
            from Crypto.PublicKey.ECC import EccPoint
            EccPoint(Pt[0], Pt[1], curve=self.curve)
            rec['installed_library_result'] = 'accepted'
            return wit, rec, False
        except ValueError as ex:
            rec['installed_library_result'] = 'refused: %s' % ex
            return wit, rec, True


CONTRACTS = [Add(), Double(), NewPoint()]
