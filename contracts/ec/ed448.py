"""Sidecar contracts (CVC algebraic mode) for src/ed448.c: untwisted Edwards curve x^2 + y^2 = 1 + d x^2 y^2, d = -39081, over
2^448 - 2^224 - 1, projective coordinates (X:Y:Z).     C06 item 1 (add/double), C05 (on-curve test), constants of ed448_new_context.

d reaches the formulas through EcContext.d (contract parameter `d`); its concrete value and the modulus are read from the byte
tables in ed448_new_context by executing that function symbolically."""
import sympy as sp

from spec import curves as C
from vf.cvc_alg import witness as W
from vf.cvc_alg.contract import ConstEq, E, FnContract, Holds, NotIdentZero, Zero
from .ec_ws import frac
from . import ed25519 as ED

X1, Y1, Z1, X2, Y2, Z2 = sp.symbols('X1 Y1 Z1 X2 Y2 Z2')
x1, y1, x2, y2, d, lam, mu = sp.symbols('x1 y1 x2 y2 d lam mu')
x, y = sp.symbols('x y')
P = C.ED448['p']

TRUSTED = [
    'completeness of the Edwards addition law for non-square d (Bernstein-Lange 2007, Thm 3.3): the denominators 1 +- d*x1*x2*y1*y2 never '
    'vanish on the curve; d = -39081 is a non-square mod 2^448-2^224-1 (checked numerically in spec.curves.selfcheck)',
    'sympy 1.14 polynomial arithmetic / Groebner bases; clang-14 AST agrees with the compiler used for the build',
]
AFF1 = {X1: x1, Y1: y1, Z1: 1}
AFF2 = {X2: x2, Y2: y2, Z2: 1}
CURVE1 = C.ted_curve(x1, y1, 1, d)
CURVE2 = C.ted_curve(x2, y2, 1, d)
PCURVE1 = (X1 ** 2 + Y1 ** 2) * Z1 ** 2 - Z1 ** 4 - d * X1 ** 2 * Y1 ** 2
NAMES = ('X3', 'Y3', 'Z3')


class _Ed448(FnContract):
    area = 'ed448'
    file = 'ed448.c'
    family = 'mont'
    prop = 'C06'
    trusted = TRUSTED
    curve = 'Ed448'

    def sample(self, rng):
        return W.ted_sample(rng, 'Ed448')

    def _ctx(self, H):
        return H.struct('MontContext', 'ctx', bytes=H.sym('nbytes'), words=H.sym('nwords'), modulus_type=H.sym('modulus_type'),
                        modulus_len=H.sym('modulus_len'))

    def _wp(self, H):
        f = {k: 'temp' for k in 'abcdef'}
        f['scratch'] = 'scratch'
        return H.struct('WorkplaceEd448', 'tmp', **f)

    def _point(self, H, label, syms):
        if syms is None:
            return H.struct('PointEd448', label, x='temp', y='temp', z='temp')
        return H.struct('PointEd448', label, x=E(syms[0]), y=E(syms[1]), z=E(syms[2]))

    def _out(self, pv, ptr):
        return dict(zip(NAMES, (pv.fe(ptr, f) for f in 'xyz')))

    _explain = ED._Ed._explain


class Add(_Ed448):
    function = 'ed448_add_internal'
    configs = ('distinct', 'Pout=Pin1', 'Pout=Pin2', 'Pout=Pin1=Pin2')

    def setup(self, H, cfg):
        p1 = self._point(H, 'Pin1', (X1, Y1, Z1))
        p2 = p1 if cfg == 'Pout=Pin1=Pin2' else self._point(H, 'Pin2', (X2, Y2, Z2))
        p3 = {'distinct': None, 'Pout=Pin1': p1, 'Pout=Pin2': p2, 'Pout=Pin1=Pin2': p1}[cfg] or self._point(H, 'Pout', None)
        dd = H.elem(d, 'd')
        return dict(args=[p3, p1, p2, dd, self._wp(H), self._ctx(H)], p1=p1, p2=p2, p3=p3, d=dd)

    def ensures(self, pv):
        env = pv.env
        out = self._out(pv, env['p3'])
        env['out_exprs'] = out
        same = pv.cfg == 'Pout=Pin1=Pin2'
        Q2 = (X1, Y1, Z1) if same else (X2, Y2, Z2)
        ref = dict(zip(NAMES, C.rfc8032_ed448_add((X1, Y1, Z1), Q2, d)))
        for n in NAMES:
            yield Zero('rfc_' + n, '%s equals the RFC 8032 5.2.4 polynomial exactly%s' % (n, ' [Pin2 is the same object as Pin1]' if same else ''), out[n] - ref[n])
        yield Zero('frame_d', 'curve constant d is not modified', pv.fe(env['d']) - d, kind='frame')
        if pv.cfg in ('distinct', 'Pout=Pin2'):
            for f, s in zip('xyz', (X1, Y1, Z1)):
                yield Zero('frame_Pin1.' + f, 'input Pin1.%s is not modified' % f, pv.fe(env['p1'], f) - s, kind='frame')
        if pv.cfg in ('distinct', 'Pout=Pin1'):
            for f, s in zip('xyz', (X2, Y2, Z2)):
                yield Zero('frame_Pin2.' + f, 'input Pin2.%s is not modified' % f, pv.fe(env['p2'], f) - s, kind='frame')
        if pv.cfg != 'distinct':
            return
        a = {n: v.subs({**AFF1, **AFF2}) for n, v in out.items()}
        xs, ys = C.ted_add_affine((x1, y1), (x2, y2), 1, d)
        (xn, xd), (yn, yd) = frac(xs), frac(ys)
        inst = {**AFF1, **AFF2}
        h = [CURVE1, CURVE2]
        yield Zero('law_x', 'for affine points on the curve (ANY pair, the law is unified): X3/Z3 equals the Edwards addition law x3', a['X3'] * xd - xn * a['Z3'], hyps=h, inputs=inst)
        yield Zero('law_y', 'for affine points on the curve: Y3/Z3 equals the Edwards addition law y3', a['Y3'] * yd - yn * a['Z3'], hyps=h, inputs=inst)
        t = d * x1 * x2 * y1 * y2
        yield Zero('z_formula', 'Z3 == (1 - d x1x2y1y2)*(1 + d x1x2y1y2): never zero on the curve by the trusted completeness theorem',
                   a['Z3'] - (1 - t) * (1 + t), hyps=h, inputs=inst)
        for n, e in out.items():
            s = {v: lam * v for v in (X1, Y1, Z1)}
            s.update({v: mu * v for v in (X2, Y2, Z2)})
            yield Zero('homogeneous_' + n, '%s is bihomogeneous of degree (4,4): the result does not depend on the representatives chosen' % n,
                       e.subs(s, simultaneous=True) - lam ** 4 * mu ** 4 * e)
        o = {n: v.subs({X2: 0, Y2: 1, Z2: 1}) for n, v in out.items()}
        for n, c in zip(NAMES, (X1, Y1, Z1)):
            yield Zero('neutral_right_' + n, 'P + (0:1:1) == Z1^3*(X1:Y1:Z1)', o[n] - Z1 ** 3 * c, inputs={X2: 0, Y2: 1, Z2: 1})
        sub = {X2: -X1, Y2: Y1, Z2: Z1}
        o = {n: v.subs(sub) for n, v in out.items()}
        yield Zero('P_plus_negP_x', 'P + (-P): X3 == 0', o['X3'], hyps=[PCURVE1], inputs=sub)
        yield Zero('P_plus_negP_yz', 'P + (-P): Y3 == Z3, i.e. the neutral element (0:c:c)', o['Y3'] - o['Z3'], hyps=[PCURVE1], inputs=sub)
        yield NotIdentZero('P_plus_negP_nondegenerate', 'P + (-P): Z3 is not identically zero', o['Z3'], hyps=[PCURVE1])

    def witness(self, pv, ob, asg, p, meta):
        return self._explain(pv, ob, asg, p, meta, 'add')


class Double(_Ed448):
    function = 'ed448_double_internal'
    configs = ('distinct', 'Pout=Pin')

    def setup(self, H, cfg):
        p1 = self._point(H, 'Pin', (X1, Y1, Z1))
        p3 = p1 if cfg == 'Pout=Pin' else self._point(H, 'Pout', None)
        return dict(args=[p3, p1, self._wp(H), self._ctx(H)], p1=p1, p3=p3)

    def ensures(self, pv):
        env = pv.env
        out = self._out(pv, env['p3'])
        env['out_exprs'] = out
        ref = dict(zip(NAMES, C.rfc8032_ed448_double((X1, Y1, Z1))))
        for n in NAMES:
            yield Zero('rfc_' + n, '%s equals the RFC 8032 5.2.4 doubling polynomial exactly' % n, out[n] - ref[n])
        if pv.cfg != 'distinct':
            return
        for f, s in zip('xyz', (X1, Y1, Z1)):
            yield Zero('frame_Pin.' + f, 'input Pin.%s is not modified' % f, pv.fe(env['p1'], f) - s, kind='frame')
        a = {n: v.subs(AFF1) for n, v in out.items()}
        xs, ys = C.ted_add_affine((x1, y1), (x1, y1), 1, d)
        (xn, xd), (yn, yd) = frac(xs), frac(ys)
        yield Zero('law_x', 'for an affine point on the curve: X3/Z3 equals the Edwards law applied to (P, P), modulo the curve equation', a['X3'] * xd - xn * a['Z3'],
                   hyps=[CURVE1], inputs=AFF1)
        yield Zero('law_y', 'for an affine point on the curve: Y3/Z3 equals the Edwards law applied to (P, P)', a['Y3'] * yd - yn * a['Z3'], hyps=[CURVE1], inputs=AFF1)
        t = d * x1 * x1 * y1 * y1
        yield Zero('z_formula', 'Z3 == -(1 - d x1^2 y1^2)*(1 + d x1^2 y1^2) modulo the curve equation: never zero on the curve (trusted completeness theorem)',
                   a['Z3'] + (1 - t) * (1 + t), hyps=[CURVE1], inputs=AFF1)
        for n, e in out.items():
            yield Zero('homogeneous_' + n, '%s is homogeneous of degree 4 in (X1,Y1,Z1)' % n, e.subs({v: lam * v for v in (X1, Y1, Z1)}, simultaneous=True) - lam ** 4 * e)
        o = {n: v.subs({X1: 0, Y1: 1, Z1: 1}) for n, v in out.items()}
        yield Zero('neutral_x', '2*(0:1:1): X3 == 0', o['X3'])
        yield Zero('neutral_yz', '2*(0:1:1): Y3 == Z3', o['Y3'] - o['Z3'])
        yield Holds('neutral_z_nonzero', '2*(0:1:1): Z3 is a non-zero constant', o['Z3'].is_number and o['Z3'] != 0, 'Z3 = %s' % o['Z3'])

    def witness(self, pv, ob, asg, p, meta):
        return self._explain(pv, ob, asg, p, meta, 'double')


class NewPoint(ED.NewPoint):
    area = 'ed448'
    file = 'ed448.c'
    family = 'mont'
    function = 'ed448_new_point'
    curve = 'Ed448'
    trusted = TRUSTED
    abstract_consts = {}
    point_type = 'PointEd448 *'

    def sample(self, rng):
        return W.ted_sample(rng, 'Ed448')

    def setup(self, H, cfg):
        ctx = H.struct('MontContext', 'ctx', bytes=H.sym('nbytes'), words=H.sym('nwords'), modulus_type=H.sym('modulus_type'), modulus_len=H.sym('modulus_len'))
        ecctx = H.struct('EcContext', 'ec_ctx', mont_ctx=ctx, d=E(d))
        out = H.var('PointEd448 *', '*pecp')
        return dict(args=[out, H.bytes(x, 'x'), H.bytes(y, 'y'), H.sym('len'), ecctx], out=out, ecctx=ecctx)

    def oom_replay(self, pv, clause):
        def go():
            from vf.cvc_alg import oomreplay
            return oomreplay.replay('ed448', pv.ex.tu.path, [hex(C.ED448['Gx']), hex(C.ED448['Gy'])], clause)
        return go

    def stored(self, pv, ptr):
        return [('x', x), ('y', y), ('z', 1)]

    def curve_poly(self):
        return C.ted_curve(x, y, 1, d)

    def const_obs(self, pv):
        return ()


class NewContext(FnContract):
    """the constants: prime and d handed to the Montgomery layer by ed448_new_context"""
    area = 'ed448'
    file = 'ed448.c'
    family = 'mont'
    function = 'ed448_new_context'
    prop = 'C06'
    configs = ('only',)
    trusted = TRUSTED
    ctx_type = 'EcContext *'
    field = 'd'

    def setup(self, H, cfg):
        out = H.var(self.ctx_type, '*pec_ctx')
        return dict(args=[out], out=out)

    def expected(self):
        return C.ED448['d'], 'd == -39081 mod p (RFC 8032 5.2)'

    def ensures(self, pv):
        env = pv.env
        if pv.failed():
            yield Holds('error_return_nonzero', 'a failed allocation/constructor makes the function return non-zero', pv.ret_is_zero() is False,
                        'path [%s] returns %r' % (pv.path.describe(), pv.ret), kind='robustness')
            return
        ptr = pv.scalar(env['out'])
        yield Holds('returns_zero', 'returns 0 when every allocation succeeds', pv.ret_is_zero() is True, 'returns %r' % (pv.ret,))
        yield ConstEq('modulus', 'the byte table handed to mont_context_init is p = 2^448 - 2^224 - 1 (RFC 8032 5.2 / RFC 7748 4.2)', pv.consts.get('modulus'), P)
        want, txt = self.expected()
        v = pv.fe(ptr, self.field)
        yield ConstEq(self.field, 'the context constant: ' + txt, int(v) if v.is_Integer else None, want, P)

    def sample(self, rng):
        return None


CONTRACTS = [Add(), Double(), NewPoint(), NewContext()]
