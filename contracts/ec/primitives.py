"""ASSUMED contracts of the field primitives -- the trusted part of CVC algebraic mode (DESIGN.md 2.4, C06 "Not decided").

Every call to one of these functions is NOT executed; it is replaced by the ring operation named in `op` on the abstract
memory (operands are read first, then the output is stored, so `out` may alias an input exactly as the C code allows).
The vocabulary of `op` is interpreted by vf/cvc_alg/prims.py.  Anything not listed here and without a body in the
translation unit makes the function under proof `undecided`.

Field elements are abstract: a `uint64_t*` Montgomery number (mont.c) or a `uint32_t[10]` radix-2^25.5 number (mod25519.c) is
ONE value of the prime field F_p.  What is assumed for every primitive, beyond the `op`:
  * inputs are valid representations (mont.c: canonical, < p, Montgomery form; mod25519.c: limbs within the range stated
    in the source comment -- checked separately by the limb-range typing obligations, see vf/cvc_alg/ranges.py);
  * the output is a valid representation of the stated field value;
  * nothing but the listed outputs (and `tmp` scratch areas, which become unreadable) is written;
  * the integer return value is the one given under `ret`.
C06 discharges these assumptions only by bounded run-time checks against Python int arithmetic (not part of this engine)."""

ERR = 'nonzero'     # an unspecified non-zero error code

MONT = {
    'mont_mult': dict(params=('out', 'a', 'b', 'tmp', 'ctx'), op='mul', ret=0,
                      text='out = a*b in F_p; out may alias a and/or b; tmp (scratchpad) is clobbered; returns 0'),
    'mont_add': dict(params=('out', 'a', 'b', 'tmp', 'ctx'), op='add', ret=0,
                     text='out = a+b in F_p; out may alias a and/or b; tmp is clobbered; returns 0'),
    'mont_sub': dict(params=('out', 'a', 'b', 'tmp', 'ctx'), op='sub', ret=0,
                     text='out = a-b in F_p; out may alias a and/or b; tmp is clobbered; returns 0'),
    'mont_copy': dict(params=('out', 'a', 'ctx'), op='copy', ret=0,
                      text='out = a; returns 0'),
    'mont_set': dict(params=('out', 'x', 'ctx'), op='set_small', ret=0,
                     text='out = the field element of the small integer x (x is a literal 0 or 1 at every call site under proof, '
                          'for which mont_set cannot fail); returns 0'),
    'mont_is_zero': dict(params=('a', 'ctx'), op='is_zero',
                         text='returns 1 if a == 0 in F_p else 0 (relies on canonical representation: all limbs zero)'),
    'mont_is_one': dict(params=('a', 'ctx'), op='is_one',
                        text='returns 1 if a == 1 in F_p else 0'),
    'mont_is_equal': dict(params=('a', 'b', 'ctx'), op='is_equal',
                          text='returns 1 if a == b in F_p else 0 (relies on canonical representation: limb-wise compare)'),
    'mont_inv_prime': dict(params=('out', 'a', 'ctx'), op='inv', ret=0,
                           text='out = a^(p-2): 1/a if a != 0, 0 if a == 0; returns 0.  ASSUMES the three internal callocs succeed: '
                                'on ERR_MEMORY out is left unchanged and the callers under proof ignore the return value (see NOTES.md)'),
    'mont_new_number': dict(params=('out', 'count', 'ctx'), op='new_number', ret=(0, ERR),
                            text='either returns non-zero and *out == NULL, or returns 0 and *out is a fresh array of count field '
                                 'elements, all zero, disjoint from every other object'),
    'mont_new_from_bytes': dict(params=('out', 'number', 'len', 'ctx'), op='from_bytes', ret=(0, ERR),
                                text='either returns non-zero and *out == NULL, or returns 0 and *out is a fresh field element equal to '
                                     'the big-endian integer number[0..len) reduced mod p'),
    'mont_new_from_uint64': dict(params=('out', 'x', 'ctx'), op='from_uint64', ret=(0, ERR),
                                 text='either returns non-zero and *out == NULL, or returns 0 and *out is a fresh field element equal to x mod p'),
    'mont_context_init': dict(params=('out', 'modulus', 'mod_len'), op='context_init', ret=(0, ERR),
                              text='either returns non-zero and *out == NULL, or returns 0 and *out is a fresh MontContext for the prime '
                                   'given as big-endian bytes; ctx->bytes == 8*ctx->words is the size of every field element'),
    'mont_context_free': dict(params=('ctx',), op='free_ctx', text='releases the context'),
}

F25519 = {
    'mul_25519': dict(params=('out', 'f', 'g'), op='mul',
                      text='out = f*g mod 2^255-19; out may alias f and/or g (inputs are copied to locals first)'),
    'add_25519': dict(params=('out', 'f', 'g'), op='add',
                      text='out = f+g mod 2^255-19, carried; out may alias f and/or g'),
    'sub_25519': dict(params=('out', 'a', 'b'), op='sub',
                      text='out = a-b mod 2^255-19, carried; out may alias a and/or b'),
    'add32': dict(params=('out', 'a', 'b'), op='add',
                  text='out = a+b as field value (limb-wise addition without carry: the limb RANGE grows by one bit -- range typing, not algebra)'),
    'invert_25519': dict(params=('out', 'x'), op='inv',
                         text='out = x^(p-2): 1/x if x != 0, 0 if x == 0'),
    'is_le25p5_zero': dict(params=('in',), op='is_zero',
                           text='returns non-zero iff in == 0 mod 2^255-19 (the function fully reduces before comparing)'),
    'convert_be8_to_le25p5': dict(params=('out', 'in'), op='from_be_bytes',
                                  text='out = the 256-bit big-endian integer in[0..32) as field value (NOT reduced; limbs tight, out[9] < 2^26)'),
    'convert_behex_to_le25p5': dict(params=('out', 'in'), op='from_be_hex', ret=0,
                                    text='out = the integer written as big-endian hex string in; returns 0 for an even-length hex string of <= 64 digits'),
    'convert_le25p5_to_le8': dict(params=('out', 'in'), op='to_canonical_bytes',
                                  text='out[0..32) = the little-endian encoding of the canonical representative of in mod 2^255-19 (the function '
                                       'reduces completely: carry pass, repacking to 4x64 bits, reduce_25519_le64), so two such encodings are equal '
                                       'byte strings iff the field values are equal'),
    'reduce_25519_le25p5': dict(params=('x',), op='reduce_canonical',
                                text='value of x unchanged.  ASSUMED ADDITIONALLY (and known to be FALSE on the pinned tree, DESIGN.md section 4 D7): the '
                                     'limbs become the canonical representative, so that memcmp of two reduced elements decides equality in F_p.  The '
                                     'function is only a carry pass; this is a bit-level issue outside algebraic mode.'),
}

# modelled exactly by the engine, not assumed: calloc (both outcomes), free, memcpy (whole field element / whole array),
# memset (zero fill of a whole object), memcmp (whole arrays)
LIBC = ('calloc', 'free', 'memcpy', 'memset', 'memcmp')


def assumed_texts(family):
    tab = MONT if family == 'mont' else F25519
    return ['assumed contract: %s(%s): %s' % (k, ', '.join(v['params']), v['text']) for k, v in sorted(tab.items())]
