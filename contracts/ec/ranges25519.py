"""Limb-range contracts for the radix-2^25.5 code (mod25519.c, ed25519.c, curve25519.c) -- DESIGN.md C06 "limb-range typing".

The range comments of the source are transcribed here and become CHECKED contracts (vf/cvc_alg/ranges.py):

  primitive level   each primitive body is executed on INTERVALS (vf/cvc_alg/ival.py, over the real AST) under its precondition:
                    no unsigned operation may wrap, no conversion may lose bits, and the computed output range must be inside the
                    range the source comment promises;
  call-site level   the formula functions are executed with interval vectors as cell contents; every call must meet the callee's
                    precondition, and the outputs must satisfy the point invariant again (so the typing is inductive over the
                    scalar-multiplication loops).

All bounds are EXCLUSIVE upper bounds per limb (limb >= 0 always: uint32_t)."""

T26 = [1 << 26, 1 << 25] * 5                      # "tight": even limbs < 2^26, odd limbs < 2^25 ...
COMMENT_TIGHT = T26[:9] + [1 << 26]               # ... and limb 9 < 2^26, as every "result" comment in mod25519.c says

# preconditions as stated in the comments above each function of mod25519.c
PRE = {
    'mul_25519': dict(params=('out', 'f', 'g'), bounds={'f': [1 << 27] * 10, 'g': [1 << 27] * 10},
                      source='"The inputs f[] and g[] are encoded in mixed radix 2^26/2^25 with limbs < 2^27"', post=COMMENT_TIGHT),
    'add_25519': dict(params=('out', 'f', 'g'), bounds={'f': [1 << 28] * 10, 'g': [1 << 28] * 10},
                      source='"f[] and g[] are encoded in radix 2^26/2^25 and each limb is < 2^28"', post=COMMENT_TIGHT),
    # no range is stated for these two in the source; their precondition is the weakest one read off the body:
    'add32': dict(params=('out', 'a', 'b'), bounds=None,
                  source='"If the biggest input limb fits into x bits (x<32), the biggest output limb will fit into (x+1) bits": a[i] + b[i] must not wrap', post=None),
    'sub_25519': dict(params=('out', 'a', 'b'), bounds=None,
                      source='(unstated in the source) modulus_32[i] + a[i] - b[i] must neither wrap below 0 nor reach 2^28: b[i] <= modulus_32[i] + a[i] and '
                             'a[i] < 2^27; modulus_32[9] = 2^26 - 2, so b[9] = 2^26 - 1 with a[9] = 0 is NOT allowed although the comments call it tight',
                      post=COMMENT_TIGHT),
}

# what the generic primitive-level check assumes for add32/sub_25519 (the shapes used by the callers)
PRIM_CHECK = {
    'mul_25519': [('documented precondition', {'f': [1 << 27] * 10, 'g': [1 << 27] * 10})],
    'add_25519': [('documented precondition', {'f': [1 << 28] * 10, 'g': [1 << 28] * 10})],
    'add32': [('inputs below 2^27 (the widest operands the callers pass)', {'a': [1 << 27] * 10, 'b': [1 << 27] * 10})],
    'sub_25519': [('a < 2^27, b within the point invariant', {'a': [1 << 27] * 10, 'b': 'INVARIANT'})],
}

# functions typed at call-site level: (C file, function, parameter roles).  Roles: 'inv' = satisfies the point invariant,
# 'raw' = limbs as produced by convert_be8_to_le25p5 from ANY 256-bit string (limb 9 < 2^26), 'out' = written only.
FUNCTIONS = [
    dict(file='ed25519.c', function='ed25519_add_internal', kind='point3', configs=('distinct', 'P3=P1', 'P3=P2')),
    dict(file='ed25519.c', function='ed25519_double_internal', kind='point2', configs=('distinct', 'P3=P1')),
    dict(file='curve25519.c', function='curve25519_ladder_step', kind='ladder', configs=('only',)),
]
