"""Shared registry content of the elliptic-curve areas (key_ecc, point, dh): the curve registry, curve records, point objects
and the abstract native point libraries.  No units are defined here.

Finite configuration (GUIDE "Finite configuration state"): every registry is built for ONE curve id `cid` (1..9, the
library's CurveID); the curve record, its parameters, names, OID and the id carried by native objects are then CONCRETE
python values and every function is verified once per curve with all data (coordinates, scalars, seeds, buffers) symbolic.

  * `_curves` (module-level `_Curves()` instance of PublicKey/_point.py) is a per-state heap object of the REAL class.
    `_curves[name]`, `_curves.items()` are MODELLED: they return the record of spec.keys' tables for the names of
    NAMES (all others: ValueError).  The model is tied to the real code by the units key.ecc.curves.* (the real loaders
    `_nist_ecc.pNNN_curve`, `_edwards.*`, `_montgomery.*`, `_Curves.load`, `_Curves.__getitem__` produce records with exactly
    these field values, for every name).  `name in _curves` executes the real `__contains__`.
  * native points: abstract objects native.EcPoint {g_cid, g_pt} / native.XPoint {g_cid, g_u} (see spec/ecgroup.py) and
    abstract libraries native.EcLib / native.XLib whose functions have ASSUMED contracts: the C side is proved / bounded by
    the C engine (contracts/ec/*, bounded/ec.py): new_point accepts iff the coordinates are canonical and satisfy the curve
    equation (error 15 otherwise), get_xy / get_x return the canonical affine coordinates, add / double / neg / scalar
    compute the group law on the first operand in place and leave the other operands alone, cmp returns 0 iff equal.
"""
import z3

from vf.pyvc.contracts import Contract, ClassContract, apply_opaque, apply_contract
from vf.pyvc.interp import BuiltinV, FuncV, exc
from vf.pyvc.values import (HObj, Ref, SBytes, SInt, SStr, StateGlobal, Unsupported, ClassV, is_byteslike, is_intlike, mk_bytes, mk_int, mk_bool,
                            zbytes, zint, zbool)
from vf.pyvc import loader, models as _models
from .key_common import key_base_registry, INT, OINT
from . import rawapi

import spec.keys as SK
import spec.ecgroup as SG

PT = 'Crypto.PublicKey._point.'
CURVES = PT + '_Curves'
ECCPOINT = PT + 'EccPoint'
ECCXPOINT = PT + 'EccXPoint'
CURVE = 'Crypto.PublicKey._curve._Curve'
NPOINT = 'native.EcPoint'
XPOINT = 'native.XPoint'
ECLIB = 'native.EcLib'
XLIB = 'native.XLib'
CTX = 'native.EcContext'
EC_BOUNDED = 'bounded: bounded/ec.py (native point functions against the reference group law); C side: contracts/ec (C05/C06/C17)'

# names accepted by the library: the documented table plus the undocumented extras present in the code ('nistpNNN', 'X25519', 'X448')
NAMES = {
    1: ('p192', 'NIST P-192', 'P-192', 'prime192v1', 'secp192r1', 'nistp192'),
    2: ('p224', 'NIST P-224', 'P-224', 'prime224v1', 'secp224r1', 'nistp224'),
    3: ('p256', 'NIST P-256', 'P-256', 'prime256v1', 'secp256r1', 'nistp256'),
    4: ('p384', 'NIST P-384', 'P-384', 'prime384v1', 'secp384r1', 'nistp384'),
    5: ('p521', 'NIST P-521', 'P-521', 'prime521v1', 'secp521r1', 'nistp521'),
    6: ('ed25519', 'Ed25519'),
    7: ('ed448', 'Ed448'),
    8: ('curve25519', 'Curve25519', 'X25519'),
    9: ('curve448', 'Curve448', 'X448'),
}
ALL_NAMES = tuple(n for cid in range(1, 10) for n in NAMES[cid])
CID_OF = {n: cid for cid, ns in NAMES.items() for n in ns}
assert all(set(SK.CURVE_DOC_NAMES[c]) <= set(NAMES[c]) for c in NAMES)
ALL_CIDS = tuple(range(1, 10))
LABEL = {1: 'p192', 2: 'p224', 3: 'p256', 4: 'p384', 5: 'p521', 6: 'ed25519', 7: 'ed448', 8: 'curve25519', 9: 'curve448'}


def val(st, v):
    return [('val', st, v)]


def rz(st, pycls, msg=''):
    return [('raise', st, exc(pycls, msg))]


def mk_obj(st, qualclass, **fields):
    h = HObj('obj', cls=loader.find_class(qualclass))
    h.fields.update(fields)
    return st.alloc(h)


def mk_integer(st, v):
    return mk_obj(st, INT, _value=v)


def uf(E, st, name, *args):
    """application of an uninterpreted spec symbol (with its facts) from a python model"""
    return apply_opaque(E, name, st, list(args), {})[0][2]


def int_of(st, v):
    """mathematical value of an int / Integer-object argument, None for anything else"""
    if is_intlike(v):
        return v
    if isinstance(v, Ref):
        h = st.heap[v.oid]
        if h.kind == 'obj' and h.cls is not None and h.cls.qualname == INT:
            return h.fields['_value']
    return None


# ---------------------------------------------------------------------------------------------------- curve records

def _globals_set(st, key, ref):
    g = dict(st.ghost.get('globals', {}))
    g[key] = ref
    st.ghost['globals'] = g


def get_curve(E, st, cid):
    """the (per state unique) fully decorated record of curve `cid`, as `_curves[name]` hands it out"""
    key = ('curve', cid)
    g = st.ghost.get('globals', {})
    if key in g:
        return g[key]
    mont = cid in (8, 9)
    lib = rawapi.new_native(st, XLIB if mont else ECLIB, g_cid=cid)
    if cid in (6, 8):
        ctx = None                      # _edwards.ed25519_curve / _montgomery.curve25519_curve pass None
    else:
        ctx = mk_obj(st, rawapi.SMARTPTR, _raw_pointer=rawapi.new_native(st, CTX, g_cid=cid), _destructor=SStr('<free_context>'))
    b = SK.CURVE_B[cid]
    gy = SK.CURVE_GY[cid]
    curve = mk_obj(st, CURVE,
                   p=mk_integer(st, SK.CURVE_P[cid]), b=(None if b is None else mk_integer(st, b)),
                   order=mk_integer(st, SK.CURVE_ORDER[cid]), Gx=mk_integer(st, SK.CURVE_GX[cid]),
                   Gy=(None if gy is None else mk_integer(st, gy)), G=None, modulus_bits=SK.CURVE_BITS[cid], oid=SK.CURVE_OID[cid],
                   context=ctx, canonical=SK.CURVE_CANONICAL[cid], openssh=SK.CURVE_OPENSSH[cid], rawlib=lib,
                   validate=(BuiltinV('validate_x%d' % SK.CURVE_BITS[cid], _validate_model(cid)) if mont else None),
                   id=cid, is_edwards=cid in (6, 7), is_montgomery=mont, is_weierstrass=cid <= 5)
    _globals_set(st, key, curve)
    if mont:
        np_ = rawapi.new_native(st, XPOINT, g_cid=cid, g_u=SK.CURVE_GX[cid])
        G = mk_obj(st, ECCXPOINT, _curve=curve, curve=SK.CURVE_CANONICAL[cid],
                   _point=mk_obj(st, rawapi.SMARTPTR, _raw_pointer=np_, _destructor=SStr('<free_point>')))
    else:
        np_ = rawapi.new_native(st, NPOINT, g_cid=cid, g_pt=uf(E, st, 'spec.ecgroup.pt', SK.CURVE_GX[cid], gy))
        G = mk_obj(st, ECCPOINT, _curve=curve, curve=SK.CURVE_CANONICAL[cid],
                   _point=mk_obj(st, rawapi.SMARTPTR, _raw_pointer=np_, _destructor=SStr('<free_point>')))
    st.heap[curve.oid].fields['G'] = G
    return curve


def _validate_model(cid):
    """curve.validate of a Montgomery curve (the nested _validate_x25519_point / _validate_x448_point): raises ValueError iff the
    point is the point at infinity or its x is a low-order u of spec.keys; proved for the real closures in key.ecc.validate.*"""
    low = SK.X25519_LOW_ORDER if cid == 8 else SK.X448_LOW_ORDER

    def fn(E, st, args, kw):
        if len(args) != 1 or kw:
            return rz(st, TypeError, 'validate(point)')
        E.registry.used.add('modelled callee _montgomery._validate_x%d_point (proved in key.ecc.validate)' % SK.CURVE_BITS[cid])
        outs = []
        sink = []
        for s1, xv in E.getattr(args[0], 'x', st, sink):
            v = int_of(s1, xv)
            if v is None:
                raise Unsupported('validate: x is not an integer')
            t = z3.Or([zint(v) == c for c in low])
            bad, ok = E.split(s1, t)
            if bad is not None:
                outs += rz(bad, ValueError, 'Invalid public key')
            if ok is not None:
                outs += val(ok, None)
        for o in sink:
            if o[0] == 'raise' and E.exc_matches(o[2], _models.PyClassV(ValueError), o[1]):
                outs += rz(o[1], ValueError, 'Invalid public key')
            else:
                outs.append(o)
        return outs
    return fn


def m_curves_getitem(E, st, args, kw):
    if len(args) != 2 or kw:
        return rz(st, TypeError, '__getitem__(name)')
    name = args[1]
    E.registry.used.add('modelled callee _Curves.__getitem__ (tied to the real loaders by units key.ecc.curves.*)')
    if isinstance(name, str):
        cid = CID_OF.get(name)
        if cid is None:
            return rz(st, ValueError, 'Unsupported curve')
        return val(st, get_curve(E, st, cid))
    # an unknown string, None, a number ...: in no name list (list membership of a non-string is False) -> ValueError from load()
    if isinstance(name, SStr) or name is None or is_intlike(name) or is_byteslike(name):
        return rz(st, ValueError, 'Unsupported curve')
    raise Unsupported('_curves[%r]' % (name,))


def m_curves_items(E, st, args, kw):
    """items(): loads every curve, then the (name, record) pairs of the registry in all_names order"""
    E.registry.used.add('modelled callee _Curves.items (all_names order)')
    return val(st, tuple((n, get_curve(E, st, CID_OF[n])) for n in ALL_NAMES))


def _build_curves(E, st):
    return mk_obj(st, CURVES)


def install_curves(reg):
    reg.overrides[PT + '_curves'] = StateGlobal('curves', _build_curves)
    reg.overrides[CURVES + '.all_names'] = ALL_NAMES
    reg.models[CURVES + '.__getitem__'] = m_curves_getitem
    reg.models[CURVES + '.items'] = m_curves_items
    if CURVES not in reg.classes:
        reg.add(ClassContract(CURVES, fields={}))


# ---------------------------------------------------------------------------------------------------- native libraries

def _pt_valid_clause(cid):
    return 'spec.ecgroup.valid(%d, self.g_pt)' % cid


def m_new_point(cid):
    """int new_point(Point **out, const uint8_t *x, const uint8_t *y, size_t len, const void *context):
    0 and *out = fresh point (x, y) iff len is the curve's coordinate size, the context is the curve's and (x, y) are canonical
    coordinates of a point (the neutral representation included); 15 (ERR_EC_POINT) when they are not on the curve"""
    nbytes = SK.curve_bytes(cid)

    def fn(E, st, args, kw):
        if len(args) != 6 or kw:
            return rz(st, TypeError, 'new_point takes 5 arguments')
        lib, out, xb, yb, ln, ctx = args
        rawapi.oblige_pre(E, st, 'native new_point', ['hasattr(out, "g_ptr")', 'len(bytes(x)) == n', 'len(bytes(y)) == n', 'n == %d' % nbytes,
                                                      'ctx_ok'],
                          {'out': out, 'x': xb, 'y': yb, 'n': ln, 'ctx_ok': _ctx_ok(st, cid, ctx)})
        x = mk_int(_models.be_value(E, st, zbytes(rawapi.buf_data(st, xb))))
        y = mk_int(_models.be_value(E, st, zbytes(rawapi.buf_data(st, yb))))
        P = uf(E, st, 'spec.ecgroup.pt', x, y)
        ok_t = zbool(uf(E, st, 'spec.ecgroup.valid', cid, P))
        good, bad = E.split(st, ok_t)
        outs = []
        if bad is not None:
            outs += val(bad, 15)
        if good is not None:
            good.heap[out.oid].fields['g_ptr'] = rawapi.new_native(good, NPOINT, g_cid=cid, g_pt=P)
            good.writes.append((out.oid, 'g_ptr'))
            outs += val(good, 0)
        return outs
    return fn


def _ctx_ok(st, cid, ctx):
    """the context argument is the one the curve record holds (NULL for Ed25519 / Curve25519)"""
    if cid in (6, 8):
        return ctx is None
    return isinstance(ctx, Ref) and getattr(st.heap[ctx.oid], 'ghost_id', None) == CTX and st.heap[ctx.oid].fields.get('g_cid') == cid


def m_clone(kind):
    def fn(E, st, args, kw):
        lib, out, src = args
        h = st.heap[src.oid]
        st.heap[out.oid].fields['g_ptr'] = rawapi.new_native(st, kind, **dict(h.fields))
        st.writes.append((out.oid, 'g_ptr'))
        return val(st, 0)
    return fn


def m_xnew_point(cid):
    """int new_point(Point **out, const uint8_t *x, size_t len, const void *context): x == NULL gives the point at infinity;
    otherwise the point with u = be(x) mod p (non-canonical encodings are accepted, RFC 7748 5); never error 15"""
    nbytes = SK.curve_bytes(cid)
    p = SK.CURVE_P[cid]

    def fn(E, st, args, kw):
        if len(args) != 5 or kw:
            return rz(st, TypeError, 'new_point takes 4 arguments')
        lib, out, xb, ln, ctx = args
        rawapi.oblige_pre(E, st, 'native new_point', ['hasattr(out, "g_ptr")', 'n == %d' % nbytes, 'ctx_ok'],
                          {'out': out, 'n': ln, 'ctx_ok': _ctx_ok(st, cid, ctx)})
        if xb is None:
            u = -1
        else:
            rawapi.oblige_pre(E, st, 'native new_point', ['len(bytes(x)) == n'], {'x': xb, 'n': ln})
            u = mk_int(_models.be_value(E, st, zbytes(rawapi.buf_data(st, xb))) % p)
        st.heap[out.oid].fields['g_ptr'] = rawapi.new_native(st, XPOINT, g_cid=cid, g_u=u)
        st.writes.append((out.oid, 'g_ptr'))
        return val(st, 0)
    return fn


def install_native(reg, cid):
    """abstract classes + contracts of the native library of curve `cid`"""
    rawapi.install_glue(reg)
    reg.overrides['Crypto.Util._raw_api.null_pointer'] = None
    reg.add(ClassContract(CTX, fields={'g_cid': ('const', cid)}, abstract=True))
    nbytes = SK.curve_bytes(cid)
    LIBP = {'self': 'any'}
    if cid <= 7:
        reg.add(ClassContract(ECLIB, fields={'g_cid': ('const', cid)}, abstract=True))
        reg.add(ClassContract(NPOINT, fields={'g_cid': ('const', cid), 'g_pt': 'int'}, valid=[_pt_valid_clause(cid)], abstract=True))
        L = ECLIB + '.'
        P = 'obj:' + NPOINT
        reg.models[L + 'new_point'] = m_new_point(cid)
        reg.models[L + 'clone'] = m_clone(NPOINT)
        reg.models[L + 'free_point'] = lambda E, st, args, kw: val(st, None)
        reg.add(Contract(L + 'get_xy', params=dict(LIBP, x='bytearray', y='bytearray', n='int', p=P),
                         requires=['len(x) == n', 'len(y) == n', 'n == %d' % nbytes, 'p.g_cid == %d' % cid],
                         ensures={'x': 'be(bytes(x)) == spec.ecgroup.px(p.g_pt)', 'y': 'be(bytes(y)) == spec.ecgroup.py(p.g_pt)', 'ok': 'result == 0'},
                         modifies=['x', 'y'], result='int', assumed='get_xy: canonical affine coordinates, big endian, n bytes; ' + EC_BOUNDED))
        reg.add(Contract(L + 'cmp', params=dict(LIBP, p1=P, p2=P), requires=['p1.g_cid == %d' % cid, 'p2.g_cid == %d' % cid],
                         ensures={'eq': '(result == 0) <==> (p1.g_pt == p2.g_pt)'}, modifies=[], result='int',
                         assumed='cmp: 0 iff the two points are equal; ' + EC_BOUNDED))
        reg.add(Contract(L + 'neg', params=dict(LIBP, p=P), requires=['p.g_cid == %d' % cid],
                         sets={'p.g_pt': 'spec.ecgroup.neg(%d, old(p.g_pt))' % cid}, returns='0', modifies=['p.g_pt'], options={'exact': True},
                         assumed='neg: in-place negation; ' + EC_BOUNDED))
        reg.add(Contract(L + 'double', params=dict(LIBP, p=P), requires=['p.g_cid == %d' % cid],
                         sets={'p.g_pt': 'spec.ecgroup.add(%d, old(p.g_pt), old(p.g_pt))' % cid}, returns='0', modifies=['p.g_pt'],
                         options={'exact': True}, assumed='double: in-place doubling; ' + EC_BOUNDED))
        reg.add(Contract(L + 'add', params=dict(LIBP, p1=P, p2=P), requires=['p1.g_cid == %d' % cid],
                         raises={}, result='int',
                         ensures={'same_curve': 'p2.g_cid == %d ==> (result == 0 and p1.g_pt == spec.ecgroup.add(%d, old(p1.g_pt), p2.g_pt))' % (cid, cid),
                                  'other_curve': 'p2.g_cid != %d ==> (result == 16 and p1.g_pt == old(p1.g_pt))' % cid},
                         modifies=['p1.g_pt'], assumed='add: p1 += p2 in place, error 16 (ERR_EC_CURVE) for points of different curves; ' + EC_BOUNDED))
        reg.add(Contract(L + 'scalar', params=dict(LIBP, p=P, k='bytes', n='int', seed='int'),
                         requires=['p.g_cid == %d' % cid, 'len(bytes(k)) == n', 'n >= 1', '0 <= seed and seed < pow2(64)'],
                         sets={'p.g_pt': 'spec.ecgroup.smul(%d, old(p.g_pt), be(bytes(k)))' % cid}, returns='0', modifies=['p.g_pt'],
                         options={'exact': True},
                         assumed='scalar: p = be(k)*p in place for every scalar length >= 1 and value (result independent of the blinding seed); ' + EC_BOUNDED))
    else:
        reg.add(ClassContract(XLIB, fields={'g_cid': ('const', cid)}, abstract=True))
        reg.add(ClassContract(XPOINT, fields={'g_cid': ('const', cid), 'g_u': 'int'},
                              valid=['-1 <= self.g_u and self.g_u < %d' % SK.CURVE_P[cid]], abstract=True))
        L = XLIB + '.'
        P = 'obj:' + XPOINT
        reg.models[L + 'new_point'] = m_xnew_point(cid)
        reg.models[L + 'clone'] = m_clone(XPOINT)
        reg.models[L + 'free_point'] = lambda E, st, args, kw: val(st, None)
        reg.add(Contract(L + 'get_x', params=dict(LIBP, x='bytearray', n='int', p=P),
                         requires=['len(x) == n', 'n == %d' % nbytes, 'p.g_cid == %d' % cid],
                         ensures={'pai': '(result == 19) <==> (p.g_u == -1)', 'ok': 'p.g_u != -1 ==> (result == 0 and be(bytes(x)) == p.g_u)',
                                  'untouched': 'p.g_u == -1 ==> bytes(x) == old(bytes(x))'},
                         modifies=['x'], result='int',
                         assumed='get_x: canonical u, big endian, n bytes; 19 (ERR_EC_PAI) for the point at infinity; ' + EC_BOUNDED))
        reg.add(Contract(L + 'cmp', params=dict(LIBP, p1=P, p2=P), requires=['p1.g_cid == %d' % cid, 'p2.g_cid == %d' % cid],
                         ensures={'eq': '(result == 0) <==> (p1.g_u == p2.g_u)'}, modifies=[], result='int',
                         assumed='cmp: 0 iff the two x-only points are equal; ' + EC_BOUNDED))
        reg.add(Contract(L + 'scalar', params=dict(LIBP, p=P, k='bytes', n='int', seed='int'),
                         requires=['p.g_cid == %d' % cid, 'len(bytes(k)) == n', 'n >= 1', '0 <= seed and seed < pow2(64)'],
                         sets={'p.g_u': 'spec.ecgroup.xsmul(%d, old(p.g_u), be(bytes(k)))' % cid}, returns='0', modifies=['p.g_u'],
                         options={'exact': True},
                         assumed='scalar: Montgomery ladder over all bits of k, in place (RFC 7748 5 without clamping); ' + EC_BOUNDED))


# ---------------------------------------------------------------------------------------------------- point / curve classes

def install_point_classes(reg, cid):
    mont = cid in (8, 9)
    canonical = SK.CURVE_CANONICAL[cid]
    make_curve = ('make', lambda E, st, name: get_curve(E, st, cid))
    reg.add(ClassContract(CURVE, fields={}))      # records are always the concrete objects built by get_curve
    if mont:
        reg.add(ClassContract(rawapi.SMARTPTR, fields={'_raw_pointer': 'obj:' + XPOINT, '_destructor': 'any'}))
        reg.add(ClassContract(ECCXPOINT, fields={'_curve': make_curve, 'curve': ('const', canonical), '_point': 'obj:' + rawapi.SMARTPTR}))
        reg.add(ClassContract(ECCPOINT, fields={}))       # no two-coordinate point exists on a Montgomery curve (constructor refuses)
    else:
        reg.add(ClassContract(rawapi.SMARTPTR, fields={'_raw_pointer': 'obj:' + NPOINT, '_destructor': 'any'}))
        reg.add(ClassContract(ECCPOINT, fields={'_curve': make_curve, 'curve': ('const', canonical), '_point': 'obj:' + rawapi.SMARTPTR}))
        reg.add(ClassContract(ECCXPOINT, fields={}))      # no x-only point exists on a two-coordinate curve (constructor refuses)


def install_random(reg):
    """Crypto.Random.random.getrandbits(k): k fresh bits from the SYSTEM tape (ghost cursor sys_cursor)"""
    def grb(E, st, args, kw):
        k = args[0]
        v = E.fresh_int('sysbits')
        st.assume(z3.And(v.t >= 0, v.t < 2 ** k if isinstance(k, int) else v.t >= 0))
        st.ghost['sys_cursor'] = st.ghost.get('sys_cursor', 0) + 1
        return val(st, v)
    reg.overrides['Crypto.Random.random.getrandbits'] = BuiltinV('Crypto.Random.random.getrandbits', grb)


def add_number(reg):
    """Util.number conversions stated over the mathematical value of an int OR Integer argument (assumed; C13 / bounded/number.py)"""
    N = 'Crypto.Util.number.'
    reg.add(Contract(N + 'bytes_to_long', params={'s': 'bytes'}, returns='be(bytes(s))', pure=True, modifies=[], options={'exact': True},
                     assumed='OS2IP; bounded: bounded/number.py against int.from_bytes'))
    reg.add(Contract(N + 'long_to_bytes', params={'n': 'int', 'blocksize': 'int'},
                     raises={'ValueError': ('iff', 'disj(spec.keys.ival(n) < 0, blocksize < 0)')}, result='bytes',
                     ensures={'value': 'be(result) == spec.keys.ival(n)',
                              'minimal': 'blocksize == 0 ==> (len(result) >= 1 and (spec.keys.ival(n) == 0 ==> result == bytes(1)) and (spec.keys.ival(n) > 0 ==> result[0] != 0))',
                              'blocks': 'imp(blocksize > 0, len(result) >= blocksize)',
                              'fits': 'imp(conj(blocksize > 0, spec.keys.ival(n) < pow2(8 * blocksize)), len(result) == blocksize)',
                              'i2osp': 'imp(conj(blocksize > 0, 0 <= spec.keys.ival(n), spec.keys.ival(n) < pow2(8 * blocksize)), '
                                       'result == i2osp(spec.keys.ival(n), blocksize))',
                              'too_large': 'imp(conj(blocksize > 0, spec.keys.ival(n) >= pow2(8 * blocksize)), len(result) > blocksize)',
                              'cpython_len': 'len(result) < 9223372036854775808'},
                     pure=True, modifies=[],
                     assumed='I2OSP, left-padded to a multiple of blocksize; bounded: bounded/number.py against int.to_bytes'))


# ---------------------------------------------------------------------------------------------------- raw libraries as seen by the loaders

RAWLIB_FUNCS = {
    'Crypto.PublicKey._ec_ws': ['ec_ws_new_context', 'ec_ws_free_context', 'ec_ws_new_point', 'ec_ws_free_point', 'ec_ws_get_xy', 'ec_ws_double',
                                'ec_ws_add', 'ec_ws_scalar', 'ec_ws_clone', 'ec_ws_cmp', 'ec_ws_neg'],
    'Crypto.PublicKey._ed25519': ['ed25519_new_point', 'ed25519_clone', 'ed25519_free_point', 'ed25519_cmp', 'ed25519_neg', 'ed25519_get_xy',
                                  'ed25519_double', 'ed25519_add', 'ed25519_scalar'],
    'Crypto.PublicKey._ed448': ['ed448_new_context', 'ed448_context', 'ed448_free_context', 'ed448_new_point', 'ed448_clone', 'ed448_free_point',
                                'ed448_cmp', 'ed448_neg', 'ed448_get_xy', 'ed448_double', 'ed448_add', 'ed448_scalar'],
    'Crypto.PublicKey._curve25519': ['curve25519_new_point', 'curve25519_clone', 'curve25519_free_point', 'curve25519_get_x', 'curve25519_scalar',
                                     'curve25519_cmp'],
    'Crypto.PublicKey._curve448': ['curve448_new_context', 'curve448_free_context', 'curve448_new_point', 'curve448_free_point', 'curve448_clone',
                                   'curve448_get_x', 'curve448_scalar', 'curve448_cmp'],
}


def install_rawlibs(reg):
    """load_pycryptodome_raw_lib(name, cdecl) for the five EC libraries: a namespace of named native functions.  Only the
    context constructors are ever CALLED by the loaders; they record their arguments in the ghost fields of a native.EcContext"""
    from vf.pyvc.interp import ModuleV

    def load(E, st, args, kw):
        name = args[0]
        if name not in RAWLIB_FUNCS:
            raise Unsupported('raw library %r' % (name,))
        return val(st, ModuleV('native.lib:' + name, None))
    reg.models['Crypto.Util._raw_api.load_pycryptodome_raw_lib'] = load

    def stub(fname):
        def fn(E, st, args, kw):
            raise Unsupported('native function %s called through the loader view of the library' % fname)
        return fn

    def ws_new_context(E, st, args, kw):
        out, mod, b, order, ln, seed = args
        rawapi.oblige_pre(E, st, 'ec_ws_new_context', ['hasattr(out, "g_ptr")', 'len(bytes(m)) == n', 'len(bytes(b)) == n', 'len(bytes(o)) == n',
                                                       '0 <= seed and seed < pow2(64)'],
                          {'out': out, 'm': mod, 'b': b, 'o': order, 'n': ln, 'seed': seed})
        ctx = rawapi.new_native(st, CTX, g_cid=0, g_p=mk_int(_models.be_value(E, st, zbytes(rawapi.buf_data(st, mod)))),
                                g_b=mk_int(_models.be_value(E, st, zbytes(rawapi.buf_data(st, b)))),
                                g_order=mk_int(_models.be_value(E, st, zbytes(rawapi.buf_data(st, order)))), g_len=ln)
        st.heap[out.oid].fields['g_ptr'] = ctx
        st.writes.append((out.oid, 'g_ptr'))
        return val(st, 0)

    def plain_new_context(which):
        def fn(E, st, args, kw):
            (out,) = args
            rawapi.oblige_pre(E, st, which, ['hasattr(out, "g_ptr")'], {'out': out})
            st.heap[out.oid].fields['g_ptr'] = rawapi.new_native(st, CTX, g_cid=0, g_kind=which)
            st.writes.append((out.oid, 'g_ptr'))
            return val(st, 0)
        return fn
    for lib, fns in RAWLIB_FUNCS.items():
        for f in fns:
            impl = {'ec_ws_new_context': ws_new_context, 'ed448_new_context': plain_new_context('ed448'),
                    'curve448_new_context': plain_new_context('curve448')}.get(f, stub(f))
            reg.overrides['native.lib:%s.%s' % (lib, f)] = BuiltinV(f, impl)


def ecc_registry(cid):
    # Path pruning budget: with byte sequences and 256..521-bit constants in the path condition a SATISFIABLE feasibility query costs
    # z3 0.3-0.5 s, and a query that times out counts as feasible anyway.  Pruning is an optimisation only (an infeasible path that
    # is kept has an inconsistent path condition, so its obligations still discharge); 80 ms keeps the same path sets 4x faster.
    from vf.pyvc import interp as _interp
    _interp.FEAS_TIMEOUT_MS = min(_interp.FEAS_TIMEOUT_MS, 80)
    reg = key_base_registry()
    add_number(reg)
    install_native(reg, cid)
    install_curves(reg)
    install_point_classes(reg, cid)
    install_random(reg)
    return reg
