"""Contracts for lib/Crypto/Cipher/PKCS1_OAEP.py (RSAES-OAEP, RFC 8017 7.1) and the Python wrapper of the constant-time decoder
lib/Crypto/Cipher/_pkcs1_oaep_decode.py:oaep_decode.                                                    Property C07.

  PKCS1OAEP_Cipher.encrypt   ValueError iff mLen > k - 2 hLen - 2 (7.1.1 step 1b); C = I2OSP(OS2IP(EM)^e mod n, k) with
                             EM = spec.rfc8017.oaep_em (7.1.1 step 2: lHash = Hash(L), DB = lHash || PS || 01 || M, seed = the next draw
                             of the caller's randfunc tape, dbMask = MGF(seed, k - hLen - 1), seedMask = MGF(maskedDB, hLen));
                             RSAEP's range error is PROVED impossible (EM starts with 00, so OS2IP(EM) < 256^(k-1) <= n);
                             the message buffer is not modified (frame `modifies=[]`, bytes / bytearray / memoryview)
  PKCS1OAEP_Cipher.decrypt   "decryption error" = ValueError iff len(C) != k or k < 2 hLen + 2 (7.1.2 step 1) or c >= n (RSADP) or
                             not spec.rfc8017.oaep_ok(Y, lHash, DB) (step 3g) with EM = I2OSP(c^d mod n, k) = Y || maskedSeed || maskedDB,
                             seed = maskedSeed xor MGF(maskedDB, hLen), DB = maskedDB xor MGF(seed, k - hLen - 1);
                             result == M == spec.rfc8017.oaep_message(lHash, DB); a key without private half never decrypts (it
                             raises TypeError, or ValueError for a ciphertext / key of the wrong size).
                             The code tests `k < hLen + 2` only; for hLen + 2 <= k < 2 hLen + 2 the RFC outcome is PROVED through
                             the decoder (oaep_decode returns -1 for em_len < 2 hLen + 2).
  oaep_decode (wrapper)      == spec.rfc8017.oaep_decode_c, given the ASSUMED contract of the C function (DESIGN.md C07; proved on
                             the C side: contracts/c/pkcs1_decode.py; its `int_range` precondition em_len <= 2^31 - 1 is a call-site
                             obligation here, discharged from the domain `k <= 2^31 - 1` of the cipher object).

Hash, xor: uninterpreted (sig_common).  Mask generation function `self._mgf`: the abstract caller-supplied `abs.Mgf`
(spec.rfc8017.MGF, uninterpreted, ASSUMED to be a function of its arguments returning `length` octets) or the closure
`lambda x, y: MGF1(x, y, self._hashObj)` that PKCS1OAEP_Cipher.__init__ builds (calls go through the PROVED contract of pss.MGF1);
the spec functions take the mask generation function as a callable.  RsaKey._encrypt: contract of sig_common.add_rsa_key (proved
by the RSA area); RsaKey._decrypt_to_bytes: ASSUMED == I2OSP(c^d mod n, k).
Units: one per (python type of the buffer argument) x (configuration of the object: mgfunc given / default).
"""
from vf.pyvc.contracts import Contract, ClassContract
from vf.pyvc.values import Ref
from . import rawapi
from .sig_common import common_registry, add_rsa_key, OHASH, RSA, RANDFUNC
from .sig_pss import add_mgf, mgf1_closure, OMGF, S

O = 'Crypto.Cipher.PKCS1_OAEP.'
CIPHER = O + 'PKCS1OAEP_Cipher'
DEC = 'Crypto.Cipher._pkcs1_oaep_decode.'
INT_MAX = '2147483647'

KEY_N, KEY_E, KEY_D = 'self._key._n._value', 'self._key._e._value', 'self._key._d._value'
K = S + 'octets(%s)' % KEY_N
HLEN = 'self._hashObj.digest_size'
LHASH = S + 'Hash(self._hashObj.g_alg, self._label)'              # 7.1.1 step 2a: lHash = Hash(L)


def _cipher_self(E, st):
    """the PKCS1OAEP_Cipher object under construction as entry value (the closure of __init__ is over `self`)"""
    oids = [oid for oid, h in st.heap.items() if getattr(h, 'ghost_id', None) == CIPHER]
    return Ref(max(oids))


def add_decoder(reg):
    rawapi.install_glue(reg)
    rawapi.install_lib(reg, DEC + '_raw_pkcs1_decode', 'native.pkcs1_decode', {
        'oaep_decode': Contract('native.pkcs1_decode.oaep_decode',
                                params={'em': 'bytes', 'em_len': 'int', 'lHash': 'bytes', 'hLen': 'int', 'db': 'bytes', 'db_len': 'int'},
                                requires=['em_len == len(em)', 'hLen == len(lHash)', 'db_len == len(db)', 'em_len <= ' + INT_MAX],
                                returns=S + 'oaep_decode_c(em, lHash, db)', modifies=[], options={'exact': True},
                                assumed='C function oaep_decode of src/pkcs1_decode.c as stated in DESIGN.md C07 (proved by CVC: '
                                        'contracts/c/pkcs1_decode.py; allocation failure not modelled)')})
    reg.add(Contract(DEC + 'oaep_decode', params={'em': 'bytes', 'lHash': 'bytes', 'db': 'bytes'},
                     requires=['len(em) <= ' + INT_MAX],
                     returns=S + 'oaep_decode_c(em, lHash, db)',
                     ensures={'value': 'result == ' + S + 'oaep_decode_c(em, lHash, db)'},
                     modifies=[], result='int', opaque=[S + 'oaep_decode_c'],
                     # CPython: len() of an object is a Py_ssize_t (<= 2^63 - 1), so c_size_t(len(x)) is len(x)
                     options={'ssize_len': True}))


def add_cipher(reg, mgf=None):
    """mgf: restrict the object to one configuration ('user': mgfunc given, 'mgf1': the default closure); None = both"""
    kinds = {'user': [OMGF], 'mgf1': [mgf1_closure(_cipher_self, module='Crypto.Cipher.PKCS1_OAEP',
                                                   text='lambda x, y: MGF1(x, y, self._hashObj)', var='self')]}
    reg.add(ClassContract(CIPHER,
                          fields={'_key': 'obj:' + RSA + 'RsaKey', '_hashObj': OHASH,
                                  '_mgf': (kinds[mgf] if mgf else kinds['user'] + kinds['mgf1']),
                                  '_label': 'bytes', '_randfunc': RANDFUNC},
                          # domain: k <= 2^31 - 1 octets (C int range of the decoder; also keeps every mask request in the domain
                          # of MGF1, RFC 8017 B.2.1 step 1)
                          valid=['%s <= %s' % (K, INT_MAX)]))


def encrypt_contract(buf='buffer'):
    def em(seed):
        return S + 'oaep_em(%s, bytes(message), %s, %s, self._mgf)' % (LHASH, K, seed)                  # 7.1.1 step 2
    too_long = 'len(message) > %s - 2 * %s - 2' % (K, HLEN)                                           # step 1b: "message too long"
    em0, em1 = em('rnd_tape(rnd_cursor())'), em('rnd_tape(old(rnd_cursor()))')
    return Contract(CIPHER + '.encrypt', params={'message': buf},
                    # (RSAEP's "message representative out of range", 5.1.1 step 1, cannot occur: EM starts with 0x00, so
                    # OS2IP(EM) < 256^(k-1) <= 2^(modBits-1) <= n -- proved with the opt-in facts `int_lemmas`)
                    raises={'ValueError': ('iff', too_long)},
                    result='bytes',
                    ensures={'rfc8017_7_1_1': 'result == i2osp(pow(be(%s), %s, %s), %s)' % (em1, KEY_E, KEY_N, K),
                             'length': 'len(result) == ' + K,
                             'seed': 'len(rnd_tape(old(rnd_cursor()))) == ' + HLEN,
                             'entropy': 'rnd_cursor() == old(rnd_cursor()) + 1 and sys_cursor() == old(sys_cursor())'},
                    modifies=[], opaque=[S + 'mgf1'],
                    # int_lemmas: the defining inequality of int.bit_length (2^(bits-1) <= n < 2^bits) and ground monotonicity
                    # instances of 2^x, needed for "c < n < 256^k, hence I2OSP(c, k) does not fail" (7.1.1 step 3c)
                    options={'int_lemmas': []})


def decrypt_contract(buf='buffer'):
    em = 'i2osp(pow(be(ciphertext), %s, %s), %s)' % (KEY_D, KEY_N, K)                                 # 7.1.2 step 2: EM = I2OSP(RSADP(K, c), k)
    ok = S + 'oaep_decrypt_ok(%s, %s, %s, self._mgf)' % (em, HLEN, LHASH)                              # step 3 (b-g)
    msg = S + 'oaep_decrypt_message(%s, %s, %s, self._mgf)' % (em, HLEN, LHASH)                       # step 4
    wrong = 'len(ciphertext) != %s or %s < 2 * %s + 2 or be(ciphertext) >= %s' % (K, K, HLEN, KEY_N)  # step 1b, 1c, RSADP step 1
    return Contract(CIPHER + '.decrypt', params={'ciphertext': buf},
                    raises={'ValueError': ('iff', '%s or (hasattr(self._key, "_d") and not %s)' % (wrong, ok)),
                            'TypeError': ('only_if', 'not hasattr(self._key, "_d")')},
                    result='bytes',
                    ensures={'private': 'hasattr(self._key, "_d")',
                             'rfc8017_7_1_2': 'result == ' + msg},
                    modifies=[], opaque=[S + 'mgf1'])


def registry(buf='buffer', mgf=None):
    """buf: python type of the message / ciphertext argument (bytes | bytearray | memoryview; 'buffer' = all three);
    mgf: configuration of the cipher object (see add_cipher).  One unit per (type, configuration)."""
    reg = common_registry()
    add_rsa_key(reg)
    add_mgf(reg)
    add_decoder(reg)
    add_cipher(reg, mgf or None)
    reg.add(encrypt_contract(buf))
    reg.add(decrypt_contract(buf))
    return reg


def units(prop, tier):
    from vf.pyunit import pyvc_unit
    if prop != 'C07':
        return []
    out = [pyvc_unit(prop, 'enc.oaep.oaep_decode', registry, [DEC + 'oaep_decode'])]
    for buf in ('bytes', 'bytearray', 'memoryview'):
        for mgf in ('mgf1', 'user'):
            out.append(pyvc_unit(prop, 'enc.oaep.encrypt.%s.mgf_%s' % (buf, mgf), (lambda b=buf, m=mgf: registry(b, m)), [CIPHER + '.encrypt']))
            out.append(pyvc_unit(prop, 'enc.oaep.decrypt.%s.mgf_%s' % (buf, mgf), (lambda b=buf, m=mgf: registry(b, m)), [CIPHER + '.decrypt']))
    return out


# ======================================================================================================================
# Evidence of strength (tools/mut.py, property C07; every mutant listed gave exit 1 on the named obligation(s), every benign
# rename exit 0).  Obligation ids are prefixed C07.Cipher.PKCS1_OAEP.PKCS1OAEP_Cipher. / C07.Cipher._pkcs1_oaep_decode.
#
#   decrypt (units decrypt.bytes.mgf_*)
#              `res <= 0` -> `res < -1` (check dropped)     decrypt.raises_iff.ValueError.if, decrypt.ensures.rfc8017_7_1_2
#              db[res:] -> db[res-1:]                       decrypt.ensures.rfc8017_7_1_2
#              em[1:hLen+1] -> em[0:hLen]                   decrypt.ensures.rfc8017_7_1_2, decrypt.raises_iff.ValueError.if / .only_if
#              `len(ciphertext) != k` dropped               decrypt.raises_iff.ValueError.if
#              rename seedMask -> sm                        exit 0
#      EQUIVALENT mutants (exit 0, as they must: the observable behaviour does not change):
#              `res <= 0` -> `res < 0`       the decoder returns -1 or a value >= hLen + 1 >= 2, never 0
#              `or k < hLen+2` dropped       for k < hLen + 2 the code then fails in strxor (length mismatch, ValueError) or in
#                                            oaep_decode (em_len < 2 hLen + 2 -> -1 -> ValueError): the outcome stays ValueError
#   encrypt (units encrypt.bytes.mgf_*)
#              `ps_len < 0` -> `ps_len <= 0`                encrypt.raises_iff.ValueError.only_if
#              b'\x01' -> b'\x02' in DB                     encrypt.ensures.rfc8017_7_1_1
#              mgf(ros, k-hLen-1) -> (ros, k-hLen)          encrypt.raises_iff.ValueError.only_if (strxor length mismatch)
#              em = 00 || maskedSeed || maskedDB swapped    encrypt.ensures.rfc8017_7_1_1
#              rename ros -> seed0                          exit 0
#   oaep_decode (wrapper)
#              c_size_t(len(lHash)) -> (len(lHash) + 1)     oaep_decode.call_pre.hLen_len_lHash
#              c_uint8_ptr(lHash) -> c_uint8_ptr(db)        oaep_decode.call_pre.hLen_len_lHash, oaep_decode.ensures.value
#              rename ret -> rv                             exit 0
#   MGF1: see contracts/sig_pss.py (unit sig.pss.MGF1 is registered under C04 and C07).
#
# ASSUMED: the C function oaep_decode (DESIGN.md C07; CVC: contracts/c/pkcs1_decode.py); ctypes glue c_size_t / c_uint8_ptr
#   (contracts/rawapi.py); CPython len() <= 2^63 - 1 (option ssize_len, wrapper only); abs.Hash, strxor, long_to_bytes / bytes_to_long,
#   RsaKey._decrypt_to_bytes, caller-supplied mgfunc and randfunc as in contracts/sig_pss.py; opt-in arithmetic facts int_lemmas (encrypt).
#
# NOT PROVED:
#   PKCS1OAEP_Cipher.__init__ / new (defaults hashAlgo = Crypto.Hash.SHA1, mgfunc = MGF1 over self._hashObj, label copy): the default
#       hash is the MODULE Crypto.Hash.SHA1; stating "== SHA-1" needs a link between that module value and the abstract hash objects of
#       sig_common (a model of the hash modules as values), which this area does not have.  The class contract takes the state
#       __init__ establishes (a hash object/module, one of the two kinds of mask generation function, a bytes label) as given.
#   Round trip decrypt(encrypt(M)) == M: needs xor cancellation facts for the uninterpreted xor (x ^ m ^ m == x) and m^e^d = m (C14/C05).
