"""Contracts for lib/Crypto/Cipher/_mode_gcm.py (C01, C02 glue, C09, C10, C11): GcmMode, _GHASH (abstract), creation.

Reading guide.  The MAC layer of a GcmMode object is the byte stream  S = _signer.g_fed ++ _cache  (everything pushed into
GHASH so far: g_fed is the ghost of the native _GHASH object = bytes already hashed, _cache the partial block).  SP 800-38D
builds the tag from  A || 0^v || C || 0^u || [len A]_64 || [len C]_64 ; the methods' contracts say how S grows
(update: S' = S ++ aad;  first encrypt/decrypt: S' = pad16(S) ++ ct;  later ones: S' = S ++ ct), so by induction over any
call history S = A while associated data is processed and S = pad16(A) ++ C afterwards, whatever the segmentation (C09),
and _compute_mac's contract gives the tag as the standard's function of (K, J0, S, len A, len C) (C01).
The cipher identity (module id, key), J0 and H live in the ghost state of the abstract native objects
(_tag_cipher: CTR object started at J0, _cipher: CTR object started at inc32(J0), _signer: GHASH under H); __init__'s contract
establishes them from (factory, key, nonce) per SP 800-38D 7.1 steps 1-3.
The object state after a length-limit exception (ValueError/OverflowError) is outside valid(): the property demands the
exception, nothing about later use."""
from vf.pyvc.contracts import Contract, ClassContract
from vf.pyvc.values import *       # noqa
from .base import base_registry
from . import aead1_natives as nat
from spec import fsm

G = 'Crypto.Cipher._mode_gcm.'
GM = G + 'GcmMode'
GH = G + '_GHASH'
N = 'Crypto.Util.number.'

S = '(self._signer.g_fed + self._cache)'
OS = '(old(self._signer.g_fed) + old(self._cache))'
FID, KEY, J0 = 'self._tag_cipher.g_fid', 'self._tag_cipher.g_key', 'self._tag_cipher.g_icb'
H = 'self._signer.g_h'
AUTH_MAX = '2**61 - 1'          # SP 800-38D 5.2.1.1: len(A) <= 2^64-1 BITS
MSG_MAX = '2**36 - 32'          # len(P) <= 2^39-256 BITS
CTR_MAX = '2**36'               # 2^32 counter blocks of 16 bytes

OPQ = ['spec.aead1.inc32', 'spec.aead1.gcm_h', 'spec.aead1.gcm_tag']      # spec functions kept uninterpreted where only congruence is needed

STATE_NAMES = {('decrypt', 'digest', 'encrypt', 'update', 'verify'): 'init', ('digest', 'encrypt'): 'encrypting',
               ('decrypt', 'verify'): 'decrypting', ('digest',): 'digested', ('verify',): 'verified'}


def next_type(state, as_tuple=False):
    return '%s(%s)' % ('tuple' if as_tuple else 'list', ','.join('const:"%s"' % m for m in state))


def next_is(methods, state):
    """`_next` allows exactly the methods of `state` (set semantics: robust against list/tuple and order)"""
    return ' and '.join('("%s" in self._next) == %s' % (m, m in state) for m in methods)


def after(key, m):
    return fsm.FSM[key]['next'][m]


# the tag SP 800-38D defines for the current (not yet finalised) object
TAG_NOW = 'spec.aead1.gcm_tag(%s, %s, %s, %s, self._auth_len, self._msg_len, self._mac_len)' % (FID, KEY, J0, S)
# ... and the tag of the object whether or not it has been finalised already (cached)
TAG = '(self._tag if self._tag is not None else %s)' % TAG_NOW

INV = {
    'cache': 'len(self._cache) < 16',
    'auth_max': 'self._auth_len <= %s' % AUTH_MAX,
    'msg_max': 'self._msg_len <= %s' % MSG_MAX,
    # ghost links between the native objects: one key, H = CIPH_K(0^128), J0 / inc32(J0) as the two initial counter blocks
    'H': '%s == spec.aead1.gcm_h(%s, %s)' % (H, FID, KEY),
    'j0_len': 'len(%s) == 16' % J0,
    'tc_plen': 'self._tag_cipher.g_plen == 0', 'tc_limit': 'self._tag_cipher.g_limit == -1', 'tc_dir': 'self._tag_cipher.g_dir != 2',
    'c_fid': 'self._cipher.g_fid == %s' % FID, 'c_key': 'self._cipher.g_key == %s' % KEY,
    'c_icb': 'self._cipher.g_icb == spec.aead1.inc32(%s)' % J0,
    'c_plen': 'self._cipher.g_plen == 12', 'c_limit': 'self._cipher.g_limit == %s' % CTR_MAX,
    'c_pos': 'self._cipher.g_pos == self._msg_len',
    # the inner CTR object's direction agrees with the automaton state
    'dir_enc': '("encrypt" in self._next) ==> self._cipher.g_dir != 2',
    'dir_dec': '("decrypt" in self._next) ==> self._cipher.g_dir != 1',
    # associated data only before any message byte; no cached tag while data may still arrive
    'aad_first': '("update" in self._next) ==> conj(self._status == 1, self._msg_len == 0)',
    'msg_phase': '("update" not in self._next and ("encrypt" in self._next or "decrypt" in self._next)) ==> self._status == 2',
    'no_tag_yet': '("update" in self._next or "encrypt" in self._next or "decrypt" in self._next) ==> self._tag is None',
    # lengths of the MAC stream while the object is not finalised: S = A, then S = pad16(A) ++ C
    'tc_pos': 'impl(self._tag is None, self._tag_cipher.g_pos == 0)',
    'len_aad': 'impl(conj(self._tag is None, self._status == 1), conj(self._msg_len == 0, len(%s) == self._auth_len))' % S,
    'len_msg': 'impl(conj(self._tag is None, self._status == 2), len(%s) == self._auth_len + (16 - self._auth_len %% 16) %% 16 + self._msg_len)' % S,
    # finalised: everything has been hashed and the cached tag is MSB_t(GHASH_H(fed) xor CIPH_K(J0))
    'fin_cache': 'impl(self._tag is not None, self._cache == b"")',
    'fin_len': 'self._tag is not None ==> len(self._tag) == self._mac_len',
    'fin_tag': 'impl(self._tag is not None, self._tag == spec.aead1.xor(spec.aead1.ghash(%s, self._signer.g_fed), spec.aead1.E(%s, %s, %s))[:self._mac_len])' % (H, FID, KEY, J0),
}
VALID = list(INV.values())
INV = {'inv_' + k: v for k, v in INV.items()}


def ens(d):
    """postconditions + the object invariant clause by clause (one conjunction `valid(self)` is too big a query)"""
    d = dict(d)
    d.update(INV)
    return d


FIELDS = {'_mac_len': 'int[4..16]', '_tag': 'bytes|none', '_auth_len': 'nat', '_msg_len': 'nat', '_cache': 'bytes',
          '_status': 'int[1..2]', '_cipher': 'obj:' + nat.CTR, '_tag_cipher': 'obj:' + nat.CTR, '_signer': 'obj:' + GH}


def add_ghash(reg):
    """_GHASH: ctypes wrapper around ghash_portable/ghash_clmul -- abstract.  Ghost: g_h (hash subkey), g_fed (all blocks hashed)"""
    reg.add(ClassContract(GH, fields={'g_h': 'bytes', 'g_fed': 'bytes'}, valid=['len(self.g_fed) % 16 == 0', 'len(self.g_h) == 16'],
                          abstract=True))
    why = 'native GHASH (src/ghash_portable.c, ghash_clmul.c; bounded: bounded/accel.py ghash portable/clmul vs SP 800-38D reference, bounded/modes.py GCM)'

    def ghash_new(E, st, args, kw):
        import z3
        subkey = args[0]
        E.oblige(st, z3.Length(zbytes(subkey)) == 16, 'call_pre', 'call of _GHASH()', {'clause': 'len(subkey) == 16'})   # the constructor's assert
        h = HObj('obj', cls=None)
        h.ghost_id = GH
        h.fields = {'g_h': SBytes(zbytes(subkey), 'bytes'), 'g_fed': b''}
        return [('val', st, st.alloc(h))]
    reg.models[GH] = ghash_new
    reg.add(Contract(GH + '.update', params={'block_data': 'bytes'}, requires=['len(block_data) % 16 == 0'],       # = its assert
                     sets={'self.g_fed': 'old(self.g_fed) + bytes(block_data)'}, modifies=['self.g_fed'], returns='self',
                     options={'exact': True}, assumed=why))
    reg.add(Contract(GH + '.digest', params={}, returns='spec.aead1.ghash(self.g_h, self.g_fed)', modifies=[],
                     options={'exact': True}, assumed=why))


def add_number(reg):
    """long_to_bytes / bytes_to_long with the extra facts this area needs (all are statements of big-endian notation).
    Eager `impl` where the consequent is total: a lazy `==>` costs two feasibility queries per clause and call."""
    reg.add(Contract(N + 'long_to_bytes', params={'n': 'int', 'blocksize': 'int'},
                     raises={'ValueError': ('iff', 'n < 0 or blocksize < 0')}, result='bytes',
                     ensures={'value': 'be(result) == n',
                              'blocks': 'blocksize > 0 ==> (len(result) % blocksize == 0 and len(result) >= 1)',
                              'fits8': 'impl(conj(blocksize == 8, n < 2**64), result == spec.aead1.u64be(n))',
                              # the last `blocksize` bytes hold n mod 256^blocksize (CMAC sub-key shift: blocks of 8 / 16 bytes)
                              'low8': 'impl(blocksize == 8, result[len(result) - 8:] == spec.aead1.ibe(n % 2**64, 8))',
                              'low16': 'impl(blocksize == 16, result[len(result) - 16:] == spec.aead1.ibe(n % 2**128, 16))'},
                     pure=True, assumed='bounded: bounded/bigint.py long_to_bytes against int.to_bytes'))
    reg.add(Contract(N + 'bytes_to_long', params={'s': 'bytes'}, result='int',
                     ensures={'value': 'result == be(s)',
                              'low32': 'impl(len(s) >= 4, result % 4294967296 == spec.aead1.be4(s[len(s) - 4:]))',   # int(X) mod 2^32 = int(LSB_32(X))
                              'inverse': 'spec.aead1.ibe(result, len(s)) == bytes(s)',                            # [int(X)]_len(X) = X
                              'range': 'conj(result >= 0, impl(len(s) == 8, result < 2**64), impl(len(s) == 16, result < 2**128))'},
                     pure=True, assumed='bounded: bounded/bigint.py bytes_to_long against int.from_bytes'))


def registry(state=None, key='GCM', buf='buffer', out='none|bytearray', clmul='<ghash_clmul>'):
    """state: the concrete value of `_next` at entry (tuple of method names); default = the initial state.
    buf / out: type alternatives of the data and output= parameters (units may take them one at a time)"""
    reg = base_registry()
    add_number(reg)
    nat.add_random(reg)
    nat.add_blake2s_compare(reg)
    nat.add_block_cipher(reg)
    add_ghash(reg)
    t = fsm.FSM[key]
    state = tuple(t['init']) if state is None else tuple(state)
    M = t['methods']
    fields = dict(FIELDS)
    fields['_next'] = next_type(state)
    if set(state) & {'update', 'encrypt', 'decrypt'}:
        fields['_tag'] = 'none'          # = invariant no_tag_yet for this state (spares the lazy union; `_tag` is never havocked: `sets`)
    reg.add(ClassContract(GM, fields=fields, valid=VALID))

    # ------------------------------------------------------------------ cache layer (C09)
    weak = ['len(self._cache) < 16', 'len(self._signer.g_fed) % 16 == 0']
    reg.add(Contract(GM + '._update', params={'data': buf}, requires=weak, raises={},
                     ensures={'stream': '%s == %s + bytes(data)' % (S, OS), 'cache': 'len(self._cache) < 16',
                              'fed': 'len(self._signer.g_fed) % 16 == 0'},
                     modifies=['self._cache', 'self._signer.g_fed'], options={'assume_valid': False}))
    reg.add(Contract(GM + '._pad_cache_and_update', params={}, requires=weak, raises={},
                     ensures={'stream': '%s == spec.aead1.pad16(%s)' % (S, OS), 'cache': 'self._cache == b""',
                              'fed': 'len(self._signer.g_fed) % 16 == 0'},
                     modifies=['self._cache', 'self._signer.g_fed'], options={'assume_valid': False}))

    # ------------------------------------------------------------------ update
    ok = '"update" in self._next'
    reg.add(Contract(GM + '.update', params={'assoc_data': buf},
                     raises={'TypeError': ('iff', 'not (%s)' % ok),
                             'ValueError': ('iff', '%s and self._auth_len + len(assoc_data) > %s' % (ok, AUTH_MAX))},
                     ensures=ens({'stream': '%s == %s + bytes(assoc_data)' % (S, OS),
                              'auth_len': 'self._auth_len == old(self._auth_len) + len(assoc_data)',
                              'next': next_is(M, after(key, 'update')), 'self': 'result is self'}),
                     sets={'self._next': repr(tuple(after(key, 'update')))}, returns='self',
                     modifies=['self._next', 'self._cache', 'self._signer.g_fed', 'self._auth_len'], unchanged_on_raise=['TypeError'],
                     opaque=OPQ + ['spec.aead1.pad16']))

    # ------------------------------------------------------------------ encrypt / decrypt
    def ks(arg):
        return ('spec.aead1.ctr_ks(%s, %s, spec.aead1.inc32(%s), 12, old(self._msg_len), len(%s))' % (FID, KEY, J0, arg))
    for meth, arg in (('encrypt', 'plaintext'), ('decrypt', 'ciphertext')):
        ok = '"%s" in self._next' % meth
        total = 'self._msg_len + len(%s)' % arg
        mismatch = '(output is not None and len(output) != len(%s))' % arg
        val = 'spec.aead1.xor(bytes(%s), %s)' % (arg, ks(arg))
        ctv = '(result if output is None else bytes(output))' if meth == 'encrypt' else 'bytes(ciphertext)'
        if meth == 'encrypt':
            # the inner CTR object (limit 2**36) is called before the GCM check: beyond 2**36 its OverflowError comes first
            raises = {'TypeError': ('iff', 'not (%s)' % ok),
                      'ValueError': ('iff', '%s and disj(%s, conj(%s > %s, %s <= %s))' % (ok, mismatch, total, MSG_MAX, total, CTR_MAX)),
                      'OverflowError': ('iff', '%s and conj(not %s, %s > %s)' % (ok, mismatch, total, CTR_MAX))}
        else:
            raises = {'TypeError': ('iff', 'not (%s)' % ok),
                      'ValueError': ('iff', '%s and disj(%s, %s > %s)' % (ok, mismatch, total, MSG_MAX))}
        nat.by_output(reg, Contract('%s.%s' % (GM, meth), params={arg: buf, 'output': out}, raises=raises,
                         ensures=ens({'value': '(output is None ==> result == %s) and (output is not None ==> (result is None and bytes(output) == %s))' % (val, val),
                                  'stream_first': 'impl(old(self._status) == 1, %s == spec.aead1.pad16(%s) + %s)' % (S, OS, ctv),
                                  'stream_next': 'impl(old(self._status) == 2, %s == %s + %s)' % (S, OS, ctv),
                                  'lengths': 'conj(self._msg_len == old(self._msg_len) + len(%s), self._auth_len == old(self._auth_len), self._status == 2)' % arg,
                                  'next': next_is(M, after(key, meth))}),
                         sets={'self._next': repr(tuple(after(key, meth)))},
                         modifies=['self._next', 'self._status', 'self._cache', 'self._signer.g_fed', 'self._msg_len',
                                   'self._cipher.g_pos', 'self._cipher.g_dir', 'output'],
                         unchanged_on_raise=['TypeError'], opaque=OPQ))

    # ------------------------------------------------------------------ tag
    fin_mod = ['self._tag', 'self._cache', 'self._signer.g_fed', 'self._tag_cipher.g_pos', 'self._tag_cipher.g_dir']
    idem = ('old(self._tag is not None) ==> (self._tag == old(%s) and self._cache == old(self._cache) and ' % TAG +
            'self._signer.g_fed == old(self._signer.g_fed) and self._tag_cipher.g_pos == old(self._tag_cipher.g_pos) and '
            'self._tag_cipher.g_dir == old(self._tag_cipher.g_dir))')
    reg.add(Contract(GM + '._compute_mac', params={}, requires=['valid(self)', 'not ("update" in self._next or "encrypt" in self._next or "decrypt" in self._next)'],
                     raises={},
                     ensures=ens({'tag': 'result == old(%s)' % TAG, 'cached': 'self._tag == result', 'idempotent': idem}),
                     sets={'self._tag': 'old(%s)' % TAG}, returns='old(%s)' % TAG,
                     lemmas={'exit': {
                         'stream': 'old(self._tag is None) ==> %s == spec.aead1.pad16(%s) + spec.aead1.u64be(8 * self._auth_len) + spec.aead1.u64be(8 * self._msg_len)' % (S, OS),
                         'whole_blocks': 'old(self._tag is None) ==> len(%s) %% 16 == 0' % S,
                         'cache_empty': 'old(self._tag is None) ==> self._cache == b""',
                         'fed': 'old(self._tag is None) ==> self._signer.g_fed == spec.aead1.gcm_s_input(%s, self._auth_len, self._msg_len)' % OS,
                         'mask': 'old(self._tag is None) ==> spec.aead1.ctr_ks(%s, %s, %s, 0, 0, 16) == spec.aead1.E(%s, %s, %s)' % (FID, KEY, J0, FID, KEY, J0)}},
                     modifies=fin_mod, opaque=['spec.aead1.inc32', 'spec.aead1.gcm_h', 'spec.aead1.pad16']))
    reg.add(Contract(GM + '.digest', params={}, raises={'TypeError': ('iff', 'not ("digest" in self._next)')},
                     ensures=ens({'tag': 'result == old(%s)' % TAG, 'cached': 'self._tag == result', 'idempotent': idem,
                                  'next': next_is(M, after(key, 'digest'))}),
                     sets={'self._next': repr(tuple(after(key, 'digest'))), 'self._tag': 'old(%s)' % TAG}, returns='old(%s)' % TAG,
                     modifies=['self._next'] + fin_mod, unchanged_on_raise=['TypeError'], opaque=OPQ + ['spec.aead1.pad16']))
    reg.add(Contract(GM + '.verify', params={'received_mac_tag': buf},
                     raises={'TypeError': ('iff', 'not ("verify" in self._next)'),
                             'ValueError': ('iff', '"verify" in self._next and bytes(received_mac_tag) != %s' % TAG)},
                     ensures=ens({'cached': 'self._tag == old(%s)' % TAG, 'idempotent': idem, 'none': 'result is None',
                                  'next': next_is(M, after(key, 'verify'))}),
                     on_raise={'ValueError': ['self._tag == old(%s)' % TAG, next_is(M, after(key, 'verify')), idem]},
                     sets={'self._next': repr(tuple(after(key, 'verify'))), 'self._tag': 'old(%s)' % TAG},
                     modifies=['self._next'] + fin_mod, unchanged_on_raise=['TypeError'], opaque=OPQ + ['spec.aead1.pad16'],
                     options={'on_raise_modifies': ['self._next'] + fin_mod}))
    # ------------------------------------------------------------------ one-call forms (C01: decrypt_and_verify)
    # the stream / message length after the single encrypt or decrypt call, over the ENTRY state
    def s_after(ct):
        return '(ite(self._status == 1, spec.aead1.pad16(%s), %s) + %s)' % (S, S, ct)
    ct_val = 'spec.aead1.xor(bytes(plaintext), %s)' % ks('plaintext')
    pt_val = 'spec.aead1.xor(bytes(ciphertext), %s)' % ks('ciphertext')
    both_mod = ['self._next', 'self._status', 'self._cache', 'self._signer.g_fed', 'self._msg_len', 'self._cipher.g_pos',
                'self._cipher.g_dir', 'output'] + fin_mod
    tag_e = ('spec.aead1.gcm_tag(%s, %s, %s, %s, self._auth_len, self._msg_len + len(plaintext), self._mac_len)'
             % (FID, KEY, J0, s_after(ct_val.replace('old(self._msg_len)', 'self._msg_len'))))
    tag_d = ('spec.aead1.gcm_tag(%s, %s, %s, %s, self._auth_len, self._msg_len + len(ciphertext), self._mac_len)'
             % (FID, KEY, J0, s_after('bytes(ciphertext)')))
    e, d = reg.contracts[GM + '.encrypt'], reg.contracts[GM + '.decrypt']
    reg.add(Contract(GM + '.encrypt_and_digest', params={'plaintext': buf, 'output': out}, raises=e.raises,
                     ensures={'ciphertext': '(output is None ==> result[0] == %s) and (output is not None ==> (result[0] is None and bytes(output) == %s))' % (ct_val, ct_val),
                              'tag': 'result[1] == old(%s)' % tag_e, 'cached': 'self._tag == result[1]',
                              'next': next_is(M, after(key, 'digest'))},
                     modifies=both_mod, unchanged_on_raise=['TypeError'], opaque=OPQ + ['spec.aead1.pad16']))
    dv_raises = dict(d.raises)
    dv_raises['ValueError'] = ('iff', '"decrypt" in self._next and disj(%s, self._msg_len + len(ciphertext) > %s, bytes(received_mac_tag) != %s)'
                               % ('(output is not None and len(output) != len(ciphertext))', MSG_MAX, tag_d))
    reg.add(Contract(GM + '.decrypt_and_verify', params={'ciphertext': buf, 'received_mac_tag': buf, 'output': out}, raises=dv_raises,
                     ensures={'plaintext': '(output is None ==> result == %s) and (output is not None ==> (result is None and bytes(output) == %s))' % (pt_val, pt_val),
                              'cached': 'self._tag == old(%s)' % tag_d, 'next': next_is(M, after(key, 'verify'))},
                     modifies=both_mod, unchanged_on_raise=['TypeError'], opaque=OPQ + ['spec.aead1.pad16']))

    # ------------------------------------------------------------------ construction (C02 glue, C01 mac_len domain)
    bad = ('factory.block_size != 16 or len(nonce) == 0 or len(nonce) > %s or mac_len < 4 or mac_len > 16' % AUTH_MAX)   # 5.2.1.1: len(IV) in bits
    fresh = ('conj(%s == b"", self._auth_len == 0, self._msg_len == 0, self._status == 1, self._cipher.g_pos == 0, '
             'self._cipher.g_dir == 0, self._tag_cipher.g_dir == 0)' % S)
    nat.ctor_at_call_sites(reg, Contract(GM + '.__init__', params={'factory': 'obj:' + nat.FACTORY, 'key': buf, 'nonce': buf, 'mac_len': 'int',
                                               'cipher_params': nat.EMPTY_PARAMS, 'ghash_c': 'any'},
                     raises={'ValueError': ('iff', bad)}, sets={'self._next': repr(tuple(t['init']))},
                     ensures=ens({'nonce': 'self.nonce == bytes(nonce)', 'mac_len': 'self._mac_len == mac_len',
                                  'cipher': 'conj(%s == factory.g_fid, %s == bytes(key))' % (FID, KEY),
                                  'j0': '%s == spec.aead1.gcm_j0(%s, %s, bytes(nonce))' % (J0, FID, KEY),
                                  'fresh': fresh, 'no_tag': 'self._tag is None', 'next': next_is(M, t['init'])}),
                     modifies=['self.*'], options={'assume_valid': False}, opaque=['spec.aead1.pad16', 'spec.aead1.be4']),
                           dict(FIELDS, _tag='none', _mac_len='int', nonce='bytes'))

    # _create_gcm_cipher(factory, **kwargs): key, nonce (optional, None = absent -> 16 random bytes), mac_len (default 16),
    # use_clmul (test switch).  Other keywords would travel to the cipher as cipher_params: not in the modelled domain.
    reg.overrides[G + '_ghash_clmul'] = clmul          # the two module-level GHASH back ends (ctypes handles): opaque stand-ins
    reg.overrides[G + '_ghash_portable'] = '<ghash_portable>'
    R = lambda c: c.replace('self.', 'result.')       # noqa
    OK = 'old(kwargs)'
    NG = '("nonce" in %s and %s["nonce"] is not None)' % (OK, OK)
    badk = ('factory.block_size != 16 or ("nonce" in kwargs and kwargs["nonce"] is not None and (len(kwargs["nonce"]) == 0 or len(kwargs["nonce"]) > %s)) '
            'or kwargs.get("mac_len", 16) < 4 or kwargs.get("mac_len", 16) > 16' % AUTH_MAX)
    cens = {R(k): R(v) for k, v in INV.items()}
    cens.update({'mac_len': 'result._mac_len == %s.get("mac_len", 16)' % OK,
                 'nonce_attr': '(%s ==> result.nonce == bytes(%s["nonce"])) and (not %s ==> len(result.nonce) == 16)' % (NG, OK, NG),
                 'cipher': R('conj(%s == factory.g_fid, %s == bytes(%s["key"]))' % (FID, KEY, OK)),
                 'j0': R('%s == spec.aead1.gcm_j0(%s, %s, self.nonce)' % (J0, FID, KEY)),
                 'fresh': R(fresh), 'no_tag': 'result._tag is None', 'next': R(next_is(M, t['init']))})
    reg.add(Contract(G + '_create_gcm_cipher', params={'factory': 'obj:' + nat.FACTORY, 'kwargs': 'dict(key:bytes,nonce:bytes)'},
                     raises={'TypeError': ('iff', '"key" not in kwargs'), 'ValueError': ('iff', '"key" in kwargs and (%s)' % badk)},
                     ensures=cens, modifies=['kwargs'], options={'assume_valid': False},
                     opaque=OPQ + ['spec.aead1.pad16', 'spec.aead1.be4', 'spec.aead1.gcm_j0']))
    return reg


def _st(name):
    for k, v in STATE_NAMES.items():
        if v == name:
            return k
    raise KeyError(name)


PERMITTED = {'update': ['init'], 'encrypt': ['init', 'encrypting'], 'decrypt': ['init', 'decrypting'],
             'digest': ['init', 'encrypting', 'digested'], 'verify': ['init', 'decrypting', 'verified'],
             'encrypt_and_digest': ['init', 'encrypting'], 'decrypt_and_verify': ['init', 'decrypting']}
BUFS = ['bytes', 'bytearray', 'memoryview']
# the concrete values `_next` can take = reachable states of the documented automaton (fixpoint from the constructor);
# that the CODE never produces another value is what the per-state `next` postconditions prove
assert sorted(STATE_NAMES) == sorted(fsm.reach('GCM'))


def units(prop, tier):
    from vf.pyunit import pyvc_unit
    import functools
    out = []
    quick = tier == 'quick'

    def u(targets, state='init', buf='buffer', out_t='none|bytearray', tag=''):
        uid = 'gcm.%s%s@%s' % ('+'.join(targets), tag, state)
        out.append(pyvc_unit(prop, uid, functools.partial(registry, _st(state), 'GCM', buf, out_t), [GM + '.' + t for t in targets]))

    def per_buf(target, states, bufs=BUFS, out_t='none|bytearray'):
        for s in states:
            for b in bufs:
                u([target], s, b, out_t, '[%s]' % b)
    one = ['bytes'] if quick else BUFS           # quick tier: one buffer type where the type only travels to a native callee
    init3 = [('bytes', 'bytes'), ('bytearray', 'memoryview'), ('memoryview', 'bytearray')]
    if prop == 'C09':
        # cache discipline S' == S ++ data for every buffer type; output= path: the MAC is fed from the output buffer
        u(['_update', '_pad_cache_and_update'])
        u(['update'])
        per_buf('encrypt', PERMITTED['encrypt'])
        per_buf('decrypt', PERMITTED['decrypt'])
    elif prop == 'C10':
        for m in ('update', 'encrypt', 'decrypt', 'digest', 'verify', 'encrypt_and_digest', 'decrypt_and_verify'):
            for s in STATE_NAMES.values():
                if s in PERMITTED[m]:
                    per_buf(m, [s], ['bytes'] if m != 'update' else ['buffer'])
                else:
                    u([m], s, 'bytes', tag='[forbidden]')
        u(['_compute_mac'], 'digested')        # idempotence of digest()/verify() rests on its cached-tag path
        u(['_compute_mac'], 'verified')
    elif prop == 'C01':
        per_buf('verify', PERMITTED['verify'], BUFS if not quick else ['bytes', 'bytearray'])
        u(['_compute_mac'], 'digested')
        u(['_compute_mac'], 'verified')
        for s in PERMITTED['digest']:
            u(['digest'], s)
        per_buf('decrypt_and_verify', PERMITTED['decrypt_and_verify'], one)
        per_buf('encrypt_and_digest', PERMITTED['encrypt_and_digest'], one)
        for k, n in (init3 if quick else [(a, b) for a in BUFS for b in BUFS]):
            out.append(pyvc_unit(prop, 'gcm.__init__[key:%s,nonce:%s]' % (k, n), functools.partial(_init_registry, k, n), [GM + '.__init__']))
    elif prop == 'C11':
        u(['update'])
        per_buf('encrypt', PERMITTED['encrypt'], one)
        per_buf('decrypt', PERMITTED['decrypt'], one)
    elif prop == 'C02':
        for k, n in (init3 if quick else [(a, b) for a in BUFS for b in BUFS]):
            out.append(pyvc_unit(prop, 'gcm.__init__[key:%s,nonce:%s]' % (k, n), functools.partial(_init_registry, k, n), [GM + '.__init__']))
        per_buf('encrypt', PERMITTED['encrypt'], one)
        per_buf('decrypt', PERMITTED['decrypt'], one)
        for nm, v in (('clmul', '<ghash_clmul>'), ('portable', None)):       # CLMUL back end present / absent on this CPU
            out.append(pyvc_unit(prop, 'gcm._create_gcm_cipher[%s]' % nm, functools.partial(_create_registry, v), [G + '_create_gcm_cipher']))
    return out


CREATE_KW = ['dict(key:bytes,nonce:bytes,mac_len:int)', 'dict(key:bytearray,nonce:memoryview)', 'dict(key:memoryview,nonce:bytearray,use_clmul:bool)',
             'dict(key:bytes)', 'dict(key:bytes,nonce:none,mac_len:int)', 'dict(nonce:bytes)', 'dict()']


def _create_registry(clmul):
    reg = registry(clmul=clmul)
    c = reg.contracts[G + '_create_gcm_cipher']
    c.params = dict(c.params, kwargs='|'.join(CREATE_KW))
    return reg


def _init_registry(k, n):
    reg = registry()
    c = reg.contracts[GM + '.__init__']
    c.params = dict(c.params, key=k, nonce=n)
    return reg


# NOT PROVED: hexdigest / hexverify (string formatting, binascii.unhexlify: outside the PYVC subset).
# NOT PROVED: output= given as a WRITABLE memoryview, and output aliasing the input buffer: the engine has no memoryview over a
#   mutable buffer; output=bytearray (distinct from the input) is proved, the in-place behaviour of the native CTR loop is C-level (C09/CVC).
# Domain notes: cipher_params == {} (extra cipher keywords are part of the cipher identity and only travel to factory.new);
#   the object state after a length-limit exception is outside valid().
#
# Vacuity / strength check (tools/mut.py, quick tier, 2026-09-26): every semantic mutant below gave exit 1 on the named obligation;
# the benign ones gave exit 0.
#   C09  _update: `len(data) // 16 * 16` -> `* 15`                    -> _update.call_pre.len_block_data_16_0, _update.ensures.cache
#   C09  encrypt: `_update(ciphertext if output is None else output)` -> `_update(plaintext)`   -> encrypt.ensures.stream_first
#   C09  _pad_cache_and_update: `16 - len_cache` -> `15 - len_cache` -> _pad_cache_and_update.ensures.stream / .cache
#   C09  benign: local `len_cache` renamed `n_cached`               -> exit 0
#   C10  digest: guard `if "digest" not in self._next` -> `if False` -> digest.raises_iff.TypeError.if
#   C10  encrypt: successor `["encrypt","digest"]` + "decrypt"       -> encrypt.ensures.next, encrypt.ensures.inv_dir_dec
#   C10  update: `self._cache = b""` before the TypeError            -> update.unchanged_on_TypeError.obj1._cache
#   C10  _compute_mac: `if self._tag:` -> `if False:`                -> _compute_mac.ensures.idempotent, .inv_fin_tag
#   C01  _compute_mac: `long_to_bytes(8 * self._auth_len, 8)` -> `long_to_bytes(self._auth_len, 8)` -> _compute_mac.lemma.stream
#   C01  verify: `data=received_mac_tag` -> `received_mac_tag[:4]`   -> verify.raises_iff.ValueError.if / .only_if
#   C01  __init__: `4 <= mac_len` -> `3 <= mac_len`                  -> __init__.raises_iff.ValueError.if
#   C01  _compute_mac: `[:self._mac_len]` -> `[:self._mac_len - 1]`  -> _compute_mac.ensures.tag, .inv_fin_len, .inv_fin_tag
#   C11  encrypt: `2**36 - 32` -> `2**36 - 31`                       -> encrypt.raises_iff.ValueError.if, .inv_msg_max
#   C11  update: `2**61 - 1` -> `2**61`                              -> update.raises_iff.ValueError.if, .inv_auth_max
#   C11  decrypt: `2**36 - 32` -> `2**39 - 256` (the original D11)   -> decrypt.raises_iff.ValueError.if, .inv_msg_max
#   C02  __init__: J0 suffix `...\x01` -> `...\x02`                  -> __init__.ensures.j0
#   C02  __init__: `bytes_to_long(j0) + 1` -> `+ 2`                  -> __init__.ensures.inv_c_icb
#   C02  __init__: `long_to_bytes(8 * len(self.nonce), 8)` -> `len(self.nonce)` -> __init__.ensures.j0
#   C02  __init__: `len(self.nonce) == 12` -> `== 12 or == 16`       -> __init__.raises_iff.ValueError.only_if
#   C02  encrypt: `self._cipher.encrypt` -> `self._tag_cipher.encrypt` -> encrypt.ensures.inv_c_pos / .inv_tc_pos / .value
#   C02  _create_gcm_cipher: default mac_len 16 -> 12                -> _create_gcm_cipher.ensures.mac_len
#   C02  _create_gcm_cipher: `nonce` -> `nonce[:12]` in the GcmMode(...) call -> _create_gcm_cipher.ensures.nonce_attr
