"""Contracts for the Keccak-based wrappers: lib/Crypto/Hash/SHAKE128.py, SHAKE256.py, SHA3_224/256/384/512.py, keccak.py,
TurboSHAKE128.py, TurboSHAKE256.py  (C03 value = uninterpreted sponge stream of exactly the bytes absorbed, with the standard's
capacity / rounds / domain byte; C09 update/read segmentation; C10 call order incl. copy(); C19 copy() independence, input frames).

FIPS 202: SHA3-d = KECCAK[2d](M || 01, d) -> capacity 2d bits, domain byte 0x06;  SHAKE128/256 = KECCAK[256/512](M || 1111, L)
-> domain byte 0x1F;  original Keccak submission: domain byte 0x01;  24 rounds.   RFC 9861 (TurboSHAKE): 12 rounds, capacity 256 / 512
bits, domain byte D in 0x01..0x7F (default 0x1F).   Capacity in BYTES is what reaches keccak_init: 32 / 64 for the XOFs, 2 * digest_size for SHA-3.
Native collaborators: contracts/hash_native.py (assumed, bounded/hashes.py)."""
from vf.pyvc.contracts import Contract, ClassContract
from .hash_native import hash_registry, opts, fsm_clauses, fsm_join, NS, SP, ALL_G

H = 'Crypto.Hash.'
MAXSIZE = '2**63 - 1'


def ST(o='self'):
    return o + '._state._raw_pointer'


def stream(o, pad, pos, n):
    s = ST(o)
    return 'spec.hashprim.keccak_stream(%s.g_p1, %s.g_p2, %s, %s.g_data, %s, %s)' % (s, s, pad, s, pos, n)


def xof_states(o='self'):
    return {('update', 'read'): 'not %s._is_squeezing' % o, ('read',): '%s._is_squeezing' % o}


def xof_states_copy(o='self'):
    return {('update', 'read', 'copy'): 'not %s._is_squeezing' % o, ('read', 'copy'): '%s._is_squeezing' % o}


def same_native(a, b):
    return ' and '.join('%s.%s == %s.%s' % (ST(a), g, ST(b), g) for g in ALL_G)


def add_xof_update_read(reg, cls, key, preds, pad='self._padding', extra_read=None, extra_mod=()):
    """update()/read() of a sponge XOF object with fields _state, _is_squeezing and a padding byte `pad`"""
    s = ST()
    forb, post = fsm_clauses(key, preds, 'update')
    reg.add(Contract(cls + '.update', params={'data': 'buffer'}, requires=['valid(self)'],
                     raises={'TypeError': ('iff', forb)}, unchanged_on_raise=True,
                     ensures=dict(post, absorbed='%s.g_data == old(%s.g_data) + bytes(data)' % (s, s), self='result is self',
                                  valid='valid(self)'),
                     returns='self', modifies=[s + '.g_data'], options=opts()))
    forb, post = fsm_clauses(key, preds, 'read')
    assert forb == 'False'
    ens = dict(post, value='result == ' + stream('self', s + '.g_pad', 'old(%s.g_out)' % s, 'length'),
               domain='%s.g_pad == %s' % (s, pad),
               position='%s.g_out == old(%s.g_out) + length' % (s, s), squeezing='self._is_squeezing and %s.g_sq' % s,
               valid='valid(self)')
    ens.update(extra_read or {})
    reg.add(Contract(cls + '.read', params={'length': 'nat'}, requires=['valid(self)'],
                     # a buffer longer than sys.maxsize cannot exist: ctypes refuses the size (the object is then already marked as squeezing)
                     raises={'OverflowError': ('iff', 'length > ' + MAXSIZE)},
                     ensures=ens, modifies=['self._is_squeezing', s + '.g_sq', s + '.g_pad', s + '.g_out'] + list(extra_mod),
                     result='bytes', options=opts()))


# ------------------------------------------------------------------------------------------------ SHAKE128 / SHAKE256
def add_shake(reg):
    for name, cap in (('SHAKE128', 32), ('SHAKE256', 64)):
        mod = H + name + '.'
        cls = mod + name + '_XOF'
        s = ST()
        reg.add(ClassContract(cls, fields={'_state': 'obj:' + SP, '_is_squeezing': 'bool', '_padding': 'int'},
                              # (all((..)) / any((..)): conjunction / disjunction evaluated without forking)
                              valid=['all((any((not %s.g_sq, self._is_squeezing)), any((not %s.g_sq, %s.g_pad == self._padding)), '
                                     'any((%s.g_sq, %s.g_out == 0)), self._padding == 0x1F, %s.g_p1 == %d, %s.g_p2 == 24))' % (s, s, s, s, s, s, cap, s)]))
        fresh = {'absorbed': '%s.g_data == (b"" if data is None else bytes(data))',
                 'sponge': '%s.g_p1 == ' + str(cap) + ' and %s.g_p2 == 24',
                 'absorbing': 'not %s._is_squeezing and not %s.g_sq and %s.g_out == 0'}

        def post(o):
            so = ST(o)
            return {'absorbed': fresh['absorbed'] % so, 'sponge': fresh['sponge'] % (so, so), 'domain': o + '._padding == 0x1F',
                    'absorbing': fresh['absorbing'] % (o, so, so), 'valid': 'valid(%s)' % o}
        reg.add(Contract(cls + '.__init__', params={'data': 'buffer|none'}, raises={}, ensures=post('self'),
                         modifies=['self._state', 'self._is_squeezing', 'self._padding'], options=opts(assume_valid=False)))
        add_xof_update_read(reg, cls, 'XOF.copy', xof_states_copy())
        forb, fpost = fsm_clauses('XOF.copy', xof_states_copy(), 'copy')
        assert forb == 'False'
        # the clone is in the same automaton state as the original (FSM 'copy': None) -- D10 was exactly this clause
        reg.add(Contract(cls + '.copy', params={}, requires=['valid(self)'], raises={},
                         ensures=dict(fpost,
                                      fresh='result is not self and result._state is not self._state and %s is not %s' % (ST('result'), s),
                                      state=same_native('result', 'self'),
                                      automaton='result._is_squeezing == self._is_squeezing and result._padding == self._padding',
                                      valid='valid(result) and valid(self)'),
                         modifies=[], result='obj:' + cls, options=opts()))
        reg.add(Contract(cls + '.new', params={'data': 'buffer|none'}, requires=['valid(self)'], raises={}, ensures=post('result'),
                         modifies=[], result='obj:' + cls, options=opts()))
        reg.add(Contract(mod + 'new', params={'data': 'buffer|none'}, raises={}, ensures=post('result'),
                         modifies=[], result='obj:' + cls, options=opts()))


# ------------------------------------------------------------------------------------------------ SHA3-224/256/384/512 and keccak
def digest_fsm(method, copy=False, o='self'):
    """objects created with update_after_digest=False follow HASH.digest_final[.copy] (state: _digest_done), the others HASH.free"""
    c = ('copy',) if copy else ()
    final = fsm_clauses('HASH.digest_final' + ('.copy' if copy else ''),
                        {('update', 'digest') + c: 'not %s._digest_done' % o, ('digest',) + c: '%s._digest_done' % o},
                        method, guard='not %s._update_after_digest' % o)
    free = fsm_clauses('HASH.free', {('update', 'digest', 'copy'): 'True'}, method, guard='%s._update_after_digest' % o)
    return fsm_join(final, free)


def add_fixed(reg, cls, ds, pad, copy, extra_mod=()):
    """update()/digest() of a fixed-output Keccak hash object (SHA-3, keccak): ds = digest size expression, pad = domain byte"""
    s = ST()
    forb, post = digest_fsm('update', copy)
    reg.add(Contract(cls + '.update', params={'data': 'buffer'}, requires=['valid(self)'],
                     raises={'TypeError': ('iff', forb)}, unchanged_on_raise=True,
                     ensures=dict(post, absorbed='%s.g_data == old(%s.g_data) + bytes(data)' % (s, s), self='result is self',
                                  valid='valid(self)'),
                     returns='self', modifies=[s + '.g_data'], options=opts()))
    forb, post = digest_fsm('digest', copy)
    assert forb == 'False'
    # digest() does not finalise the native state (keccak_digest works on a copy): it can be repeated and, with
    # update_after_digest, followed by more data; the value is always that of everything absorbed so far
    reg.add(Contract(cls + '.digest', params={}, requires=['valid(self)'], raises={},
                     ensures=dict(post, value='result == ' + stream('self', str(pad), '0', ds), size='len(result) == ' + ds,
                                  done='self._digest_done', valid='valid(self)'),
                     modifies=['self._digest_done'] + list(extra_mod), result='bytes', options=opts()))


def add_sha3(reg):
    for bits, ds in ((224, 28), (256, 32), (384, 48), (512, 64)):
        mod = H + 'SHA3_%d.' % bits
        cls = mod + 'SHA3_%d_Hash' % bits
        s = ST()
        reg.add(ClassContract(cls, fields={'_state': 'obj:' + SP, '_update_after_digest': 'bool', '_digest_done': 'bool',
                                           '_padding': 'int', '_digest_value?': 'bytes'},
                              valid=['all((not %s.g_sq, self._padding == 0x06, %s.g_p1 == %d, %s.g_p2 == 24))' % (s, s, 2 * ds, s)]))

        def post(o, uad):
            so = ST(o)
            return {'absorbed': '%s.g_data == (b"" if data is None else bytes(data))' % so,
                    'sponge': '%s.g_p1 == %d and %s.g_p2 == 24 and %s._padding == 0x06' % (so, 2 * ds, so, o),
                    'fresh': 'not %s._digest_done and %s._update_after_digest == %s' % (o, o, uad), 'valid': 'valid(%s)' % o}
        reg.add(Contract(cls + '.__init__', params={'data': 'buffer|none', 'update_after_digest': 'bool'}, raises={},
                         ensures=post('self', 'update_after_digest'),
                         modifies=['self._state', 'self._update_after_digest', 'self._digest_done', 'self._padding'],
                         options=opts(assume_valid=False)))
        add_fixed(reg, cls, str(ds), 6, True, extra_mod=['self._digest_value'])
        forb, fpost = digest_fsm('copy', True)
        assert forb == 'False'
        reg.add(Contract(cls + '.copy', params={}, requires=['valid(self)'], raises={},
                         ensures=dict(fpost,
                                      fresh='result is not self and result._state is not self._state and %s is not %s' % (ST('result'), s),
                                      state=same_native('result', 'self'),
                                      # C10: copy() preserves the automaton state (FSM 'copy': None)
                                      automaton='result._digest_done == self._digest_done and '
                                                'result._update_after_digest == self._update_after_digest and result._padding == self._padding',
                                      valid='valid(result) and valid(self)'),
                         modifies=[], result='obj:' + cls, options=opts()))
        reg.add(Contract(cls + '.new', params={'data': 'buffer|none'}, requires=['valid(self)'], raises={},
                         ensures=post('result', 'self._update_after_digest'), modifies=[], result='obj:' + cls, options=opts()))
        # module-level new(*args, **kwargs): data positional or keyword, update_after_digest keyword
        data = '(args[0] if len(args) == 1 else (old(kwargs["data"]) if "data" in old(kwargs) else None))'
        twice = '(len(args) == 1 and "data" in kwargs and kwargs["data"] is not None and len(kwargs["data"]) > 0)'
        p = post('result', '(old(kwargs["update_after_digest"]) if "update_after_digest" in old(kwargs) else False)')
        p['absorbed'] = '%s.g_data == (b"" if %s is None else bytes(%s))' % (ST('result'), data, data)
        reg.add(Contract(mod + 'new', params={'args': 'tuple()|tuple(bytes)|tuple(bytearray)|tuple(memoryview)',
                                              'kwargs': 'dict()|dict(data:bytes)|dict(data:none)|dict(update_after_digest:bool)|'
                                                        'dict(data:memoryview,update_after_digest:bool)|dict(data:bytes,bogus:int)|dict(bogus:int)'},
                         raises={'ValueError': ('iff', twice), 'TypeError': ('iff', '"bogus" in kwargs and not ' + twice)},
                         ensures=p, modifies=None, result='obj:' + cls, options=opts()))


def add_keccak(reg):
    mod = H + 'keccak.'
    cls = mod + 'Keccak_Hash'
    s = ST()
    reg.add(ClassContract(cls, fields={'digest_size': 'int', '_state': 'obj:' + SP, '_update_after_digest': 'bool', '_digest_done': 'bool',
                                       '_padding': 'int'},
                          valid=['all((not %s.g_sq, self._padding == 0x01, %s.g_p1 == 2 * self.digest_size, %s.g_p2 == 24, '
                                 'self.digest_size in (28, 32, 48, 64)))' % (s, s, s)]))

    def post(o, ds, uad):
        so = ST(o)
        return {'absorbed': '%s.g_data == (b"" if data is None else bytes(data))' % so,
                'sponge': '%s.g_p1 == 2 * %s and %s.g_p2 == 24 and %s._padding == 0x01 and %s.digest_size == %s' % (so, ds, so, o, o, ds),
                'fresh': 'not %s._digest_done and %s._update_after_digest == %s' % (o, o, uad), 'valid': 'valid(%s)' % o}
    reg.add(Contract(cls + '.__init__', params={'data': 'buffer|none', 'digest_bytes': 'int', 'update_after_digest': 'bool'},
                     requires=['digest_bytes in (28, 32, 48, 64)'], raises={},
                     ensures=post('self', 'digest_bytes', 'update_after_digest'),
                     modifies=['self.digest_size', 'self._state', 'self._update_after_digest', 'self._digest_done', 'self._padding'],
                     options=opts(assume_valid=False)))
    add_fixed(reg, cls, 'self.digest_size', 1, False)
    # module-level new(**kwargs): digest size domains
    kw = {'data': 'bytes', 'update_after_digest': 'bool', 'digest_bytes': 'int', 'digest_bits': 'int'}
    alts = [(), ('digest_bytes',), ('digest_bits',), ('digest_bytes', 'digest_bits'), ('data', 'digest_bytes'),
            ('data', 'digest_bits', 'update_after_digest'), ('digest_bytes', 'bogus'), ('bogus',)]
    kwt = '|'.join('dict(%s)' % ','.join('%s:%s' % (k, kw.get(k, 'int')) for k in a) for a in alts)
    has = lambda k: '"%s" in kwargs' % k
    both = '(%s and %s)' % (has('digest_bytes'), has('digest_bits'))
    none = '(not %s and not %s)' % (has('digest_bytes'), has('digest_bits'))
    badsize = '((%s and kwargs["digest_bytes"] not in (28, 32, 48, 64)) or (%s and kwargs["digest_bits"] not in (224, 256, 384, 512)))' % (
        has('digest_bytes'), has('digest_bits'))
    ds = '(old(kwargs["digest_bytes"]) if "digest_bytes" in old(kwargs) else old(kwargs["digest_bits"]) // 8)'
    p = post('result', ds, '(old(kwargs["update_after_digest"]) if "update_after_digest" in old(kwargs) else False)')
    p['absorbed'] = '%s.g_data == (bytes(old(kwargs["data"])) if "data" in old(kwargs) else b"")' % ST('result')
    reg.add(Contract(mod + 'new', params={'kwargs': kwt},
                     raises={'TypeError': ('iff', '%s or %s or (not %s and %s)' % (both, none, badsize, has('bogus'))),
                             'ValueError': ('iff', 'not %s and not %s and %s' % (both, none, badsize))},
                     ensures=p, modifies=None, result='obj:' + cls, options=opts()))


# ------------------------------------------------------------------------------------------------ TurboSHAKE128 / 256
def add_turboshake(reg):
    cls = H + 'TurboSHAKE128.TurboSHAKE'
    s = ST()
    reg.add(ClassContract(cls, fields={'_state': 'obj:' + SP, '_is_squeezing': 'bool', '_capacity': 'int', '_domain': 'int'},
                          valid=['all((any((not %s.g_sq, self._is_squeezing)), %s.g_p1 == self._capacity, %s.g_p2 == 12, '
                                 'any((%s.g_sq, %s.g_out == 0)), 0 <= self._domain, self._domain <= 255))' % (s, s, s, s, s)]))

    def post(o, cap, dom):
        so = ST(o)
        return {'absorbed': '%s.g_data == (b"" if data is None else bytes(data))' % so,
                'sponge': '%s.g_p1 == %s and %s.g_p2 == 12 and %s._capacity == %s' % (so, cap, so, o, cap),
                'domain': '%s._domain == %s' % (o, dom),
                'absorbing': 'not %s._is_squeezing and not %s.g_sq and %s.g_out == 0' % (o, so, so), 'valid': 'valid(%s)' % o}
    reg.add(Contract(cls + '.__init__', params={'capacity': 'enum(32, 64)', 'domain_separation': 'int[0..255]', 'data': 'buffer|none'},
                     raises={}, ensures=post('self', 'capacity', 'domain_separation'),
                     modifies=['self._state', 'self._is_squeezing', 'self._capacity', 'self._domain'], options=opts(assume_valid=False)))
    # the domain byte is passed at every read() but used by the sponge only when it is finalised (first read)
    add_xof_update_read(reg, cls, 'XOF', xof_states(), pad='ite(old(%s.g_sq), old(%s.g_pad), self._domain)' % (s, s))
    reg.add(Contract(cls + '._reset', params={}, requires=['valid(self)'], raises={},
                     ensures={'reset': '%s.g_data == b"" and not %s.g_sq and %s.g_out == 0 and not self._is_squeezing' % (s, s, s),
                              'valid': 'valid(self)'},
                     modifies=[s + '.g_data', s + '.g_sq', s + '.g_out', 'self._is_squeezing'], options=opts()))
    reg.add(Contract(cls + '.new', params={'data': 'buffer|none'}, requires=['valid(self)', 'self._capacity in (32, 64)'], raises={},
                     ensures=post('result', 'self._capacity', 'self._domain'), modifies=[], result='obj:' + cls, options=opts()))
    for name, cap in (('TurboSHAKE128', 32), ('TurboSHAKE256', 64)):
        dom = '(kwargs["domain"] if "domain" in kwargs else 0x1F)'
        p = post('result', str(cap), dom)
        p['absorbed'] = '%s.g_data == (bytes(kwargs["data"]) if "data" in kwargs and kwargs["data"] is not None else b"")' % ST('result')
        reg.add(Contract(H + name + '.new', params={'kwargs': 'dict()|dict(domain:int)|dict(data:bytes)|dict(data:none)|dict(domain:int,data:bytearray)|'
                                                               'dict(domain:int,data:memoryview)'},
                         # RFC 9861: the domain separation byte D is in 0x01..0x7F
                         raises={'ValueError': ('iff', '"domain" in kwargs and not (0x01 <= kwargs["domain"] and kwargs["domain"] <= 0x7F)')},
                         ensures=p, modifies=[], result='obj:' + cls, options=opts()))


# ------------------------------------------------------------------------------------------------ KangarooTwelve (RFC 9861)
K12M = H + 'KangarooTwelve.'
K12 = K12M + 'K12_XOF'
H1 = 'self._hash1._state._raw_pointer'
H2 = 'self._hash2._state._raw_pointer'
K12_FIELDS = ['self._custom', 'self._state', 'self._padding', 'self._hash1', 'self._length1', 'self._hash2', 'self._length2', 'self._ctr']
K12_UPDATE_MOD = [H2 + '.g_data', H2 + '.g_sq', H2 + '.g_pad', H2 + '.g_out', 'self._hash2._is_squeezing',
                  'self._state', 'self._length1', 'self._length2', 'self._hash2', 'self._ctr', H1 + '.g_data']
# loop of K12_XOF.update over the 8192-byte chunks (ordinal 0): structural invariant
K12_LOOP = {0: {'invariant': ['all((0 <= index, index <= len_data, len_data == len(data)))', 'self._state == 3', 'valid(self)'],
                'havoc': [H1 + '.g_data', H2 + '.g_data', H2 + '.g_sq', H2 + '.g_pad', H2 + '.g_out', 'self._hash2._is_squeezing'],
                'types': {'new_index': 'int', 'cv_i': 'bytes'},
                'decreases': 'len_data - index'}}


def add_k12(reg):
    """What is proved here: _length_encode against RFC 9861 3.3 for every 0 <= x < 2**2040; the object's structural invariant
    (chunk counters in range: the three `assert`s of update()/read() never trip; hash2 is a fresh TurboSHAKE128 with domain 0x0B
    that is never squeezed twice without a reset; hash1 keeps absorbing until read()); the call-order automaton (FSM 'XOF');
    the exact small-step value relations of the single-node case: while the message stays in SHORT_MSG, update() appends to the
    final node and read() returns TurboSHAKE128(M || C || length_encode(|C|), 0x07) -- i.e. KT128 for |S| <= 8192 -- and later
    reads continue that stream.
    # NOT PROVED: K12_XOF.update/read: the tree relation of the multi-chunk case (final node == S_0 || 03 00^7 || CV_1..CV_{n-1} ||
    #   length_encode(n-1) || FFFF as a function of the whole message): it needs the inductive lemma "the CVs of the complete
    #   8192-byte chunks of T are a prefix of those of T || s" over a recursive spec function, which the clause language cannot
    #   state without a quantifier / an assumed fact.  Covered by bounded/hashes.py (cuts at every offset in 8180..8200).
    # NOT PROVED: bytearray arguments of update(): `memoryview(bytearray)` is outside the PYVC subset."""
    # total: outside the RFC's domain 0 <= x < 256**255 the byte count does not fit one byte (bchr) / long_to_bytes refuses -> ValueError
    reg.add(Contract(K12M + '_length_encode', params={'x': 'int'},
                     ensures={'value': 'result == spec.k12.length_encode(x)', 'size': '1 <= len(result) and len(result) <= 256'},
                     raises={'ValueError': ('iff', 'x < 0 or x >= pow2(2040)')}, modifies=[], result='bytes', opaque=['spec.k12.enc_n0'],
                     options=opts(int_lemmas=[2040])))
    T = 'obj:' + TURBO
    reg.add(ClassContract(K12, fields={'_custom': 'bytes', '_state': 'enum(1, 2, 3, 4)', '_padding': 'int|none', '_hash1': T, '_length1': 'int',
                                       '_hash2': T + '|none', '_length2': 'int', '_ctr': 'int'},
                          # (conjunctions are written all((..)): evaluated without forking, which keeps path exploration cheap)
                          valid=['all((len(self._custom) >= 1, len(self._custom) < pow2(2039)))', 'self._hash1._capacity == 32',
                                 'self._state in (1, 2, 3, 4)',
                                 'self._state != 4 ==> not self._hash1._is_squeezing',
                                 'self._state == 4 ==> all((self._padding in (0x06, 0x07), self._hash1._domain == self._padding))',
                                 # SHORT_MSG: everything so far is in the final node, and it still fits one chunk together with C
                                 'self._state == 1 ==> (self._hash2 is None and all((self._length1 == len(%s.g_data), '
                                 'any((self._length1 == 0, self._length1 + len(self._custom) <= 8192)))))' % H1,
                                 # LONG_MSG_S0: still filling the first chunk
                                 # (entered only when M || C is certain to exceed one chunk)
                                 'self._state == 2 ==> all((0 <= self._length1, self._length1 < 8192, self._length1 + len(self._custom) > 8192))',
                                 # LONG_MSG_SX: hash2 holds the first _length2 bytes of chunk number _ctr
                                 'self._state == 3 ==> (self._hash2 is not None and self._hash2 is not self._hash1 and valid(self._hash2) and all((self._hash2._capacity == 32, '
                                 'self._hash2._domain == 0x0B, not self._hash2._is_squeezing, 0 <= self._length2, self._length2 < 8192, '
                                 'self._length2 == len(%s.g_data), self._ctr >= 1)))' % H2]))
    cust = '(b"" if custom is None else custom)'
    reg.add(Contract(K12 + '.__init__', params={'data': 'bytes|memoryview|none', 'custom': 'bytes|none'}, self_type='new:' + K12,
                     requires=['custom is None or len(custom) < pow2(2038)'], raises={},
                     ensures={'custom': 'self._custom == %s + spec.k12.length_encode(len(%s))' % (cust, cust),
                              'empty': 'data is None ==> (self._state == 1 and %s.g_data == b"")' % H1,
                              'short': '(data is not None and self._state == 1) ==> %s.g_data == bytes(data)' % H1,
                              'absorbing': 'self._state != 4', 'valid': 'valid(self)'},
                     modifies=K12_FIELDS, opaque=['spec.k12.length_encode'], options=opts(assume_valid=False)))
    preds = {('update', 'read'): 'self._state != 4', ('read',): 'self._state == 4'}
    forb, post = fsm_clauses('XOF', preds, 'update')
    reg.add(Contract(K12 + '.update', params={'data': 'bytes|memoryview'}, requires=['valid(self)'],
                     raises={'TypeError': ('iff', forb)}, unchanged_on_raise=True,
                     ensures=dict(post, self='result is self', valid='valid(self)',
                                  # single-node case (KT128 for |S| <= 8192): the final node grows by exactly the data
                                  short='self._state == 1 ==> %s.g_data == old(%s.g_data) + bytes(data)' % (H1, H1),
                                  first_chunk='self._state == 2 ==> %s.g_data == old(%s.g_data) + bytes(data)' % (H1, H1),
                                  monotone='self._state >= old(self._state)',
                                  leaves_first_chunk='(old(self._state) == 2 and old(self._length1) + len(data) >= 8192) ==> self._state == 3'),
                     returns='self', modifies=K12_UPDATE_MOD, loops=K12_LOOP, options=opts()))
    forb, post = fsm_clauses('XOF', preds, 'read')
    assert forb == 'False'
    reg.add(Contract(K12 + '.read', params={'length': 'nat'}, requires=['valid(self)'],
                     # (ValueError: only in the multi-chunk case, when the number of chunks leaves the domain of length_encode, 256**255)
                     raises={'OverflowError': ('only_if', 'length > ' + MAXSIZE), 'ValueError': ('only_if', 'self._state in (2, 3)')},
                     ensures=dict(post, valid='valid(self)',
                                  # |S| <= 8192: KT128(M, C, L) = TurboSHAKE128(M || C || length_encode(|C|), 0x07, L)
                                  short='old(self._state) == 1 ==> result == spec.hashprim.keccak_stream(32, 12, 0x07, '
                                        'old(%s.g_data) + self._custom, 0, length)' % H1,
                                  # later reads continue the same stream at the ghost output position
                                  more='old(self._state) == 4 ==> (result == spec.hashprim.keccak_stream(32, 12, %s.g_pad, %s.g_data, old(%s.g_out), length) '
                                       'and %s.g_data == old(%s.g_data))' % (H1, H1, H1, H1, H1),
                                  position='old(self._state) == 4 ==> %s.g_out == old(%s.g_out) + length' % (H1, H1),
                                  # multi-chunk case: final domain byte 0x06, single-node case 0x07
                                  domain='%s.g_sq and (old(self._state) == 1 ==> %s.g_pad == 0x07) and (old(self._state) in (2, 3) ==> %s.g_pad == 0x06)' % (H1, H1, H1)),
                     modifies=None, result='bytes', opaque=['spec.k12.length_encode'], options=opts()))
    reg.add(Contract(K12M + 'new', params={'data': 'bytes|memoryview|none', 'custom': 'bytes|none'},
                     requires=['custom is None or len(custom) < pow2(2038)'], raises={},
                     ensures={'custom': 'result._custom == %s + spec.k12.length_encode(len(%s))' % (cust, cust),
                              'absorbing': 'result._state != 4', 'valid': 'valid(result)'},
                     modifies=[], result='obj:' + K12, opaque=['spec.k12.length_encode'], options=opts()))


def registry():
    reg = hash_registry()
    add_shake(reg)
    add_sha3(reg)
    add_keccak(reg)
    add_turboshake(reg)
    add_k12(reg)
    return reg


SHA3 = [H + 'SHA3_%d.SHA3_%d_Hash' % (b, b) for b in (224, 256, 384, 512)]
SHAKE = [H + '%s.%s_XOF' % (n, n) for n in ('SHAKE128', 'SHAKE256')]
KECCAK = H + 'keccak.Keccak_Hash'
TURBO = H + 'TurboSHAKE128.TurboSHAKE'


def units(prop, tier):
    from vf.pyunit import pyvc_unit
    us = []

    def u(uid, targets):
        us.append(pyvc_unit(prop, uid, registry, targets))
    if prop == 'C03':
        # value clauses: parameters reaching the sponge (capacity, rounds, domain byte), the bytes absorbed, the bytes returned
        for c in SHAKE:
            n = c.split('.')[2]
            u('hash.shake.%s.init' % n, [c + '.__init__', c + '.new', H + n + '.new'])
            u('hash.shake.%s.update_read' % n, [c + '.update', c + '.read'])
        for c in SHA3:
            n = c.split('.')[2]
            u('hash.sha3.%s.init' % n, [c + '.__init__', c + '.new'])
            u('hash.sha3.%s.new' % n, [H + n + '.new'])
            u('hash.sha3.%s.update_digest' % n, [c + '.update', c + '.digest'])
        u('hash.sha3.keccak.init', [KECCAK + '.__init__', H + 'keccak.new'])
        u('hash.sha3.keccak.update_digest', [KECCAK + '.update', KECCAK + '.digest'])
        u('hash.k12.turboshake.init', [TURBO + '.__init__', TURBO + '.new', H + 'TurboSHAKE128.new', H + 'TurboSHAKE256.new'])
        u('hash.k12.turboshake.update_read', [TURBO + '.update', TURBO + '.read', TURBO + '._reset'])
        u('hash.k12.length_encode', [K12M + '_length_encode'])
        u('hash.k12.k12.init', [K12 + '.__init__', K12M + 'new'])
        u('hash.k12.k12.update', [K12 + '.update'])
        u('hash.k12.k12.read', [K12 + '.read'])
    if prop in ('C09', 'C10'):
        # C09: g_data' == g_data ++ data, read() through the ghost output position; C10: guards, frames on refusal, copy()
        for c in SHAKE:
            u('hash.shake.%s' % c.split('.')[2], [c + '.update', c + '.read'] + ([c + '.copy'] if prop == 'C10' else []))
        for c in SHA3:
            u('hash.sha3.%s' % c.split('.')[2], [c + '.update', c + '.digest'] + ([c + '.copy'] if prop == 'C10' else []))
        u('hash.sha3.keccak', [KECCAK + '.update', KECCAK + '.digest'])
        u('hash.k12.turboshake', [TURBO + '.update', TURBO + '.read'] + ([TURBO + '._reset'] if prop == 'C10' else []))
        u('hash.k12.k12.update', [K12 + '.update'])
        u('hash.k12.k12.read', [K12 + '.read'])
    if prop == 'C19':
        for c in SHAKE:
            u('hash.shake.%s.copy' % c.split('.')[2], [c + '.copy', c + '.update', c + '.read'])
        for c in SHA3:
            u('hash.sha3.%s.copy' % c.split('.')[2], [c + '.copy', c + '.update', c + '.digest'])
    return us


# ====================================================================================================================
# Notes.  keccak.py and BLAKE2b/s.py have no copy() method in this tree (C19 copy bullet: nothing to prove there).
# D10 (SHAKE copy() dropped _is_squeezing) and its SHA-3 twin (copy() dropped _digest_done, found by the clause
# SHA3_*_Hash.copy.ensures.automaton of this file, fixed in /repo b41af21a) both verify now; removing either line again is caught (below).
#
# Mutation checks (tools/mut.py; exit 1 = VIOLATION on the named obligation):
#   lib/Crypto/Hash/SHAKE128.py
#     copy      drop `clone._is_squeezing = self._is_squeezing`       exit 1  C10 SHAKE128_XOF.copy.ensures.automaton (+ valid)
#     update    `if self._is_squeezing:` -> `if False:`               exit 1  C10 SHAKE128_XOF.update.raises_only.ValueError, raises_iff.TypeError.if
#     __init__  `self._padding = 0x1F` -> `0x06`                      exit 1  C03 SHAKE128_XOF.__init__.ensures.domain (+ call_pre.valid_self)
#     __init__  `c_size_t(32)` -> `c_size_t(64)`                      exit 1  C03 SHAKE128_XOF.__init__.ensures.sponge
#     update    `c_size_t(len(data))` -> `c_size_t(len(data) - 1)`    exit 1  C09 SHAKE128_XOF.update.call_pre.length_len_data
#     copy      `clone = self.new()` -> `clone = self`                exit 1  C19 SHAKE128_XOF.copy.ensures.fresh
#     read      benign: `squeezing = True; self._is_squeezing = squeezing`   exit 0
#   lib/Crypto/Hash/SHA3_256.py
#     copy      drop `clone._digest_done = self._digest_done`         exit 1  C10 SHA3_256_Hash.copy.ensures.automaton
#     update    `and not self._update_after_digest` -> `and self._update_after_digest`   exit 1  C10 SHA3_256_Hash.update.raises_iff.TypeError.only_if
#     __init__  `self._padding = 0x06` -> `0x1F`                      exit 1  C03 SHA3_256_Hash.__init__.ensures.sponge
#     __init__  `c_size_t(self.digest_size * 2)` -> `(self.digest_size)`   exit 1  C03 SHA3_256_Hash.__init__.ensures.sponge
#   lib/Crypto/Hash/keccak.py
#     new       `not in (28, 32, 48, 64)` -> `(28, 32, 48, 64, 20)`   exit 1  C03 keccak.new.call_pre.digest_bytes_in_28_32_48_64
#     __init__  `self._padding = 0x01` -> `0x06`                      exit 1  C03 Keccak_Hash.__init__.ensures.sponge
#     digest    drop `self._digest_done = True`                       exit 1  C10 Keccak_Hash.digest.ensures.fsm_HASH_digest_final_digest_from_0 / done
#   lib/Crypto/Hash/TurboSHAKE128.py
#     __init__  `c_ubyte(12)` -> `c_ubyte(24)`                        exit 1  C03 TurboSHAKE.__init__.ensures.sponge
#     new       `0x01 <= domain_separation` -> `0x00 <=`              exit 1  C03 TurboSHAKE128.new.raises_iff.ValueError.if
#     _reset    `keccak_reset(self._state.get())` -> not called       exit 1  C10 TurboSHAKE._reset.ensures.reset / valid
#   lib/Crypto/Hash/KangarooTwelve.py
#     _length_encode  `S + bchr(len(S))` -> `bchr(len(S)) + S`        exit 1  C03 _length_encode.ensures.value (confirmed by native replay)
#     read      `self._padding = 0x07` -> `0x06`                      exit 1  C03 K12_XOF.read.ensures.short / domain
#     update    `if self._state == SQUEEZING:` -> `== LONG_MSG_SX`    exit 1  C10 K12_XOF.update.raises_iff.TypeError.only_if, unchanged_on_TypeError
#     update    `<= 8192` -> `<= 8193` (SHORT_MSG test)               exit 1  C03 K12_XOF.update.ensures.valid
#     update    `min(len(data), 8192 - self._length1)` -> `8193 -`    exit 1  C03 K12_XOF.update.raises_only.AssertionError
#     update    `TurboSHAKE128.new(domain=0x0B)` -> `0x0C`            exit 1  C03 K12_XOF.update.loop_inv_entry.valid_self
#     read      benign: `nchunks = self._ctr - 1; trailer = _length_encode(nchunks) + ..`   exit 0
