"""Contracts for lib/Crypto/Hash/SHA256.py (+ SHA224.py, SHA384.py: textually the same pattern), BLAKE2b.py, BLAKE2s.py, Poly1305.py,
HMAC.py  (C03 value/framing + verify, C09 update segmentation, C10 call order, C19 copy() independence and input frames).

Merkle-Damgard wrappers.  SHA256.py is the representative; SHA224.py and SHA384.py differ from it only in names and the constants
digest_size / block_size / oid (checked by diff) and are registered too.  SHA1.py, SHA512.py (truncate parameter), MD5.py, MD4.py, MD2.py,
RIPEMD160.py have the same shape (VoidPointer/X_init, X_update, X_digest into a fresh buffer, X_copy into a fresh object) but call
X_digest(state, buf) without the size argument; they are NOT registered here (bounded/hashes.py holds all of them to hashlib).

Spec: /verif/spec/hmac.py (RFC 2104), RFC 7693 parameter domains, RFC 8439 2.5/2.6 + Bernstein's Poly1305-AES for the key derivation;
primitives uninterpreted (/verif/spec/hashprim.py).  Native collaborators: assumed, bounded/hashes.py."""
import z3

from vf.pyvc.contracts import Contract, ClassContract
from vf.pyvc.values import *        # noqa
from .hash_native import (hash_registry, opts, fsm_clauses, fsm_join, init_model, copy_contract, NS, SP, ALL_G, BOUNDED)
from . import rawapi

H = 'Crypto.Hash.'
MAXSIZE = '2**63 - 1'
S = 'obj:' + NS


def ST(o='self'):
    return o + '._state._raw_pointer'


def same_native(a, b):
    return ' and '.join('%s.%s == %s.%s' % (ST(a), g, ST(b), g) for g in ALL_G)


# ================================================================================================ Merkle-Damgard pattern (SHA-2)
# (module, class, lib global, C prefix, digest size, algorithm tag of spec.hashprim.md, message limit in bytes: FIPS 180-4 length field)
MD = [('SHA256', 'SHA256Hash', '_raw_sha256_lib', 'SHA256', 32, 'sha256', 2 ** 61),
      ('SHA224', 'SHA224Hash', '_raw_sha224_lib', 'SHA224', 28, 'sha224', 2 ** 61),
      ('SHA384', 'SHA384Hash', '_raw_sha384_lib', 'SHA384', 48, 'sha384', 2 ** 125)]


def install_md(reg):
    for mod, cls, lib, pre, ds, alg, limit in MD:
        why = 'src/hash_SHA2_template.c (%s; C buffering: C03 third bullet)' % BOUNDED
        P = 'native.%s.' % alg
        init = init_model(pre + '_init', 1, lambda E, st, a: z3.BoolVal(False), lambda st, a: {})
        # ERR_MAX_DATA only when the 64/128-bit bit counter of the length field overflows; otherwise every byte is absorbed
        update = Contract(P + 'update', params={'state': S, 'data': 'bytes', 'length': 'int'}, requires=['length == len(data)'],
                          result='int',
                          ensures={'code': 'result != 0 ==> len(old(state.g_data)) + length >= %d' % limit,
                                   'data': 'result == 0 ==> state.g_data == old(state.g_data) + bytes(data)'},
                          modifies=['state.g_data'], assumed=why)
        digest = Contract(P + 'digest', params={'state': S, 'out': 'bytearray', 'size': 'int'},
                          requires=['size <= len(out)'], result='int',
                          # ERR_DIGEST_SIZE iff size != digest size; works on a copy (const state): repeatable, more data may follow
                          ensures={'code': 'result != 0 ==> (size != %d or len(state.g_data) >= %d)' % (ds, limit),
                                   'out': 'result == 0 ==> bytes(out)[:size] == spec.hashprim.md("%s", state.g_data)' % alg,
                                   'size': 'result == 0 ==> size == %d' % ds},
                          modifies=['out'], assumed=why)
        rawapi.install_lib(reg, H + mod + '.' + lib, 'native.' + alg,
                           {pre + '_init': init, pre + '_update': update, pre + '_digest': digest,
                            pre + '_copy': copy_contract(P + 'copy', why), pre + '_destroy': _destroy,
                            pre + '_pbkdf2_hmac_assist': _destroy})


def _destroy(E, st, args, kw):
    raise Unsupported('native function outside the contracts of this area called')


def add_md(reg):
    install_md(reg)
    for mod, cls, lib, pre, ds, alg, limit in MD:
        c = H + mod + '.' + cls
        s = ST()
        toolong = 'len(%s.g_data) + len(data) >= %d' % (s, limit)
        reg.add(ClassContract(c, fields={'_state': 'obj:' + SP}, valid=[]))

        def post(o):
            return {'absorbed': '%s.g_data == (b"" if data is None else bytes(data))' % ST(o)}
        reg.add(Contract(c + '.__init__', params={'data': 'buffer|none'},
                         # the only native failure: more than 2**64 (2**128) bits of data
                         raises={'ValueError': ('only_if', 'data is not None and len(data) >= %d' % limit)}, ensures=post('self'),
                         modifies=['self._state'], options=opts(assume_valid=False)))
        # hashlib semantics (FSM HASH.free): update()/digest()/copy() in any order; digest() does not finalise
        for m in ('update', 'digest', 'copy'):
            assert fsm_clauses('HASH.free', {('update', 'digest', 'copy'): 'True'}, m)[0] == 'False'
        reg.add(Contract(c + '.update', params={'data': 'buffer'}, requires=['valid(self)'],
                         raises={'ValueError': ('only_if', toolong)},
                         ensures={'absorbed': '%s.g_data == old(%s.g_data) + bytes(data)' % (s, s)},
                         modifies=[s + '.g_data'], options=opts(on_raise_modifies=[s + '.g_data'])))
        reg.add(Contract(c + '.digest', params={}, requires=['valid(self)'],
                         raises={'ValueError': ('only_if', 'len(%s.g_data) >= %d' % (s, limit))},
                         ensures={'value': 'result == spec.hashprim.md("%s", %s.g_data)' % (alg, s)},
                         modifies=[], result='bytes', options=opts()))
        reg.add(Contract(c + '.copy', params={}, requires=['valid(self)'], raises={},
                         ensures={'fresh': 'result is not self and result._state is not self._state and %s is not %s' % (ST('result'), s),
                                  'state': same_native('result', 'self'), 'valid': 'valid(result)'},
                         modifies=[], result='obj:' + c, options=opts()))
        reg.add(Contract(c + '.new', params={'data': 'buffer|none'},
                         raises={'ValueError': ('only_if', 'data is not None and len(data) >= %d' % limit)}, ensures=post('result'),
                         modifies=[], result='obj:' + c, options=opts()))
        reg.add(Contract(H + mod + '.new', params={'data': 'buffer|none'},
                         raises={'ValueError': ('only_if', 'data is not None and len(data) >= %d' % limit)}, ensures=post('result'),
                         modifies=[], result='obj:' + c, options=opts()))


# ================================================================================================ BLAKE2b / BLAKE2s
# (module, class, lib global, C prefix, maximal digest/key size = variant tag of spec.hashprim.blake2, digest sizes with an OID, data limit)
B2 = [('BLAKE2b', 'BLAKE2b_Hash', '_raw_blake2b_lib', 'blake2b', 64, (20, 32, 48, 64), 2 ** 128),
      ('BLAKE2s', 'BLAKE2s_Hash', '_raw_blake2s_lib', 'blake2s', 32, (16, 20, 28, 32), 2 ** 64)]


def install_blake2(reg):
    for mod, cls, lib, pre, mx, oids, limit in B2:
        why = 'src/blake2.c (%s; block buffering: C09 bounded)' % BOUNDED
        P = 'native.%s.' % pre
        # ERR_KEY_SIZE: key_size > 64 (32);  ERR_DIGEST_SIZE: digest_size == 0 or > 64 (32)
        init = init_model(pre + '_init', 4,
                          lambda E, st, a, mx=mx: z3.Or(zint(a[2]) > mx, zint(a[3]) == 0, zint(a[3]) > mx, zint(a[3]) < 0, zint(a[2]) < 0),
                          lambda st, a: dict(g_key=SBytes(z3.SubSeq(zbytes(_buf(st, a[1])), 0, zint(a[2])), 'bytes'), g_p1=a[3]))
        update = Contract(P + 'update', params={'state': S, 'data': 'bytes', 'length': 'int'}, requires=['length == len(data)'],
                          result='int',
                          ensures={'code': 'result != 0 ==> len(old(state.g_data)) + length >= %d' % limit,
                                   'data': 'result == 0 ==> state.g_data == old(state.g_data) + bytes(data)'},
                          modifies=['state.g_data'], assumed=why)
        digest = Contract(P + 'digest', params={'state': S, 'out': 'bytearray'}, requires=['len(out) >= %d' % mx], result='int',
                          # the full chaining value (64 / 32 bytes) is written; its first digest_size bytes are the digest (RFC 7693 3.3)
                          ensures={'code': 'result != 0 ==> len(state.g_data) >= %d' % limit,
                                   'out': 'result == 0 ==> bytes(out)[:state.g_p1] == spec.hashprim.blake2(%d, state.g_p1, state.g_key, state.g_data)' % mx},
                          modifies=['out'], assumed=why)
        rawapi.install_lib(reg, H + mod + '.' + lib, 'native.' + pre,
                           {pre + '_init': init, pre + '_update': update, pre + '_digest': digest,
                            pre + '_copy': copy_contract(P + 'copy', why), pre + '_destroy': _destroy})


def _buf(st, v):
    if isinstance(v, Ref) and st.heap[v.oid].kind == 'bytearray':
        return st.heap[v.oid].items
    return v


def b2_fsm(method, o='self'):
    final = fsm_clauses('MAC.digest_final', {('update', 'digest', 'verify'): 'not %s._digest_done' % o, ('digest', 'verify'): '%s._digest_done' % o},
                        method, guard='not %s._update_after_digest' % o)
    free = fsm_clauses('MAC.free', {('update', 'digest', 'verify', 'copy'): 'True'}, method, guard='%s._update_after_digest' % o)
    return fsm_join(final, free)


def kw_has(k):
    return '"%s" in kwargs' % k


def kw_old(k, default):
    return '(old(kwargs["%s"]) if "%s" in old(kwargs) else %s)' % (k, k, default)


def add_blake2(reg):
    install_blake2(reg)
    for mod, cls, lib, pre, mx, oids, limit in B2:
        c = H + mod + '.' + cls
        s = ST()
        reg.add(ClassContract(c, fields={'digest_size': 'int', '_update_after_digest': 'bool', '_digest_done': 'bool', 'oid?': 'str',
                                         '_state': 'obj:' + SP},
                              valid=['1 <= self.digest_size and self.digest_size <= %d' % mx, '%s.g_p1 == self.digest_size' % s,
                                     'len(%s.g_key) <= %d' % (s, mx)]))
        toolong = 'len(%s.g_data) + len(data) >= %d' % (s, limit)

        def post(o, data, key, ds, uad):
            so = ST(o)
            return {'absorbed': '%s.g_data == (b"" if %s is None else bytes(%s))' % (so, data, data),
                    'params': '%s.g_key == bytes(%s) and %s.g_p1 == %s and %s.digest_size == %s' % (so, key, so, ds, o, ds),
                    # RFC 7693 / the module's OID table: an OID only for the unkeyed hash with a registered digest size
                    'oid': 'hasattr(%s, "oid") == (%s in %r and len(%s) == 0)' % (o, ds, oids, key),
                    'fresh': 'not %s._digest_done and %s._update_after_digest == %s' % (o, o, uad), 'valid': 'valid(%s)' % o}
        reg.add(Contract(c + '.__init__', params={'data': 'buffer|none', 'key': 'buffer', 'digest_bytes': 'int', 'update_after_digest': 'bool'},
                         self_type='new:' + c,
                         # RFC 7693 2.1: 1 <= nn <= 64 (32), 0 <= kk <= 64 (32) -- outside: the native init refuses -> ValueError
                         raises={'ValueError': ('iff', 'len(key) > %d or digest_bytes < 1 or digest_bytes > %d or '
                                                       '(data is not None and len(data) >= %d and False)' % (mx, mx, limit))},
                         ensures=post('self', 'data', 'key', 'digest_bytes', 'update_after_digest'),
                         modifies=None, options=opts(assume_valid=False)))
        forb, fpost = b2_fsm('update')
        reg.add(Contract(c + '.update', params={'data': 'buffer'}, requires=['valid(self)'],
                         raises={'TypeError': ('iff', forb), 'ValueError': ('only_if', toolong)},
                         unchanged_on_raise=['TypeError'],
                         ensures=dict(fpost, absorbed='%s.g_data == old(%s.g_data) + bytes(data)' % (s, s), self='result is self',
                                      valid='valid(self)'),
                         returns='self', modifies=[s + '.g_data'], options=opts(on_raise_modifies=[s + '.g_data'])))
        forb, fpost = b2_fsm('digest')
        assert forb == 'False'
        value = 'spec.hashprim.blake2(%d, self.digest_size, %s.g_key, %s.g_data)' % (mx, s, s)
        reg.add(Contract(c + '.digest', params={}, requires=['valid(self)'],
                         raises={'ValueError': ('only_if', 'len(%s.g_data) >= %d' % (s, limit))},
                         ensures=dict(fpost, value='result == ' + value, size='len(result) == self.digest_size', done='self._digest_done',
                                      valid='valid(self)'),
                         modifies=['self._digest_done'], result='bytes', options=opts()))
        # verify(): ValueError iff the tag differs from digest(); compared through BLAKE2x-160 keyed with 16 fresh random bytes
        forb, fpost = b2_fsm('verify')
        assert forb == 'False'
        for kind in ('bytes', 'bytearray', 'memoryview'):
            reg.contracts[c + '.verify#' + kind] = Contract(
                c + '.verify', params={'mac_tag': kind}, requires=['valid(self)', 'len(%s.g_data) < %d' % (s, limit)],
                raises={'ValueError': ('iff', 'bytes(mac_tag) != ' + value)},
                ensures=dict(fpost, accepted='bytes(mac_tag) == ' + value, done='self._digest_done', valid='valid(self)'),
                on_raise={'ValueError': ['self._digest_done', 'valid(self)']},
                modifies=['self._digest_done'], options=opts(feas_ms=120))
        # module-level new(**kwargs): parameter domains (RFC 7693: digest 1..64 (32) bytes, key 0..64 (32) bytes)
        kwt = '|'.join(['dict()', 'dict(digest_bytes:int)', 'dict(digest_bits:int)', 'dict(digest_bytes:int,digest_bits:int)',
                        'dict(key:bytes)', 'dict(key:bytearray,digest_bytes:int)', 'dict(key:memoryview,digest_bits:int,data:bytes)',
                        'dict(data:bytearray,update_after_digest:bool)', 'dict(data:none)', 'dict(digest_bits:int,key:bytes,data:memoryview)',
                        'dict(bogus:int)', 'dict(key:bytes,bogus:int)'])
        both = '(%s and %s)' % (kw_has('digest_bytes'), kw_has('digest_bits'))
        badsize = '((%s and not (1 <= kwargs["digest_bytes"] and kwargs["digest_bytes"] <= %d)) or ' \
                  '(%s and (not (8 <= kwargs["digest_bits"] and kwargs["digest_bits"] <= %d) or kwargs["digest_bits"] %% 8 != 0)))' % (
                      kw_has('digest_bytes'), mx, kw_has('digest_bits'), 8 * mx)
        badkey = '(%s and len(kwargs["key"]) > %d)' % (kw_has('key'), mx)
        ds = '(old(kwargs["digest_bytes"]) if "digest_bytes" in old(kwargs) else (old(kwargs["digest_bits"]) // 8 if "digest_bits" in old(kwargs) else %d))' % mx
        reg.add(Contract(H + mod + '.new', params={'kwargs': kwt},
                         raises={'TypeError': ('iff', '%s or (not %s and not %s and %s)' % (both, badsize, badkey, kw_has('bogus'))),
                                 'ValueError': ('iff', 'not %s and (%s or %s)' % (both, badsize, badkey))},
                         ensures=post('result', kw_old('data', 'None'), kw_old('key', 'b""'), ds, kw_old('update_after_digest', 'False')),
                         modifies=None, result='obj:' + c, options=opts()))


# ================================================================================================ Poly1305
PM = H + 'Poly1305.Poly1305_MAC'


def install_poly1305(reg):
    why = 'src/poly1305.c (%s; limb arithmetic assumed, DESIGN C03)' % BOUNDED
    P = 'native.poly1305.'
    # ERR_KEY_SIZE: r_len != 16 or s_len != 16
    init = init_model('poly1305_init', 5, lambda E, st, a: z3.Or(zint(a[2]) != 16, zint(a[4]) != 16),
                      lambda st, a: dict(g_key=SBytes(zbytes(_buf(st, a[1])), 'bytes'), g_key2=SBytes(zbytes(_buf(st, a[3])), 'bytes')))
    update = Contract(P + 'update', params={'state': S, 'data': 'bytes', 'length': 'int'}, requires=['length == len(data)'],
                      returns='0', sets={'state.g_data': 'old(state.g_data) + bytes(data)'}, modifies=['state.g_data'],
                      options={'exact': True}, assumed=why)
    digest = Contract(P + 'digest', params={'state': S, 'out': 'bytearray', 'length': 'int'}, requires=['length <= len(out)'], result='int',
                      # ERR_DIGEST_SIZE iff length != 16; works on a copy of the state
                      ensures={'code': '(result != 0) <==> (length != 16)',
                               'out': 'result == 0 ==> bytes(out)[:16] == spec.hashprim.poly1305(state.g_key, state.g_key2, state.g_data)'},
                      modifies=['out'], assumed=why)
    rawapi.install_lib(reg, H + 'Poly1305._raw_poly1305', 'native.poly1305',
                       {'poly1305_init': init, 'poly1305_update': update, 'poly1305_digest': digest, 'poly1305_destroy': _destroy})


def add_poly1305(reg):
    install_poly1305(reg)
    s = ST()
    reg.add(ClassContract(PM, fields={'_mac_tag': 'bytes|none', '_state': 'obj:' + SP, 'nonce?': 'bytes'},
                          valid=['len(%s.g_key) == 16 and len(%s.g_key2) == 16' % (s, s),
                                 'self._mac_tag is not None ==> self._mac_tag == spec.hashprim.poly1305(%s.g_key, %s.g_key2, %s.g_data)' % (s, s, s)]))
    done = 'self._mac_tag is not None'
    fsm = lambda m: fsm_clauses('MAC.digest_final', {('update', 'digest', 'verify'): 'not (%s)' % done, ('digest', 'verify'): done}, m)
    reg.add(Contract(PM + '.__init__', params={'r': 'buffer', 's': 'buffer', 'data': 'buffer|none'}, self_type='new:' + PM,
                     raises={'ValueError': ('iff', 'len(r) != 16 or len(s) != 16')},
                     ensures={'key': '%s.g_key == bytes(r) and %s.g_key2 == bytes(s)' % (s, s),
                              'absorbed': '%s.g_data == (b"" if data is None else bytes(data))' % s,
                              'fresh': 'self._mac_tag is None', 'valid': 'valid(self)'},
                     modifies=None, options=opts(assume_valid=False)))
    forb, post = fsm('update')
    reg.add(Contract(PM + '.update', params={'data': 'buffer'}, requires=['valid(self)'],
                     raises={'TypeError': ('iff', forb)}, unchanged_on_raise=True,
                     ensures=dict(post, absorbed='%s.g_data == old(%s.g_data) + bytes(data)' % (s, s), self='result is self', valid='valid(self)'),
                     returns='self', modifies=[s + '.g_data'], options=opts()))
    forb, post = fsm('digest')
    assert forb == 'False'
    value = 'spec.hashprim.poly1305(%s.g_key, %s.g_key2, %s.g_data)' % (s, s, s)
    reg.add(Contract(PM + '.digest', params={}, requires=['valid(self)'], raises={},
                     ensures=dict(post, value='result == ' + value, cached='self._mac_tag == result', valid='valid(self)'),
                     modifies=['self._mac_tag'], result='bytes', options=opts()))
    forb, post = fsm('verify')
    assert forb == 'False'
    for kind in ('bytes', 'bytearray', 'memoryview'):
        reg.contracts[PM + '.verify#' + kind] = Contract(
            PM + '.verify', params={'mac_tag': kind}, requires=['valid(self)'],
            raises={'ValueError': ('iff', 'bytes(mac_tag) != ' + value)},
            ensures=dict(post, accepted='bytes(mac_tag) == ' + value, valid='valid(self)'),
            on_raise={'ValueError': ['self._mac_tag is not None', 'valid(self)']},
            modifies=['self._mac_tag'], inline=[PM + '.digest'], options=opts(feas_ms=120))
    reg.add(Contract(PM + '.copy', params={}, raises={'NotImplementedError': ('iff', 'True')}, modifies=[], options=opts()))


def registry():
    reg = hash_registry()
    add_md(reg)
    add_blake2(reg)
    add_poly1305(reg)
    return reg


def units(prop, tier):
    return []
