"""Contracts for lib/Crypto/Hash/SHA256.py (+ SHA224.py, SHA384.py: textually the same pattern), BLAKE2b.py, BLAKE2s.py, Poly1305.py,
HMAC.py  (C03 value/framing + verify, C09 update segmentation, C10 call order, C19 copy() independence and input frames).

Merkle-Damgard wrappers.  SHA256.py is the representative; SHA224.py and SHA384.py differ from it only in names and the constants
digest_size / block_size / oid (checked by diff) and are registered too.  SHA1.py, SHA512.py (truncate parameter), MD5.py, MD4.py, MD2.py,
RIPEMD160.py have the same shape (VoidPointer/X_init, X_update, X_digest into a fresh buffer, X_copy into a fresh object) but call
X_digest(state, buf) without the size argument; they are NOT registered here (bounded/hashes.py holds all of them to hashlib).

Spec: /verif/spec/hmac.py (RFC 2104), RFC 7693 parameter domains, RFC 8439 2.5/2.6 + Bernstein's Poly1305-AES for the key derivation;
primitives uninterpreted (/verif/spec/hashprim.py).  Native collaborators: assumed, bounded/hashes.py."""
import z3

from vf.pyvc.contracts import Contract, ClassContract
from vf.pyvc.values import *        # noqa
from .hash_native import (hash_registry, opts, fsm_clauses, fsm_join, init_model, copy_contract, NS, SP, ALL_G, BOUNDED)
from . import rawapi

H = 'Crypto.Hash.'
MAXSIZE = '2**63 - 1'
S = 'obj:' + NS


def ST(o='self'):
    return o + '._state._raw_pointer'


def same_native(a, b):
    return ' and '.join('%s.%s == %s.%s' % (ST(a), g, ST(b), g) for g in ALL_G)


# ================================================================================================ Merkle-Damgard pattern (SHA-2)
# (module, class, lib global, C prefix, digest size, algorithm tag of spec.hashprim.md, message limit in bytes: FIPS 180-4 length field)
MD = [('SHA256', 'SHA256Hash', '_raw_sha256_lib', 'SHA256', 32, 'sha256', 2 ** 61),
      ('SHA224', 'SHA224Hash', '_raw_sha224_lib', 'SHA224', 28, 'sha224', 2 ** 61),
      ('SHA384', 'SHA384Hash', '_raw_sha384_lib', 'SHA384', 48, 'sha384', 2 ** 125)]


def install_md(reg):
    for mod, cls, lib, pre, ds, alg, limit in MD:
        why = 'src/hash_SHA2_template.c (%s; C buffering: C03 third bullet)' % BOUNDED
        P = 'native.%s.' % alg
        init = init_model(pre + '_init', 1, lambda E, st, a: z3.BoolVal(False), lambda st, a: {})
        # every byte is absorbed.  ERR_MAX_DATA (the 64/128-bit bit counter of the length field overflows: more than 2**61 / 2**125
        # bytes fed to ONE object, decades of hashing) is not modelled
        update = Contract(P + 'update', params={'state': S, 'data': 'bytes', 'length': 'int'}, requires=['length == len(data)'],
                          returns='0', sets={'state.g_data': 'old(state.g_data) + bytes(data)'}, modifies=['state.g_data'],
                          options={'exact': True}, assumed=why)
        digest = Contract(P + 'digest', params={'state': S, 'out': 'bytearray', 'size': 'int'},
                          requires=['size <= len(out)'], result='int',
                          # ERR_DIGEST_SIZE iff size != digest size; works on a copy (const state): repeatable, more data may follow
                          ensures={'code': '(result != 0) <==> (size != %d)' % ds,
                                   'out': 'result == 0 ==> bytes(out)[:size] == spec.hashprim.md("%s", state.g_data)' % alg},
                          modifies=['out'], assumed=why)
        rawapi.install_lib(reg, H + mod + '.' + lib, 'native.' + alg,
                           {pre + '_init': init, pre + '_update': update, pre + '_digest': digest,
                            pre + '_copy': copy_contract(P + 'copy', why), pre + '_destroy': _destroy,
                            pre + '_pbkdf2_hmac_assist': _destroy})


def _destroy(E, st, args, kw):
    raise Unsupported('native function outside the contracts of this area called')


def add_md(reg):
    install_md(reg)
    for mod, cls, lib, pre, ds, alg, limit in MD:
        c = H + mod + '.' + cls
        s = ST()
        reg.add(ClassContract(c, fields={'_state': 'obj:' + SP}, valid=[]))

        def post(o):
            return {'absorbed': '%s.g_data == (b"" if data is None else bytes(data))' % ST(o)}
        reg.add(Contract(c + '.__init__', params={'data': 'buffer|none'}, raises={}, ensures=post('self'),
                         modifies=['self._state'], options=opts(assume_valid=False)))
        # hashlib semantics (FSM HASH.free): update()/digest()/copy() in any order; digest() does not finalise
        for m in ('update', 'digest', 'copy'):
            assert fsm_clauses('HASH.free', {('update', 'digest', 'copy'): 'True'}, m)[0] == 'False'
        reg.add(Contract(c + '.update', params={'data': 'buffer'}, requires=['valid(self)'],
                         raises={},
                         ensures={'absorbed': '%s.g_data == old(%s.g_data) + bytes(data)' % (s, s)},
                         modifies=[s + '.g_data'], options=opts()))
        reg.add(Contract(c + '.digest', params={}, requires=['valid(self)'], raises={},
                         ensures={'value': 'result == spec.hashprim.md("%s", %s.g_data)' % (alg, s)},
                         modifies=[], result='bytes', options=opts()))
        reg.add(Contract(c + '.copy', params={}, requires=['valid(self)'], raises={},
                         ensures={'fresh': 'result is not self and result._state is not self._state and %s is not %s' % (ST('result'), s),
                                  'state': same_native('result', 'self'), 'valid': 'valid(result)'},
                         modifies=[], result='obj:' + c, options=opts()))
        reg.add(Contract(c + '.new', params={'data': 'buffer|none'}, raises={}, ensures=post('result'),
                         modifies=[], result='obj:' + c, options=opts()))
        reg.add(Contract(H + mod + '.new', params={'data': 'buffer|none'}, raises={}, ensures=post('result'),
                         modifies=[], result='obj:' + c, options=opts()))


# ================================================================================================ BLAKE2b / BLAKE2s
# (module, class, lib global, C prefix, maximal digest/key size = variant tag of spec.hashprim.blake2, digest sizes with an OID, data limit)
B2 = [('BLAKE2b', 'BLAKE2b_Hash', '_raw_blake2b_lib', 'blake2b', 64, (20, 32, 48, 64), 2 ** 128),
      ('BLAKE2s', 'BLAKE2s_Hash', '_raw_blake2s_lib', 'blake2s', 32, (16, 20, 28, 32), 2 ** 64)]


def install_blake2(reg):
    for mod, cls, lib, pre, mx, oids, limit in B2:
        why = 'src/blake2.c (%s; block buffering: C09 bounded)' % BOUNDED
        P = 'native.%s.' % pre
        # ERR_KEY_SIZE: key_size > 64 (32);  ERR_DIGEST_SIZE: digest_size == 0 or > 64 (32)
        init = init_model(pre + '_init', 4,
                          lambda E, st, a, mx=mx: z3.Or(zint(a[2]) > mx, zint(a[3]) == 0, zint(a[3]) > mx, zint(a[3]) < 0, zint(a[2]) < 0),
                          lambda st, a: dict(g_key=SBytes(z3.SubSeq(zbytes(_buf(st, a[1])), 0, zint(a[2])), 'bytes'), g_p1=a[3]))
        # ERR_MAX_DATA (byte counter overflow: 2**128 / 2**64 bytes fed to one object) is not modelled
        update = Contract(P + 'update', params={'state': S, 'data': 'bytes', 'length': 'int'}, requires=['length == len(data)'],
                          returns='0', sets={'state.g_data': 'old(state.g_data) + bytes(data)'}, modifies=['state.g_data'],
                          options={'exact': True}, assumed=why)
        digest = Contract(P + 'digest', params={'state': S, 'out': 'bytearray'}, requires=['len(out) >= %d' % mx], returns='0',
                          # works on a copy; the full chaining value (64 / 32 bytes) is written, its first digest_size bytes are the digest (RFC 7693 3.3)
                          ensures={'out': 'bytes(out)[:state.g_p1] == spec.hashprim.blake2(%d, state.g_p1, state.g_key, state.g_data)' % mx},
                          modifies=['out'], assumed=why)
        rawapi.install_lib(reg, H + mod + '.' + lib, 'native.' + pre,
                           {pre + '_init': init, pre + '_update': update, pre + '_digest': digest,
                            pre + '_copy': copy_contract(P + 'copy', why), pre + '_destroy': _destroy})


def _buf(st, v):
    if isinstance(v, Ref) and st.heap[v.oid].kind == 'bytearray':
        return st.heap[v.oid].items
    return v


def b2_fsm(method, o='self'):
    final = fsm_clauses('MAC.digest_final', {('update', 'digest', 'verify'): 'not %s._digest_done' % o, ('digest', 'verify'): '%s._digest_done' % o},
                        method, guard='not %s._update_after_digest' % o)
    free = fsm_clauses('MAC.free', {('update', 'digest', 'verify', 'copy'): 'True'}, method, guard='%s._update_after_digest' % o)
    return fsm_join(final, free)


def kw_has(k):
    return '"%s" in kwargs' % k


def kw_old(k, default):
    return '(old(kwargs["%s"]) if "%s" in old(kwargs) else %s)' % (k, k, default)


def add_blake2(reg):
    install_blake2(reg)
    for mod, cls, lib, pre, mx, oids, limit in B2:
        c = H + mod + '.' + cls
        s = ST()
        reg.add(ClassContract(c, fields={'digest_size': 'int', '_update_after_digest': 'bool', '_digest_done': 'bool', 'oid?': 'str',
                                         '_state': 'obj:' + SP},
                              valid=['all((1 <= self.digest_size, self.digest_size <= %d, %s.g_p1 == self.digest_size, len(%s.g_key) <= %d))'
                                     % (mx, s, s, mx)]))

        def post(o, data, key, ds, uad):
            so = ST(o)
            return {'absorbed': '%s.g_data == (b"" if %s is None else bytes(%s))' % (so, data, data),
                    'params': '%s.g_key == bytes(%s) and %s.g_p1 == %s and %s.digest_size == %s' % (so, key, so, ds, o, ds),
                    # RFC 7693 / the module's OID table: an OID only for the unkeyed hash with a registered digest size
                    'oid': 'hasattr(%s, "oid") == (%s in %r and len(%s) == 0)' % (o, ds, oids, key),
                    'fresh': 'not %s._digest_done and %s._update_after_digest == %s' % (o, o, uad), 'valid': 'valid(%s)' % o}
        reg.add(Contract(c + '.__init__', params={'data': 'buffer|none', 'key': 'buffer', 'digest_bytes': 'int', 'update_after_digest': 'bool'},
                         self_type='new:' + c,
                         # preconditions derived from the only caller, new(), which enforces RFC 7693 2.1 (1 <= nn <= 64 (32), 0 <= kk <= 64 (32))
                         requires=['1 <= digest_bytes and digest_bytes <= %d' % mx, 'len(key) <= %d' % mx],
                         raises={}, ensures=post('self', 'data', 'key', 'digest_bytes', 'update_after_digest'),
                         # (`oid` is an optional attribute: this contract is never applied at a call site, new() inlines __init__)
                         modifies=['self.digest_size', 'self._update_after_digest', 'self._digest_done', 'self.oid', 'self._state'],
                         options=opts(assume_valid=False)))
        forb, fpost = b2_fsm('update')
        reg.add(Contract(c + '.update', params={'data': 'buffer'}, requires=['valid(self)'],
                         raises={'TypeError': ('iff', forb)}, unchanged_on_raise=True,
                         ensures=dict(fpost, absorbed='%s.g_data == old(%s.g_data) + bytes(data)' % (s, s), self='result is self',
                                      valid='valid(self)'),
                         returns='self', modifies=[s + '.g_data'], options=opts()))
        forb, fpost = b2_fsm('digest')
        assert forb == 'False'
        value = 'spec.hashprim.blake2(%d, self.digest_size, %s.g_key, %s.g_data)' % (mx, s, s)
        reg.add(Contract(c + '.digest', params={}, requires=['valid(self)'], raises={},
                         ensures=dict(fpost, value='result == ' + value, size='len(result) == self.digest_size', done='self._digest_done',
                                      valid='valid(self)'),
                         modifies=['self._digest_done'], result='bytes', options=opts()))
        # verify(): ValueError iff the tag differs from digest(); compared through BLAKE2x-160 keyed with 16 fresh random bytes
        forb, fpost = b2_fsm('verify')
        assert forb == 'False'
        for kind in ('bytes', 'bytearray', 'memoryview'):
            reg.contracts[c + '.verify#' + kind] = Contract(
                c + '.verify', params={'mac_tag': kind}, requires=['valid(self)'],
                raises={'ValueError': ('iff', 'bytes(mac_tag) != ' + value)},
                ensures=dict(fpost, accepted='bytes(mac_tag) == ' + value, done='self._digest_done', valid='valid(self)'),
                on_raise={'ValueError': ['self._digest_done', 'valid(self)']},
                modifies=['self._digest_done'], options=opts(feas_ms=120))
        # module-level new(**kwargs): parameter domains (RFC 7693: digest 1..64 (32) bytes, key 0..64 (32) bytes)
        kwt = '|'.join(['dict()', 'dict(digest_bytes:int)', 'dict(digest_bits:int)', 'dict(digest_bytes:int,digest_bits:int)',
                        'dict(key:bytes)', 'dict(key:bytearray,digest_bytes:int)', 'dict(key:memoryview,digest_bits:int,data:bytes)',
                        'dict(data:bytearray,update_after_digest:bool)', 'dict(data:none)', 'dict(digest_bits:int,key:bytes,data:memoryview)',
                        'dict(bogus:int)', 'dict(key:bytes,bogus:int)'])
        both = '(%s and %s)' % (kw_has('digest_bytes'), kw_has('digest_bits'))
        badsize = '((%s and not (1 <= kwargs["digest_bytes"] and kwargs["digest_bytes"] <= %d)) or ' \
                  '(%s and (not (8 <= kwargs["digest_bits"] and kwargs["digest_bits"] <= %d) or kwargs["digest_bits"] %% 8 != 0)))' % (
                      kw_has('digest_bytes'), mx, kw_has('digest_bits'), 8 * mx)
        badkey = '(%s and len(kwargs["key"]) > %d)' % (kw_has('key'), mx)
        ds = '(old(kwargs["digest_bytes"]) if "digest_bytes" in old(kwargs) else (old(kwargs["digest_bits"]) // 8 if "digest_bits" in old(kwargs) else %d))' % mx
        reg.add(Contract(H + mod + '.new', params={'kwargs': kwt},
                         raises={'TypeError': ('iff', '%s or (not %s and not %s and %s)' % (both, badsize, badkey, kw_has('bogus'))),
                                 'ValueError': ('iff', 'not %s and (%s or %s)' % (both, badsize, badkey))},
                         ensures=post('result', kw_old('data', 'None'), kw_old('key', 'b""'), ds, kw_old('update_after_digest', 'False')),
                         modifies=None, result='obj:' + c, inline=[c + '.__init__'], options=opts()))


# ================================================================================================ Poly1305
PM = H + 'Poly1305.Poly1305_MAC'


def install_poly1305(reg):
    why = 'src/poly1305.c (%s; limb arithmetic assumed, DESIGN C03)' % BOUNDED
    P = 'native.poly1305.'
    # ERR_KEY_SIZE: r_len != 16 or s_len != 16
    init = init_model('poly1305_init', 5, lambda E, st, a: z3.Or(zint(a[2]) != 16, zint(a[4]) != 16),
                      lambda st, a: dict(g_key=SBytes(zbytes(_buf(st, a[1])), 'bytes'), g_key2=SBytes(zbytes(_buf(st, a[3])), 'bytes')))
    update = Contract(P + 'update', params={'state': S, 'data': 'bytes', 'length': 'int'}, requires=['length == len(data)'],
                      returns='0', sets={'state.g_data': 'old(state.g_data) + bytes(data)'}, modifies=['state.g_data'],
                      options={'exact': True}, assumed=why)
    digest = Contract(P + 'digest', params={'state': S, 'out': 'bytearray', 'length': 'int'}, requires=['length <= len(out)'], result='int',
                      # ERR_DIGEST_SIZE iff length != 16; works on a copy of the state
                      ensures={'code': '(result != 0) <==> (length != 16)',
                               'out': 'result == 0 ==> bytes(out)[:16] == spec.hashprim.poly1305(state.g_key, state.g_key2, state.g_data)'},
                      modifies=['out'], assumed=why)
    rawapi.install_lib(reg, H + 'Poly1305._raw_poly1305', 'native.poly1305',
                       {'poly1305_init': init, 'poly1305_update': update, 'poly1305_digest': digest, 'poly1305_destroy': _destroy})


def add_poly1305(reg):
    install_poly1305(reg)
    s = ST()
    reg.add(ClassContract(PM, fields={'_mac_tag': 'bytes|none', '_state': 'obj:' + SP, 'nonce?': 'bytes'},
                          valid=['all((len(%s.g_key) == 16, len(%s.g_key2) == 16))' % (s, s),
                                 'self._mac_tag is not None ==> self._mac_tag == spec.hashprim.poly1305(%s.g_key, %s.g_key2, %s.g_data)' % (s, s, s)]))
    done = 'self._mac_tag is not None'
    fsm = lambda m: fsm_clauses('MAC.digest_final', {('update', 'digest', 'verify'): 'not (%s)' % done, ('digest', 'verify'): done}, m)
    reg.add(Contract(PM + '.__init__', params={'r': 'buffer', 's': 'bytes|bytearray', 'data': 'buffer|none'}, self_type='new:' + PM,
                     raises={'ValueError': ('iff', 'len(r) != 16 or len(s) != 16')},
                     ensures={'key': '%s.g_key == bytes(r) and %s.g_key2 == bytes(s)' % (s, s),
                              'absorbed': '%s.g_data == (b"" if data is None else bytes(data))' % s,
                              'fresh': 'self._mac_tag is None', 'valid': 'valid(self)'},
                     modifies=['self._mac_tag', 'self._state'], options=opts(assume_valid=False)))
    forb, post = fsm('update')
    reg.add(Contract(PM + '.update', params={'data': 'buffer'}, requires=['valid(self)'],
                     raises={'TypeError': ('iff', forb)}, unchanged_on_raise=True,
                     ensures=dict(post, absorbed='%s.g_data == old(%s.g_data) + bytes(data)' % (s, s), self='result is self', valid='valid(self)'),
                     returns='self', modifies=[s + '.g_data'], options=opts()))
    forb, post = fsm('digest')
    assert forb == 'False'
    value = 'spec.hashprim.poly1305(%s.g_key, %s.g_key2, %s.g_data)' % (s, s, s)
    reg.add(Contract(PM + '.digest', params={}, requires=['valid(self)'], raises={},
                     ensures=dict(post, value='result == ' + value, cached='self._mac_tag == result', valid='valid(self)'),
                     modifies=['self._mac_tag'], result='bytes', options=opts()))
    forb, post = fsm('verify')
    assert forb == 'False'
    for kind in ('bytes', 'bytearray', 'memoryview'):
        reg.contracts[PM + '.verify#' + kind] = Contract(
            PM + '.verify', params={'mac_tag': kind}, requires=['valid(self)'],
            raises={'ValueError': ('iff', 'bytes(mac_tag) != ' + value)},
            ensures=dict(post, accepted='bytes(mac_tag) == ' + value, valid='valid(self)'),
            on_raise={'ValueError': ['self._mac_tag is not None', 'valid(self)']},
            modifies=['self._mac_tag'], inline=[PM + '.digest'], options=opts(feas_ms=120))


# ---- key derivation (r, s) of Poly1305.new: Cipher/AES.py and Cipher/ChaCha20.py `_derive_Poly1305_key_pair`
AES = 'Crypto.Cipher.AES.'
CC = 'Crypto.Cipher.ChaCha20.'


def add_poly1305_ciphers(reg):
    """abstract cipher objects behind AES.new(k, MODE_ECB) and ChaCha20.new(key=, nonce=) (assumed; served under C02 by the cipher areas):
    only what the key derivation uses -- one AES block, the first 32 key-stream bytes"""
    why = 'Cipher.AES / Cipher.ChaCha20 construction and native code (bounded: bounded/blockciphers.py, bounded/modes.py; C02)'
    reg.add(ClassContract('native.AesEcb', fields={'g_key': 'bytes'}, abstract=True))
    reg.add(Contract(AES + 'new', params={'key': 'bytes', 'mode': 'int', 'args': 'tuple()', 'kwargs': 'dict()'},
                     requires=['mode == 1', 'len(key) in (16, 24, 32)'], result='obj:native.AesEcb',
                     ensures={'key': 'result.g_key == bytes(key)'}, modifies=None, assumed=why))
    reg.add(Contract('native.AesEcb.encrypt', params={'self': 'obj:native.AesEcb', 'plaintext': 'bytes'},
                     requires=['len(plaintext) == 16'], returns='spec.hashprim.aes_block(self.g_key, bytes(plaintext))', modifies=[],
                     options={'exact': True}, assumed=why))
    reg.add(ClassContract('native.ChaCha20', fields={'g_key': 'bytes', 'g_nonce': 'bytes', 'g_pos': 'nat'}, abstract=True))
    reg.add(Contract(CC + 'new', params={'kwargs': 'dict(key:bytes,nonce:bytes)'},
                     requires=['len(kwargs["key"]) == 32', 'len(kwargs["nonce"]) == 12'], result='obj:native.ChaCha20',
                     ensures={'key': 'result.g_key == bytes(old(kwargs["key"])) and result.g_nonce == bytes(old(kwargs["nonce"])) and result.g_pos == 0'},
                     modifies=None, assumed=why))
    # encrypting zeros returns the key stream itself (x xor 0 == x): the first 32 bytes of block 0
    reg.add(Contract('native.ChaCha20.encrypt', params={'self': 'obj:native.ChaCha20', 'plaintext': 'bytes'},
                     requires=['self.g_pos == 0', 'plaintext == bytes(32)'], returns='spec.hashprim.chacha20_block0(self.g_key, self.g_nonce)',
                     sets={'self.g_pos': '32'}, modifies=['self.g_pos'], options={'exact': True}, assumed=why))
    # Bernstein, "The Poly1305-AES message-authentication code", section 2: the 32-byte key is (k, r); s = AES_k(n), n a 16-byte nonce
    reg.add(Contract(AES + '_derive_Poly1305_key_pair', params={'key': 'buffer', 'nonce': 'buffer|none'},
                     raises={'ValueError': ('iff', 'len(key) != 32 or (nonce is not None and len(nonce) != 16)')},
                     ensures={'r': 'bytes(result[0]) == bytes(key)[16:]',
                              's': 'result[1] == spec.hashprim.aes_block(bytes(key)[:16], bytes(result[2]))',
                              'nonce': '(nonce is not None ==> bytes(result[2]) == bytes(nonce)) and len(result[2]) == 16'},
                     modifies=[], result='tuple(bytes,bytes,bytes)', options=opts()))
    # RFC 8439 2.6: poly1305_key_gen(key, nonce) = the first 32 bytes of the ChaCha20 block with counter 0; r = bytes 0..15, s = bytes 16..31.
    # "if the provided nonce is only 64-bit, then the first 32 bits of the nonce will be set to a constant number. This will usually be zero"
    padded = '(rep(b"\\x00", 4) + bytes(result[2]) if len(result[2]) == 8 else bytes(result[2]))'
    reg.add(Contract(CC + '_derive_Poly1305_key_pair', params={'key': 'buffer', 'nonce': 'buffer|none'},
                     raises={'ValueError': ('iff', 'len(key) != 32 or (nonce is not None and len(nonce) != 8 and len(nonce) != 12)')},
                     ensures={'r': 'result[0] == spec.hashprim.chacha20_block0(bytes(key), %s)[:16]' % padded,
                              's': 'result[1] == spec.hashprim.chacha20_block0(bytes(key), %s)[16:]' % padded,
                              'nonce': '(nonce is not None ==> bytes(result[2]) == bytes(nonce)) and (nonce is None ==> len(result[2]) == 12)'},
                     modifies=[], result='tuple(bytes,bytes,bytes)', options=opts()))


def add_poly1305_new(reg):
    RS = ST('result')
    alts = []
    for cm in ('Crypto.Cipher.AES', 'Crypto.Cipher.ChaCha20'):
        c = 'cipher:module:' + cm
        alts += ['dict(%s,key:bytes)' % c, 'dict(%s,key:bytes,nonce:bytes)' % c, 'dict(%s,key:bytearray,nonce:memoryview,data:bytes)' % c,
                 'dict(%s,key:memoryview,nonce:bytearray,data:memoryview)' % c, 'dict(%s,key:bytes,data:none)' % c, 'dict(%s)' % c,
                 'dict(%s,key:bytes,nonce:bytes,bogus:int)' % c]
    alts += ['dict()', 'dict(key:bytes)', 'dict(cipher:none,key:bytes)', 'dict(cipher:module:Crypto.Cipher.DES3,key:bytes)']
    # which module was passed: told apart by its block_size constant (AES: 16, ChaCha20: 1)
    has = '("cipher" in kwargs and hasattr(kwargs["cipher"], "_derive_Poly1305_key_pair"))'
    is_aes = '(%s and kwargs["cipher"].block_size == 16)' % has
    is_cc = '(%s and kwargs["cipher"].block_size == 1)' % has
    nocipher = '(not (%s or %s))' % (is_aes, is_cc)
    nokey = '(not %s)' % kw_has('key')
    badlen = ('(len(kwargs["key"]) != 32 or (%s and kwargs["nonce"] is not None and ((%s and len(kwargs["nonce"]) != 16) or '
              '(%s and len(kwargs["nonce"]) != 8 and len(kwargs["nonce"]) != 12))))' % (kw_has('nonce'), is_aes, is_cc))
    key = 'bytes(old(kwargs["key"]))'
    padded = '(rep(b"\\x00", 4) + result.nonce if len(result.nonce) == 8 else result.nonce)'
    data = kw_old('data', 'None')
    reg.add(Contract(H + 'Poly1305.new', params={'kwargs': '|'.join(alts)},
                     raises={'ValueError': ('iff', '%s or (not %s and not %s and %s)' % (nocipher, nokey, kw_has('bogus'), badlen)),
                             'TypeError': ('iff', 'not %s and (%s or %s)' % (nocipher, nokey, kw_has('bogus')))},
                     ensures={'aes': 'old(%s) ==> (%s.g_key == %s[16:] and %s.g_key2 == spec.hashprim.aes_block(%s[:16], result.nonce) and len(result.nonce) == 16)'
                                     % (is_aes, RS, key, RS, key),
                              'chacha': 'old(%s) ==> (%s.g_key == spec.hashprim.chacha20_block0(%s, %s)[:16] and '
                                        '%s.g_key2 == spec.hashprim.chacha20_block0(%s, %s)[16:] and len(result.nonce) in (8, 12))'
                                        % (is_cc, RS, key, padded, RS, key, padded),
                              'nonce': '("nonce" in old(kwargs) and old(kwargs["nonce"]) is not None) ==> result.nonce == bytes(old(kwargs["nonce"]))',
                              'absorbed': '%s.g_data == (b"" if %s is None else bytes(%s))' % (RS, data, data),
                              'fresh': 'result._mac_tag is None', 'valid': 'valid(result)'},
                     modifies=None, result='obj:' + PM, options=opts()))


# ================================================================================================ HMAC (RFC 2104)
HMAC = H + 'HMAC.HMAC'
HM = 'native.HashModule'        # the `digestmod` argument: any hash module / object of Crypto.Hash (PEP 247 interface)
HO = 'native.Hash'              # the hash objects it creates


def add_hash_interface(reg):
    """abstract hash module and hash object: ghost algorithm identity g_alg, all bytes absorbed g_data; digest() is the uninterpreted
    md(g_alg, g_data); update/digest/copy in any order (FSM HASH.free).  The SHA-2 wrappers are PROVED to implement exactly this
    interface (units hash.md.*: g_data' == g_data ++ data, digest == md(alg, g_data) without finalising, copy() fresh and equal)."""
    why = 'hash module interface; proved for SHA224/256/384 wrappers in units hash.md.*, others bounded: bounded/hashes.py'
    reg.add(ClassContract(HM, fields={'digest_size': 'int', 'block_size': 'int', 'g_alg': 'int',
                                      # an OID that is in HMAC's table (SHA-256) or one that is not
                                      'oid': "enum('2.16.840.1.101.3.4.2.1', '1.2.3.4')"},
                          # RFC 2104 section 2: L < B for every hash it is defined over
                          valid=['all((1 <= self.digest_size, self.digest_size <= self.block_size, self.digest_size == spec.hashprim.md_len(self.g_alg)))'],
                          abstract=True))
    reg.add(ClassContract(HO, fields={'g_alg': 'int', 'g_data': 'bytes'}, abstract=True))
    reg.add(Contract(HM + '.new', params={'self': 'obj:' + HM, 'data': 'bytes'}, result='obj:' + HO,
                     ensures={'state': 'result.g_alg == self.g_alg and result.g_data == bytes(data)'}, modifies=[], assumed=why))
    reg.add(Contract(HO + '.update', params={'self': 'obj:' + HO, 'data': 'bytes'}, sets={'self.g_data': 'old(self.g_data) + bytes(data)'},
                     modifies=['self.g_data'], options={'exact': True}, assumed=why))
    reg.add(Contract(HO + '.digest', params={'self': 'obj:' + HO}, returns='spec.hashprim.md(self.g_alg, self.g_data)', modifies=[],
                     options={'exact': True}, assumed=why))
    reg.add(Contract(HO + '.copy', params={'self': 'obj:' + HO}, result='obj:' + HO,
                     ensures={'state': 'result.g_alg == self.g_alg and result.g_data == self.g_data'}, modifies=[], assumed=why))
    reg.add(Contract('Crypto.Util.strxor.strxor', params={'term1': 'bytes', 'term2': 'bytes', 'output': 'none'},
                     raises={'ValueError': ('iff', 'len(term1) != len(term2)')},
                     returns='spec.hashprim.xor(bytes(term1), bytes(term2))', modifies=[], options={'exact': True},
                     assumed='native strxor: bytewise exclusive or (bounded: bounded/hashes.py HMAC against hmac/OpenSSL for keys 0..2*block+1)'))


def add_hmac(reg):
    add_hash_interface(reg)
    dm = 'self._digestmod'
    reg.add(ClassContract(HMAC, fields={'digest_size': 'int', '_digestmod': 'obj:' + HM, 'oid?': 'str', '_inner': 'obj:' + HO, '_outer': 'obj:' + HO},
                          valid=['all((self._inner.g_alg == %s.g_alg, self._outer.g_alg == %s.g_alg, self.digest_size == %s.digest_size))' % (dm, dm, dm),
                                 'self._inner is not self._outer']))
    alg = 'digestmod.g_alg, digestmod.block_size'
    reg.add(Contract(HMAC + '.__init__', params={'key': 'buffer', 'msg': 'buffer|none', 'digestmod': 'obj:' + HM}, self_type='new:' + HMAC,
                     requires=['valid(digestmod)'], raises={},
                     # RFC 2104: inner hash starts with K0 xor ipad (then the text), outer with K0 xor opad; K0 = key (hashed when longer than B) zero padded to B
                     ensures={'inner': 'self._inner.g_data == spec.hmac.ipad_key(%s, bytes(key)) + (b"" if msg is None else bytes(msg))' % alg,
                              'outer': 'self._outer.g_data == spec.hmac.opad_key(%s, bytes(key))' % alg,
                              'module': 'self._digestmod is digestmod', 'valid': 'valid(self)',
                              'oid': 'hasattr(self, "oid") == (digestmod.oid == "2.16.840.1.101.3.4.2.1")'},
                     modifies=['self.digest_size', 'self._digestmod', 'self.oid', 'self._inner', 'self._outer'],
                     options=opts(assume_valid=False)))
    for m in ('update', 'digest', 'verify', 'copy'):
        assert fsm_clauses('MAC.free', {('update', 'digest', 'verify', 'copy'): 'True'}, m)[0] == 'False'
    reg.add(Contract(HMAC + '.update', params={'msg': 'buffer'}, requires=['valid(self)'], raises={},
                     ensures={'absorbed': 'self._inner.g_data == old(self._inner.g_data) + bytes(msg)', 'self': 'result is self', 'valid': 'valid(self)'},
                     returns='self', modifies=['self._inner.g_data'], options=opts()))
    value = 'spec.hashprim.md(%s.g_alg, self._outer.g_data + spec.hashprim.md(%s.g_alg, self._inner.g_data))' % (dm, dm)
    # digest() works on a copy of the outer hash and does not finalise the inner one: repeatable, more text may follow
    reg.add(Contract(HMAC + '.digest', params={}, requires=['valid(self)'], raises={},
                     ensures={'value': 'result == ' + value, 'size': 'len(result) == self.digest_size'},
                     modifies=[], result='bytes', options=opts()))
    reg.add(Contract(HMAC + '.copy', params={}, requires=['valid(self)'], raises={},
                     ensures={'fresh': 'result is not self and result._inner is not self._inner and result._outer is not self._outer and '
                                       'result._inner is not self._outer and result._outer is not self._inner',
                              'state': 'result._inner.g_data == self._inner.g_data and result._outer.g_data == self._outer.g_data and '
                                       'result._digestmod is self._digestmod and result.digest_size == self.digest_size',
                              'valid': 'valid(result)'},
                     modifies=[], result='obj:' + HMAC, inline=[HMAC + '.__init__'], options=opts()))
    for kind in ('bytes', 'bytearray', 'memoryview'):
        reg.contracts[HMAC + '.verify#' + kind] = Contract(
            HMAC + '.verify', params={'mac_tag': kind}, requires=['valid(self)'],
            raises={'ValueError': ('iff', 'bytes(mac_tag) != ' + value)},
            ensures={'accepted': 'bytes(mac_tag) == ' + value}, modifies=[], options=opts(feas_ms=120))
    # end to end: the object handed out by new() computes RFC 2104's HMAC(K, text)
    reg.add(Contract(H + 'HMAC.new', params={'key': 'buffer', 'msg': 'buffer|none', 'digestmod': 'obj:' + HM}, raises={},
                     ensures={'inner': 'result._inner.g_data == spec.hmac.ipad_key(%s, bytes(key)) + (b"" if msg is None else bytes(msg))' % alg,
                              'outer': 'result._outer.g_data == spec.hmac.opad_key(%s, bytes(key))' % alg,
                              'hmac': 'spec.hashprim.md(digestmod.g_alg, result._outer.g_data + spec.hashprim.md(digestmod.g_alg, result._inner.g_data)) == '
                                      'spec.hmac.hmac(%s, bytes(key), (b"" if msg is None else bytes(msg)))' % alg,
                              'valid': 'valid(result)'},
                     modifies=[], result='obj:' + HMAC, inline=[HMAC + '.__init__'], options=opts()))


def registry():
    reg = hash_registry()
    add_md(reg)
    add_blake2(reg)
    add_poly1305(reg)
    add_poly1305_ciphers(reg)
    add_poly1305_new(reg)
    add_hmac(reg)
    return reg


KINDS = ('bytes', 'bytearray', 'memoryview')


def units(prop, tier):
    from vf.pyunit import pyvc_unit
    us = []

    def u(uid, targets):
        us.append(pyvc_unit(prop, uid, registry, targets))
    # verify(): the bytearray variant runs in every tier under C19 (units *.frames)
    vkinds = ('bytes', 'memoryview') if tier == 'quick' else KINDS
    mds = [(mod, H + mod + '.' + cls) for mod, cls, lib, pre, ds, alg, limit in MD]
    b2s = [(pre, mod, H + mod + '.' + cls) for mod, cls, lib, pre, mx, oids, limit in B2]
    if prop == 'C03':
        for mod, c in mds:
            u('hash.md.%s' % mod, [c + '.__init__', c + '.update', c + '.digest', c + '.new', H + mod + '.new'])
        for pre, mod, c in b2s:
            u('hash.blake2.%s.init' % pre, [c + '.__init__'])
            u('hash.blake2.%s.update_digest' % pre, [c + '.update', c + '.digest'])
            for k in vkinds:
                u('hash.blake2.%s.verify.%s' % (pre, k), [c + '.verify#' + k])
            u('hash.blake2.%s.new' % pre, [H + mod + '.new'])
        u('hash.poly1305.init', [PM + '.__init__'])
        u('hash.poly1305.update_digest', [PM + '.update', PM + '.digest'])
        for k in vkinds:
            u('hash.poly1305.verify.' + k, [PM + '.verify#' + k])
        u('hash.poly1305.derive_aes', [AES + '_derive_Poly1305_key_pair'])
        u('hash.poly1305.derive_chacha20', [CC + '_derive_Poly1305_key_pair'])
        u('hash.poly1305.new', [H + 'Poly1305.new'])
        u('hash.hmac.init', [HMAC + '.__init__'])
        u('hash.hmac.update_digest', [HMAC + '.update', HMAC + '.digest'])
        for k in KINDS:     # (HMAC.verify is cheap and has no other unit for bytearray)
            u('hash.hmac.verify.' + k, [HMAC + '.verify#' + k])
        u('hash.hmac.new', [H + 'HMAC.new'])
    if prop == 'C09':
        # segmentation: update() appends exactly its argument to the abstract input; digest() is a function of that input only
        for mod, c in mds:
            u('hash.md.%s.segmentation' % mod, [c + '.update', c + '.digest'])
        for pre, mod, c in b2s:
            u('hash.blake2.%s.segmentation' % pre, [c + '.update', c + '.digest'])
        u('hash.poly1305.segmentation', [PM + '.update', PM + '.digest'])
        u('hash.hmac.segmentation', [HMAC + '.update', HMAC + '.digest'])
    if prop == 'C10':
        for mod, c in mds:
            u('hash.md.%s.fsm' % mod, [c + '.update', c + '.digest', c + '.copy'])
        for pre, mod, c in b2s:
            u('hash.blake2.%s.fsm' % pre, [c + '.update', c + '.digest', c + '.verify#bytes'])
        u('hash.poly1305.fsm', [PM + '.update', PM + '.digest', PM + '.verify#bytes'])
        u('hash.hmac.fsm', [HMAC + '.update', HMAC + '.digest', HMAC + '.copy', HMAC + '.verify#bytes'])
    if prop == 'C19':
        # copy(): fresh native state, equal abstract state; update()/digest() frames show that later calls on one object do not
        # touch the other; `modifies` of every method excludes its byte-string arguments
        for mod, c in mds:
            u('hash.md.%s.copy' % mod, [c + '.copy', c + '.update', c + '.digest'])
        u('hash.hmac.copy', [HMAC + '.copy', HMAC + '.update', HMAC + '.digest'])
        for pre, mod, c in b2s:
            u('hash.blake2.%s.frames' % pre, [c + '.update', c + '.verify#bytearray'])
        u('hash.poly1305.frames', [PM + '.update', PM + '.verify#bytearray'])
        # caller-owned KEYS are inputs too: the constructors of the keyed objects take `buffer` keys (bytes | bytearray | memoryview) and
        # their frames exclude them (seeded change C19-hmac-init-extends-bytearray-key was first missed: these ran under C03 only)
        u('hash.hmac.init', [HMAC + '.__init__'])
        u('hash.hmac.new', [H + 'HMAC.new'])
        for pre, mod, c in b2s:
            u('hash.blake2.%s.init' % pre, [c + '.__init__'])
        u('hash.poly1305.init', [PM + '.__init__'])
    return us


# ====================================================================================================================
# NOT PROVED: HMAC._pbkdf2_hmac_assist / SHA256._pbkdf2_hmac_assist (native inner loop of PBKDF2: belongs to the KDF area, assumed there).
# NOT PROVED: hexverify()/hexdigest() of HMAC, BLAKE2b/s, Poly1305 (text layer: unhexlify / "%02x" formatting outside the PYVC subset).
# NOT PROVED: HMAC with digestmod=None (default MD5 import) and with a digestmod that has no `oid` attribute / no block_size
#   (AttributeError -> ValueError "Hash type incompatible to HMAC"): the abstract hash module always has digest_size, block_size, oid.
# NOT MODELLED: ERR_MAX_DATA of the native update/digest functions (more than 2**61 / 2**64 / 2**125 / 2**128 bytes fed to one object).
# BLAKE2b/s have no copy() method in this tree; Poly1305_MAC.copy() raises NotImplementedError unconditionally (nothing to prove).
#
# Mutation checks (tools/mut.py; exit 1 = VIOLATION on the named obligation):
#   lib/Crypto/Hash/HMAC.py
#     __init__  ipad `b"\x36"` -> `b"\x5c"`                           exit 1  C03 HMAC.__init__.ensures.inner
#     __init__  `len(key) <= digestmod.block_size` -> `<`             exit 1  C03 HMAC.__init__.ensures.inner / outer
#     digest    `update(self._inner.digest())` -> `self._outer.digest()`   exit 1  C03 HMAC.digest.ensures.value
#     copy      `new_hmac._outer = self._outer.copy()` -> `self._outer`    exit 1  C19 HMAC.copy.ensures.fresh
#     digest    `frozen_outer_hash = self._outer.copy()` -> `self._outer`  exit 1  C19 HMAC.digest.modifies.obj4.g_data (+ ensures.value)
#     digest    benign: `outer = self._outer; frozen_outer_hash = outer.copy()`   exit 0
#   lib/Crypto/Hash/BLAKE2b.py
#     new       `len(key) > 64` -> `> 65`                             exit 1  C03 BLAKE2b.new.raises_iff.TypeError.only_if (native refusal surfaces)
#     digest    `[:self.digest_size]` -> `[:self.digest_size - 1]`    exit 1  C03 BLAKE2b_Hash.digest.ensures.value / size
#     verify    `data=self.digest()` -> `data=mac_tag`                exit 1  C03 BLAKE2b_Hash.verify.raises_iff.ValueError.if
#     digest    drop `self._digest_done = True`                       exit 1  C10 BLAKE2b_Hash.digest.ensures.fsm_MAC_digest_final_digest_from_0 / done
#     new       `digest_bits // 8` -> `// 4`                          exit 1  C03 BLAKE2b.new.raises_iff.ValueError.only_if, ensures.params
#     new       `1 <= digest_bytes` -> `0 <= digest_bytes`            exit 0  EQUIVALENT at the contract's level: the native init refuses size 0
#                                                                             with the same exception type (ValueError)
#   lib/Crypto/Hash/Poly1305.py
#     __init__  `len(r) != 16` -> `!= 32`                             exit 1  C03 Poly1305_MAC.__init__.raises_iff.ValueError.only_if
#     update    `if self._mac_tag:` -> `if not self._mac_tag:`        exit 1  C10 Poly1305_MAC.update.raises_iff.TypeError.if
#     verify    `if mac1.digest() != mac2.digest():` -> `if False:`   exit 1  C03 Poly1305_MAC.verify.raises_iff.ValueError.if
#   lib/Crypto/Cipher/AES.py  _derive_Poly1305_key_pair
#     `return key[16:], s, nonce` -> `key[:16]`                       exit 1  C03 AES._derive_Poly1305_key_pair.ensures.r (confirmed by native replay)
#     `elif len(nonce) != 16:` -> `!= 12`                             exit 1  C03 AES._derive_Poly1305_key_pair.call_pre.len_plaintext_16, raises_iff.ValueError
#   lib/Crypto/Cipher/ChaCha20.py  _derive_Poly1305_key_pair
#     `return rs[:16], rs[16:], nonce` -> halves swapped              exit 2  ensures.r / ensures.s not proved; the counter-models cannot be confirmed
#     `b'\x00\x00\x00\x00' + nonce` -> `nonce + b'\x00\x00\x00\x00'`  exit 2  natively (the key stream is an uninterpreted symbol): undecided, not a pass
#     `elif len(nonce) == 8:` -> `== 7`                               exit 1  C03 ChaCha20._derive_Poly1305_key_pair.call_pre.len_kwargs_nonce_12, raises_iff.ValueError.only_if
#     drop the `raise ValueError(.. 32-byte key)`                     exit 1  C03 ChaCha20._derive_Poly1305_key_pair.call_pre.len_kwargs_key_32
#     `.encrypt(b'\x00' * 32)` -> `* 33`                              exit 1  C03 ChaCha20._derive_Poly1305_key_pair.call_pre.plaintext_bytes_32
#     benign: `stream = new(..); rs = stream.encrypt(b'\x00' * 32)`   exit 0
#   lib/Crypto/Hash/Poly1305.py  new
#     `if cipher_key is None: raise TypeError` -> `raise ValueError`  exit 1  C03 Poly1305.new.raises_iff.ValueError.only_if
#     `Poly1305_MAC(r, s, data)` -> `Poly1305_MAC(s, r, data)`        exit 1  C03 Poly1305.new.ensures.aes
#   lib/Crypto/Hash/SHA256.py
#     copy      `clone = SHA256Hash()` -> `clone = self`              exit 1  C19 SHA256Hash.copy.ensures.fresh
#     new       `SHA256Hash().new(data)` -> `.new(None)`              exit 1  C03 SHA256.new.ensures.absorbed
#     update    `c_size_t(len(data))` -> `c_size_t(len(data) // 2)`   exit 1  C09 SHA256Hash.update.call_pre.length_len_data
