"""Abstract native collaborators of the hash / XOF / MAC wrappers in lib/Crypto/Hash (author: hashes).

Every raw library (`_raw_keccak_lib`, `_raw_sha256_lib`, `_raw_blake2b_lib`, `_raw_blake2s_lib`, `_raw_poly1305`) is an abstract
module (contracts/rawapi.py `install_lib`) whose functions have ASSUMED contracts over the ghost state of the state handle.
The handle is what `VoidPointer().get()` / `SmartPointer.get()` returns; it is ONE abstract class for all libraries:

  native.HashState   g_data  all bytes absorbed so far (concatenation of every update)
                     g_key, g_key2   key material fixed at init (BLAKE2: key; Poly1305: r, s)
                     g_p1, g_p2      integer parameters fixed at init (keccak: capacity bytes, rounds; BLAKE2: digest bytes)
                     g_sq    keccak: the sponge has been finalised and is squeezing (src/keccak.c `squeezing`)
                     g_pad   keccak: the padding/domain byte used when it was finalised
                     g_out   keccak: number of bytes squeezed so far (output position)

digest()/read() values are the uninterpreted functions of /verif/spec/hashprim.py of (parameters, g_data[, output position]).
The contracts are read off the C sources (return codes included: a non-zero code is what the wrappers turn into ValueError);
NULL arguments and calloc failure (ERR_NULL / ERR_MEMORY) are not modelled (rawapi.TRUSTED).  Bounded harness for all of
them: bounded/hashes.py (every message length 0..3*block+2, every cut, XOF reads, copy, keys, parameters against hashlib /
reference implementations).  This module registers no verification unit."""
import z3

from vf.pyvc.contracts import Contract, ClassContract
from vf.pyvc.values import *        # noqa
from vf.pyvc.interp import BuiltinV
from .base import base_registry
from . import rawapi

NS = 'native.HashState'
SP = rawapi.SMARTPTR
BOUNDED = 'bounded: bounded/hashes.py'
# contract options every proof of this area runs under (vf/pyvc/models.py, opt-in):
#   ssize_len: len() of an existing Python object is <= sys.maxsize, so c_size_t(len(x)) == len(x)
#   feas_ms:   budget of one path-pruning query (vf/pyvc/interp.py); a time-out keeps the path, so this only trades exploration
#              time against a few more (trivially discharged) obligations.  Satisfiability of pcs with uninterpreted hash values
#              over sequences takes z3 0.5..1 s, more than the default budget of 400 ms, so waiting for it is wasted time.
OPTS = {'ssize_len': True, 'feas_ms': 150}

STATE_FIELDS = {'g_data': 'bytes', 'g_key': 'bytes', 'g_key2': 'bytes', 'g_p1': 'int', 'g_p2': 'int', 'g_sq': 'bool',
                'g_pad': 'int', 'g_out': 'nat'}
ALL_G = ['g_data', 'g_key', 'g_key2', 'g_p1', 'g_p2', 'g_sq', 'g_pad', 'g_out']


def opts(**kw):
    d = dict(OPTS)
    d.update(kw)
    return d


def as_bytes(st, v):
    if isinstance(v, Ref) and st.heap[v.oid].kind == 'bytearray':
        v = st.heap[v.oid].items
    if isinstance(v, bytes):
        return v
    return SBytes(zbytes(v), 'bytes')


def init_model(name, nargs, error, fields):
    """python model of  int X_init(void **state, ...): allocates a fresh native.HashState through the out-parameter.
    error(E, st, args) -> z3 Bool: the condition under which the C function returns a non-zero code (read off the C source);
    fields(st, args) -> ghost fields of the new state"""
    def model(E, st, args, kw):
        if kw or len(args) != nargs:
            return rawapi.rz(st, TypeError, '%s takes %d arguments' % (name, nargs))
        cell = args[0]
        if not (isinstance(cell, Ref) and getattr(st.heap[cell.oid], 'ghost_id', None) == 'native.Cell'):
            raise Unsupported('%s: first argument is not VoidPointer().address_of()' % name)
        outs = []
        bad, ok = E.split(st, error(E, st, args))
        if bad is not None:
            code = E.fresh_int('err_' + name)
            bad.assume(code.t != 0)
            outs.append(('val', bad, code))
        if ok is not None:
            f = dict(g_data=b'', g_key=b'', g_key2=b'', g_p1=0, g_p2=0, g_sq=False, g_pad=0, g_out=0)
            f.update(fields(ok, args))
            ok.heap[cell.oid].fields['g_ptr'] = rawapi.new_native(ok, NS, **f)
            ok.writes.append((cell.oid, 'g_ptr'))
            outs.append(('val', ok, 0))
        return outs
    return model


def copy_contract(name, why):
    """int X_copy(const void *src, void *dst):  *dst = *src"""
    return Contract(name, params={'src': 'obj:' + NS, 'dst': 'obj:' + NS}, returns='0',
                    sets={'dst.' + g: 'old(src.%s)' % g for g in ALL_G}, modifies=['dst.' + g for g in ALL_G],
                    options={'exact': True}, assumed=why)


# ------------------------------------------------------------------------------------------------ src/keccak.c
def install_keccak(reg):
    why = 'src/keccak.c (%s; C buffering: C03 third bullet)' % BOUNDED
    P = 'native.keccak.'
    S = 'obj:' + NS
    init = init_model('keccak_init', 3,
                      # ERR_DIGEST_SIZE: capacity_bytes >= 200;  ERR_NR_ROUNDS: rounds not in {12, 24}
                      lambda E, st, a: z3.Or(zint(a[1]) >= 200, z3.And(zint(a[2]) != 12, zint(a[2]) != 24)),
                      lambda st, a: dict(g_p1=a[1], g_p2=a[2]))
    absorb = Contract(P + 'keccak_absorb', params={'state': S, 'data': 'bytes', 'length': 'int'},
                      requires=['length == len(data)'], result='int',
                      # ERR_UNKNOWN iff the sponge is already squeezing; otherwise every byte is absorbed
                      ensures={'code': '(result != 0) <==> old(state.g_sq)',
                               'data': 'state.g_data == ite(old(state.g_sq), old(state.g_data), old(state.g_data) + bytes(data))'},
                      modifies=['state.g_data'], assumed=why)
    squeeze = Contract(P + 'keccak_squeeze', params={'state': S, 'out': 'bytearray', 'length': 'int', 'padding': 'int'},
                       requires=['0 <= length', 'length <= len(out)', '0 <= padding', 'padding <= 255'], returns='0',
                       # first call: keccak_finish(padding); every call: the next `length` bytes of the stream
                       ensures={'sq': 'state.g_sq',
                                'pad': 'state.g_pad == ite(old(state.g_sq), old(state.g_pad), padding)',
                                'pos': 'state.g_out == old(state.g_out) + length',
                                'out': 'bytes(out)[:length] == spec.hashprim.keccak_stream(state.g_p1, state.g_p2, state.g_pad, '
                                       'state.g_data, old(state.g_out), length)',
                                'rest': 'bytes(out)[length:] == old(bytes(out))[length:]'},
                       modifies=['out', 'state.g_sq', 'state.g_pad', 'state.g_out'], assumed=why)
    digest = Contract(P + 'keccak_digest', params={'state': S, 'out': 'bytearray', 'length': 'int', 'padding': 'int'},
                      # works on a copy of the state (tmp = *state), so the state itself is never finalised
                      requires=['not state.g_sq', '0 <= length', 'length <= len(out)', '0 <= padding', 'padding <= 255'], result='int',
                      ensures={'code': '(result != 0) <==> (2 * length != state.g_p1)',
                               'out': 'result == 0 ==> bytes(out)[:length] == spec.hashprim.keccak_stream(state.g_p1, state.g_p2, '
                                      'padding, state.g_data, 0, length)'},
                      modifies=['out'], assumed=why)
    reset = Contract(P + 'keccak_reset', params={'state': S}, returns='0',
                     sets={'state.g_data': 'b""', 'state.g_sq': 'False', 'state.g_out': '0'},
                     modifies=['state.g_data', 'state.g_sq', 'state.g_out'], options={'exact': True}, assumed=why)
    rawapi.install_lib(reg, 'Crypto.Hash.keccak._raw_keccak_lib', 'native.keccak',
                       {'keccak_init': init, 'keccak_absorb': absorb, 'keccak_squeeze': squeeze, 'keccak_digest': digest,
                        'keccak_copy': copy_contract(P + 'keccak_copy', why), 'keccak_reset': reset,
                        'keccak_destroy': destroy_model})


def destroy_model(E, st, args, kw):
    """never called by the code under contract (only stored in SmartPointer and run by __del__)"""
    raise Unsupported('native destroy function called explicitly')


# ------------------------------------------------------------------------------------------------ ctypes glue, refined
def m_create_string_buffer(E, st, args, kw):
    """rawapi's model + the CPython outcome for sizes that are not a Py_ssize_t: ctypes raises OverflowError ("cannot fit 'int'
    into an index-sized integer") for n > sys.maxsize.  (MemoryError for sizes the machine cannot provide is not modelled.)"""
    if len(args) == 1 and not kw and is_intlike(args[0]):
        outs = []
        big, ok = E.split(st, zint(args[0]) > 2 ** 63 - 1)
        if big is not None:
            outs += rawapi.rz(big, OverflowError, "cannot fit 'int' into an index-sized integer")
        if ok is not None:
            outs += rawapi.m_create_string_buffer(E, ok, args, kw)
        return outs
    return rawapi.m_create_string_buffer(E, st, args, kw)


# ------------------------------------------------------------------------------------------------ entropy
def add_random(reg):
    """Crypto.Random.get_random_bytes(n): n fresh bytes of the system entropy tape (nothing is known about them but the length)"""
    def grb(E, st, args, kw):
        n = args[0]
        v = E.fresh_bytes('entropy')
        st.assume(z3.Length(v.t) == zint(n))
        return [('val', st, v)]
    reg.overrides['Crypto.Random.get_random_bytes'] = BuiltinV('Crypto.Random.get_random_bytes', grb)


# ------------------------------------------------------------------------------------------------ registry
def hash_registry():
    reg = base_registry()
    rawapi.install_glue(reg)
    reg.models[rawapi.R + 'create_string_buffer'] = m_create_string_buffer
    reg.add(ClassContract(NS, fields=dict(STATE_FIELDS), abstract=True))
    rawapi.smartpointer_contract(reg, 'obj:' + NS)
    install_keccak(reg)
    add_random(reg)
    return reg


# ------------------------------------------------------------------------------------------------ call-order automata (C10)
def fsm_clauses(key, preds, method, guard=None):
    """Contract clauses of `method` generated from the documented table spec/fsm.py FSM[key].
    preds: {state (tuple of the methods allowed next): predicate over `self` that characterises the state in the object}.
    guard: predicate selecting the objects that follow this table (e.g. 'not self._update_after_digest'); it must be immutable.
    Returns (forbidden, post): `forbidden` = the condition (over the entry state) under which the table forbids the call
    -> TypeError, object unchanged;  `post` = {name: 'old(state s) ==> state step(s, method)'} for every reachable state that
    permits it.  The reachable states of the table must be exactly the states given predicates (finite comparison)."""
    from spec import fsm
    states = fsm.reach(key)
    norm = {fsm._norm(s): p for s, p in preds.items()}
    assert set(norm) == set(states), 'FSM %s: reachable states %r, predicates for %r' % (key, states, sorted(norm))
    g = '(%s) and ' % guard if guard else ''
    forb, post = [], {}
    for i, s in enumerate(states):
        n = fsm.step(key, s, method)
        if n is None:
            forb.append('(%s(%s))' % (g, norm[s]))
        else:
            post['fsm_%s_%s_from_%d' % (key.replace('.', '_'), method, i)] = 'old(%s(%s)) ==> (%s(%s))' % (g, norm[s], g, norm[n])
    return (' or '.join(forb) if forb else 'False'), post


def fsm_join(*parts):
    """clauses of one method of a class whose objects follow one of several tables (selected by guards)"""
    forb = [f for f, _ in parts if f != 'False']
    post = {}
    for _, p in parts:
        post.update(p)
    return (' or '.join(forb) if forb else 'False'), post
