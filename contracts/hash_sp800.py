"""Contracts for the SP 800-185 family: lib/Crypto/Hash/cSHAKE128.py, cSHAKE256.py, KMAC128.py, KMAC256.py, TupleHash128.py,
TupleHash256.py  (C03 framing, C09 segmentation, C10 call order, C19 input frames).

Spec: /verif/spec/sp800_185.py (written from NIST SP 800-185), primitives uninterpreted (/verif/spec/hashprim.py).
Native collaborators: contracts/hash_native.py (assumed, bounded/hashes.py)."""
from vf.pyvc.contracts import Contract, ClassContract
from .hash_native import hash_registry, opts, fsm_clauses, NS, SP, BOUNDED

C = 'Crypto.Hash.cSHAKE128.'
C256 = 'Crypto.Hash.cSHAKE256.'
XOF = C + 'cSHAKE_XOF'
ST = 'self._state._raw_pointer'
S185 = 'spec.sp800_185.'
ENC_OPAQUE = [S185 + 'left_encode', S185 + 'right_encode', S185 + 'encode_string', S185 + 'bytepad']
TWO2040 = 'pow2(2040)'
# rates of KECCAK[c] in bytes that the library uses with bytepad: 168 (c = 256), 136 (c = 512); the other values
# exercise the arithmetic (1, a divisor of nothing special, the largest rate below the 200-byte state)
RATES_QUICK = [1, 3, 136, 168, 199]


def xof_stream(pad, pos, n, st=ST):
    return 'spec.hashprim.keccak_stream(%s.g_p1, %s.g_p2, %s, %s.g_data, %s, %s)' % (st, st, pad, st, pos, n)


def add_encoders(reg):
    # --- 2.3.1 left_encode / right_encode: for EVERY 0 <= x < 2**2040.  Proof: bit_length's defining inequality, the range facts
    # of base-256 notation for long_to_bytes' result and ground monotonicity instances of 2**n (engine option int_lemmas)
    for f in ('left', 'right'):
        reg.add(Contract(C + '_%s_encode' % f, params={'x': 'int'}, requires=['0 <= x', 'x < ' + TWO2040],
                         ensures={'value': 'result == %s%s_encode(x)' % (S185, f), 'size': 'len(result) >= 2 and len(result) <= 256'},
                         raises={}, modifies=[], result='bytes', opaque=[S185 + 'enc_n'], options=opts(int_lemmas=[2040])))
    # --- 2.3.2 encode_string.  The standard's domain 0 <= len(S) < 2**2040 bits holds for every CPython object (len <= 2**63 - 1,
    # engine option ssize_len), so the ValueError branch is dead: the contract says NO exception escapes.
    reg.add(Contract(C + '_encode_str', params={'x': 'buffer'}, raises={},
                     ensures={'value': 'result == %sencode_string(bytes(x))' % S185},
                     lemmas={'exit': {'size': 'len(result) >= len(x) + 2 and len(result) <= len(x) + 256'}},
                     modifies=[], result='bytes', opaque=[S185 + 'left_encode'], options=opts()))
    # --- 2.3.3 bytepad: `length` is the rate w; the modulus makes the arithmetic non-linear, so w is also instantiated per value.
    # whole/least are consequences of the value clause, proved here as exit lemmas (not exported to call sites: they only slow callers down)
    reg.add(Contract(C + '_bytepad', params={'x': 'bytes', 'length': 'int[1..255]'},
                     ensures={'value': 'result == %sbytepad(x, length)' % S185},
                     lemmas={'exit': {'whole': 'len(result) % length == 0',
                                      'least': 'len(result) < len(x) + 256 + length and len(result) >= len(x) + 2'}},
                     raises={}, modifies=[], result='bytes', opaque=[S185 + 'left_encode'], options=opts()))
    # the same function for EVERY 1 <= w <= 255 at once (symbolic w): the value clause needs no arithmetic on w (both sides are the
    # same term); `whole` is non-linear in w and is proved per value only
    reg.contracts[C + '_bytepad#any'] = Contract(
        C + '_bytepad', params={'x': 'bytes', 'length': 'int[1..255]'}, ensures={'value': 'result == %sbytepad(x, length)' % S185},
        lemmas={'exit': {'least': 'len(result) < len(x) + 256 + length and len(result) >= len(x) + 2'}},
        raises={}, modifies=[], result='bytes', opaque=[S185 + 'left_encode'], options=opts())


def add_cshake(reg):
    reg.add(ClassContract(XOF, fields={'_state': 'obj:' + SP, '_is_squeezing': 'bool', '_padding': 'int'},
                          # (all((..)) / any((..)): conjunction / disjunction evaluated without forking -- cheap path exploration)
                          valid=['all((any((not %s.g_sq, self._is_squeezing)), any((%s.g_sq, %s.g_out == 0)), '
                                 'any((not %s.g_sq, %s.g_pad == self._padding)), 0 <= self._padding, self._padding <= 255))' % (ST, ST, ST, ST, ST)]))
    custom = '(b"" if custom is None else bytes(custom))'
    reg.add(Contract(XOF + '.__init__', params={'data': 'buffer|none', 'custom': 'buffer|none', 'capacity': "enum(256, 512)", 'function': 'bytes'},
                     requires=['custom is not None or len(function) == 0'],
                     raises={},
                     ensures={'absorbed': '%s.g_data == %scshake_prefix(function, %s, 200 - capacity // 8) + (b"" if data is None else bytes(data))'
                                          % (ST, S185, custom),
                              'domain': 'self._padding == %scshake_domain(function, %s)' % (S185, custom),
                              'sponge': '%s.g_p1 == capacity // 8 and %s.g_p2 == 24' % (ST, ST),
                              'absorbing': 'not self._is_squeezing and not %s.g_sq and %s.g_out == 0' % (ST, ST),
                              'valid': 'valid(self)'},
                     modifies=['self._state', 'self._is_squeezing', 'self._padding'],
                     opaque=ENC_OPAQUE, options=opts(assume_valid=False)))
    reg.add(Contract(XOF + '.update', params={'data': 'buffer'}, requires=['valid(self)'],
                     raises={'TypeError': ('iff', 'self._is_squeezing')}, unchanged_on_raise=True,
                     ensures={'absorbed': '%s.g_data == old(%s.g_data) + bytes(data)' % (ST, ST),
                              'self': 'result is self', 'valid': 'valid(self)'},
                     returns='self', modifies=[ST + '.g_data'], options=opts()))
    reg.add(Contract(XOF + '.read', params={'length': 'nat'}, requires=['valid(self)'], raises={'OverflowError': ('iff', 'length > 2**63 - 1')},
                     ensures={'value': 'result == ' + xof_stream('self._padding', 'old(%s.g_out)' % ST, 'length'),
                              'position': '%s.g_out == old(%s.g_out) + length' % (ST, ST),
                              'squeezing': 'self._is_squeezing and %s.g_sq' % ST,
                              'valid': 'valid(self)'},
                     modifies=['self._is_squeezing', ST + '.g_sq', ST + '.g_pad', ST + '.g_out'], result='bytes', options=opts()))
    # module-level constructors: cSHAKE128 = KECCAK[256] (rate 168), cSHAKE256 = KECCAK[512] (rate 136)
    for mod, cap in ((C, 256), (C256, 512)):
        rate = 200 - cap // 8
        post = {'absorbed': 'result._state._raw_pointer.g_data == %scshake_prefix(%%s, %s, %d) + (b"" if data is None else bytes(data))'
                            % (S185, custom, rate),
                'domain': 'result._padding == %scshake_domain(%%s, %s)' % (S185, custom),
                'sponge': 'result._state._raw_pointer.g_p1 == %d and result._state._raw_pointer.g_p2 == 24' % (cap // 8),
                'absorbing': 'not result._is_squeezing and not result._state._raw_pointer.g_sq and result._state._raw_pointer.g_out == 0',
                'valid': 'valid(result)'}
        reg.add(Contract(mod + 'new', params={'data': 'buffer|none', 'custom': 'buffer|none'},
                         raises={},
                         ensures={k: (v % 'b""' if '%s' in v else v) for k, v in post.items()},
                         modifies=[], result='obj:' + XOF, opaque=ENC_OPAQUE + [S185 + 'cshake_prefix', S185 + 'cshake_domain'], options=opts()))
        reg.add(Contract(mod + '_new', params={'data': 'buffer|none', 'custom': 'buffer|none', 'function': 'bytes'},
                         requires=['custom is not None or len(function) == 0'],
                         raises={},
                         ensures={k: (v % 'function' if '%s' in v else v) for k, v in post.items()},
                         modifies=[], result='obj:' + XOF, opaque=ENC_OPAQUE + [S185 + 'cshake_prefix', S185 + 'cshake_domain'], options=opts()))


KM = 'Crypto.Hash.KMAC128.'
KMAC = KM + 'KMAC_Hash'
TH = 'Crypto.Hash.TupleHash128.'
TUPLE = TH + 'TupleHash'
CS = 'self._cshake._state._raw_pointer'
MAXSIZE = '2**63 - 1'
# (cSHAKE module, rate in bytes): KMAC128/TupleHash128 = cSHAKE128 (KECCAK[256], rate 168), KMAC256/TupleHash256 = cSHAKE256 (rate 136)
VARIANTS = (('Crypto.Hash.cSHAKE128', 168), ('Crypto.Hash.cSHAKE256', 136))


def cs_stream(pos, n, data=CS + '.g_data'):
    return 'spec.hashprim.keccak_stream(%s.g_p1, %s.g_p2, 0x04, %s, %s, %s)' % (CS, CS, data, pos, n)


def mac_fsm(method, done):
    """KMAC / TupleHash: FSM MAC.digest_final with the state kept in `done` (the tag has been produced)"""
    return fsm_clauses('MAC.digest_final', {('update', 'digest', 'verify'): 'not (%s)' % done, ('digest', 'verify'): done}, method)


def add_kmac(reg):
    """SP 800-185 section 4: KMAC(K, X, L, S) = cSHAKE(bytepad(encode_string(K), rate) || X || right_encode(L), L, "KMAC", S).
    The object's abstract state is the byte string its cSHAKE sponge has absorbed (+ the tag once produced)."""
    # domain: 8 <= mac_len (module documentation: "Minimum is 8") and mac_len <= sys.maxsize (a longer tag cannot be
    # materialised: read() raises OverflowError)
    reg.add(ClassContract(KMAC, fields={'oid': 'str', 'digest_size': 'int', '_mac': 'bytes|none', '_cshake': 'obj:' + XOF},
                          valid=['all((8 <= self.digest_size, self.digest_size <= %s, self._cshake._padding == 0x04))' % MAXSIZE,
                                 'self._mac is None ==> not self._cshake._is_squeezing',
                                 'self._mac is not None ==> all((len(self._mac) == self.digest_size, self._cshake._is_squeezing))']))
    done = 'self._mac is not None'
    for modname, rate in VARIANTS:
        tag = 'kmac%d' % (128 if rate == 168 else 256)
        reg.add(Contract(KMAC + '.__init__', params={'data': 'buffer|none', 'key': 'buffer', 'mac_len': 'int', 'custom': 'buffer',
                                                     'oid_variant': 'str', 'cshake': 'module:' + modname, 'rate': ('const', rate)},
                         requires=['8 <= mac_len and mac_len <= ' + MAXSIZE], raises={},
                         ensures={'absorbed': '%s.g_data == %scshake_prefix(b"KMAC", bytes(custom), rate) + %skmac_key_block(bytes(key), rate) + '
                                              '(b"" if data is None else bytes(data))' % (CS, S185, S185),
                                  'sponge': '%s.g_p1 == 200 - rate and %s.g_p2 == 24 and self._cshake._padding == 0x04' % (CS, CS),
                                  'fresh': 'self._mac is None and self.digest_size == mac_len and %s.g_out == 0' % CS,
                                  'valid': 'valid(self)'},
                         modifies=['self.oid', 'self.digest_size', 'self._mac', 'self._cshake'],
                         opaque=ENC_OPAQUE, options=opts(assume_valid=False)))
        reg.contracts[KMAC + '.__init__#' + tag] = reg.contracts.pop(KMAC + '.__init__')
        reg.contracts[KMAC + '.__init__#' + tag].target = KMAC + '.__init__'
    forb, post = mac_fsm('update', done)
    reg.add(Contract(KMAC + '.update', params={'data': 'buffer'}, requires=['valid(self)'],
                     raises={'TypeError': ('iff', forb)}, unchanged_on_raise=True,
                     ensures=dict(post, absorbed='%s.g_data == old(%s.g_data) + bytes(data)' % (CS, CS), self='result is self',
                                  valid='valid(self)'),
                     returns='self', modifies=[CS + '.g_data'], options=opts()))
    forb, post = mac_fsm('digest', done)
    assert forb == 'False'
    first = 'old(self._mac) is None'
    reg.add(Contract(KMAC + '.digest', params={}, requires=['valid(self)'], raises={},
                     ensures=dict(post,
                                  # 4.3: newX = ... || X || right_encode(L), L in bits;  tag = first L/8 bytes of the cSHAKE output
                                  value='%s ==> result == %s' % (first, cs_stream('0', 'self.digest_size', 'old(%s.g_data) + %sright_encode(8 * self.digest_size)' % (CS, S185))),
                                  idempotent='not %s ==> (result == old(self._mac) and %s.g_data == old(%s.g_data) and %s.g_out == old(%s.g_out))' % (first, CS, CS, CS, CS),
                                  cached='self._mac == result and len(result) == self.digest_size', valid='valid(self)'),
                     modifies=['self._mac', CS + '.g_data', CS + '.g_out', CS + '.g_sq', CS + '.g_pad', 'self._cshake._is_squeezing'],
                     result='bytes', opaque=ENC_OPAQUE, options=opts()))
    # verify(): ValueError iff the tag differs from digest() -- compared through SHA3-256(secret || .) with 16 fresh random
    # bytes; SHA3-256 injective = the one assumed cryptographic fact (spec/hashprim.py)
    forb, post = mac_fsm('verify', done)
    assert forb == 'False'
    for kind in ('bytes', 'bytearray', 'memoryview'):       # one contract object per buffer type: three parallel units
        reg.contracts[KMAC + '.verify#' + kind] = Contract(
            KMAC + '.verify', params={'mac_tag': kind}, requires=['valid(self)'],
            raises={'ValueError': ('iff', 'bytes(mac_tag) != (%s if self._mac is None else self._mac)' % cs_stream(
                '0', 'self.digest_size', '%s.g_data + %sright_encode(8 * self.digest_size)' % (CS, S185)))},
            ensures=dict(post, accepted='bytes(mac_tag) == self._mac', valid='valid(self)'),
            on_raise={'ValueError': ['valid(self)', 'self._mac is not None']},
            modifies=['self._mac', CS + '.g_data', CS + '.g_out', CS + '.g_sq', CS + '.g_pad', 'self._cshake._is_squeezing'],
            inline=[KMAC + '.digest'], opaque=ENC_OPAQUE, options=opts(feas_ms=120))


def add_tuplehash(reg):
    """SP 800-185 section 5: TupleHash(X, L, S) = cSHAKE(encode_string(X[1]) || ... || encode_string(X[m]) || right_encode(L), L, "TupleHash", S)."""
    TCS = 'self._cshake._state._raw_pointer'
    reg.add(ClassContract(TUPLE, fields={'digest_size': 'int', '_digest': 'bytes|none', '_cshake': 'obj:' + XOF},
                          valid=['all((8 <= self.digest_size, self.digest_size <= %s, self._cshake._padding == 0x04))' % MAXSIZE,
                                 'self._digest is None ==> not self._cshake._is_squeezing',
                                 'self._digest is not None ==> all((len(self._digest) == self.digest_size, self._cshake._is_squeezing))']))
    for modname, rate in VARIANTS:
        tag = 'tuplehash%d' % (128 if rate == 168 else 256)
        c = Contract(TUPLE + '.__init__', params={'custom': 'buffer', 'cshake': 'module:' + modname, 'digest_size': 'int'},
                     requires=['8 <= digest_size and digest_size <= ' + MAXSIZE], raises={},
                     ensures={'absorbed': '%s.g_data == %scshake_prefix(b"TupleHash", bytes(custom), %d)' % (TCS, S185, rate),
                              'sponge': '%s.g_p1 == %d and %s.g_p2 == 24 and self._cshake._padding == 0x04' % (TCS, 200 - rate, TCS),
                              'fresh': 'self._digest is None and self.digest_size == digest_size and %s.g_out == 0' % TCS,
                              'valid': 'valid(self)'},
                     modifies=['self.digest_size', 'self._digest', 'self._cshake'], opaque=ENC_OPAQUE, options=opts(assume_valid=False))
        reg.contracts[TUPLE + '.__init__#' + tag] = c
    done = 'self._digest is not None'
    fsm = lambda m: fsm_clauses('HASH.digest_final', {('update', 'digest'): 'not (%s)' % done, ('digest',): done}, m)
    # update(*data): one encode_string per item, in order (this is what keeps ("ab","c") and ("a","bc") apart)
    kinds = ('bytes', 'bytearray', 'memoryview')
    arities = ['tuple()'] + ['tuple(%s)' % a for a in kinds] + ['tuple(%s,%s)' % (a, b) for a in kinds for b in kinds] + ['tuple(bytes,bytearray,memoryview)']
    forb, post = fsm('update')
    enc = lambda i: '%sencode_string(bytes(data[%d]))' % (S185, i)
    absorbed = ' and '.join('(len(data) == %d ==> %s.g_data == old(%s.g_data)%s)' % (n, TCS, TCS, ''.join(' + ' + enc(i) for i in range(n)))
                            for n in range(4))
    reg.add(Contract(TUPLE + '.update', params={'data': '|'.join(arities)}, requires=['valid(self)'],
                     raises={'TypeError': ('iff', forb)}, unchanged_on_raise=True,
                     ensures=dict(post, absorbed=absorbed, self='result is self', valid='valid(self)'),
                     returns='self', modifies=[TCS + '.g_data'], opaque=ENC_OPAQUE, options=opts()))
    forb, post = fsm('digest')
    assert forb == 'False'
    first = 'old(self._digest) is None'
    reg.add(Contract(TUPLE + '.digest', params={}, requires=['valid(self)'], raises={},
                     ensures=dict(post,
                                  value='%s ==> result == %s' % (first, cs_stream('0', 'self.digest_size', 'old(%s.g_data) + %sright_encode(8 * self.digest_size)' % (TCS, S185))),
                                  idempotent='not %s ==> (result == old(self._digest) and %s.g_data == old(%s.g_data) and %s.g_out == old(%s.g_out))' % (first, TCS, TCS, TCS, TCS),
                                  cached='self._digest == result and len(result) == self.digest_size', valid='valid(self)'),
                     modifies=['self._digest', TCS + '.g_data', TCS + '.g_out', TCS + '.g_sq', TCS + '.g_pad', 'self._cshake._is_squeezing'],
                     result='bytes', opaque=ENC_OPAQUE, options=opts()))


def kw_has(k):
    return '"%s" in kwargs' % k


def kw_old(k, default):
    return '(old(kwargs["%s"]) if "%s" in old(kwargs) else %s)' % (k, k, default)


def add_new_functions(reg):
    """module-level new(**kwargs) of KMAC128/256 and TupleHash128/256: parameter domains and the object handed out"""
    RCS = 'result._cshake._state._raw_pointer'
    for modname, rate in VARIANTS:
        bits = 128 if rate == 168 else 256
        # ---- KMAC: key mandatory and >= the security strength in bytes (16 / 32); mac_len >= 8 (default 64); custom default b""
        minkey = 16 if bits == 128 else 32
        kwt = '|'.join(['dict()', 'dict(key:none)', 'dict(key:int)', 'dict(key:bytes)', 'dict(key:bytearray,data:bytes)', 'dict(key:memoryview,mac_len:int)',
                        'dict(key:bytes,data:memoryview,mac_len:int,custom:bytes)', 'dict(key:bytes,custom:bytearray)', 'dict(key:bytes,data:none)',
                        'dict(key:bytes,bogus:int)', 'dict(key:bytes,mac_len:int,bogus:int)'])
        nokey = '(not %s or not isinstance(kwargs["key"], (bytes, bytearray, memoryview)))' % kw_has('key')
        bad = '(len(kwargs["key"]) < %d or (%s and kwargs["mac_len"] < 8))' % (minkey, kw_has('mac_len'))
        data = kw_old('data', 'None')
        reg.add(Contract('Crypto.Hash.KMAC%d.new' % bits, params={'kwargs': kwt},
                         # domain: a tag longer than sys.maxsize bytes cannot be produced (see the class invariant of KMAC_Hash)
                         requires=['%s ==> kwargs["mac_len"] <= %s' % (kw_has('mac_len'), MAXSIZE)],
                         raises={'TypeError': ('iff', '%s or (not %s and %s)' % (nokey, bad, kw_has('bogus'))),
                                 'ValueError': ('iff', 'not %s and %s' % (nokey, bad))},
                         ensures={'absorbed': '%s.g_data == %scshake_prefix(b"KMAC", bytes(%s), %d) + %skmac_key_block(bytes(old(kwargs["key"])), %d) + '
                                              '(b"" if %s is None else bytes(%s))' % (RCS, S185, kw_old('custom', 'b""'), rate, S185, rate, data, data),
                                  'sponge': '%s.g_p1 == %d and %s.g_p2 == 24 and result._cshake._padding == 0x04' % (RCS, 200 - rate, RCS),
                                  'fresh': 'result._mac is None and result.digest_size == %s and %s.g_out == 0' % (kw_old('mac_len', '64'), RCS),
                                  'valid': 'valid(result)'},
                         modifies=None, result='obj:' + KMAC, opaque=ENC_OPAQUE, options=opts()))
        # ---- TupleHash: digest_bytes >= 8 or digest_bits >= 64 in steps of 8 (default 64 bytes), not both
        kwt = '|'.join(['dict()', 'dict(digest_bytes:int)', 'dict(digest_bits:int)', 'dict(digest_bytes:int,digest_bits:int)', 'dict(custom:bytes)',
                        'dict(digest_bytes:int,custom:bytearray)', 'dict(digest_bits:int,custom:memoryview)'])
        both = '(%s and %s)' % (kw_has('digest_bytes'), kw_has('digest_bits'))
        bad = '((%s and kwargs["digest_bytes"] < 8) or (%s and (kwargs["digest_bits"] < 64 or kwargs["digest_bits"] %% 8 != 0)))' % (
            kw_has('digest_bytes'), kw_has('digest_bits'))
        ds = '(old(kwargs["digest_bytes"]) if "digest_bytes" in old(kwargs) else (old(kwargs["digest_bits"]) // 8 if "digest_bits" in old(kwargs) else 64))'
        reg.add(Contract('Crypto.Hash.TupleHash%d.new' % bits, params={'kwargs': kwt},
                         requires=['%s ==> kwargs["digest_bytes"] <= %s' % (kw_has('digest_bytes'), MAXSIZE),
                                   '%s ==> kwargs["digest_bits"] // 8 <= %s' % (kw_has('digest_bits'), MAXSIZE)],
                         raises={'TypeError': ('iff', both), 'ValueError': ('iff', 'not %s and %s' % (both, bad))},
                         ensures={'absorbed': '%s.g_data == %scshake_prefix(b"TupleHash", bytes(%s), %d)' % (RCS, S185, kw_old('custom', 'b""'), rate),
                                  'sponge': '%s.g_p1 == %d and %s.g_p2 == 24 and result._cshake._padding == 0x04' % (RCS, 200 - rate, RCS),
                                  'fresh': 'result._digest is None and result.digest_size == %s and %s.g_out == 0' % (ds, RCS),
                                  'valid': 'valid(result)'},
                         modifies=None, result='obj:' + TUPLE, opaque=ENC_OPAQUE, options=opts()))


def registry():
    from .hash_keccak import add_sha3
    reg = hash_registry()
    add_encoders(reg)
    add_cshake(reg)
    add_sha3(reg)
    add_kmac(reg)
    add_tuplehash(reg)
    add_new_functions(reg)
    return reg


def units(prop, tier):
    from vf.pyunit import pyvc_unit
    us = []

    def u(uid, targets, **kw):
        us.append(pyvc_unit(prop, uid, registry, targets, **kw))
    kinit = [KMAC + '.__init__#kmac128', KMAC + '.__init__#kmac256']
    tinit = [TUPLE + '.__init__#tuplehash128', TUPLE + '.__init__#tuplehash256']
    if prop == 'C03':
        u('hash.cshake.encode', [C + '_left_encode', C + '_right_encode', C + '_encode_str'])
        u('hash.cshake.bytepad.any', [C + '_bytepad#any'])          # every 1 <= w <= 255 at once (symbolic w)
        for w in (RATES_QUICK if tier == 'quick' else list(range(1, 200))):
            u('hash.cshake.bytepad.w%03d' % w, [C + '_bytepad'], fix={'length': w})
        u('hash.cshake.init', [XOF + '.__init__'])
        u('hash.cshake.new', [C + 'new', C + '_new', C256 + 'new', C256 + '_new'])
        u('hash.cshake.update_read', [XOF + '.update', XOF + '.read'])
        u('hash.kmac.init128', kinit[:1])
        u('hash.kmac.init256', kinit[1:])
        u('hash.kmac.update_digest', [KMAC + '.update', KMAC + '.digest'])
        # (the bytearray variant runs in every tier under C19, unit hash.kmac.frames)
        for kind in (('bytes', 'memoryview') if tier == 'quick' else ('bytes', 'bytearray', 'memoryview')):
            u('hash.kmac.verify.' + kind, [KMAC + '.verify#' + kind])
        u('hash.kmac.new128', ['Crypto.Hash.KMAC128.new'])
        u('hash.kmac.new256', ['Crypto.Hash.KMAC256.new'])
        u('hash.tuplehash.init', tinit)
        u('hash.tuplehash.update_digest', [TUPLE + '.update', TUPLE + '.digest'])
        u('hash.tuplehash.new', ['Crypto.Hash.TupleHash128.new', 'Crypto.Hash.TupleHash256.new'])
    if prop == 'C09':
        # segmentation: every update() appends exactly its argument to the abstract input (g_data' == g_data ++ data), so any two
        # segmentations of one byte string reach the same abstract state (associativity of ++); read() is a slice of ONE output
        # stream at the ghost position g_out, so consecutive reads concatenate to the one-shot read
        u('hash.cshake.segmentation', [XOF + '.update', XOF + '.read'])
        u('hash.kmac.segmentation', [KMAC + '.update'])
        u('hash.tuplehash.segmentation', [TUPLE + '.update'])
    if prop == 'C10':
        u('hash.cshake.fsm', [XOF + '.update', XOF + '.read'])
        u('hash.kmac.fsm', [KMAC + '.update', KMAC + '.digest', KMAC + '.verify#bytes'])
        u('hash.tuplehash.fsm', [TUPLE + '.update', TUPLE + '.digest'])
    if prop == 'C19':
        # input frames: `modifies` of every method excludes its byte-string arguments (bytearray arguments included)
        u('hash.cshake.frames', [XOF + '.__init__', XOF + '.update'])
        u('hash.kmac.frames', kinit[:1] + [KMAC + '.update', KMAC + '.verify#bytearray'])
        u('hash.tuplehash.frames', [TUPLE + '.update'])
    return us


# ====================================================================================================================
# Trusted facts this area's proofs use beyond the callee contracts (all opt-in through contract options, vf/pyvc/models.py, ops.py):
#   int_lemmas=[2040]  ground instances of (i) int.bit_length(): 2**(k-1) <= |x| < 2**k for x != 0 (Python documentation);
#                      (ii) base-256 notation: be(s) < 256**len(s), a non-zero leading byte gives be(s) >= 256**(len(s)-1), and
#                      i2osp(be(s), len(s)) == s;  (iii) strict monotonicity of 2**n between the applications met in the proof.
#                      Used by _left_encode / _right_encode / K12 _length_encode only (with the assumed contract of long_to_bytes).
#   ssize_len          len() of an existing CPython object is <= sys.maxsize.
#   spec.sp800_185.enc_n facts: the standard's own definition of n (smallest positive integer with 2**(8n) > x).
#   spec.hashprim: size facts of the uninterpreted primitives; THE assumed cryptographic fact: SHA3-256 (KMAC.verify) and keyed
#                      BLAKE2-160 (all other verify()) are injective in the compared tag.
#
# NOT PROVED: KMAC_Hash.hexverify / hexdigest (and the hexverify/hexdigest of every class of this area): binascii.unhexlify / "%02x"
#   formatting of symbolic text is outside the PYVC subset; hexverify is `self.verify(unhexlify(tobytes(hex_mac_tag)))`.
# NOT PROVED: TupleHash.update(*data) with a non-bytes item: TypeError is raised AFTER the preceding items were absorbed (the
#   object is changed by the failed call); items are typed bytes/bytearray/memoryview here, arities 0..3.
# NOT PROVED: KMAC / TupleHash objects with mac_len / digest size > sys.maxsize (class invariant: such a tag cannot be produced,
#   read() raises OverflowError; sizes >= 2**2037 would trip the `assert` of _right_encode).
#
# Mutation checks (tools/mut.py <prop> <file> <old> <new> --only <unit prefix>; exit 1 = VIOLATION on the named obligation):
#   lib/Crypto/Hash/cSHAKE128.py
#     _left_encode  `(x.bit_length() + 7) // 8` -> `+ 8`             exit 1  C03 _left_encode.raises_only.ValueError, ensures.value
#     _right_encode `long_to_bytes(x) + bchr(num)` -> swapped         exit 1  C03 _right_encode.ensures.value (confirmed by native replay)
#     _encode_str   `bitlen = len(x) * 8` -> `len(x)`                 exit 1  C03 _encode_str.ensures.value
#     _bytepad      `npad = (length - len(to_pad) % length) % length` -> without the outer `% length`
#                                                                     exit 1  C03 _bytepad.lemma.least / ensures.value (every w)
#     __init__      `self._padding = 0x04` -> `0x1F`                  exit 1  C03 cSHAKE_XOF.__init__.ensures.domain
#     __init__      `_encode_str(function) + _encode_str(custom)` -> swapped   exit 1  C03 cSHAKE_XOF.__init__.ensures.absorbed
#     update        `if self._is_squeezing:` -> `if not ...`          exit 1  C10 cSHAKE_XOF.update.raises_iff.TypeError.only_if
#     read          `c_size_t(length)` -> `c_size_t(length + 1)`      exit 1  C09 cSHAKE_XOF.read.call_pre.length_len_out
#     _encode_str   benign: `nbits = len(x) * 8; bitlen = nbits`      exit 0
#   lib/Crypto/Hash/KMAC128.py
#     digest        `_right_encode(self.digest_size * 8)` -> `(self.digest_size)`   exit 1  C03 KMAC_Hash.digest.ensures.value
#     __init__      `_bytepad(_encode_str(tobytes(key)), rate)` -> `_bytepad(tobytes(key), rate)`   exit 1  C03 KMAC_Hash.__init__.ensures.absorbed
#     new           `if mac_len < 8:` -> `< 4`                        exit 1  C03 KMAC128.new.raises_iff.ValueError.if
#     verify        `if mac1.digest() != mac2.digest():` -> `==`      exit 1  C03 KMAC_Hash.verify.raises_iff.ValueError.only_if / .if
#     update        `if self._mac:` -> `if False:`                    exit 0  EQUIVALENT mutant: the inner cSHAKE object refuses with the same
#                                                                             TypeError (invariant: _mac is not None ==> cshake is squeezing)
#     verify        benign: `rnd = get_random_bytes(16); secret = rnd`  exit 0
#   lib/Crypto/Hash/TupleHash128.py
#     update        `_encode_str(item)` -> `item`                     exit 1  C03 TupleHash.update.ensures.absorbed
#     new           `digest_bits < 64 or digest_bits % 8` -> `digest_bits < 64`   exit 1  C03 TupleHash128.new.raises_iff.ValueError.if
#     update        `if self._digest is not None:` -> `is None`       exit 1  C10 TupleHash.update.raises_iff.TypeError.if
#     digest        `_right_encode(..)` -> `_left_encode(..)`         exit 2  (name not imported in that module: undecided, not a pass)
