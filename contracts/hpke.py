"""Contracts for lib/Crypto/Protocol/HPKE.py (C15, C11).  Spec: spec/rfc9180.py (RFC 9180), HKDF from spec/kdf.py (RFC 5869).

Abstract collaborators (ASSUMED, each names what covers it): ECC key objects (ghost g_pub = SerializePublicKey of the key's
public point), key import / generation, ECDH inside DH.key_agreement (uninterpreted DH), the GCM / ChaCha20-Poly1305 cipher
objects (uninterpreted RFC 5116 Seal / Open), strxor.  _HKDF_extract/_HKDF_expand: contracts proved in contracts/kdf.py (C12)."""
import z3

from vf.pyvc.contracts import Contract, ClassContract, apply_opaque, eval_single
from vf.pyvc import interp as _interp
from vf.pyvc import loader
from vf.pyvc.interp import BuiltinV, exc
from vf.pyvc.values import (BYTES, HObj, Ref, SBytes, SOpaque, ANY, Unsupported, is_byteslike, mk_bytes, zbytes)
from .base import base_registry
from .kdf import add_hash_natives, add_hkdf, HASHMOD, xor_value, m_strxor      # noqa  (also registers bytes_xor / conj / disj)

H = 'Crypto.Protocol.HPKE.'
HC = H + 'HPKE_Cipher'
ECCKEY = 'Crypto.PublicKey.ECC.EccKey'
KEY = 'obj:' + ECCKEY
R = 'spec.rfc9180.'
# the canonical curve names of Crypto.PublicKey.ECC (EccKey.curve is always one of them: class invariant, C05)
CURVES = "enum('NIST P-256','NIST P-384','NIST P-521','Curve25519','Curve448','NIST P-192','NIST P-224','Ed25519','Ed448')"
HPKE_CURVES = ('NIST P-256', 'NIST P-384', 'NIST P-521', 'Curve25519', 'Curve448')

# ---------------------------------------------------------------------------------------------- ECC keys, DH

def _new_key(st, curve, d, pub):
    h = HObj('obj', cls=loader.find_class(ECCKEY), fields={'curve': curve, '_d': d, 'g_pub': pub})
    h.ghost_id = ECCKEY
    return st.alloc(h)


def _field(E, st, ref, name):
    """read a (possibly lazily typed) field: list of (state, value)"""
    sink = []
    r = list(E.getattr(ref, name, st, sink))
    if sink:
        raise Unsupported('reading %s raised' % name)
    return r


def _kem(E, st, curve):
    return eval_single(E, R + 'kem_of_curve(c)', st, {'c': curve})


def m_key_agreement(E, st, args, kwargs):
    """Crypto.Protocol.DH.key_agreement(kdf=, eph_priv= | eph_pub=, static_priv=, static_pub=) for the four key
    combinations of RFC 9180 4.1 (SP 800-56A C(1e,1s) / C(1e,2s)):   Z = Ze || Zs,  result = kdf(Z)
        sender   (eph_priv, static_pub[, static_priv]):  Ze = DH(eph_priv, static_pub),  Zs = DH(static_priv, static_pub) or ''
        receiver (eph_pub, static_priv[, static_pub]):   Ze = DH(static_priv, eph_pub),  Zs = DH(static_priv, static_pub) or ''
    raises ValueError iff one of the DH results is the neutral element / all-zero value (7.1.4; DH._compute_ecdh); the private
    keys being well formed (C05), that is a property of the public key alone: spec.rfc9180.dh_invalid(kem, pk).
    Caller obligations (the function answers them with TypeError): all keys on one curve, *_priv keys are private.
    ASSUMED: the Python composition is DH.key_agreement's documented behaviour, the ECDH value is C06's
    (bounded: bounded/ec.py ECDH against the reference ladder / RFC 7748 vectors)."""
    E.registry.used.add('Crypto.Protocol.DH.key_agreement')
    if args:
        return [('raise', st, exc(TypeError, 'key_agreement() takes 0 positional arguments'))]
    kw = dict(kwargs)
    kdf = kw.pop('kdf', None)
    keys = {k: kw.pop(k, None) for k in ('eph_priv', 'eph_pub', 'static_priv', 'static_pub')}
    if kw or kdf is None:
        raise Unsupported('key_agreement: unexpected parameters')
    sender = keys['eph_priv'] is not None and keys['eph_pub'] is None and keys['static_pub'] is not None
    receiver = keys['eph_pub'] is not None and keys['eph_priv'] is None and keys['static_priv'] is not None
    if sender == receiver:
        raise Unsupported('key_agreement: key combination outside RFC 9180')
    present = [(k, v) for k, v in keys.items() if v is not None]
    # resolve curve / privacy / public serialization of every key (forks on lazily typed fields)
    states = [(st, {})]
    for k, ref in present:
        nxt = []
        for s0, acc in states:
            for s1, curve in _field(E, s0, ref, 'curve'):
                for s2, d in _field(E, s1, ref, '_d'):
                    for s3, pub in _field(E, s2, ref, 'g_pub'):
                        a2 = dict(acc)
                        a2[k] = (curve, d, pub)
                        nxt.append((s3, a2))
        states = nxt
    outs = []
    where = 'call of Crypto.Protocol.DH.key_agreement'
    for s0, acc in states:
        curve = acc[present[0][0]][0]
        same = all(acc[k][0] == curve for k, _ in present)
        E.oblige(s0, z3.BoolVal(bool(same)), 'call_pre', where, {'clause': 'all keys are on the same curve'})
        for k in ('eph_priv', 'static_priv'):
            if k in acc:
                E.oblige(s0, z3.BoolVal(acc[k][1] is not None), 'call_pre', where, {'clause': '%s is a private key' % k})
        kem = _kem(E, s0, curve)

        def dh(s, priv, pub):
            z = apply_opaque(E, R + 'DH', s, [kem, acc[priv][2], acc[pub][2]], {})[0][2]
            bad = apply_opaque(E, R + 'dh_invalid', s, [kem, acc[pub][2]], {})[0][2]
            return z, bad
        if sender:
            ze, bad_e = dh(s0, 'eph_priv', 'static_pub')
        else:
            ze, bad_e = dh(s0, 'static_priv', 'eph_pub')
        bads = [bad_e.t]
        z = ze
        if 'static_priv' in acc and 'static_pub' in acc:
            zs, bad_s = dh(s0, 'static_priv', 'static_pub')
            bads.append(bad_s.t)
            z = mk_bytes(z3.Concat(zbytes(ze), zbytes(zs)))
        bad, ok = E.split(s0, z3.Or(bads) if len(bads) > 1 else bads[0])
        if bad is not None:
            outs.append(('raise', bad, exc(ValueError, 'Invalid ECDH point')))
        if ok is not None:
            outs.extend(E.call(kdf, [z], {}, ok))
    return outs


def add_natives(reg, curve=None):
    """curve: None = EccKey.curve ranges over all canonical names; a name = every key of the proof is on that curve (the
    DHKEM functions require all their keys on one curve, so instantiating per curve is exhaustive there)"""
    add_hash_natives(reg)
    add_hkdf(reg)
    reg.models['Crypto.Util.strxor.strxor'] = m_strxor
    reg.models['Crypto.Protocol.DH.key_agreement'] = m_key_agreement
    # ---- ECC key objects: the real class with ghost state.  g_pub = SerializePublicKey(public point) (RFC 9180 7.1.1:
    # SEC1 uncompressed for the NIST curves, RFC 7748 u-coordinate for X25519/X448); _d = private scalar or None.
    # has_private() is the real method (inlined).
    reg.add(ClassContract(ECCKEY, fields={'curve': CURVES if curve is None else ('const', curve), '_d': 'any|none', 'g_pub': 'bytes'},
                          doc='EccKey (C05: curve is a canonical name; the public point matches the private scalar)'))
    why_key = 'ECC key objects (C05/C08 contracts; bounded: bounded/ec.py key generation, export/import round trips)'
    reg.add(Contract(ECCKEY + '.public_key', params={}, result=KEY, modifies=[],
                     ensures={'curve': 'result.curve == self.curve', 'public': 'result._d is None', 'pub': 'result.g_pub == self.g_pub'},
                     assumed=why_key))
    reg.add(Contract(ECCKEY + '.export_key', params={'kwargs': 'any'},
                     requires=['len(kwargs) == 1', 'kwargs["format"] == "raw"', 'self._d is None'], modifies=[],
                     returns='self.g_pub', options={'exact': True},
                     assumed=why_key + "; export_key(format='raw') of a public key == SerializePublicKey (RFC 9180 7.1.1)"))
    reg.add(ClassContract('native.EccPoint', fields={'g_size': 'int'}, abstract=True))
    reg.add(Contract(ECCKEY + '.pointQ', params={}, result='obj:native.EccPoint', modifies=[],
                     ensures={'size': 'self.curve in ("NIST P-256", "NIST P-384", "NIST P-521") ==> result.g_size == %scoord_size(self.curve)' % R},
                     assumed=why_key + '; EccPoint.size_in_bytes() == bytes of the field modulus (SEC1 2.3.5)'))
    reg.add(Contract('native.EccPoint.size_in_bytes', params={'self': 'obj:native.EccPoint'}, returns='self.g_size', modifies=[],
                     options={'exact': True}, assumed=why_key))
    reg.add(Contract('Crypto.PublicKey.ECC.generate', params={'kwargs': 'any'}, requires=['len(kwargs) == 1'],
                     result=KEY, modifies=[],
                     ensures={'curve': 'result.curve == kwargs["curve"]', 'private': 'result._d is not None'},
                     assumed=why_key + '; GenerateKeyPair(): a fresh private key on the requested curve (system entropy: any key)'))
    why_imp = ('public key import == DeserializePublicKey with the validation of RFC 9180 7.1.4 (C08/C05 contracts of ECC.import_key / '
               '_import_curve25519_public_key / _import_curve448_public_key; bounded: bounded/ec.py import of valid, off-curve, '
               'low-order and non-canonical encodings)')
    for fn, curve, kem in (('Crypto.Protocol.DH.import_x25519_public_key', 'Curve25519', 0x20),
                           ('Crypto.Protocol.DH.import_x448_public_key', 'Curve448', 0x21)):
        reg.add(Contract(fn, params={'encoded': 'bytes'}, raises={'ValueError': ('iff', 'not %spk_ok(%d, encoded)' % (R, kem))},
                         result=KEY, modifies=[],
                         ensures={'curve': 'result.curve == "%s"' % curve, 'public': 'result._d is None',
                                  'pub': 'result.g_pub == %spk_canon(%d, encoded)' % (R, kem)},
                         assumed=why_imp))
    reg.add(Contract('Crypto.PublicKey.ECC.import_key', params={'encoded': 'bytes', 'passphrase': 'none', 'curve_name': CURVES},
                     # described only on the domain HPKE uses it: an uncompressed SEC1 string of the curve's length
                     requires=['curve_name in ("NIST P-256", "NIST P-384", "NIST P-521")',
                               'len(encoded) == 1 + 2 * %scoord_size(curve_name)' % R, 'encoded[0] == 4'],
                     raises={'ValueError': ('iff', 'not %spk_ok(%skem_of_curve(curve_name), encoded)' % (R, R))},
                     result=KEY, modifies=[],
                     ensures={'curve': 'result.curve == curve_name', 'public': 'result._d is None',
                              'pub': 'result.g_pub == %spk_canon(%skem_of_curve(curve_name), encoded)' % (R, R)},
                     assumed=why_imp + '; an uncompressed SEC1 point is accepted iff it is on the curve'))
    # ---- AEAD cipher objects (GCM with mac_len 16, ChaCha20-Poly1305): ghost (family, key, nonce, aad, used)
    why_aead = ('GcmMode / ChaCha20Poly1305Cipher objects == RFC 5116 AEAD_AES_*_GCM / RFC 8439 AEAD_CHACHA20_POLY1305: '
                'encrypt_and_digest == Seal, decrypt_and_verify accepts exactly the authentic (ct, tag) and returns the plaintext '
                '(C01/C02 contracts of contracts/gcm.py, chachapoly.py; call order C10; bounded: bounded/modes.py GCM, ChaCha20-Poly1305)')
    reg.add(ClassContract('native.AEAD', fields={'g_fam': 'int', 'g_key': 'bytes', 'g_nonce': 'bytes', 'g_aad': 'bytes', 'g_used': 'bool'},
                          abstract=True))
    tup = '(self.g_fam, self.g_key, self.g_nonce, self.g_aad'
    reg.add(Contract('native.AEAD.update', params={'self': 'obj:native.AEAD', 'assoc_data': 'bytes'}, requires=['not self.g_used'],
                     sets={'self.g_aad': 'old(self.g_aad) + assoc_data'}, modifies=['self.g_aad'], returns='self',
                     options={'exact': True}, assumed=why_aead))
    reg.add(Contract('native.AEAD.encrypt_and_digest', params={'self': 'obj:native.AEAD', 'plaintext': 'bytes'}, requires=['not self.g_used'],
                     sets={'self.g_used': 'True'}, modifies=['self.g_used'],
                     returns='(%saead_ct%s, plaintext), %saead_tag%s, plaintext))' % (R, tup, R, tup),
                     options={'exact': True}, assumed=why_aead))
    reg.add(Contract('native.AEAD.decrypt_and_verify', params={'self': 'obj:native.AEAD', 'ciphertext': 'bytes', 'received_mac_tag': 'bytes'},
                     requires=['not self.g_used'],
                     raises={'ValueError': ('iff', 'not %saead_open_ok%s, ciphertext + received_mac_tag)' % (R, tup))},
                     sets={'self.g_used': 'True'}, modifies=['self.g_used'], result='bytes',
                     options={'on_raise_modifies': ['self.g_used']},
                     # RFC 5116 2.2: the operation returns the plaintext P, i.e. the P whose authenticated encryption is C
                     ensures={'inverse': '%saead_ct%s, result) + %saead_tag%s, result) == ciphertext + received_mac_tag' % (R, tup, R, tup)},
                     assumed=why_aead))
    reg.add(Contract('Crypto.Cipher.AES.new', params={'key': 'bytes', 'mode': 'int', 'args': 'any', 'kwargs': 'any'},
                     requires=['mode == 11', 'len(args) == 0', 'len(kwargs) == 2', 'kwargs["mac_len"] == 16'],
                     raises={'ValueError': ('iff', 'len(key) not in (16, 24, 32) or len(kwargs["nonce"]) == 0')},
                     result='obj:native.AEAD', modifies=[],
                     ensures={'fam': 'result.g_fam == 1', 'key': 'result.g_key == key', 'nonce': 'result.g_nonce == kwargs["nonce"]',
                              'aad': 'result.g_aad == b""', 'fresh': 'not result.g_used'},
                     assumed=why_aead + '; AES.new(key, MODE_GCM, nonce=, mac_len=16): AES-128/192/256 by key length, non-empty nonce'))
    reg.add(Contract('Crypto.Cipher.ChaCha20_Poly1305.new', params={'kwargs': 'any'}, requires=['len(kwargs) == 2', 'len(kwargs["nonce"]) == 12'],
                     raises={'ValueError': ('iff', 'len(kwargs["key"]) != 32')},
                     result='obj:native.AEAD', modifies=[],
                     ensures={'fam': 'result.g_fam == 2', 'key': 'result.g_key == kwargs["key"]', 'nonce': 'result.g_nonce == kwargs["nonce"]',
                              'aad': 'result.g_aad == b""', 'fresh': 'not result.g_used'},
                     assumed=why_aead + '; ChaCha20_Poly1305.new(key=, nonce= 12 bytes): the IETF variant of RFC 8439'))
    return reg


# ---------------------------------------------------------------------------------------------- HPKE.py

def _suite(o):
    return '%ssuite_id_hpke(%s._kem_id, %s._kdf_id, %s._aead_id)' % (R, o, o, o)


def add_hpke(reg, new_other_curve=False):
    # ---- labeled KDF functions (RFC 9180 section 4)
    reg.add(Contract(H + '_labeled_extract', params={'salt': 'bytes', 'label': 'bytes', 'ikm': 'bytes', 'suite_id': 'bytes', 'hashmod': HASHMOD},
                     raises={}, modifies=[],
                     ensures={'value': 'result == %slabeled_extract(hashmod.g_alg, salt, label, ikm, suite_id)' % R,
                              'len': 'len(result) == hashmod.digest_size'},
                     returns='%slabeled_extract(hashmod.g_alg, salt, label, ikm, suite_id)' % R,
                     opaque=['spec.kdf.hkdf_extract']))
    reg.add(Contract(H + '_labeled_expand',
                     params={'prk': 'bytes', 'label': 'bytes', 'info': 'bytes', 'L': 'int', 'suite_id': 'bytes', 'hashmod': HASHMOD},
                     # RFC 9180 4: L <= 255*Nh (Expand) and L fits I2OSP(L, 2): obligations at HPKE's call sites
                     requires=['0 <= L', 'L <= 65535', 'L <= 255 * hashmod.digest_size'],
                     raises={}, modifies=[],
                     ensures={'value': 'result == %slabeled_expand(hashmod.g_alg, prk, label, info, L, suite_id)' % R, 'len': 'len(result) == L'},
                     returns='%slabeled_expand(hashmod.g_alg, prk, label, info, L, suite_id)' % R,
                     opaque=['spec.kdf.hkdf_expand']))
    reg.add(Contract(H + '_extract_and_expand', params={'dh': 'bytes', 'kem_context': 'bytes', 'suite_id': 'bytes', 'hashmod': HASHMOD},
                     requires=['hashmod.digest_size <= 65535'], raises={}, modifies=[],
                     ensures={'value': 'result == %sextract_and_expand(hashmod.g_alg, dh, kem_context, suite_id, hashmod.digest_size)' % R,
                              'len': 'len(result) == hashmod.digest_size'},
                     returns='%sextract_and_expand(hashmod.g_alg, dh, kem_context, suite_id, hashmod.digest_size)' % R,
                     opaque=[R + 'labeled_extract', R + 'labeled_expand']))
    # ---- the context object
    reg.add(ClassContract(HC, fields={
        'enc': 'bytes', '_curve': CURVES, '_aead_id': 'int[1..3]', '_mode': 'int[0..3]', '_kem_id': 'int', '_kdf_id': 'int',
        '_hashmod': HASHMOD, '_Nk': 'int', '_Nn': ('const', 12), '_Nt': ('const', 16), '_Nh': 'int', '_encrypt': 'bool',
        '_sequence': 'int', '_max_sequence': ('const', 2 ** 96 - 1), '_key': 'bytes', '_base_nonce': 'bytes', '_export_secret': 'bytes'},
        valid=['0 <= self._sequence', 'self._sequence <= self._max_sequence', 'self._max_sequence == 2 ** 96 - 1',
               'self._Nn == 12', 'self._Nt == 16', 'self._Nk == %saead_nk(self._aead_id)' % R,
               'len(self._key) == self._Nk', 'len(self._base_nonce) == self._Nn',
               'self._kem_id in (0x0010, 0x0011, 0x0012, 0x0020, 0x0021)',
               'self._kdf_id == %slib_kdf_of_kem(self._kem_id)' % R,
               'self._hashmod.g_alg == %skdf_hash(self._kdf_id)' % R,
               'self._Nh == self._hashmod.digest_size']))
    reg.add(Contract(HC + '._verify_psk_inputs', params={'mode': 'int[0..3]', 'psk_pair': 'tuple(bytes,bytes)'},
                     raises={'ValueError': ('iff', 'not %spsk_inputs_ok(mode, psk_pair[1], psk_pair[0])' % R)},
                     modifies=[], bv_width=1))
    # ---- key schedule (RFC 9180 5.1).  Called from __init__ before the object is complete: explicit preconditions, no valid(self)
    ks_args = 'self._hashmod.g_alg, %s, self._mode, shared_secret, info, psk, psk_id' % _suite('self')
    reg.add(Contract(HC + '._key_schedule', params={'shared_secret': 'bytes', 'info': 'bytes', 'psk_id': 'bytes', 'psk': 'bytes'},
                     options={'assume_valid': False},
                     requires=['valid(self._hashmod)', '0 <= self._kem_id <= 65535', '0 <= self._kdf_id <= 65535',
                               'self._Nk == %saead_nk(self._aead_id)' % R, 'self._Nh == self._hashmod.digest_size', 'self._Nh <= 65535'],
                     raises={}, modifies=[],
                     ensures={'key': 'result[0] == %sks_key(%s, self._Nk)' % (R, ks_args),
                              'base_nonce': 'result[1] == %sks_base_nonce(%s)' % (R, ks_args),
                              'exporter_secret': 'result[2] == %sks_exporter_secret(%s, self._Nh)' % (R, ks_args),
                              'lengths': 'len(result[0]) == self._Nk and len(result[1]) == 12 and len(result[2]) == self._Nh'},
                     result='tuple(bytes,bytes,bytes)', opaque=[R + 'labeled_extract', R + 'labeled_expand']))
    # ---- DHKEM (RFC 9180 4.1): Encap / AuthEncap / Decap / AuthDecap.  A private key is designated in DH(kem, sk, pk) by the
    # serialization of its own public key, so the statement about a freshly generated ephemeral key is made through enc
    kem = R + 'kem_of_curve(receiver_key.curve)'
    pkR, pkS = 'receiver_key.g_pub', 'sender_key.g_pub'

    def secret(dh, ctx):
        return '%sextract_and_expand(hashmod.g_alg, %s, %s, %ssuite_id_kem(kem_id), hashmod.digest_size)' % (R, dh, ctx, R)

    def DH(sk, pk):
        return '%sDH(%s, %s, %s)' % (R, kem, sk, pk)

    def bad(pk):
        return '%sdh_invalid(%s, %s)' % (R, kem, pk)
    same_curve = ['sender_key is None or sender_key.curve == receiver_key.curve', 'hashmod.digest_size <= 65535']
    E_ = 'result[1]'
    reg.add(Contract(HC + '._encap',
                     params={'receiver_key': KEY, 'kem_id': 'int[0..65535]', 'hashmod': HASHMOD, 'sender_key': KEY + '|none', 'eph_key': KEY + '|none'},
                     requires=same_curve + ['receiver_key.curve in %r' % (HPKE_CURVES,), 'sender_key is None or sender_key.has_private()',
                                            'eph_key is None or (eph_key.has_private() and eph_key.curve == receiver_key.curve)'],
                     # 7.1.4: abort when a DH result is invalid (both DH operations of AuthEncap use pkR)
                     raises={'ValueError': ('iff', bad(pkR))},
                     modifies=[],
                     ensures={'enc': 'eph_key is not None ==> %s == eph_key.g_pub' % E_,
                              'base': 'sender_key is None ==> result[0] == ' + secret(DH(E_, pkR), '%s + %s' % (E_, pkR)),
                              'auth': 'sender_key is not None ==> result[0] == '
                                      + secret('%s + %s' % (DH(E_, pkR), DH(pkS, pkR)), '%s + %s + %s' % (E_, pkR, pkS)),
                              'len': 'len(result[0]) == hashmod.digest_size'},
                     result='tuple(bytes,bytes)', opaque=[R + 'extract_and_expand']))
    pkE = '%spk_canon(%s, enc)' % (R, kem)
    reg.add(Contract(HC + '._decap',
                     params={'enc': 'bytes', 'receiver_key': KEY, 'kem_id': 'int[0..65535]', 'hashmod': HASHMOD, 'sender_key': KEY + '|none'},
                     requires=same_curve + ['enc is not None', 'receiver_key.has_private()', 'receiver_key.curve in %r' % (HPKE_CURVES,)],
                     raises={'DeserializeError': ('iff', 'not %spk_ok(%s, enc)' % (R, kem)),
                             'ValueError': ('iff', '%spk_ok(%s, enc) and (%s or (sender_key is not None and %s))'
                                            % (R, kem, bad(pkE), bad(pkS)))},
                     modifies=[],
                     ensures={'base': 'sender_key is None ==> result == ' + secret(DH(pkR, pkE), 'enc + ' + pkR),
                              'auth': 'sender_key is not None ==> result == '
                                      + secret('%s + %s' % (DH(pkR, pkE), DH(pkR, pkS)), 'enc + %s + %s' % (pkR, pkS)),
                              'len': 'len(result) == hashmod.digest_size'},
                     result='bytes', opaque=[R + 'extract_and_expand']))
    # ---- set-up: __init__ (SetupBaseS/R, SetupPSK*, SetupAuth*, SetupAuthPSK* of 5.1.1 - 5.1.4) and new()
    FIELDS = ['enc', '_curve', '_aead_id', '_mode', '_kem_id', '_kdf_id', '_hashmod', '_Nk', '_Nn', '_Nt', '_Nh', '_encrypt',
              '_sequence', '_max_sequence', '_key', '_base_nonce', '_export_secret']

    def setup(o, mode, psk_id, psk, info):
        """clauses describing a freshly set-up context `o`"""
        kem_ = '%s._kem_id' % o
        sending = 'receiver_key._d is None'
        pkE_ = '%spk_canon(%s, enc)' % (R, kem_)
        # dh and kem_context of Encap / AuthEncap (sender) and Decap / AuthDecap (receiver), 4.1
        dh = ('((%s if %s else %s) + ((%s if %s else %s) if sender_key is not None else b""))'
              % (DH('%s.enc' % o, pkR), sending, DH(pkR, pkE_), DH(pkS, pkR), sending, DH(pkR, pkS)))
        ctx = '((%s.enc if %s else enc) + %s + (%s if sender_key is not None else b""))' % (o, sending, pkR, pkS)
        ks = ('%skdf_hash(%s._kdf_id), %s, %s, %sdhkem_secret(%s, %s, %s), %s, %s, %s'
              % (R, o, _suite(o), mode, R, kem_, dh, ctx, info, psk, psk_id))
        out = {'valid': 'valid(%s)' % o, 'seq0': '%s._sequence == 0' % o, 'role': '%s._encrypt == (%s)' % (o, sending),
               'aead': '%s._aead_id == aead_id' % o, 'mode': '%s._mode == %s' % (o, mode),
               'kem': '%s == %s' % (kem_, kem), 'enc_R': 'not (%s) ==> %s.enc == enc' % (sending, o),
               'key': '%s._key == %sks_key(%s, %saead_nk(aead_id))' % (o, R, ks, R),
               'base_nonce': '%s._base_nonce == %sks_base_nonce(%s)' % (o, R, ks),
               'exporter_secret': '%s._export_secret == %sks_exporter_secret(%s, %skdf_nh(%s._kdf_id))' % (o, R, ks, R, o)}
        return out

    def refusals(mode, psk_id, psk):
        """(static_bad, pk_bad, dh_bad): set-up must be refused because of the PSK inputs / curve / enc presence; because enc
        does not deserialize; because a DH result is invalid.  On every path the guards over None-ness, roles and curves are
        concrete; the symbolic parts are combined with conj/disj (no path splitting)"""
        sending = 'receiver_key._d is None'
        psk_ok = '%spsk_inputs_ok(%s, %s, %s)' % (R, mode, psk, psk_id)
        supported = 'receiver_key.curve in %r' % (HPKE_CURVES,)
        static_bad = ('disj(not %s, not %s, (%s) and enc is not None, not (%s) and enc is None)' % (psk_ok, supported, sending, sending))
        pkE_ = '%spk_canon(%s, enc)' % (R, kem)
        receiving = '(%s and not (%s) and enc is not None)' % (supported, sending)
        pk_bad = '(%s and conj(%s, not %spk_ok(%s, enc)))' % (receiving, psk_ok, R, kem)
        dh_bad_R = ('(%s and conj(%spk_ok(%s, enc), disj(%s, sender_key is not None and %s)))' % (receiving, R, kem, bad(pkE_), bad(pkS)))
        dh_bad_S = '((%s) and %s)' % (sending, bad(pkR))
        return static_bad, pk_bad, 'disj(%s, %s)' % (dh_bad_R, dh_bad_S)
    one_private = 'sender_key is None or (sender_key.curve == receiver_key.curve and sender_key.has_private() != receiver_key.has_private())'
    static_bad, pk_bad, dh_bad = refusals('mode', 'psk_pair[0]', 'psk_pair[1]')
    ens = setup('self', 'mode', 'psk_pair[0]', 'psk_pair[1]', 'info')
    reg.add(Contract(HC + '.__init__',
                     params={'receiver_key': KEY, 'enc': 'bytes|none', 'sender_key': KEY + '|none', 'psk_pair': 'tuple(bytes,bytes)',
                             'info': 'bytes', 'aead_id': 'int[1..3]', 'mode': 'int[0..3]'},
                     # a refusing constructor may already have assigned some fields of the (then unreachable) object
                     options={'assume_valid': False, 'on_raise_modifies': ['self.' + f for f in FIELDS]}, requires=[one_private],
                     # invalid PSK / key / enc combinations are refused at set-up, and nothing else is
                     raises={'DeserializeError': ('iff', pk_bad),
                             'ValueError': ('iff', 'disj(%s, %s)' % (static_bad, dh_bad))},
                     ensures=ens, modifies=['self.' + f for f in FIELDS],
                     opaque=[R + 'labeled_extract', R + 'labeled_expand', R + 'extract_and_expand', R + 'psk_inputs_ok']))
    # new(): mode selection (Table 1) from sender_key / psk, exactly one private key, curve match, supported AEAD and curve
    mode_e = '%smode_of(sender_key is not None, psk is not None)' % R
    psk_id_e, psk_e, info_e = '(psk[0] if psk is not None else b"")', '(psk[1] if psk is not None else b"")', '(info if info is not None else b"")'
    keys_bad = ('(sender_key is not None and (sender_key.has_private() == receiver_key.has_private() or sender_key.curve != receiver_key.curve))')
    static_bad, pk_bad, dh_bad = refusals(mode_e, psk_id_e, psk_e)
    new_bad = 'disj(aead_id not in (1, 2, 3), %s, %s)' % (keys_bad, static_bad)
    ens = setup('result', mode_e, psk_id_e, psk_e, info_e)
    # verified in two parts that together cover every input: per receiver curve with every key of the proof on that curve
    # (sender_key absent or on the same curve), and -- new_other_curve -- sender_key present on a different curve
    reg.add(Contract(H + 'new',
                     params={'receiver_key': KEY, 'aead_id': 'int', 'enc': 'bytes|none', 'sender_key': KEY + ('' if new_other_curve else '|none'),
                             'psk': 'tuple(bytes,bytes)|none', 'info': 'bytes|none'},
                     requires=['sender_key.curve != receiver_key.curve'] if new_other_curve else [],
                     raises={'DeserializeError': ('iff', 'conj(aead_id in (1, 2, 3), not %s, %s)' % (keys_bad, pk_bad)),
                             'ValueError': ('iff', 'disj(%s, %s)' % (new_bad, dh_bad))},
                     ensures=ens, modifies=[], result='obj:' + HC,
                     opaque=[R + 'labeled_extract', R + 'labeled_expand', R + 'extract_and_expand', R + 'psk_inputs_ok', R + 'ks_key',
                             R + 'ks_base_nonce', R + 'ks_exporter_secret', R + 'dhkem_secret']))
    # ---- C15 history / C11: the sequence number and the nonce
    seq_nonce = '%snonce(self._base_nonce, old(self._sequence))' % R
    reg.add(Contract(HC + '._new_cipher', params={},
                     raises={'MessageLimitReachedError': ('iff', 'self._sequence >= self._max_sequence')},
                     unchanged_on_raise=True,
                     ensures={'seq': 'self._sequence == old(self._sequence) + 1',
                              'nonce': 'result.g_nonce == ' + seq_nonce,
                              'key': 'result.g_key == self._key', 'fam': 'result.g_fam == %saead_family(self._aead_id)' % R,
                              'aad': 'result.g_aad == b""', 'fresh': 'not result.g_used', 'valid': 'valid(self)'},
                     modifies=['self._sequence'], result='obj:native.AEAD'))
    aad = '(auth_data if auth_data else b"")'
    reg.add(Contract(HC + '.seal', params={'plaintext': 'bytes', 'auth_data': 'bytes|none'},
                     raises={'MessageLimitReachedError': ('iff', 'self._encrypt and self._sequence >= self._max_sequence'),
                             'ValueError': ('iff', 'not self._encrypt')},
                     unchanged_on_raise=True,
                     ensures={'value': 'result == %saead_seal(self._aead_id, self._key, %s, %s, plaintext)' % (R, seq_nonce, aad),
                              'seq': 'self._sequence == old(self._sequence) + 1', 'valid': 'valid(self)'},
                     modifies=['self._sequence'], result='bytes', opaque=[R + 'nonce']))
    can_open = 'not self._encrypt and len(ciphertext) >= 16'
    authentic = ('%saead_open_ok(%saead_family(self._aead_id), self._key, %snonce(self._base_nonce, self._sequence), %s, ciphertext)'
                 % (R, R, R, aad))
    reg.add(Contract(HC + '.unseal', params={'ciphertext': 'bytes', 'auth_data': 'bytes|none'},
                     raises={'MessageLimitReachedError': ('iff', '%s and self._sequence >= self._max_sequence' % can_open),
                             'ValueError': ('iff', 'not (%s) or (self._sequence < self._max_sequence and not %s)' % (can_open, authentic))},
                     # RFC 9180 5.2 ContextR.Open: the sequence number advances only after a successful open
                     unchanged_on_raise=True,
                     ensures={'plaintext': '%saead_seal(self._aead_id, self._key, %s, %s, result) == ciphertext' % (R, seq_nonce, aad),
                              'seq': 'self._sequence == old(self._sequence) + 1', 'valid': 'valid(self)'},
                     lemmas={'exit': {'split': 'ciphertext == ciphertext[:len(ciphertext) - 16] + ciphertext[len(ciphertext) - 16:]'}},
                     modifies=['self._sequence'], result='bytes', opaque=[R + 'nonce']))
    return reg


def add_history_lemmas(reg):
    """hpke_history (C15) and nonce freshness (C11), by induction over the history of a context; the inductive steps are the
    client programs spec.rfc9180.receiver_step / sender_step, verified against the contracts of unseal() / seal():

      receiver: INV  ctx._sequence == accepted.   Step: for an ARBITRARY offered (ciphertext, aad) -- genuine, modified,
        replayed, truncated, out of order -- INV is preserved, accepted grows by one exactly when the message is the
        authentic AEAD message for nonce(base_nonce, accepted) (so the sender's message number i can only be accepted at
        accepted == i, and after a rejection the context still opens message number `accepted`: RFC 9180 5.2), and grows at
        all only below the limit 2**96 - 1.  Base: __init__ gives _sequence == 0 == accepted.
      sender: INV  ctx._sequence == sent.  Step: a successful seal() is Seal(key, nonce(base_nonce, sent), aad, pt) and
        sent' == sent + 1; a refused one changes nothing.  Hence the k-th sealed message uses nonce(base_nonce, k), k < 2**96 - 1,
        and by hpke.nonce_injective two different messages of one context never share a nonce (C11)."""
    S = 'spec.rfc9180.'
    authentic = ('%saead_open_ok(%saead_family(ctx._aead_id), ctx._key, %snonce(ctx._base_nonce, accepted), (aad if aad else b""), ciphertext)'
                 % (R, R, R))
    reg.add(Contract(S + 'receiver_step', params={'ctx': 'obj:' + HC, 'accepted': 'int', 'ciphertext': 'bytes', 'aad': 'bytes|none'},
                     requires=['ctx._sequence == accepted', 'not ctx._encrypt'], raises={}, modifies=['ctx._sequence'],
                     ensures={'inv': 'ctx._sequence == result', 'valid': 'valid(ctx)',
                              'counts': 'result == accepted + 1 or result == accepted',
                              'accepted_iff_authentic': '(result == accepted + 1) == conj(len(ciphertext) >= 16, accepted < 2 ** 96 - 1, %s)' % authentic},
                     opaque=[R + 'nonce'], result='int'))
    reg.add(Contract(S + 'sender_step', params={'ctx': 'obj:' + HC, 'sent': 'int', 'plaintext': 'bytes', 'aad': 'bytes|none'},
                     requires=['ctx._sequence == sent', 'ctx._encrypt'], raises={}, modifies=['ctx._sequence'],
                     ensures={'inv': 'ctx._sequence == result[0]', 'valid': 'valid(ctx)',
                              'refused_iff_exhausted': '(result[1] is None) == (sent >= 2 ** 96 - 1)',
                              'refused_unchanged': 'result[1] is None ==> result[0] == sent',
                              'sealed': 'result[1] is not None ==> (result[0] == sent + 1 and result[1] == '
                                        '%saead_seal(ctx._aead_id, ctx._key, %snonce(ctx._base_nonce, sent), (aad if aad else b""), plaintext))' % (R, R)},
                     opaque=[R + 'nonce']))
    return reg


# ---------------------------------------------------------------------------------------------- spec-level lemma units

def lemma_unit(prop, uid, build_registry, name, variables, hyps, steps, model_hint=()):
    """A spec-level lemma, discharged by SMT without any code: for all `variables` (name -> type), under `hyps` (named
    clauses), every clause of `steps` holds.  Stepwise (DESIGN 2.6): the steps are proved in order; each names the earlier
    facts it uses -- (clause, [names of hypotheses / earlier steps], use the defining facts of the spec symbols?) -- and only
    those are given to the solver, which keeps each query inside one theory.  Dropping hypotheses is sound for validity; a
    `sat`/`unknown` answer of such a weakened query is reported as undecided, never as a violation.  Solver configurations
    tried per step: z3's legacy simplex (arith.solver=2: decides the div/mod-by-constant steps at once), then the default.
    model_hint: extra clauses that pin down a model for the vacuity guard (hypotheses satisfiable)."""
    from vf.core import Unit

    def run():
        import time
        from vf.pyvc.interp import Engine, State, Frame
        from vf.pyvc.contracts import eval_clause, fresh_typed, _as_z3
        reg = build_registry()
        E = Engine(reg, {})
        st = State()
        st.frames.append(Frame({}, None))
        st.frame.spec_mode = True
        types = []
        for nm, typ in variables.items():
            n0 = len(st.pc)
            st.frame.env[nm] = fresh_typed(E, st, typ, nm)
            types += st.pc[n0:]
        known = {}
        for nm, cl in hyps.items():
            known[nm] = _as_z3(eval_clause(E, cl, st))
        results = []
        t_all = time.time()
        s0 = z3.Solver()
        s0.set('timeout', 10000)
        s0.add(*(types + list(known.values()) + [_as_z3(eval_clause(E, cl, st)) for cl in model_hint]))
        vac = s0.check()
        results.append({'id': '%s.%s.hypotheses_satisfiable' % (prop, name), 'kind': 'vacuity', 'clause': 'the hypotheses of the lemma are satisfiable',
                        'status': 'discharged' if vac == z3.sat else 'undecided', 'backend': 'z3', 'seconds': 0.0,
                        'detail': '' if vac == z3.sat else 'hypotheses: %s' % vac, 'witness': None})
        for nm, (cl, uses, with_facts) in steps.items():
            goal = _as_z3(eval_clause(E, cl, st))
            facts = [t for t in st.pc if t.get_id() in st.facts] if with_facts else []   # defining facts of the spec symbols
            hs = types + facts + [known[u] for u in uses]
            status, backend, t0 = 'undecided', 'z3', time.time()
            for cfg in ({'arith.solver': 2}, {}, {'arith.solver': 2, 'random_seed': 7}):
                s = z3.Solver()
                s.set('timeout', 20000)
                for k, v in cfg.items():
                    s.set(k, v)
                s.add(*hs)
                s.add(z3.Not(goal))
                if s.check() == z3.unsat:
                    status, backend = 'discharged', 'z3' + (' arith.solver=2' if cfg else '')
                    break
            results.append({'id': '%s.%s.%s' % (prop, name, nm), 'kind': 'lemma', 'clause': '%s   [from: %s]' % (cl, ', '.join(uses) or '-'),
                            'status': status, 'backend': backend, 'seconds': round(time.time() - t0, 3),
                            'detail': '' if status == 'discharged' else 'solver did not prove this step from the listed facts', 'witness': None})
            known[nm] = goal
        ok = all(r['status'] == 'discharged' for r in results)
        return {'functions': [{'target': 'lemma:' + name, 'engine': 'PYVC-spec', 'status': 'proved' if ok else 'not-proved', 'source': None,
                               'paths': 1, 'obligations': len(results), 'entry_states': 1, 'seconds': round(time.time() - t_all, 2)}],
                'results': results, 'assumptions': [], 'trusted': []}
    return Unit(uid, run, 'pyvc', ('quick', 'thorough'), 1)


def nonce_injective_unit(prop):
    """C11 / C15: ComputeNonce is injective in the sequence number on [0, 2**96): different messages of one context never share
    a nonce.  Statement proved: for every 12-byte base_nonce and s1, s2 in range,
            nonce(base_nonce, s1) == nonce(base_nonce, s2)  ==>  s1 == s2
    (xor with a constant is injective bytewise -- bit-vector step per byte -- and I2OSP(., 12) is injective below 256**12 --
    integer steps: equal digits give equal remainders mod 256**k, by induction on k)."""
    hyps = {'range': '0 <= s1 and s1 < 2 ** 96 and 0 <= s2 and s2 < 2 ** 96',
            'same_nonce': '%snonce(base, s1) == %snonce(base, s2)' % (R, R)}
    steps = {}
    for k in range(12):         # byte k of the nonce holds digit 11 - k of the sequence number
        steps['byte%d' % k] = ('nth(%snonce(base, s1), %d) == nth(%snonce(base, s2), %d)' % (R, k, R, k), ['same_nonce'], False)
    for k in range(12):
        steps['digit%d' % k] = ('(s1 // 256 ** %d) %% 256 == (s2 // 256 ** %d) %% 256' % (k, k), ['range', 'byte%d' % (11 - k)], True)
    steps['rem0'] = ('s1 % 1 == s2 % 1', [], False)
    for k in range(12):
        steps['rem%d' % (k + 1)] = ('s1 %% 256 ** %d == s2 %% 256 ** %d' % (k + 1, k + 1), ['range', 'rem%d' % k, 'digit%d' % k], False)
    steps['injective'] = ('s1 == s2', ['range', 'rem12'], False)
    return lemma_unit(prop, 'hpke.nonce_injective', registry, 'hpke.nonce_injective',
                      {'base': 'bytes[12]', 's1': 'int', 's2': 'int'}, hyps, steps, model_hint=['s1 == 5', 's2 == 5', 'base == bytes(12)'])


def registry(curve=None, new_other_curve=False):
    reg = base_registry()
    add_natives(reg, curve)
    add_hpke(reg, new_other_curve)
    add_history_lemmas(reg)
    return reg


def registry_for(curve):
    return lambda: registry(curve)


def _slug(curve):
    return curve.replace('NIST ', '').replace('-', '').replace('Curve', 'X')


ALL_CURVES = HPKE_CURVES + ('NIST P-192', 'NIST P-224', 'Ed25519', 'Ed448')


def units(prop, tier):
    from vf.pyunit import pyvc_unit
    S = 'spec.rfc9180.'
    if prop == 'C15':
        us = [pyvc_unit(prop, 'hpke.labeled', registry, [H + '_labeled_extract', H + '_labeled_expand', H + '_extract_and_expand']),
              pyvc_unit(prop, 'hpke.psk_inputs', registry, [HC + '._verify_psk_inputs']),
              pyvc_unit(prop, 'hpke.key_schedule', registry, [HC + '._key_schedule']),
              pyvc_unit(prop, 'hpke.new_cipher', registry, [HC + '._new_cipher'], weight=3),
              pyvc_unit(prop, 'hpke.seal', registry, [HC + '.seal']),
              pyvc_unit(prop, 'hpke.unseal', registry, [HC + '.unseal'], weight=3),
              pyvc_unit(prop, 'hpke.history_steps', registry, [S + 'receiver_step', S + 'sender_step']),
              nonce_injective_unit(prop),
              pyvc_unit(prop, 'hpke.new.other_curve', lambda: registry(None, True), [H + 'new'], weight=3)]
        for c in HPKE_CURVES:
            us.append(pyvc_unit(prop, 'hpke.kem.' + _slug(c), registry_for(c), [HC + '._encap', HC + '._decap'], weight=5))
        for c in ALL_CURVES:
            w = 6 if c in HPKE_CURVES else 1
            us.append(pyvc_unit(prop, 'hpke.init.' + _slug(c), registry_for(c), [HC + '.__init__'], weight=w))
            us.append(pyvc_unit(prop, 'hpke.new.' + _slug(c), registry_for(c), [H + 'new'], weight=w + 1))
        return us
    if prop == 'C12':
        # RFC 5869's L <= 255*HashLen is an obligation at every call site of _HKDF_expand: HPKE's are in _labeled_expand and its callers
        return [pyvc_unit(prop, 'hpke.labeled', registry, [H + '_labeled_extract', H + '_labeled_expand', H + '_extract_and_expand']),
                pyvc_unit(prop, 'hpke.key_schedule', registry, [HC + '._key_schedule'])]
    if prop == 'C11':
        # successive HPKE messages never share a nonce: _new_cipher (nonce == base_nonce xor I2OSP(seq, 12), seq' = seq + 1, refusal at
        # the limit with nothing changed), seal, the sender's induction step, and injectivity of the nonce in seq
        # the receiver side belongs here too: a context that re-opens under a nonce it has already used (its sequence number moved back
        # by a refused message) shares a nonce between two messages just as a sender would (seeded change C11-hpke-unseal-short-rewind)
        return [pyvc_unit(prop, 'hpke.new_cipher', registry, [HC + '._new_cipher'], weight=3),
                pyvc_unit(prop, 'hpke.seal', registry, [HC + '.seal']),
                pyvc_unit(prop, 'hpke.unseal', registry, [HC + '.unseal'], weight=3),
                pyvc_unit(prop, 'hpke.history_steps', registry, [S + 'receiver_step', S + 'sender_step']),
                nonce_injective_unit(prop)]
    return []


# ====================================================================================================================
# NOT PROVED / assumed / notes (C15, C11)
#
# NOT PROVED: Crypto.Protocol.DH.key_agreement: modelled (m_key_agreement: Z = Ze || Zs for the four key combinations of RFC 9180
#   4.1, ValueError iff a DH result is invalid), not verified here: DH.py belongs to the ECDH area (C06); its Python body is pure
#   composition and could be verified against exactly this model with _compute_ecdh abstract.
# NOT PROVED: the end-to-end round trip "unseal(seal(pt)) == pt for sender and receiver contexts set up from matching keys":
#   it needs DH(skE, pkR) == DH(skR, pkE), pk_canon(Serialize(pk)) == Serialize(pk) (C06/C08 facts about the abstract key objects)
#   and Open(Seal(pt)) == pt (C01); everything on the HPKE side of it is proved: both parties compute
#   ks_key/ks_base_nonce(dhkem_secret(kem, dh, enc || pkRm [|| pkSm]), ...) from the same formula (__init__/new contracts),
#   message number i is sealed and opened under nonce(base_nonce, i) (history steps below).
# Entropy: the ephemeral key of a sender is any key ECC.generate returns; the contract speaks about it through `enc`
#   (DH's private-key argument is designated by the serialization of ITS public key).
# Instantiations (exhaustive): _encap/_decap per HPKE curve (5), __init__/new per curve name of EccKey (9) with all keys of one
#   proof on that curve, plus new() with sender_key on a different curve (unit hpke.new.other_curve).
#
# History lemma (hpke_history), from the contracts of seal/unseal only (units hpke.history_steps, hpke.nonce_injective):
#   receiver_step: INV ctx._sequence == accepted is preserved by ANY offered message; accepted' == accepted + 1 iff the message is
#   >= 16 bytes, accepted < 2**96 - 1 and AEAD-authentic under nonce(base_nonce, accepted); otherwise ValueError and nothing changed.
#   sender_step: INV ctx._sequence == sent; a successful seal is Seal(key, nonce(base_nonce, sent), aad, pt), sent' == sent + 1; refusal
#   iff sent >= 2**96 - 1 with nothing changed.   By induction over the history (base: __init__ ensures _sequence == 0): the
#   receiver's sequence number equals the number of accepted messages, the sender's i-th message can be accepted only at
#   accepted == i, and (nonce_injective) no two messages of a context share a nonce.
#
# Finding met while writing the contracts (fixed in /repo by b56d0d60, clause now registered and proved): _decap accepted, for the
#   NIST curves, every key format ECC.import_key understands as `enc` (compressed SEC1, DER, PEM, OpenSSH, even a private key),
#   contrary to RFC 9180 7.1.1; clause: DeserializeError iff not spec.rfc9180.pk_ok(kem, enc).
#
# Mutants (tools/mut.py, lib/Crypto/Protocol/HPKE.py; exit code, obligation that caught it):
#   unseal: `self._sequence -= 1` -> `-= 0` (the repaired defect D2)            1  unseal.unchanged_on_ValueError.obj1._sequence
#   _new_cipher: `>= self._max_sequence` -> `>`                                 1  _new_cipher.raises_iff.MessageLimitReachedError.if, ensures.valid
#   _new_cipher: to_bytes(.., 'big') -> 'little'  (C11)                         1  _new_cipher.ensures.nonce
#   _labeled_expand: struct.pack('>H', L) -> '<H'                               1  _labeled_expand.ensures.value
#   _key_schedule: label b'key' -> b'kez'                                       1  _key_schedule.ensures.key
#   __init__: Nk table `== AEAD.AES128_GCM` -> `AES256_GCM`                     1  __init__.call_pre (Nk == aead_nk(aead_id) of _key_schedule)
#   _Curve_Config: P-384 hash SHA384 -> SHA512                                  1  __init__.ensures.valid / key / base_nonce (unit hpke.init.P384)
#   new: MODE.AUTH / MODE.AUTH_PSK swapped                                      1  new.raises_iff.*.only_if, ensures.mode
#   new: `count_private_keys != 1` -> `== 0`                                    1  new.call_pre (exactly one private key, of __init__)
#   _encap: extra_param = {'static_priv': sender_key} -> {} (AuthEncap DH lost) 1  _encap.ensures.auth
#   _decap: kem_context = enc + pkRm -> pkRm + enc                              1  _decap.ensures.base / auth
#   _decap: enc[0] != 4 -> != 3                                                 1  _decap.call_pre (import_key domain), raises_iff.DeserializeError.only_if
#   _verify_psk_inputs: len(psk) < 32 -> < 31                                   1  _verify_psk_inputs.raises_iff.ValueError.if
#   seal: aad update dropped                                                    1  seal.ensures.value
#   __init__: `if enc is None:` check disabled                                  1  __init__.call_pre (enc is not None, of _decap)
#   benign: strxor operands swapped in _new_cipher                              0
#   benign: locals ct, tag renamed in seal                                      0
