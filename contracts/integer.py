"""Contracts for lib/Crypto/Math/_IntegerNative.py and the shared part of _IntegerBase.py (C14; shared clauses reused by C16).

Every method of the `Integer` interface gets ONE set of clauses (CLAUSES below), written over the mathematical values
`ival(self)`, `ival(term)` ... of the operands (python ints in the engine ARE mathematical integers).  The clauses are taken
from the documented behaviour of the interface (docstrings of _IntegerBase.py / _IntegerGMP.py) and from the mathematics
(spec/integer.py), and are instantiated per back end: IntegerNative here, IntegerCustom / IntegerGMP in integer_gmp.py.
"""
from vf.pyvc.contracts import Contract, ClassContract
from .base import base_registry
from ._intcommon import add_entropy_model, add_lemmas, lemma_units, use_lean_number_contracts, class_value, sys_untouched, LEMMA_TEXT   # noqa  (registers the spec forms)

M = 'Crypto.Math.'
IN = M + '_IntegerNative.IntegerNative'
IB = M + '_IntegerBase.IntegerBase'
IC = M + '_IntegerCustom.IntegerCustom'
NUM = 'Crypto.Util.number.'

ORDER = "enum('big','little')|str"


def operand(cls):
    """an operand of a binary operation: a python int or an Integer of the same back end ("mixed int/Integer operands")"""
    return 'int|obj:' + cls


# ---------------------------------------------------------------------------------------------------------------------
# The shared interface contract.  name -> dict(params (operand names -> kind), raises, ensures, kind)
#   kind 'new'     : returns a NEW Integer of the same class as self; self and the operands are not modified
#   kind 'inplace' : modifies self only and returns self
#   kind 'query'   : pure; result is a python value of type `rtype`
# `V` = ival(old(self)); operands are referred to by ival(<name>).
# ---------------------------------------------------------------------------------------------------------------------
V = 'ival(old(self))'      # in ensures
V0 = 'ival(self)'          # in raises conditions (evaluated over the entry state)


def _new(params, value, raises=None, extra=None):
    e = {'value': value, 'type': 'type(result) is type(self)', 'fresh': 'result is not self'}
    e.update(extra or {})
    return {'kind': 'new', 'params': params, 'raises': raises or {}, 'ensures': e}


def _inplace(params, value, raises=None, extra=None):
    e = {'value': value, 'self': 'result is self'}
    e.update(extra or {})
    return {'kind': 'inplace', 'params': params, 'raises': raises or {}, 'ensures': e}


def _query(params, rtype, value, raises=None, extra=None):
    e = {'value': value, 'type': 'type(result) is %s' % rtype}
    e.update(extra or {})
    return {'kind': 'query', 'params': params, 'raises': raises or {}, 'ensures': e,
            'rtype': {'type(None)': 'none'}.get(rtype, rtype)}


MODULUS_RAISES = {'ZeroDivisionError': ('iff', 'ival(%s) == 0'), 'ValueError': ('iff', 'ival(%s) < 0')}


def _modr(name):
    return {k: (m, c % name) for k, (m, c) in MODULUS_RAISES.items()}


CLAUSES = {
    # ---- conversions
    '__int__': _query({}, 'int', 'result == %s' % V),
    '__index__': _query({}, 'int', 'result == %s' % V),
    # ---- relations (python bool)
    '__eq__': _query({'term': 'T|none'}, 'bool', 'result == (term is not None and %s == ival(term))' % V),
    '__ne__': _query({'term': 'T|none'}, 'bool', 'result == (term is None or %s != ival(term))' % V),
    '__lt__': _query({'term': 'T'}, 'bool', 'result == (%s < ival(term))' % V),
    '__le__': _query({'term': 'T'}, 'bool', 'result == (%s <= ival(term))' % V),
    '__gt__': _query({'term': 'T'}, 'bool', 'result == (%s > ival(term))' % V),
    '__ge__': _query({'term': 'T'}, 'bool', 'result == (%s >= ival(term))' % V),
    '__nonzero__': _query({}, 'bool', 'result == (%s != 0)' % V),
    'is_negative': _query({}, 'bool', 'result == (%s < 0)' % V),
    # ---- arithmetic
    '__add__': _new({'term': 'T'}, 'ival(result) == %s + ival(term)' % V),
    '__sub__': _new({'term': 'T'}, 'ival(result) == %s - ival(term)' % V),
    '__mul__': _new({'factor': 'T'}, 'ival(result) == %s * ival(factor)' % V),
    '__floordiv__': _new({'divisor': 'T'}, 'spec.integer.is_floor_quotient(%s, ival(divisor), ival(result))' % V,
                         raises={'ZeroDivisionError': ('iff', 'ival(divisor) == 0')}),
    '__mod__': _new({'divisor': 'T'}, 'spec.integer.is_residue(%s, ival(divisor), ival(result))' % V, raises=_modr('divisor'),
                    extra={'python_mod': 'ival(result) == %s %% ival(divisor)' % V}),      # (the same number, as python writes it)
    '__abs__': _new({}, 'ival(result) == (%s if %s >= 0 else -%s)' % (V, V, V)),
    '__iadd__': _inplace({'term': 'T'}, 'ival(self) == %s + ival(term)' % V),
    '__isub__': _inplace({'term': 'T'}, 'ival(self) == %s - ival(term)' % V),
    '__imul__': _inplace({'term': 'T'}, 'ival(self) == %s * ival(term)' % V),
    '__imod__': _inplace({'term': 'T'}, 'spec.integer.is_residue(%s, ival(term), ival(self))' % V, raises=_modr('term'),
                         extra={'python_mod': 'ival(self) == %s %% ival(term)' % V}),
    'multiply_accumulate': _inplace({'a': 'T', 'b': 'T'}, 'ival(self) == %s + ival(a) * ival(b)' % V),
    'set': _inplace({'source': 'T'}, 'ival(self) == ival(source)'),
    # ---- exponentiation: negative exponent ==> ValueError, negative modulus ==> ValueError, zero modulus ==> ZeroDivisionError.
    # C16 speaks of inputs violating a SINGLE precondition, so the two exception types are `only_if` and every normal return
    # proves that no precondition was violated ('domain'): an input violating exactly one precondition can then only raise
    # the exception of that precondition (no other type may escape), while the priority between two violated preconditions
    # (pow(x, -1, 0): ValueError in Native/Custom, ZeroDivisionError in GMP) is left open.
    'inplace_pow': _inplace({'exponent': 'T', 'modulus': 'T|none'},
                            'ival(self) == (ipow(%s, ival(exponent)) if modulus is None else modpow(%s, ival(exponent), ival(modulus)))' % (V, V),
                            raises={'ValueError': ('only_if', 'ival(exponent) < 0 or (modulus is not None and ival(modulus) < 0)'),
                                    'ZeroDivisionError': ('only_if', 'modulus is not None and ival(modulus) == 0')},
                            extra={'domain': 'ival(exponent) >= 0 and (modulus is None or ival(modulus) > 0)',
                                   'range': '(modulus is not None) ==> (0 <= ival(self) and ival(self) < ival(modulus))'}),
    '__pow__': _new({'exponent': 'T', 'modulus': 'T|none'},
                    'ival(result) == (ipow(%s, ival(exponent)) if modulus is None else modpow(%s, ival(exponent), ival(modulus)))' % (V, V),
                    raises={'ValueError': ('only_if', 'ival(exponent) < 0 or (modulus is not None and ival(modulus) < 0)'),
                            'ZeroDivisionError': ('only_if', 'modulus is not None and ival(modulus) == 0')},
                    extra={'domain': 'ival(exponent) >= 0 and (modulus is None or ival(modulus) > 0)'}),
    # ---- bit operations
    '__and__': _new({'term': 'T'}, 'ival(result) == bitand(%s, ival(term))' % V),
    '__or__': _new({'term': 'T'}, 'ival(result) == bitor(%s, ival(term))' % V),
    # shifts: negative count ==> ValueError; x >> n == floor(x / 2**n) for every n >= 0 (0 or -1 once all bits are gone)
    '__rshift__': _new({'pos': 'T'}, 'spec.integer.is_floor_quotient(%s, pow2(ival(pos)), ival(result))' % V,
                       raises={'ValueError': ('iff', 'ival(pos) < 0')}),
    '__irshift__': _inplace({'pos': 'T'}, 'spec.integer.is_floor_quotient(%s, pow2(ival(pos)), ival(self))' % V,
                            raises={'ValueError': ('iff', 'ival(pos) < 0')}),
    '__lshift__': _new({'pos': 'T'}, 'ival(result) == %s * pow2(ival(pos))' % V, raises={'ValueError': ('iff', 'ival(pos) < 0')}),
    '__ilshift__': _inplace({'pos': 'T'}, 'ival(self) == %s * pow2(ival(pos))' % V, raises={'ValueError': ('iff', 'ival(pos) < 0')}),
    'get_bit': _query({'n': 'T'}, 'bool', 'result == ((%s // pow2(ival(n))) %% 2 == 1)' % V,
                      raises={'ValueError': ('iff', '%s < 0 or ival(n) < 0' % V0)}),
    'is_odd': _query({}, 'bool', 'result == (%s %% 2 == 1)' % V),
    'is_even': _query({}, 'bool', 'result == (%s %% 2 == 0)' % V),
    'size_in_bits': _query({}, 'int', 'spec.integer.is_bit_size(%s, result)' % V, raises={'ValueError': ('iff', '%s < 0' % V0)},
                           extra={'bitlen': 'result == (1 if %s == 0 else bitlen(%s))' % (V, V)}),
    'size_in_bytes': _query({}, 'int', 'spec.integer.is_byte_size(%s, result)' % V, raises={'ValueError': ('iff', '%s < 0' % V0)}),
    'fail_if_divisible_by': _query({'small_prime': 'T'}, 'type(None)', 'result is None',
                                   raises={'ZeroDivisionError': ('iff', 'ival(small_prime) == 0'),
                                           'ValueError': ('iff', 'ival(small_prime) != 0 and %s %% ival(small_prime) == 0' % V0)}),
    # ---- modular inverse: no inverse ==> ValueError
    'inplace_inverse': _inplace({'modulus': 'T'}, '(%s * ival(self) - 1) %% ival(modulus) == 0' % V,
                                raises={'ZeroDivisionError': ('iff', 'ival(modulus) == 0'),
                                        'ValueError': ('iff', 'ival(modulus) < 0 or (ival(modulus) > 0 and gcd(%s, ival(modulus)) != 1)' % V0)},
                                extra={'range': '0 <= ival(self) and ival(self) < ival(modulus)'}),
    'inverse': _new({'modulus': 'T'}, '(%s * ival(result) - 1) %% ival(modulus) == 0' % V,
                    raises={'ZeroDivisionError': ('iff', 'ival(modulus) == 0'),
                            'ValueError': ('iff', 'ival(modulus) < 0 or (ival(modulus) > 0 and gcd(%s, ival(modulus)) != 1)' % V0)},
                    extra={'range': '0 <= ival(result) and ival(result) < ival(modulus)'}),
    'gcd': _new({'term': 'T'}, 'ival(result) == gcd(%s, ival(term))' % V,
                extra={'divides': 'ival(result) >= 0 and (ival(result) > 0 ==> (%s %% ival(result) == 0 and ival(term) %% ival(result) == 0))' % V,
                       'zero': '(ival(result) == 0) == (%s == 0 and ival(term) == 0)' % V}),
    'lcm': _new({'term': 'T'}, 'ival(result) == (0 if (%s == 0 or ival(term) == 0) else abs(%s * ival(term)) // gcd(%s, ival(term)))' % (V, V, V)),
    # ---- integer square root (Newton iteration in the pure-python back ends): r*r <= v < (r+1)*(r+1); negative ==> ValueError.
    # (modular square roots go through _tonelli_shanks, whose soundness is proved for python ints: contract below)
    'sqrt': _new({'modulus': 'none'}, 'spec.integer.is_isqrt(%s, ival(result))' % V, raises={'ValueError': ('iff', '%s < 0' % V0)}),
    'is_perfect_square': _query({}, 'bool', 'result == (%s >= 0 and spec.integer.isqrt(%s) * spec.integer.isqrt(%s) == %s)' % (V, V, V, V)),
    # ---- byte conversion (both byte orders; negative ==> ValueError; too large for block_size ==> ValueError)
    'to_bytes': _query({'block_size': 'nat', 'byteorder': ORDER}, 'bytes',
                       '(be(result) if byteorder == "big" else le(result)) == %s' % V,
                       raises={'ValueError': ('iff', '%s < 0 or byteorder not in ("big", "little") or (block_size > 0 and %s >= pow2(8 * block_size))' % (V0, V0))},
                       extra={'length': '(len(result) == block_size) if block_size > 0 else spec.integer.is_byte_size(%s, len(result))' % V}),
}

# how `self` is framed per back end
FRAME = {'native': ['self._value'], 'gmp': ['self._mpz_p.g_val']}


def interface_contracts(reg, cls, frame, names=None, self_type=None, per_method=None, rename=None):
    """instantiate the shared clauses for the methods `names` of class `cls` (qualified name)"""
    out = []
    T = operand(self_type[4:] if self_type else cls)
    import re
    for nm, d in CLAUSES.items():
        if names is not None and nm not in names:
            continue
        # a back end may name a parameter differently (GMP: __mul__(term), __imod__(divisor)): same clauses, renamed
        ren = (rename or {}).get(nm, {})
        def rn(txt, ren=ren):
            for a, b in ren.items():
                txt = re.sub(r'\b%s\b' % a, b, txt)
            return txt
        if ren:
            d = dict(d, params={ren.get(k, k): t for k, t in d['params'].items()},
                     raises={k: (m, rn(c)) for k, (m, c) in d['raises'].items()}, ensures={k: rn(c) for k, c in d['ensures'].items()})
        params = {k: t.replace('T', T) for k, t in d['params'].items()}
        kwargs = dict(params=params, raises=d['raises'], ensures=d['ensures'],
                      modifies=(list(frame) if d['kind'] == 'inplace' else []), self_type=self_type)
        # what callers see of the result
        if d['kind'] == 'inplace':
            kwargs['returns'] = 'self'
        elif d['kind'] == 'new':
            kwargs['result'] = 'obj:' + (self_type[4:] if self_type else cls)
        else:
            kwargs['result'] = d['rtype']
        kwargs.update((per_method or {}).get(nm, {}))
        out.append(reg.add(Contract(cls + '.' + nm, **kwargs)))
    return out


# per-method proof help for IntegerNative (options / lemmas only: never clauses)
_NEWTON = ['x >= 0', 'y >= 0', 'value >= 1 ==> y >= 1', 'value == 0 ==> x == 0', '(x + 1) * (x + 1) > value', '(y + 1) * (y + 1) > value',
           'y >= x ==> x * x <= value']
_NEWTON2 = ['x >= 1', 'square_x == x * x', '(x + 1) * (x + 1) > self._value']
NATIVE_HELP = {
    # |v*t // g| == |v*t| // g because g = gcd(v, t) divides v*t
    'lcm': {'lemmas': {'exit': {'div': '(ival(self) == 0 or ival(term) == 0) or lemma("integer.mul_divisible", ival(self), ival(term), gcd(ival(self), ival(term)))',
                                'exact': '(ival(self) == 0 or ival(term) == 0) or lemma("integer.div_exact", ival(self) * ival(term), gcd(ival(self), ival(term)))'}}},
    'sqrt': {'loops': {0: {'invariant': _NEWTON}}},
    'is_perfect_square': {'loops': {0: {'invariant': _NEWTON2}},
                          'lemmas': {'exit': {'root': 'self._value < 2 or spec.integer.is_isqrt(self._value, x)',
                                              'unique': 'self._value < 2 or lemma("integer.isqrt_unique", self._value, x, spec.integer.isqrt(self._value))',
                                              'small': 'self._value < 0 or self._value >= 2 or spec.integer.isqrt(self._value) == self._value'}}},
    '__and__': {'options': {'bitops': 'uf'}}, '__or__': {'options': {'bitops': 'uf'}},
    'size_in_bits': {'options': {'int_lemmas': []}}, 'size_in_bytes': {'options': {'int_lemmas': []}},
    'to_bytes': {'options': {'int_lemmas': []}},
}


# static / class methods and the constructor: same clauses for every back end, parametrised by the class
def static_contracts(reg, cls, impl_cls=None, help_=None):
    """cls: the class the objects belong to; impl_cls: the class whose source defines the function (default cls)"""
    impl = impl_cls or cls
    help_ = help_ or {}
    T = operand(cls)
    out = []
    if not help_.get('skip_init'):
        out.append(reg.add(Contract(impl + '.__init__', params={'value': T}, raises={},
                                    ensures={'value': 'ival(self) == ival(value)'}, modifies=FRAME['native'],
                                    self_type='obj:' + cls, **help_.get('__init__', {}))))
    out.append(reg.add(Contract(impl + '.from_bytes', params={'cls': class_value(cls), 'byte_string': 'bytes', 'byteorder': ORDER}
                                if impl == IN else {'byte_string': 'bytes', 'byteorder': ORDER},
                                raises={'ValueError': ('iff', 'byteorder not in ("big", "little")')},
                                ensures={'value': 'ival(result) == (be(byte_string) if byteorder == "big" else le(byte_string))',
                                         'type': 'type(result) is cls' if impl == IN else 'isinstance(result, %s)' % cls.split('.')[-1]},
                                modifies=[], result='obj:' + cls, **help_.get('from_bytes', {}))))
    # constant-time modular multiplication used by RSA decryption: odd positive modulus, fixed-length big-endian result
    TM = help_.get('mult_operand', T)
    TM = list(TM) if isinstance(TM, (list, tuple)) else [TM] * 3          # one kind for all three operands, or one per operand
    out.append(reg.add(Contract(impl + '._mult_modulo_bytes', params={'term1': TM[0], 'term2': TM[1], 'modulus': TM[2]},
                                raises={'ZeroDivisionError': ('iff', 'ival(modulus) == 0'),
                                        'ValueError': ('iff', 'ival(modulus) < 0 or (ival(modulus) > 0 and ival(modulus) % 2 == 0)')},
                                ensures={'value': 'be(result) == (ival(term1) * ival(term2)) % ival(modulus)',
                                         'length': 'spec.integer.is_byte_size(ival(modulus), len(result))',
                                         'type': 'type(result) is bytes'},
                                modifies=[], result='bytes', **help_.get('_mult_modulo_bytes', {'options': {'int_lemmas': []}}))))
    return out


# ---------------------------------------------------------------------------------------------------------------------
# C18: IntegerBase.random / random_range  (entropy = ghost tapes, contracts/_intcommon.py)
# ---------------------------------------------------------------------------------------------------------------------
RF = 'kwarg("randfunc")'
TP = 'tape_of(%s)' % RF                       # the tape the entropy must come from: the caller's, else the system's
P0 = 'old(%s.g_pos)' % TP                     # its cursor at entry
EB, MB = 'kwarg("exact_bits")', 'kwarg("max_bits")'
BITS = '(%s if %s is not None else %s)' % (EB, EB, MB)
EXACT = '(%s is not None)' % EB
NB = '((%s - 1) // 8 + 1)' % BITS             # bytes needed: ceil(bits / 8)
SB = '(8 - (%s * 8 - %s))' % (NB, BITS)       # significant bits of the first byte, 1..8
# "all entropy through randfunc": with a caller tape the system RNG is not read (a caller may also pass the system tape itself)
SYS_UNTOUCHED = sys_untouched(TP)


def random_contracts(reg, cls=IN):
    from ._intcommon import kw, TAPE_T
    out = []
    rest = 'tape(%s, %s + 1, %s - 1)' % (TP, P0, NB)
    top = 'spec.integer.random_top(nth(tape(%s, %s, 1), 0), %s, %s)' % (TP, P0, SB, EXACT)
    out.append(reg.add(Contract(
        IB + '.random',
        params={'cls': class_value(cls),
                'kwargs': [kw(exact_bits='pos', randfunc=TAPE_T), kw(max_bits='pos', randfunc=TAPE_T), kw(exact_bits='pos'),
                           kw(max_bits='pos'), kw(max_bits='pos', randfunc='none'), kw(randfunc=TAPE_T), kw(),
                           kw(exact_bits='pos', max_bits='pos', randfunc=TAPE_T)]},
        requires=['valid(%s)' % RF],
        raises={'ValueError': ('iff', '(%s is None) == (%s is None)' % (EB, MB))},
        on_raise={'ValueError': ['%s.g_pos == %s' % (TP, P0)]},
        ensures={
            # reads exactly ceil(bits/8) bytes from the caller's randfunc (from the system RNG only when none was given)
            'reads': '%s.g_pos == %s + %s' % (TP, P0, NB),
            'system_untouched': SYS_UNTOUCHED,
            # the value: first byte masked to the significant bits (top bit forced for exact_bits), the rest as read, big-endian
            'value': 'ival(result) == spec.integer.candidate(%s.g_id, %s, %s, %s)' % (TP, P0, BITS, EXACT),
            'range': '0 <= ival(result) and ival(result) < pow2(%s)' % BITS,
            'exact': '%s ==> pow2(%s - 1) <= ival(result)' % (EXACT, BITS),
            'type': 'type(result) is cls'},
        lemmas={'exit': {'sbits': '1 <= %s and %s <= 8' % (SB, SB),
                         # proof step on the local `msb` (assert_at style: a renamed local makes it untranslatable = undecided)
                         'top': 'msb == %s' % top,
                         'cons': 'be_cat(bytes([msb]), %s)' % rest,
                         'val0': 'ival(result) == msb * pow2(8 * (%s - 1)) + be(%s)' % (NB, rest),
                         'val': 'ival(result) == %s * pow2(8 * (%s - 1)) + be(%s)' % (top, NB, rest),
                         'lt': 'be_lt(%s)' % rest,
                         'radix': 'lemma("integer.radix_lt", %s, be(%s), pow2(8 * (%s - 1)), pow2(%s))' % (top, rest, NB, SB),
                         'radix_lo': '%s ==> lemma("integer.radix_ge", %s, be(%s), pow2(8 * (%s - 1)), pow2(%s - 1))' % (EXACT, top, rest, NB, SB),
                         'bits': 'pow2_add(%s, 8 * (%s - 1))' % (SB, NB),
                         'bits_lo': 'pow2_add(%s - 1, 8 * (%s - 1))' % (SB, NB)}},
        modifies=['kwargs', TP + '.g_pos'], result='obj:' + cls,
        options={'enum_shift': 8, 'int_bytes': True})))
    # ---- random_range: rejection sampling on the normalised range [0, max - min]
    LOK = 'kwarg("min_inclusive")'
    LO = 'ival(%s)' % LOK                            # bounds may be python ints or Integer objects
    MI, ME = 'kwarg("max_inclusive")', 'kwarg("max_exclusive")'
    HI = '(ival(%s) if %s is not None else ival(%s) - 1)' % (MI, MI, ME)
    RBITS = '(1 if %s - %s == 0 else bitlen(%s - %s))' % (HI, LO, HI, LO)     # size_in_bits(max - min)
    RNB = '((%s - 1) // 8 + 1)' % RBITS
    cand = 'spec.integer.candidate({T}.g_id, {T}.g_pos - {N}, {B}, False)'
    LNB = '((bits_needed - 1) // 8 + 1)'                                       # the same quantity over the loop's locals
    out.append(reg.add(Contract(
        IB + '.random_range',
        params={'cls': class_value(cls),
                'kwargs': [kw(min_inclusive='int', max_inclusive='int', randfunc=TAPE_T),
                           kw(min_inclusive='int', max_exclusive='int', randfunc=TAPE_T),
                           kw(min_inclusive='int', max_inclusive='int'),
                           kw(min_inclusive='int', max_inclusive='obj:' + cls, randfunc=TAPE_T),
                           kw(min_inclusive='obj:' + cls, max_exclusive='obj:' + cls, randfunc=TAPE_T),
                           kw(min_inclusive='int', max_inclusive='int', max_exclusive='int', randfunc=TAPE_T),
                           kw(min_inclusive='int', randfunc=TAPE_T), kw(max_inclusive='int', randfunc=TAPE_T),
                           kw(min_inclusive='int', max_inclusive='int', modulus='int')]},
        requires=['valid(%s)' % RF],
        # keyword refusals; an empty interval (max < min) is refused too (no value exists)
        raises={'ValueError': ('iff', 'not kwargs_only("min_inclusive", "max_inclusive", "max_exclusive", "randfunc") or '
                                      '(%s is not None and %s is not None) or (%s is None and %s is None) or %s is None or %s < %s'
                                      % (MI, ME, MI, ME, LOK, HI, LO))},
        ensures={
            'range': '%s <= ival(result) and ival(result) <= %s' % (LO, HI),
            # the value returned is min + the LAST candidate drawn, unmodified (no modular reduction); the candidate has
            # exactly size_in_bits(max - min) bits and is read from the caller's tape
            'candidate': 'ival(result) - %s == %s' % (LO, cand.format(T=TP, N=RNB, B=RBITS)),
            'reads': '%s.g_pos >= %s + %s' % (TP, P0, RNB),
            'system_untouched': SYS_UNTOUCHED,
            'type': 'type(result) is cls'},
        loops={0: {'peel': 1, 'havoc': ['randfunc.g_pos'], 'types': {'norm_candidate': 'obj:' + cls},
                   'invariant': ['type(norm_candidate) is cls',
                                 'randfunc.g_pos >= %s + %s' % (P0, LNB),
                                 'ival(norm_candidate) == %s' % cand.format(T='randfunc', N=LNB, B='bits_needed'),
                                 '(randfunc.g_id != 0) ==> systape().g_pos == old(systape().g_pos)']}},
        # proof steps over locals (assert_at style)
        lemmas={'exit': {'bits': 'bits_needed == %s' % RBITS,
                         'cand': 'ival(norm_candidate) == %s' % cand.format(T=TP, N=RNB, B=RBITS)}},
        opaque=['spec.integer.candidate'],
        modifies=['kwargs', TP + '.g_pos'], result='obj:' + cls)))
    return out


def registry(self_class=IN):
    """self_class: the class of `self` and of Integer operands when the IntegerNative methods are verified (IntegerCustom
    inherits them: contracts/integer_gmp.py)"""
    reg = use_lean_number_contracts(add_lemmas(add_entropy_model(base_registry())))
    reg.add(ClassContract(IN, fields={'_value': 'int'}))
    reg.add(ClassContract(IC, fields={'_value': 'int'}))
    interface_contracts(reg, IN, FRAME['native'], self_type=('obj:' + self_class) if self_class != IN else None, per_method=NATIVE_HELP)
    if self_class != IN:
        static_contracts(reg, self_class, impl_cls=IN)
        random_contracts(reg, self_class)
        return reg
    # (finding F1, repaired in the tree by 97d6d02d: IntegerNative._mult_modulo_bytes(int, IntegerNative, int) raised
    # TypeError while the other two back ends returned the product; the clause below is for int|Integer operands)
    static_contracts(reg, IN)
    random_contracts(reg, IN)
    tonelli_contract(reg)
    return reg


SIMPLE = [n for n in CLAUSES] + ['__init__', 'from_bytes', '_mult_modulo_bytes']


def tonelli_contract(reg):
    """_tonelli_shanks(n, p): SOUNDNESS only (what its callers need): every returned r is a square root of n modulo p -- from
    the function's own final test; it may refuse (ValueError) whenever it likes, termination is not claimed, completeness for
    prime p needs group theory (not attempted).  The loop invariants are therefore `True`."""
    # the only facts the loops must carry are the ones that keep `2**i` and `2**(m - i - 1)` integer powers: i in [0, m-1] after
    # the inner for loop; when that loop does not run (m == 0) the stale i equals m and the function refuses
    stale = '(m >= 1 or i == m)'
    return reg.add(Contract(IB + '._tonelli_shanks', params={'n': 'nat', 'p': 'pos'},
                            raises={'ValueError': ('only_if', 'True')},
                            ensures={'root': '(result * result - n) % p == 0', 'type': 'type(result) is int'},
                            loops={0: {'invariant': ['s >= 1']}, 1: {'invariant': ['True']},
                                   2: {'types': {'i': 'int'}, 'invariant': ['m >= 0', stale]},
                                   3: {'index': '_k', 'types': {'i': 'int'}, 'invariant': ['(_k == 0 and %s) or (_k >= 1 and i == _k - 1)' % stale]}},
                            modifies=[], result='int'))


def registry_alt(target, i):
    """the registry with the **kwargs alternatives of `target` reduced to the i-th (one worker per alternative)"""
    reg = registry()
    c = reg.contracts[target]
    c.params = dict(c.params)
    c.params['kwargs'] = [c.params['kwargs'][i]]
    return reg


N_RANDOM_ALTS = 8


def units(prop, tier):
    from vf.pyunit import pyvc_unit
    import functools
    if prop == 'C18':
        out = [pyvc_unit(prop, 'int.base.random.kw%d' % i, functools.partial(registry_alt, IB + '.random', i), [IB + '.random'])
               for i in range(N_RANDOM_ALTS)]
        out.append(pyvc_unit(prop, 'int.base.random_range', registry, [IB + '.random_range']))
        out += lemma_units(prop, 'int.base.', registry)
        return out
    if prop != 'C14':
        return []
    out = []
    names = SIMPLE
    for i in range(0, len(names), 3):
        grp = names[i:i + 3]
        out.append(pyvc_unit(prop, 'int.native.' + '+'.join(g.strip('_') for g in grp), registry, [IN + '.' + g for g in grp]))
    out.append(pyvc_unit(prop, 'int.base._tonelli_shanks', registry, [IB + '._tonelli_shanks']))
    out += lemma_units(prop, 'int.', registry)
    return out


# ----------------------------------------------------------------------------------------------------------------------
# NOT PROVED: IntegerNative.jacobi_symbol (P2: recursion against an axiomatised Jacobi symbol; not attempted).
# NOT PROVED: IntegerNative.sqrt(modulus=...) with Integer-typed arguments: _tonelli_shanks soundness is proved for python ints
#             (IntegerGMP passes ints; IntegerNative passes `self % modulus`, an Integer) -- the Integer-typed instance is not.
# NOT PROVED: _tonelli_shanks completeness for prime p (group theory), termination of any loop (never claimed).
# NOT PROVED: __str__/__repr__/__hex__ (strings are outside the value model), float arguments of __init__.
# TRUSTED lemma forms (ground instances of textbook theorems about uninterpreted symbols, contracts/_intcommon.py LEMMA_TEXT):
#             be_cat/be_split/be_lt/be_zeros (positional notation), pow2_add, modpow_reduce, mulmod_reduce (z3 cannot prove
#             modular-arithmetic identities with a symbolic modulus; Mathlib: Int.mul_emod, Int.ModEq.pow, pow_add).
# PROVED lemmas (own units *.lemmas): radix_lt, radix_ge, ceil_unique, range_index, isqrt_unique, mul_divisible, div_exact.
#
# Vacuity / strength check (tools/mut.py, exit 1 unless noted; obligation that caught it):
#  C14 _IntegerNative.py  __add__: `+` -> `-`                               -> __add__.ensures.value
#                         __mod__: `< 0` -> `<= 0`                          -> __mod__.raises_iff.ValueError.only_if
#                         to_bytes: `len(result) > block_size` -> `>=`      -> to_bytes.raises_iff.ValueError.only_if
#                         size_in_bits: `return 1` -> `return 0`            -> size_in_bits.ensures.value
#                         sqrt: Newton step `+ 1`                           -> sqrt.loop_inv_preserved.y_x_x_x_value
#                         sqrt: `while y + 1 < x`                           -> sqrt.ensures.value
#                         is_perfect_square: `==` -> `>=`                   -> is_perfect_square.ensures.value
#                         lcm: `+ 1`                                        -> lcm.ensures.value
#                         inplace_pow: pow(exp, base, mod) swapped          -> exit 2 (negative-exponent pow outside the model)
#                         __mod__: local divisor_value renamed to dv        -> exit 0 (harmless refactoring)
#  C14 _IntegerBase.py    _tonelli_shanks: `pow(root, 2, p)` -> `pow(root, 3, p)` -> _tonelli_shanks.ensures.root
#                         _tonelli_shanks: final check removed              -> exit 2 (root neither provable nor refutable)
#  C18 _IntegerBase.py    random: mask `(1 << s) - 1` -> `(1 << s)`         -> random.lemma.top / ensures.value, range
#                         random: bytes_needed = bits // 8 + 1              -> random.ensures.reads, value
#                         random: tail read from Random.new().read          -> random.ensures.system_untouched, reads
#                         random_range: `<= norm_maximum + 1`               -> random_range.ensures.range
#                         random_range: max_bits=bits_needed + 1            -> random_range.loop_inv_entry/preserved (candidate)
#                         random_range: `(c % (max+1)) + min` (equivalent on the accepted range) -> exit 0
#                         random: local msb renamed                         -> exit 2 (proof step mentions the local)
#  (genuine defect found and repaired: F1 IntegerNative._mult_modulo_bytes(int, Integer, int) raised TypeError)
