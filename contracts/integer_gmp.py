"""C16 (decidable part): the Python wrappers of the other two Integer back ends, proved against the SAME clauses as
IntegerNative (contracts/integer.py CLAUSES): exception type per violated precondition, python type of the result, argument
normalisation before the native call.  The native calls themselves are ASSUMED "== exact mathematics" and covered by the
bounded harness bounded/bigint.py:
  IntegerCustom: _raw_montgomery.monty_pow / monty_multiply (src/modexp.c), documented preconditions as `requires`
  IntegerGMP:    __gmpz_* through ctypes; an mpz_t is an abstract object `native.MPZ` with ghost value g_val
"""
import z3
from vf.pyvc.contracts import Contract, ClassContract, apply_contract
from vf.pyvc.values import *        # noqa
from vf.pyvc.interp import BuiltinV, ModuleV, exc
from . import integer as _integer
from .integer import IN, IC, CLAUSES, FRAME, interface_contracts, static_contracts, operand, ORDER
from . import _intcommon
from ._intcommon import sys_tape

M = 'Crypto.Math.'
CUSTOM_MOD = M + '_IntegerCustom.'
BIGINT = 'bounded: bounded/bigint.py (run-time contract against python int, each back end)'


def val(st, v):
    return [('val', st, v)]


# ---------------------------------------------------------------- ctypes-level helpers (exact models)

def m_c_unsigned(bits):
    def model(E, st, args, kw):
        """ctypes c_ulong / c_size_t / c_ulonglong(x): the value modulo 2**bits (ctypes does no overflow checking)"""
        x = args[0]
        if not is_intlike(x):
            if isinstance(x, (Ref, SOpaque)):
                raise Unsupported('ctypes integer from an object')
            return [('raise', st, exc(TypeError, 'an integer is required'))]
        if isinstance(x, int):
            return val(st, int(x) % (1 << bits))
        if E.implied(st, z3.And(zint(x) >= 0, zint(x) < (1 << bits))):
            return val(st, x)               # in range on this path: the conversion is the identity
        return val(st, mk_int(zint(x) % (1 << bits)))
    return model


def m_create_string_buffer(E, st, args, kw):
    n = args[0]
    h = HObj('obj', cls=None)
    h.ghost_id = 'native.CBuffer'
    data = E.fresh_bytes('cbuf')
    st.assume(z3.Length(data.t) == zint(n))
    h.fields = {'g_data': data}
    return val(st, st.alloc(h))


def m_get_raw_buffer(E, st, args, kw):
    return val(st, st.heap[args[0].oid].fields['g_data'])


def m_sys_getrandbits(E, st, args, kw):
    """Crypto.Random.random.getrandbits(k) of the module-level StrongRandom(): k bits from the SYSTEM tape (blinding seeds)"""
    k = args[0]
    if not isinstance(k, int) or k < 0:
        raise Unsupported('module-level getrandbits with a symbolic size')
    outs = []
    for o in apply_contract(E, E.registry.contracts['native.Tape.__call__'], st, [sys_tape(E, st), (k + 7) // 8], {}):
        if o[0] != 'val':
            outs.append(o)
            continue
        s1 = o[1]
        r = E.fresh_int('seed')
        s1.assume(z3.And(r.t >= 0, r.t < (1 << k)))        # its value is irrelevant to every contract here: only its range
        outs.append(('val', s1, r))
    return outs


def m_len_ssize(E, st, args, kw):
    """len(): as the builtin model, plus the CPython fact that a length is a Py_ssize_t (<= sys.maxsize == 2**63 - 1), which is
    what makes the conversion c_size_t(len(...)) value preserving"""
    from vf.pyvc import models
    outs = models.b_len(E, st, args, kw)
    for o in outs:
        if o[0] == 'val' and isinstance(o[2], SInt):
            o[1].fact(o[2].t <= 2 ** 63 - 1)
    return outs


def add_custom_natives(reg):
    reg.overrides[CUSTOM_MOD + 'len'] = BuiltinV('len', m_len_ssize)
    reg.add(ClassContract('native.CBuffer', fields={'g_data': 'bytes'}, abstract=True))
    for nm, fn in (('create_string_buffer', m_create_string_buffer), ('get_raw_buffer', m_get_raw_buffer),
                   ('c_size_t', m_c_unsigned(64)), ('c_ulonglong', m_c_unsigned(64)), ('getrandbits', m_sys_getrandbits)):
        reg.overrides[CUSTOM_MOD + nm] = BuiltinV('native.' + nm, fn)
    reg.overrides[CUSTOM_MOD + '_raw_montgomery'] = ModuleV('native.modexp', None)
    sized = ['size >= 1', 'len(base) == size', 'len(exp) == size', 'len(modulus) == size', 'len(out.g_data) == size']
    # src/modexp.c monty_pow: "base strictly smaller than the modulus", "modulus must be odd" (and > 1: Montgomery form);
    # the result does not depend on the blinding seed
    c1 = reg.add(Contract('native.modexp.monty_pow',
                          params={'out': 'obj:native.CBuffer', 'base': 'bytes', 'exp': 'bytes', 'modulus': 'bytes', 'size': 'int', 'seed': 'int'},
                          requires=sized + ['be(modulus) % 2 == 1', 'be(modulus) > 1', 'be(base) < be(modulus)', '0 <= seed and seed < 2 ** 64'],
                          sets={'out.g_data': 'i2osp(modpow(be(base), be(exp), be(modulus)), size)'}, modifies=['out.g_data'],
                          returns='0', options={'exact': True}, assumed='native src/modexp.c monty_pow == pow(base, exp, modulus); ' + BIGINT))
    sized2 = ['size >= 1', 'len(term1) == size', 'len(term2) == size', 'len(modulus) == size', 'len(out.g_data) == size']
    c2 = reg.add(Contract('native.modexp.monty_multiply',
                          params={'out': 'obj:native.CBuffer', 'term1': 'bytes', 'term2': 'bytes', 'modulus': 'bytes', 'size': 'int'},
                          requires=sized2 + ['be(modulus) % 2 == 1', 'be(modulus) > 1', 'be(term1) < be(modulus)', 'be(term2) < be(modulus)'],
                          sets={'out.g_data': 'i2osp((be(term1) * be(term2)) % be(modulus), size)'}, modifies=['out.g_data'],
                          returns='0', options={'exact': True}, assumed='native src/modexp.c monty_multiply == term1*term2 % modulus; ' + BIGINT))
    for c in (c1, c2):
        reg.overrides[c.target] = BuiltinV(c.target, lambda E, st, args, kw, c=c: apply_contract(E, c, st, args, kw))
    return reg


CUSTOM_HELP = {
    'inplace_pow': {'lemmas': {'exit': {'reduce': '(modulus is not None and ival(modulus) > 0) ==> modpow_reduce(ival(old(self)), ival(exponent), ival(modulus))'}}},
}


def custom_registry(mult='mixed'):
    """mult: operand kinds of _mult_modulo_bytes in this registry: 'int', 'obj' (three Integers) or 'mixed' (all 8 combinations).
    IntegerCustom: the methods it inherits from IntegerNative are verified again with self: IntegerCustom (the results must
    be IntegerCustom objects and __pow__ must reach ITS inplace_pow); its own three methods against the shared clauses"""
    reg = _integer.registry(self_class=IC)
    add_custom_natives(reg)
    interface_contracts(reg, IC, FRAME['native'], names=['inplace_pow'], per_method=CUSTOM_HELP)
    if len(mult) == 3 and set(mult) <= set('io'):        # one operand combination, e.g. 'ioi' = (int, Integer, int)
        kinds = [{'i': 'int', 'o': 'obj:' + IC}[ch] for ch in mult]
    else:
        kinds = {'int': 'int', 'obj': 'obj:' + IC}.get(mult, operand(IC))
    static_contracts(reg, IC, impl_cls=IC, help_={'skip_init': True, 'mult_operand': kinds,
                                                  '_mult_modulo_bytes': {
        # (t1 mod m)(t2 mod m) == t1 t2 (mod m), and the two instances for "only one operand was reduced"
        'lemmas': {'exit': {'l1': 'mod_value == 1 or len(result) == numbers_len',           # proof steps over locals
                            'l2': 'mod_value == 1 or spec.integer.is_byte_size(mod_value, numbers_len)',
                            'mulmod': 'mulmod_reduce(ival(term1), ival(term2), ival(modulus))',
                            'mulmod1': 'mulmod_reduce(ival(term1) % ival(modulus), ival(term2), ival(modulus))',
                            'mulmod2': 'mulmod_reduce(ival(term1), ival(term2) % ival(modulus), ival(modulus))'}}}})
    return reg


# ======================================================================================================================
# IntegerGMP
# ======================================================================================================================
IG = M + '_IntegerGMP.IntegerGMP'
GMP_MOD = M + '_IntegerGMP.'
Z = 'obj:native.MPZ'
U64 = '0 <= {0} and {0} < 2 ** 64'
GMPDOC = 'GMP manual, "Integer Functions"; ' + BIGINT


def m_new_mpz(E, st, args, kw):
    """new_mpz(): an uninitialised mpz_t (arbitrary value until mpz_init*)"""
    h = HObj('obj', cls=None)
    h.ghost_id = 'native.MPZ'
    h.fields = {'g_val': E.fresh_int('mpz_uninit')}
    return val(st, st.alloc(h))


def _zero_mpz(E, st):
    h = HObj('obj', cls=None)
    h.ghost_id = 'native.MPZ'
    h.fields = {'g_val': 0}
    return st.alloc(h)


def _mpz(reg, name, params, requires=(), sets=None, returns=None, result=None, ensures=None, doc=''):
    """an assumed contract of one __gmpz_ function: z = mpz_t, u = unsigned long / mp_bitcnt_t / size_t (already converted)"""
    ptypes = {}
    req = list(requires)
    for p, k in params:
        ptypes[p] = Z if k == 'z' else ('bytes' if k == 'b' else 'int')
        if k == 'u':
            req.append(U64.format(p))
    kw = dict(params=ptypes, requires=req, assumed='%s %s' % (GMPDOC, doc))
    if sets:
        kw.update(sets={'%s.g_val' % k: v for k, v in sets.items()}, modifies=['%s.g_val' % k for k in sets])
    else:
        kw.update(modifies=[])
    if returns is not None:
        kw.update(returns=returns, options={'exact': True})
    elif result is not None:
        kw.update(result=result, ensures=ensures or {})
    else:
        kw.update(options={'exact': True})
    c = reg.add(Contract('native.gmp.' + name, **kw))
    reg.overrides[c.target] = BuiltinV(c.target, lambda E, st, args, kwa, c=c: apply_contract(E, c, st, args, kwa))
    return c


def add_gmp_natives(reg):
    from vf.pyvc.values import StateGlobal
    reg.add(ClassContract('native.MPZ', fields={'g_val': 'int'}, abstract=True))
    reg.overrides[GMP_MOD + '_gmp'] = ModuleV('native.gmp', None)
    reg.overrides[GMP_MOD + 'new_mpz'] = BuiltinV('native.new_mpz', m_new_mpz)
    reg.overrides[GMP_MOD + 'c_ulong'] = BuiltinV('native.c_ulong', m_c_unsigned(64))
    reg.overrides[GMP_MOD + 'c_size_t'] = BuiltinV('native.c_size_t', m_c_unsigned(64))
    reg.overrides[GMP_MOD + 'c_uint8_ptr'] = BuiltinV('native.c_uint8_ptr', lambda E, st, args, kw: val(st, args[0]))
    reg.overrides[GMP_MOD + 'len'] = BuiltinV('len', m_len_ssize)
    reg.overrides[GMP_MOD + '_sys_bits'] = 64
    reg.overrides[IG + '._zero_mpz_p'] = StateGlobal('gmp_zero_mpz', _zero_mpz)
    A, B = 'a.g_val', 'b.g_val'
    _mpz(reg, 'mpz_init', [('x', 'z')], sets={'x': '0'})
    _mpz(reg, 'mpz_init_set', [('r', 'z'), ('a', 'z')], sets={'r': A})
    _mpz(reg, 'mpz_init_set_ui', [('r', 'z'), ('v', 'u')], sets={'r': 'v'})
    _mpz(reg, 'mpz_set', [('r', 'z'), ('a', 'z')], sets={'r': A})
    _mpz(reg, 'mpz_set_ui', [('r', 'z'), ('v', 'u')], sets={'r': 'v'})
    _mpz(reg, 'mpz_clear', [('x', 'z')])
    _mpz(reg, 'mpz_get_ui', [('a', 'z')], returns='abs(a.g_val) % 2 ** 64', doc='(least significant bits of the absolute value)')
    for nm, expr in (('add', '%s + %s'), ('sub', '%s - %s'), ('mul', '%s * %s')):
        _mpz(reg, 'mpz_' + nm, [('r', 'z'), ('a', 'z'), ('b', 'z')], sets={'r': expr % (A, B)})
        _mpz(reg, 'mpz_%s_ui' % nm, [('r', 'z'), ('a', 'z'), ('v', 'u')], sets={'r': expr % (A, 'v')})
    _mpz(reg, 'mpz_addmul', [('r', 'z'), ('a', 'z'), ('b', 'z')], sets={'r': 'old(r.g_val) + %s * %s' % (A, B)})
    _mpz(reg, 'mpz_addmul_ui', [('r', 'z'), ('a', 'z'), ('v', 'u')], sets={'r': 'old(r.g_val) + %s * v' % A})
    _mpz(reg, 'mpz_submul_ui', [('r', 'z'), ('a', 'z'), ('v', 'u')], sets={'r': 'old(r.g_val) - %s * v' % A})
    _mpz(reg, 'mpz_neg', [('r', 'z'), ('a', 'z')], sets={'r': '-%s' % A})
    _mpz(reg, 'mpz_abs', [('r', 'z'), ('a', 'z')], sets={'r': 'abs(%s)' % A})
    _mpz(reg, 'mpz_cmp', [('a', 'z'), ('b', 'z')], result='int',
         ensures={'sign': 'all_of((result < 0) == (%s < %s), (result == 0) == (%s == %s), (result > 0) == (%s > %s))' % (A, B, A, B, A, B)},
         doc='(a positive, zero or negative value)')
    _mpz(reg, 'mpz_powm', [('r', 'z'), ('a', 'z'), ('e', 'z'), ('m', 'z')], requires=['e.g_val >= 0', 'm.g_val > 0'],
         sets={'r': 'modpow(%s, e.g_val, m.g_val)' % A})
    _mpz(reg, 'mpz_powm_ui', [('r', 'z'), ('a', 'z'), ('e', 'u'), ('m', 'z')], requires=['m.g_val > 0'], sets={'r': 'modpow(%s, e, m.g_val)' % A})
    _mpz(reg, 'mpz_pow_ui', [('r', 'z'), ('a', 'z'), ('e', 'u')], sets={'r': 'ipow(%s, e)' % A})
    _mpz(reg, 'mpz_mod', [('r', 'z'), ('a', 'z'), ('b', 'z')], requires=['%s != 0' % B], sets={'r': '%s %% abs(%s)' % (A, B)},
         doc='(the result is always non-negative)')
    _mpz(reg, 'mpz_fdiv_q', [('r', 'z'), ('a', 'z'), ('b', 'z')], requires=['%s != 0' % B], sets={'r': '%s // %s' % (A, B)})
    _mpz(reg, 'mpz_fdiv_q_2exp', [('r', 'z'), ('a', 'z'), ('v', 'u')], sets={'r': '%s // pow2(v)' % A})
    _mpz(reg, 'mpz_mul_2exp', [('r', 'z'), ('a', 'z'), ('v', 'u')], sets={'r': '%s * pow2(v)' % A})
    _mpz(reg, 'mpz_and', [('r', 'z'), ('a', 'z'), ('b', 'z')], sets={'r': 'bitand(%s, %s)' % (A, B)})
    _mpz(reg, 'mpz_ior', [('r', 'z'), ('a', 'z'), ('b', 'z')], sets={'r': 'bitor(%s, %s)' % (A, B)})
    _mpz(reg, 'mpz_tstbit', [('a', 'z'), ('v', 'u')], returns='(%s // pow2(v)) %% 2' % A, doc="(two's complement for negative values)")
    _mpz(reg, 'mpz_sizeinbase', [('a', 'z'), ('base', 'i')], requires=['base == 2'],
         returns='(1 if %s == 0 else bitlen(%s))' % (A, A), doc='(number of bits of |a|; 1 for zero)')
    _mpz(reg, 'mpz_gcd', [('r', 'z'), ('a', 'z'), ('b', 'z')], sets={'r': 'gcd(%s, %s)' % (A, B)})
    _mpz(reg, 'mpz_gcd_ui', [('r', 'z'), ('a', 'z'), ('v', 'u')], sets={'r': 'gcd(%s, v)' % A}, doc='(return value not used)')
    _mpz(reg, 'mpz_lcm', [('r', 'z'), ('a', 'z'), ('b', 'z')],
         sets={'r': '(0 if (%s == 0 or %s == 0) else abs(%s * %s) // gcd(%s, %s))' % (A, B, A, B, A, B)})
    # mpz_invert: non-zero iff the inverse exists; then 0 <= r < |m| and a*r == 1 (mod m)  (r == 0 only in the zero ring |m| == 1)
    _mpz(reg, 'mpz_invert', [('r', 'z'), ('a', 'z'), ('b', 'z')], requires=['%s != 0' % B], result='int',
         ensures={'exists': '(result != 0) == (gcd(old(%s), %s) == 1)' % (A, B),
                  'inverse': 'imp(result != 0, all_of(0 <= r.g_val, r.g_val < abs(%s), (old(%s) * r.g_val - 1) %% %s == 0))' % (B, A, B)},
         doc='(r and a may be the same variable)')
    reg.contracts['native.gmp.mpz_invert'].modifies = ['r.g_val']
    _mpz(reg, 'mpz_divisible_p', [('a', 'z'), ('b', 'z')], result='int',
         ensures={'div': '(result != 0) == (%s == 0 if %s == 0 else %s %% %s == 0)' % (A, B, A, B)}, doc='(only 0 is divisible by 0)')
    _mpz(reg, 'mpz_divisible_ui_p', [('a', 'z'), ('v', 'u')], requires=['v != 0'], result='int',
         ensures={'div': '(result != 0) == (%s %% v == 0)' % A})
    _mpz(reg, 'mpz_sqrt', [('r', 'z'), ('a', 'z')], requires=['%s >= 0' % A], result='none',
         ensures={'isqrt': 'spec.integer.is_isqrt(old(%s), r.g_val)' % A}, doc='(truncated integer part of the square root)')
    reg.contracts['native.gmp.mpz_sqrt'].modifies = ['r.g_val']
    _mpz(reg, 'mpz_perfect_square_p', [('a', 'z')], result='int',
         ensures={'square': '(result != 0) == (%s >= 0 and spec.integer.isqrt(%s) * spec.integer.isqrt(%s) == %s)' % (A, A, A, A)},
         doc='(non-zero iff a is a perfect square; 0 and 1 are perfect squares)')
    _mpz(reg, 'mpz_import', [('r', 'z'), ('count', 'u'), ('order', 'i'), ('size', 'u'), ('endian', 'i'), ('nails', 'u'), ('data', 'b')],
         requires=['order == 1', 'size == 1', 'nails == 0', 'count == len(data)'], sets={'r': 'be(data)'},
         doc='(most significant word first, 1-byte words)')
    return reg


# wrappers whose Python code is outside the PYVC subset or whose loops are not proved: assumed with the shared clauses
GMP_ASSUMED = {
    '__init__': 'NOT PROVED: 32-bit slot loop over mpz_set_ui/mpz_mul_2exp/mpz_add (invariant over 2**(32*slots)); ' + BIGINT,
    '__int__': 'NOT PROVED: 32-bit slot loop over mpz_get_ui/mpz_tdiv_q_2exp with `value |= lsb << (slot * 32)`; ' + BIGINT,
    'to_bytes': 'NOT PROVED: list comprehension and struct format of symbolic length (limb export); ' + BIGINT,
}
GMP_NAMES = [n for n in CLAUSES if n not in ('to_bytes', '__int__', 'lcm')] + ['lcm']
GMP_RENAME = {'__mul__': {'factor': 'term'}, '__imod__': {'term': 'divisor'}}

# Two deliberate resource guards of the GMP back end are KNOWN findings (F4, F6; not repaired).  Each is split off into its own
# obligation: the `raises` clause admits the guard, and an `on_raise` clause -- the one listed in known_findings.jsonl -- says
# that the guard case must not raise.  Together they are exactly the shared clause (ValueError only for a negative exponent /
# modulus, resp. a negative shift count), so nothing is weakened: the rest of the domain has to verify.
_POW_GUARD = '(modulus is None and ival(exponent) > 256)'
_POW_RAISES = {'ValueError': ('only_if', 'ival(exponent) < 0 or (modulus is not None and ival(modulus) < 0) or ' + _POW_GUARD),
               'ZeroDivisionError': CLAUSES['inplace_pow']['raises']['ZeroDivisionError']}
_POW_KNOWN = {'ValueError': ['not (modulus is None and ival(exponent) > 256)']}       # F4: exact_large_exponent
_SHIFT_RAISES = {'ValueError': ('iff', 'ival(pos) < 0 or ival(pos) >= 65536')}
_SHIFT_KNOWN = {'ValueError': ['ival(pos) < 65536']}                                     # F6: exact_large_shift
# F7 (repaired by 9f7facf9): for counts above 0xFFFFFFFF the GMP wrappers answer 0 / -1 / False without calling GMP.  That is
# exact for every value of fewer than 2**32 bits -- the domain of the GMP back end (a longer number cannot be held).  The
# domain is stated relative to the count (what the shortcut needs; implied by "fewer than 2**32 bits"): the result clause
# itself is the shared one, unweakened.
_HOLDABLE = 'ival({0}) <= 0xFFFFFFFF or (-pow2(ival({0})) <= ival(self) and ival(self) < pow2(ival({0})))'
GMP_HELP = {
    '__rshift__': {'requires': [_HOLDABLE.format('pos')]}, '__irshift__': {'requires': [_HOLDABLE.format('pos')]},
    'get_bit': {'requires': [_HOLDABLE.format('n')]},
    'inplace_pow': {'raises': _POW_RAISES, 'on_raise': _POW_KNOWN},
    '__pow__': {'raises': _POW_RAISES, 'on_raise': _POW_KNOWN},
    '__lshift__': {'raises': _SHIFT_RAISES, 'on_raise': _SHIFT_KNOWN},
    '__ilshift__': {'raises': _SHIFT_RAISES, 'on_raise': _SHIFT_KNOWN},
    'size_in_bits': {'options': {'int_lemmas': []}}, 'size_in_bytes': {'options': {'int_lemmas': []}},
}


def gmp_registry():
    reg = _integer.registry()
    add_gmp_natives(reg)
    reg.add(ClassContract(IG, fields={'_mpz_p': Z, '_initialized': 'bool'}, valid=['self._initialized']))
    T = operand(IG)
    # the constructor: creates the mpz (callers see a fresh, initialised object carrying the value)
    reg.add(Contract(IG + '.__init__', params={'value': T}, raises={}, ensures={'value': 'ival(self) == ival(value)', 'init': 'self._initialized'},
                     modifies=['self._mpz_p', 'self._initialized'], assumed=GMP_ASSUMED['__init__']))
    reg.add(Contract(IG + '.__int__', params={}, raises={}, returns='self._mpz_p.g_val', modifies=[], options={'exact': True},
                     assumed=GMP_ASSUMED['__int__']))
    d = CLAUSES['to_bytes']
    reg.add(Contract(IG + '.to_bytes', params={'block_size': 'nat', 'byteorder': ORDER}, raises=d['raises'], ensures=d['ensures'], modifies=[],
                     result='bytes', assumed=GMP_ASSUMED['to_bytes']))
    interface_contracts(reg, IG, FRAME['gmp'], names=GMP_NAMES, per_method=GMP_HELP, rename=GMP_RENAME)
    static_contracts(reg, IG, impl_cls=IG, help_={'skip_init': True, '_mult_modulo_bytes': {'options': {'int_lemmas': []}}})
    return reg


GMP_STATIC = ['from_bytes', '_mult_modulo_bytes']


CUSTOM_OWN = ['inplace_pow', 'from_bytes', '_mult_modulo_bytes']


def units(prop, tier):
    from vf.pyunit import pyvc_unit
    import functools
    if prop == 'C14':
        # DESIGN C14: the Python guards / normalisation of IntegerCustom's own methods also belong to "exact in every back end"
        return [pyvc_unit(prop, 'int.custom.' + n, functools.partial(custom_registry, 'iii'), [IC + '.' + n]) for n in CUSTOM_OWN]
    if prop != 'C16':
        return []
    out = []
    inherited = [n for n in _integer.SIMPLE if n not in CUSTOM_OWN]
    for i in range(0, len(inherited), 4):
        grp = inherited[i:i + 4]
        out.append(pyvc_unit(prop, 'int.custom.inherited.' + '+'.join(g.strip('_') for g in grp), custom_registry, [IN + '.' + g for g in grp]))
    names = GMP_NAMES + GMP_STATIC
    for i in range(0, len(names), 4):
        grp = names[i:i + 4]
        out.append(pyvc_unit(prop, 'int.gmp.' + '+'.join(g.strip('_') for g in grp), gmp_registry, [IG + '.' + g for g in grp]))
    import functools
    for n in CUSTOM_OWN:
        if n == '_mult_modulo_bytes':
            # (about 1 minute per operand combination: int / Integer operands in quick, all 8 combinations in thorough)
            import itertools
            for m in (('iii', 'ooo') if tier == 'quick' else [''.join(x) for x in itertools.product('io', repeat=3)]):
                out.append(pyvc_unit(prop, 'int.custom.%s.%s' % (n, m), functools.partial(custom_registry, m), [IC + '.' + n]))
            continue
        out.append(pyvc_unit(prop, 'int.custom.' + n, custom_registry, [IC + '.' + n]))
    return out


# ----------------------------------------------------------------------------------------------------------------------
# NOT PROVED (left unregistered or assumed, with the reason):
# NOT PROVED: IntegerGMP.__init__ / __int__: 32-bit slot loops over mpz calls (invariant over 2**(32*slots), `value |= lsb << ...`);
#             assumed with the shared clauses, bounded: bounded/bigint.py.
# NOT PROVED: IntegerGMP.to_bytes: list comprehension over a symbolic number of limbs and a struct format of symbolic length.
# NOT PROVED: IntegerGMP.jacobi_symbol, IntegerGMP.__del__, IntegerGMP.sqrt with a modulus: not attempted.
# NOT PROVED: Crypto.Math.Numbers back-end selection: module-level try/except import statements, not a function -- PYVC verifies
#             functions.  (Read: PYCRYPTODOME_DISABLE_GMP set or any ImportError/OSError/AttributeError from _IntegerGMP selects
#             IntegerCustom; ImportError/OSError there selects IntegerNative.  The three classes satisfy the same clauses, which is
#             what makes the selection unobservable up to the known findings K2/K3.)
# NOT PROVED: the native functions themselves (monty_pow, monty_multiply, __gmpz_*): assumed "== exact mathematics", bounded harness.
#
# Known findings kept as failing obligations (known_findings.jsonl K2, K3): IntegerGMP pow() without modulus refuses exponents > 256;
# IntegerGMP << refuses counts >= 65536 (ids: ...inplace_pow/__pow__.on_raise.ValueError.not_modulus_is_None_and_ival_exponent_256,
# ...__lshift__/__ilshift__.on_raise.ValueError.ival_pos_65536).
#
# Vacuity / strength check (tools/mut.py C16 ..., exit 1 unless noted; obligation that caught it):
#  _IntegerCustom.py  drop `self._value %= mod_value`                  -> inplace_pow.call_pre.be_base_be_modulus
#                     `or mod_value == 1` removed                       -> inplace_pow.call_pre.be_modulus_1
#                     exp_b = long_to_bytes(exp_value) (no max_len)     -> inplace_pow.call_pre.len_exp_size
#                     term1_b = long_to_bytes(term2, numbers_len)       -> _mult_modulo_bytes.ensures.value
#  _IntegerGMP.py     mpz_sub operands swapped in __sub__               -> __sub__.ensures.value
#                     __iadd__: c_ulong(term) for negative term         -> __iadd__.ensures.value
#                     __mod__: negative-modulus guard removed           -> __mod__.ensures.value / python_mod
#                     inplace_inverse: `if result:` (inverted)          -> inplace_inverse.ensures.range/value, raises_iff.ValueError
#                     gcd: `0 <= term < 65535` (equivalent: gcd_ui(a, 0) == |a|) -> exit 0 apart from the known findings
#  (genuine defects found by these contracts and repaired in the tree: F3 argument mutation in IntegerCustom._mult_modulo_bytes,
#   F5 fail_if_divisible_by(0), F7 >> / get_bit beyond 65536 bits)
