"""C16 (decidable part): the Python wrappers of the other two Integer back ends, proved against the SAME clauses as
IntegerNative (contracts/integer.py CLAUSES): exception type per violated precondition, python type of the result, argument
normalisation before the native call.  The native calls themselves are ASSUMED "== exact mathematics" and covered by the
bounded harness bounded/bigint.py:
  IntegerCustom: _raw_montgomery.monty_pow / monty_multiply (src/modexp.c), documented preconditions as `requires`
  IntegerGMP:    __gmpz_* through ctypes; an mpz_t is an abstract object `native.MPZ` with ghost value g_val
"""
import z3
from vf.pyvc.contracts import Contract, ClassContract, apply_contract
from vf.pyvc.values import *        # noqa
from vf.pyvc.interp import BuiltinV, ModuleV, exc
from . import integer as _integer
from .integer import IN, IC, CLAUSES, FRAME, interface_contracts, static_contracts, operand, ORDER
from . import _intcommon
from ._intcommon import sys_tape

M = 'Crypto.Math.'
CUSTOM_MOD = M + '_IntegerCustom.'
BIGINT = 'bounded: bounded/bigint.py (run-time contract against python int, each back end)'


def val(st, v):
    return [('val', st, v)]


# ---------------------------------------------------------------- ctypes-level helpers (exact models)

def m_c_unsigned(bits):
    def model(E, st, args, kw):
        """ctypes c_ulong / c_size_t / c_ulonglong(x): the value modulo 2**bits (ctypes does no overflow checking)"""
        x = args[0]
        if not is_intlike(x):
            if isinstance(x, (Ref, SOpaque)):
                raise Unsupported('ctypes integer from an object')
            return [('raise', st, exc(TypeError, 'an integer is required'))]
        if isinstance(x, int):
            return val(st, int(x) % (1 << bits))
        if E.implied(st, z3.And(zint(x) >= 0, zint(x) < (1 << bits))):
            return val(st, x)               # in range on this path: the conversion is the identity
        return val(st, mk_int(zint(x) % (1 << bits)))
    return model


def m_create_string_buffer(E, st, args, kw):
    n = args[0]
    h = HObj('obj', cls=None)
    h.ghost_id = 'native.CBuffer'
    data = E.fresh_bytes('cbuf')
    st.assume(z3.Length(data.t) == zint(n))
    h.fields = {'g_data': data}
    return val(st, st.alloc(h))


def m_get_raw_buffer(E, st, args, kw):
    return val(st, st.heap[args[0].oid].fields['g_data'])


def m_sys_getrandbits(E, st, args, kw):
    """Crypto.Random.random.getrandbits(k) of the module-level StrongRandom(): k bits from the SYSTEM tape (blinding seeds)"""
    k = args[0]
    if not isinstance(k, int) or k < 0:
        raise Unsupported('module-level getrandbits with a symbolic size')
    outs = []
    for o in apply_contract(E, E.registry.contracts['native.Tape.__call__'], st, [sys_tape(E, st), (k + 7) // 8], {}):
        if o[0] != 'val':
            outs.append(o)
            continue
        s1 = o[1]
        r = E.fresh_int('seed')
        s1.assume(z3.And(r.t >= 0, r.t < (1 << k)))        # its value is irrelevant to every contract here: only its range
        outs.append(('val', s1, r))
    return outs


def m_len_ssize(E, st, args, kw):
    """len(): as the builtin model, plus the CPython fact that a length is a Py_ssize_t (<= sys.maxsize == 2**63 - 1), which is
    what makes the conversion c_size_t(len(...)) value preserving"""
    from vf.pyvc import models
    outs = models.b_len(E, st, args, kw)
    for o in outs:
        if o[0] == 'val' and isinstance(o[2], SInt):
            o[1].fact(o[2].t <= 2 ** 63 - 1)
    return outs


def add_custom_natives(reg):
    reg.overrides[CUSTOM_MOD + 'len'] = BuiltinV('len', m_len_ssize)
    reg.add(ClassContract('native.CBuffer', fields={'g_data': 'bytes'}, abstract=True))
    for nm, fn in (('create_string_buffer', m_create_string_buffer), ('get_raw_buffer', m_get_raw_buffer),
                   ('c_size_t', m_c_unsigned(64)), ('c_ulonglong', m_c_unsigned(64)), ('getrandbits', m_sys_getrandbits)):
        reg.overrides[CUSTOM_MOD + nm] = BuiltinV('native.' + nm, fn)
    reg.overrides[CUSTOM_MOD + '_raw_montgomery'] = ModuleV('native.modexp', None)
    sized = ['size >= 1', 'len(base) == size', 'len(exp) == size', 'len(modulus) == size', 'len(out.g_data) == size']
    # src/modexp.c monty_pow: "base strictly smaller than the modulus", "modulus must be odd" (and > 1: Montgomery form);
    # the result does not depend on the blinding seed
    c1 = reg.add(Contract('native.modexp.monty_pow',
                          params={'out': 'obj:native.CBuffer', 'base': 'bytes', 'exp': 'bytes', 'modulus': 'bytes', 'size': 'int', 'seed': 'int'},
                          requires=sized + ['be(modulus) % 2 == 1', 'be(modulus) > 1', 'be(base) < be(modulus)', '0 <= seed and seed < 2 ** 64'],
                          sets={'out.g_data': 'i2osp(modpow(be(base), be(exp), be(modulus)), size)'}, modifies=['out.g_data'],
                          returns='0', options={'exact': True}, assumed='native src/modexp.c monty_pow == pow(base, exp, modulus); ' + BIGINT))
    sized2 = ['size >= 1', 'len(term1) == size', 'len(term2) == size', 'len(modulus) == size', 'len(out.g_data) == size']
    c2 = reg.add(Contract('native.modexp.monty_multiply',
                          params={'out': 'obj:native.CBuffer', 'term1': 'bytes', 'term2': 'bytes', 'modulus': 'bytes', 'size': 'int'},
                          requires=sized2 + ['be(modulus) % 2 == 1', 'be(modulus) > 1', 'be(term1) < be(modulus)', 'be(term2) < be(modulus)'],
                          sets={'out.g_data': 'i2osp((be(term1) * be(term2)) % be(modulus), size)'}, modifies=['out.g_data'],
                          returns='0', options={'exact': True}, assumed='native src/modexp.c monty_multiply == term1*term2 % modulus; ' + BIGINT))
    for c in (c1, c2):
        reg.overrides[c.target] = BuiltinV(c.target, lambda E, st, args, kw, c=c: apply_contract(E, c, st, args, kw))
    return reg


CUSTOM_HELP = {
    'inplace_pow': {'lemmas': {'exit': {'reduce': '(modulus is not None and ival(modulus) > 0) ==> modpow_reduce(ival(old(self)), ival(exponent), ival(modulus))'}}},
}


def custom_registry():
    """IntegerCustom: the methods it inherits from IntegerNative are verified again with self: IntegerCustom (the results must
    be IntegerCustom objects and __pow__ must reach ITS inplace_pow); its own three methods against the shared clauses"""
    reg = _integer.registry(self_class=IC)
    add_custom_natives(reg)
    interface_contracts(reg, IC, FRAME['native'], names=['inplace_pow'], per_method=CUSTOM_HELP)
    static_contracts(reg, IC, impl_cls=IC, help_={'skip_init': True, '_mult_modulo_bytes': {
        # (t1 mod m)(t2 mod m) == t1 t2 (mod m), and the two instances for "only one operand was reduced"
        'lemmas': {'exit': {'mulmod': 'mulmod_reduce(ival(term1), ival(term2), ival(modulus))',
                            'mulmod1': 'mulmod_reduce(ival(term1) % ival(modulus), ival(term2), ival(modulus))',
                            'mulmod2': 'mulmod_reduce(ival(term1), ival(term2) % ival(modulus), ival(modulus))'}}}})
    return reg


CUSTOM_OWN = ['inplace_pow', 'from_bytes', '_mult_modulo_bytes']


def units(prop, tier):
    from vf.pyunit import pyvc_unit
    if prop != 'C16':
        return []
    out = []
    inherited = [n for n in _integer.SIMPLE if n not in CUSTOM_OWN]
    for i in range(0, len(inherited), 4):
        grp = inherited[i:i + 4]
        out.append(pyvc_unit(prop, 'int.custom.inherited.' + '+'.join(g.strip('_') for g in grp), custom_registry, [IN + '.' + g for g in grp]))
    for n in CUSTOM_OWN:
        out.append(pyvc_unit(prop, 'int.custom.' + n, custom_registry, [IC + '.' + n]))
    return out
