"""Contracts for lib/Crypto/Protocol/KDF.py (C12): HKDF, PBKDF1, PBKDF2, SP800_108_Counter, scrypt, bcrypt.
Spec functions: spec/kdf.py (RFC 5869, RFC 8018, SP 800-108r1, RFC 7914), HMAC / PRF / hash / ROMix / EksBlowfish uninterpreted."""
from vf.pyvc.contracts import Contract, ClassContract
from .base import base_registry

K = 'Crypto.Protocol.KDF.'
HASHMOD = 'obj:native.HashMod'


def add_hash_natives(reg):
    """abstract collaborators shared with contracts/hpke.py: hash module, HMAC object"""
    # a module of Crypto.Hash (or a hash object used as one): only digest_size and the identity of the hash matter here
    reg.add(ClassContract('native.HashMod', fields={'digest_size': 'int', 'g_alg': 'int', '_pbkdf2_hmac_assist?': 'any'},
                          valid=['self.digest_size == spec.kdf.hlen(self.g_alg)'], abstract=True,
                          doc='Crypto.Hash.<X> module: digest_size is the output length of hash g_alg (C03)'))
    # the real modules that appear as constants in the code under contract get the same ghost identity
    for mod, alg in (('SHA1', 160), ('SHA256', 256), ('SHA384', 384), ('SHA512', 512)):
        reg.overrides['Crypto.Hash.%s.g_alg' % mod] = alg
    reg.add(ClassContract('native.HMAC', fields={'g_alg': 'int', 'g_key': 'bytes', 'g_data': 'bytes'}, abstract=True))
    note = ('Crypto.Hash.HMAC object == RFC 2104 HMAC of everything fed to it (proved under C03 by the HMAC contracts, hash '
            'uninterpreted; bounded: bounded/hashes.py HMAC against hashlib/hmac)')
    reg.add(Contract('Crypto.Hash.HMAC.new', params={'key': 'bytes', 'msg': 'bytes', 'digestmod': HASHMOD},
                     result='obj:native.HMAC', modifies=[],
                     ensures={'alg': 'result.g_alg == digestmod.g_alg', 'key': 'result.g_key == key', 'data': 'result.g_data == msg'},
                     assumed=note))
    reg.add(Contract('native.HMAC.digest', params={'self': 'obj:native.HMAC'}, modifies=[],
                     returns='spec.kdf.HMAC(self.g_alg, self.g_key, self.g_data)', options={'exact': True}, assumed=note))
    reg.add(Contract('native.HMAC.update', params={'self': 'obj:native.HMAC', 'msg': 'bytes'},
                     sets={'self.g_data': 'old(self.g_data) + msg'}, modifies=['self.g_data'], returns='self',
                     options={'exact': True}, assumed=note))
    reg.add(Contract('native.HMAC.copy', params={'self': 'obj:native.HMAC'}, result='obj:native.HMAC', modifies=[],
                     ensures={'alg': 'result.g_alg == self.g_alg', 'key': 'result.g_key == self.g_key', 'data': 'result.g_data == self.g_data'},
                     assumed=note))
    reg.add(Contract('native.HMAC._pbkdf2_hmac_assist', params={'self': 'obj:native.HMAC', 'first_digest': 'bytes', 'iterations': 'int'},
                     requires=['iterations >= 1', 'len(first_digest) == spec.kdf.hlen(self.g_alg)', 'self.g_data == b""'], modifies=[],
                     returns='spec.kdf.pbkdf2_X(0, self.g_alg, self.g_key, first_digest, iterations)', options={'exact': True},
                     assumed='native <hash>_pbkdf2_hmac_assist (src/hash_SHA2_template.c ...): U_1 ^ ... ^ U_c from U_1 under the key of the '
                             'HMAC object (bounded: bounded/kdfs.py PBKDF2 fast path against hashlib.pbkdf2_hmac); iterations <= 0 trips an assert'))
    return reg


def add_hkdf(reg, proof=False):
    """_HKDF_extract / _HKDF_expand: proved here (C12), used by contracts/hpke.py at HPKE's call sites"""
    reg.add(Contract(K + '_HKDF_extract', params={'salt': 'bytes', 'ikm': 'bytes', 'hashmod': HASHMOD}, raises={}, modifies=[],
                     ensures={'value': 'result == spec.kdf.hkdf_extract(hashmod.g_alg, salt, ikm)',
                              'len': 'len(result) == hashmod.digest_size'},
                     returns='spec.kdf.hkdf_extract(hashmod.g_alg, salt, ikm)'))
    h = 'hashmod.digest_size'
    reg.add(Contract(K + '_HKDF_expand', params={'prk': 'bytes', 'info': 'bytes', 'L': 'int', 'hashmod': HASHMOD},
                     # RFC 5869 2.3: L <= 255*HashLen -- an obligation at every call site (HKDF() refuses, HPKE's lengths are small)
                     requires=['0 <= L', 'L <= 255 * %s' % h],
                     raises={}, modifies=[],
                     ensures={'value': 'result == spec.kdf.hkdf_expand(hashmod.g_alg, prk, info, L)', 'len': 'len(result) == L'},
                     returns='spec.kdf.hkdf_expand(hashmod.g_alg, prk, info, L)',
                     loops={0: {'havoc': ['t'], 'types': {'t': 'acc'},
                                'invariant': ['1 <= n', 'len(t) == n',
                                              'tlen == (n - 1) * %s' % h,
                                              'n >= 2 ==> tlen - %s < L' % h,
                                              'len(b"".join(t)) == tlen',
                                              't[-1] == spec.kdf.hkdf_T(hashmod.g_alg, prk, info, n - 1)',
                                              'b"".join(t) == spec.kdf.hkdf_stream(hashmod.g_alg, prk, info, n - 1)']}},
                     lemmas={'exit': {'blocks': 'spec.kdf.ceil_div(L, %s) == n - 1' % h}}))
    return reg


def registry():
    reg = base_registry()
    add_hash_natives(reg)
    add_hkdf(reg)
    return reg


def units(prop, tier):
    from vf.pyunit import pyvc_unit
    if prop != 'C12':
        return []
    return [pyvc_unit(prop, 'kdf.hkdf_core', registry, [K + '_HKDF_extract', K + '_HKDF_expand'])]
